(* name -> extracted entry point *)
open Model
let table : (string * (z list -> z list)) list = [
  "c20", c20_entry;
]
