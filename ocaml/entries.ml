(* name -> extracted entry point *)
open Model
let table : (Stdlib.String.t * (z list -> z list)) list = [
  "c20", c20_entry;
  "c12", c12_entry;
  "c12_lin", c12_lin_entry;
  "m1c", m1c_entry;
  "m1c_h", m1c_h_entry;
  "m1c_fresh", m1c_fresh_entry;
  "m1s", m1s_entry;
  "c08rt", c08rt_entry;
  "c11rt", c08rt_entry;
  "c18", c18_entry;
  "c18s", c18s_entry;
  "c03", c03_entry;
  "c05v", c05v_entry;
  "c05e", c05e_entry;
  "c05vs", c05vs_entry;
  "c05es", c05es_entry;
  "c05t", c05t_entry;
  "c04e", c04e_entry;
  "c04d", c04d_entry;
  "c04s", c04s_entry;
  "c06", c06_entry;
  "c14", c14_entry;
  "c13", c13_entry;
  "c13b", c13_entry;
  "c15", c15_entry;
  "c15c", c15_entry;
  "c17", c17_entry;
  "c17k", c17_entry;
]
