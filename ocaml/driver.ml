(* Generic driver: model <entry> < cases   -- one case per line: space separated
   integers (anything after '#' is ignored); prints the entry's output, one
   line per case.  All decoding/encoding of cases is done in Gallina. *)
open Model

let rec pos_of_int (n : int) : positive =
  if n = 1 then XH
  else if n land 1 = 0 then XO (pos_of_int (n lsr 1))
  else XI (pos_of_int (n lsr 1))

let z_of_int (n : int) : z =
  if n = 0 then Z0 else if n > 0 then Zpos (pos_of_int n) else Zneg (pos_of_int (-n))

(* decimal string <-> Z without going through OCaml int (values may exceed 2^62) *)
let z_ten = z_of_int 10
let z_of_string (s : Stdlib.String.t) : z =
  let neg = Stdlib.String.length s > 0 && s.[0] = '-' in
  let acc = ref Z0 in
  Stdlib.String.iteri (fun i ch ->
    if i = 0 && neg then () else
    acc := Z.add (Z.mul !acc z_ten) (z_of_int (Char.code ch - 48))) s;
  if neg then Z.opp !acc else !acc

let rec pos_to_string_aux (p : positive) : int list =
  (* little-endian decimal digits *)
  let dbl (ds : int list) (carry : int) =
    let rec go ds c = match ds with
      | [] -> if c = 0 then [] else [c]
      | d :: r -> let v = 2 * d + c in (v mod 10) :: go r (v / 10) in
    go ds carry in
  match p with
  | XH -> [1]
  | XO q -> dbl (pos_to_string_aux q) 0
  | XI q -> dbl (pos_to_string_aux q) 1

let small_of_pos (p : positive) : int option =
  let rec go p depth = if depth > 60 then None else
    match p with
    | XH -> Some 1
    | XO q -> (match go q (depth+1) with Some v -> Some (2*v) | None -> None)
    | XI q -> (match go q (depth+1) with Some v -> Some (2*v+1) | None -> None) in
  go p 0

let string_of_pos p =
  match small_of_pos p with
  | Some v -> string_of_int v
  | None ->
    let ds = pos_to_string_aux p in
    Stdlib.String.concat "" (List.rev_map string_of_int ds)

let string_of_z = function
  | Z0 -> "0"
  | Zpos p -> string_of_pos p
  | Zneg p -> "-" ^ string_of_pos p

let entries : (Stdlib.String.t * (z list -> z list)) list = Entries.table

let () =
  let name = Sys.argv.(1) in
  let f = try List.assoc name entries with Not_found ->
    prerr_endline ("unknown entry " ^ name); exit 2 in
  let ic = if Array.length Sys.argv > 2 then open_in Sys.argv.(2) else stdin in
  let buf = Buffer.create 65536 in
  (try
    while true do
      let line = input_line ic in
      let line = match Stdlib.String.index_opt line '#' with
        | Some i -> Stdlib.String.sub line 0 i | None -> line in
      let toks = List.filter (fun s -> s <> "") (Stdlib.String.split_on_char ' ' (Stdlib.String.trim line)) in
      let inp = List.map z_of_string toks in
      let out = f inp in
      Buffer.add_string buf (Stdlib.String.concat " " (List.map string_of_z out));
      Buffer.add_char buf '\n';
      if Buffer.length buf > 60000 then (print_string (Buffer.contents buf); Buffer.clear buf)
    done
  with End_of_file -> ());
  print_string (Buffer.contents buf)
