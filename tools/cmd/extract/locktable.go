package main

// Lock discipline of the container types (C12 atomicity premise, C19): for every
// method of FIFOClientQueue, FIFOQueueMap, clientState, serverState and
// CallbackQueue the translator records from the AST whether the body starts by
// taking the structure's own mutex (and in which mode), whether anything touches
// the receiver before that, and whether the body (or an unexported helper it
// calls) writes receiver state.

import (
	"fmt"
	"go/ast"
	"go/parser"
	"go/token"
	"path/filepath"
	"sort"
	"strings"
)

type lockRow struct {
	Type, Method string
	Kind         int // 0 = lock is the first thing the body does, 1 = unexported helper (runs under the caller's lock), 2 = receiver used before / without the lock
	Mode         int // 0 none, 1 RLock, 2 Lock
	Writes       bool
	Deferred     bool // unlock is deferred right after the lock
}

var containerTypes = map[string]string{
	"FIFOClientQueue": "ocppj/queue.go",
	"FIFOQueueMap":    "ocppj/queue.go",
	"clientState":     "ocppj/state.go",
	"serverState":     "ocppj/state.go",
	"CallbackQueue":   "internal/callbackqueue/callbackqueue.go",
}

func recvName(fd *ast.FuncDecl) (name string, typ string) {
	if fd.Recv == nil || len(fd.Recv.List) == 0 {
		return "", ""
	}
	f := fd.Recv.List[0]
	if len(f.Names) > 0 {
		name = f.Names[0].Name
	}
	t := f.Type
	if s, ok := t.(*ast.StarExpr); ok {
		t = s.X
	}
	if id, ok := t.(*ast.Ident); ok {
		typ = id.Name
	}
	return
}

// lockCall recognises  recv.<mutexfield>.Lock() / RLock() / Unlock() / RUnlock()
func lockCall(e ast.Expr, recv string) string {
	c, ok := e.(*ast.CallExpr)
	if !ok {
		return ""
	}
	sel, ok := c.Fun.(*ast.SelectorExpr)
	if !ok {
		return ""
	}
	switch sel.Sel.Name {
	case "Lock", "RLock", "Unlock", "RUnlock":
	default:
		return ""
	}
	inner, ok := sel.X.(*ast.SelectorExpr)
	if !ok {
		return ""
	}
	if id, ok := inner.X.(*ast.Ident); !ok || id.Name != recv {
		return ""
	}
	if !strings.Contains(strings.ToLower(inner.Sel.Name), "mutex") {
		return ""
	}
	return sel.Sel.Name
}

func mentions(n ast.Node, recv string) bool {
	found := false
	ast.Inspect(n, func(x ast.Node) bool {
		if id, ok := x.(*ast.Ident); ok && id.Name == recv {
			found = true
		}
		return !found
	})
	return found
}

func rootedAt(e ast.Expr, recv string) bool {
	for {
		switch x := e.(type) {
		case *ast.SelectorExpr:
			e = x.X
		case *ast.IndexExpr:
			e = x.X
		case *ast.StarExpr:
			e = x.X
		case *ast.ParenExpr:
			e = x.X
		case *ast.Ident:
			return x.Name == recv
		default:
			return false
		}
	}
}

func bodyWrites(body *ast.BlockStmt, recv string, helperWrites map[string]bool) bool {
	w := false
	ast.Inspect(body, func(n ast.Node) bool {
		switch x := n.(type) {
		case *ast.AssignStmt:
			for _, l := range x.Lhs {
				if _, isIdent := l.(*ast.Ident); !isIdent && rootedAt(l, recv) {
					w = true
				}
			}
		case *ast.IncDecStmt:
			if rootedAt(x.X, recv) {
				w = true
			}
		case *ast.CallExpr:
			if id, ok := x.Fun.(*ast.Ident); ok && id.Name == "delete" && len(x.Args) > 0 && rootedAt(x.Args[0], recv) {
				w = true
			}
			if sel, ok := x.Fun.(*ast.SelectorExpr); ok {
				if id, ok := sel.X.(*ast.Ident); ok && id.Name == recv && helperWrites[sel.Sel.Name] {
					w = true
				}
			}
		}
		return true
	})
	return w
}

func (g *gen) lockTable() {
	fset := token.NewFileSet()
	files := map[string]*ast.File{}
	for _, f := range containerTypes {
		if _, ok := files[f]; ok {
			continue
		}
		af, err := parser.ParseFile(fset, filepath.Join(g.repo, f), nil, 0)
		if err != nil {
			g.fail("parse %s: %v", f, err)
			return
		}
		files[f] = af
	}
	type meth struct {
		typ  string
		decl *ast.FuncDecl
		recv string
	}
	var meths []meth
	for typ, f := range containerTypes {
		for _, d := range files[f].Decls {
			fd, ok := d.(*ast.FuncDecl)
			if !ok || fd.Body == nil {
				continue
			}
			rn, rt := recvName(fd)
			if rt == typ {
				meths = append(meths, meth{typ, fd, rn})
			}
		}
	}
	// helpers first: unexported methods
	helperWrites := map[string]bool{}
	for _, m := range meths {
		if !ast.IsExported(m.decl.Name.Name) {
			helperWrites[m.decl.Name.Name] = bodyWrites(m.decl.Body, m.recv, map[string]bool{})
		}
	}
	var rows []lockRow
	for _, m := range meths {
		row := lockRow{Type: m.typ, Method: m.decl.Name.Name}
		row.Writes = bodyWrites(m.decl.Body, m.recv, helperWrites)
		if !ast.IsExported(m.decl.Name.Name) {
			row.Kind = 1
			rows = append(rows, row)
			continue
		}
		stmts := m.decl.Body.List
		// optional wrapper:  if recv.mutex != nil { Lock; defer Unlock }
		if len(stmts) > 0 {
			if ifs, ok := stmts[0].(*ast.IfStmt); ok && ifs.Else == nil && ifs.Init == nil && len(ifs.Body.List) == 2 {
				if be, ok := ifs.Cond.(*ast.BinaryExpr); ok && be.Op == token.NEQ && rootedAt(be.X, m.recv) {
					if es, ok := ifs.Body.List[0].(*ast.ExprStmt); ok && lockCall(es.X, m.recv) != "" {
						stmts = append(append([]ast.Stmt{}, ifs.Body.List...), stmts[1:]...)
					}
				}
			}
		}
		row.Kind = 2
		for i, s := range stmts {
			if es, ok := s.(*ast.ExprStmt); ok {
				if lc := lockCall(es.X, m.recv); lc == "Lock" || lc == "RLock" {
					if lc == "Lock" {
						row.Mode = 2
					} else {
						row.Mode = 1
					}
					row.Kind = 0
					if i+1 < len(stmts) {
						if ds, ok := stmts[i+1].(*ast.DeferStmt); ok {
							if u := lockCall(ds.Call, m.recv); (u == "Unlock" && lc == "Lock") || (u == "RUnlock" && lc == "RLock") {
								row.Deferred = true
							}
						}
					}
					break
				}
			}
			if mentions(s, m.recv) {
				// the receiver is used before the lock is taken
				row.Kind = 2
				// keep looking for the lock only to report its mode
				for _, s2 := range stmts[i:] {
					if es, ok := s2.(*ast.ExprStmt); ok {
						if lc := lockCall(es.X, m.recv); lc == "Lock" {
							row.Mode = 2
						} else if lc == "RLock" {
							row.Mode = 1
						}
					}
				}
				break
			}
		}
		rows = append(rows, row)
	}
	sort.Slice(rows, func(i, j int) bool {
		if rows[i].Type != rows[j].Type {
			return rows[i].Type < rows[j].Type
		}
		return rows[i].Method < rows[j].Method
	})
	var sb strings.Builder
	sb.WriteString("(* GENERATED by tools/cmd/extract from ocppj/queue.go, ocppj/state.go, internal/callbackqueue -- do not edit *)\n")
	sb.WriteString("From Coq Require Import String List ZArith.\nImport ListNotations.\nOpen Scope string_scope.\n\n")
	sb.WriteString("(* (type, method, kind, mode, writes, unlock deferred)\n   kind: 0 = the mutex is taken before anything touches the receiver, 1 = unexported helper, 2 = receiver used before/without the lock\n   mode: 0 none, 1 RLock, 2 Lock *)\n")
	sb.WriteString("Definition container_lock_table : list (string * string * Z * Z * bool * bool) := [\n")
	for i, r := range rows {
		sep := ";"
		if i == len(rows)-1 {
			sep = ""
		}
		fmt.Fprintf(&sb, "  (%q, %q, %d%%Z, %d%%Z, %v, %v)%s\n", r.Type, r.Method, r.Kind, r.Mode, r.Writes, r.Deferred, sep)
	}
	sb.WriteString("].\n")
	g.writeIfChanged("LockTable.v", sb.String())
	g.params["container_lock_rows"] = len(rows)
}
