package main

import (
	"encoding/json"
	"fmt"
	"os"
	"path/filepath"
)

type gen struct {
	repo, out string
	stubsDir  string
	params    map[string]interface{}
	failed    bool
}

func (g *gen) fail(format string, args ...interface{}) {
	fmt.Fprintf(os.Stderr, "extract: "+format+"\n", args...)
	g.failed = true
}

// writeIfChanged keeps timestamps stable so that make does not rebuild.
func (g *gen) writeIfChanged(name string, data string) {
	p := filepath.Join(g.out, name)
	old, err := os.ReadFile(p)
	if err == nil && string(old) == data {
		return
	}
	if err := os.WriteFile(p, []byte(data), 0o644); err != nil {
		g.fail("%v", err)
	}
}

func (g *gen) writeParams(path string) {
	b, _ := json.MarshalIndent(g.params, "", " ")
	_ = os.MkdirAll(filepath.Dir(path), 0o755)
	_ = os.WriteFile(path, b, 0o644)
}

func (g *gen) run() {
	g.lockTable()
	g.accessTable()
	g.tables()
	g.schemas()
	g.jschemas()
}
