package main

// Translator for the table-shaped parts of the library (C18, C03, C05):
//   - reflection over the real profiles: features, request / response types and the name they report,
//     every payload struct field with its json / validate tags;
//   - go/ast over the source: per-role send allow-lists and incoming-action switches, profile -> handler
//     nil-check tables, RegisterValidation calls, isValid* switches, declared enumeration constants,
//     the tag switch of errorFromValidation.
// Output: coq/gen/Tables.v (regenerated on every run, write-if-changed).

import (
	"fmt"
	"go/ast"
	"go/parser"
	"go/token"
	"os"
	"path/filepath"
	"reflect"
	"sort"
	"strconv"
	"strings"

	"github.com/lorenzodonini/ocpp-go/ocpp"

	"verif/tools/internal/profiles"
)

type constInfo struct {
	value string
	typ   string
}

type pkgIndex struct {
	dir    string
	name   string
	consts map[string]constInfo
	funcs  map[string]*ast.FuncDecl
	files  []*ast.File
}

type astIndex struct {
	fset *token.FileSet
	pkgs map[string]*pkgIndex // by import path suffix relative to repo, e.g. "ocpp1.6/core"
}

func (g *gen) indexDir(ix *astIndex, rel string) {
	dir := filepath.Join(g.repo, rel)
	ents, err := os.ReadDir(dir)
	if err != nil {
		return
	}
	p := &pkgIndex{dir: rel, consts: map[string]constInfo{}, funcs: map[string]*ast.FuncDecl{}}
	for _, e := range ents {
		if e.IsDir() || !strings.HasSuffix(e.Name(), ".go") || strings.HasSuffix(e.Name(), "_test.go") {
			continue
		}
		f, err := parser.ParseFile(ix.fset, filepath.Join(dir, e.Name()), nil, 0)
		if err != nil {
			g.fail("parse %s: %v", e.Name(), err)
			continue
		}
		p.name = f.Name.Name
		p.files = append(p.files, f)
		for _, d := range f.Decls {
			switch d := d.(type) {
			case *ast.FuncDecl:
				if d.Recv == nil {
					p.funcs[d.Name.Name] = d
				} else {
					p.funcs[recvTypeName(d)+"."+d.Name.Name] = d
				}
			case *ast.GenDecl:
				if d.Tok != token.CONST && d.Tok != token.VAR {
					continue
				}
				lastType := ""
				for _, s := range d.Specs {
					vs := s.(*ast.ValueSpec)
					t := ""
					if id, ok := vs.Type.(*ast.Ident); ok {
						t = id.Name
					} else if sel, ok := vs.Type.(*ast.SelectorExpr); ok {
						t = sel.Sel.Name
					}
					if vs.Type == nil && len(vs.Values) == 0 {
						t = lastType
					}
					lastType = t
					for i, n := range vs.Names {
						if i < len(vs.Values) {
							if bl, ok := vs.Values[i].(*ast.BasicLit); ok && bl.Kind == token.STRING {
								v, _ := strconv.Unquote(bl.Value)
								p.consts[n.Name] = constInfo{v, t}
							}
						}
					}
				}
			}
		}
	}
	if len(p.files) > 0 {
		ix.pkgs[rel] = p
	}
}

func recvTypeName(d *ast.FuncDecl) string {
	if d.Recv == nil || len(d.Recv.List) == 0 {
		return ""
	}
	t := d.Recv.List[0].Type
	if st, ok := t.(*ast.StarExpr); ok {
		t = st.X
	}
	if id, ok := t.(*ast.Ident); ok {
		return id.Name
	}
	return ""
}

// imports of a file: local name -> repo-relative dir
func (g *gen) importsOf(f *ast.File) map[string]string {
	m := map[string]string{}
	for _, im := range f.Imports {
		path, _ := strconv.Unquote(im.Path.Value)
		const pre = "github.com/lorenzodonini/ocpp-go/"
		if !strings.HasPrefix(path, pre) {
			continue
		}
		rel := strings.TrimPrefix(path, pre)
		name := filepath.Base(rel)
		if im.Name != nil {
			name = im.Name.Name
		}
		m[name] = rel
	}
	return m
}

// resolve an expression like core.AuthorizeFeatureName / AuthorizeFeatureName to its string value
func (ix *astIndex) resolve(e ast.Expr, self *pkgIndex, imports map[string]string) (string, bool) {
	switch e := e.(type) {
	case *ast.BasicLit:
		if e.Kind == token.STRING {
			v, _ := strconv.Unquote(e.Value)
			return v, true
		}
	case *ast.Ident:
		if c, ok := self.consts[e.Name]; ok {
			return c.value, true
		}
	case *ast.SelectorExpr:
		if x, ok := e.X.(*ast.Ident); ok {
			if rel, ok := imports[x.Name]; ok {
				if p, ok := ix.pkgs[rel]; ok {
					if c, ok := p.consts[e.Sel.Name]; ok {
						return c.value, true
					}
				}
			}
		}
	}
	return "", false
}

func exprString(e ast.Expr) string {
	switch e := e.(type) {
	case *ast.Ident:
		return e.Name
	case *ast.SelectorExpr:
		return exprString(e.X) + "." + e.Sel.Name
	case *ast.StarExpr:
		return "*" + exprString(e.X)
	case *ast.CallExpr:
		return exprString(e.Fun) + "()"
	case *ast.TypeAssertExpr:
		return exprString(e.X) + ".(" + exprString(e.Type) + ")"
	case *ast.ParenExpr:
		return exprString(e.X)
	}
	return "?"
}

func coqStr(s string) string { return "\"" + strings.ReplaceAll(s, "\"", "\"\"") + "\"" }
func coqList(xs []string) string {
	q := make([]string, len(xs))
	for i, x := range xs {
		q[i] = coqStr(x)
	}
	return "[" + strings.Join(q, "; ") + "]"
}

type roleTables struct {
	send      []string     // resolved feature names of the SendRequestAsync allow-list
	handle    [][4]string  // action, handler field, method, asserted type
	profCheck [][2]string  // profile name, handler field
	hasDefaultNotSupported bool
	ok        bool
}

func (g *gen) roleFile(ix *astIndex, rel, file, recv string) roleTables {
	var rt roleTables
	p := ix.pkgs[rel]
	if p == nil {
		g.fail("no package %s", rel)
		return rt
	}
	var f *ast.File
	for _, ff := range p.files {
		if filepath.Base(ix.fset.Position(ff.Pos()).Filename) == file {
			f = ff
		}
	}
	if f == nil {
		g.fail("no file %s", file)
		return rt
	}
	imports := g.importsOf(f)
	rt.ok = true
	if fd := p.funcs[recv+".SendRequestAsync"]; fd != nil {
		ast.Inspect(fd.Body, func(n ast.Node) bool {
			sw, ok := n.(*ast.SwitchStmt)
			if !ok {
				return true
			}
			for _, c := range sw.Body.List {
				cc := c.(*ast.CaseClause)
				for _, e := range cc.List {
					if v, ok := ix.resolve(e, p, imports); ok {
						rt.send = append(rt.send, v)
					} else {
						g.fail("%s SendRequestAsync: cannot resolve %s", file, exprString(e))
						rt.ok = false
					}
				}
			}
			return false
		})
	} else {
		rt.ok = false
	}
	if fd := p.funcs[recv+".handleIncomingRequest"]; fd != nil {
		nsw := 0
		ast.Inspect(fd.Body, func(n ast.Node) bool {
			sw, ok := n.(*ast.SwitchStmt)
			if !ok {
				return true
			}
			nsw++
			tag := exprString(sw.Tag)
			for _, c := range sw.Body.List {
				cc := c.(*ast.CaseClause)
				if strings.HasSuffix(tag, ".Name") { // profile switch: case X.ProfileName: if r.h == nil {...}
					for _, e := range cc.List {
						pn, ok := ix.resolve(e, p, imports)
						if !ok {
							g.fail("%s: cannot resolve profile %s", file, exprString(e))
							rt.ok = false
							continue
						}
						field := ""
						ast.Inspect(cc, func(m ast.Node) bool {
							if be, ok := m.(*ast.BinaryExpr); ok && be.Op == token.EQL {
								if id, ok := be.Y.(*ast.Ident); ok && id.Name == "nil" {
									field = exprString(be.X)
								}
							}
							return true
						})
						rt.profCheck = append(rt.profCheck, [2]string{pn, strings.TrimPrefix(field, recvVar(fd)+".")})
					}
				} else { // action switch
					if cc.List == nil {
						rt.hasDefaultNotSupported = true
						continue
					}
					for _, e := range cc.List {
						an, ok := ix.resolve(e, p, imports)
						if !ok {
							g.fail("%s: cannot resolve action %s", file, exprString(e))
							rt.ok = false
							continue
						}
						row := [4]string{an, "", "", ""}
						ast.Inspect(cc, func(m ast.Node) bool {
							if ce, ok := m.(*ast.CallExpr); ok {
								if sel, ok := ce.Fun.(*ast.SelectorExpr); ok && strings.HasPrefix(sel.Sel.Name, "On") {
									row[1] = strings.TrimPrefix(exprString(sel.X), recvVar(fd)+".")
									row[2] = sel.Sel.Name
									for _, a := range ce.Args {
										if ta, ok := a.(*ast.TypeAssertExpr); ok {
											row[3] = strings.TrimPrefix(exprString(ta.Type), "*")
										}
									}
								}
							}
							return true
						})
						rt.handle = append(rt.handle, row)
					}
				}
			}
			return false
		})
	} else {
		rt.ok = false
	}
	return rt
}

func recvVar(fd *ast.FuncDecl) string {
	if fd.Recv != nil && len(fd.Recv.List) > 0 && len(fd.Recv.List[0].Names) > 0 {
		return fd.Recv.List[0].Names[0].Name
	}
	return ""
}

type regRow struct {
	tag, fn, pkg string
}

func (g *gen) registrations(ix *astIndex) []regRow {
	var rows []regRow
	var rels []string
	for rel := range ix.pkgs {
		rels = append(rels, rel)
	}
	sort.Strings(rels)
	for _, rel := range rels {
		p := ix.pkgs[rel]
		for _, f := range p.files {
			ast.Inspect(f, func(n ast.Node) bool {
				ce, ok := n.(*ast.CallExpr)
				if !ok {
					return true
				}
				sel, ok := ce.Fun.(*ast.SelectorExpr)
				if !ok || sel.Sel.Name != "RegisterValidation" || len(ce.Args) < 2 {
					return true
				}
				if bl, ok := ce.Args[0].(*ast.BasicLit); ok {
					tag, _ := strconv.Unquote(bl.Value)
					rows = append(rows, regRow{tag, exprString(ce.Args[1]), rel})
				}
				return true
			})
		}
	}
	return rows
}

// accepted values of an isValid* function: the case lists of its switch clauses that return true
func (g *gen) acceptedOf(ix *astIndex, p *pkgIndex, fn string) (vals []string, typ string, ok bool) {
	fd := p.funcs[fn]
	if fd == nil || fd.Body == nil {
		return nil, "", false
	}
	imports := map[string]string{}
	for _, f := range p.files {
		for k, v := range g.importsOf(f) {
			imports[k] = v
		}
	}
	// the enumeration type: the conversion  x := T(fl.Field().String())
	ast.Inspect(fd.Body, func(n ast.Node) bool {
		as, isAs := n.(*ast.AssignStmt)
		if !isAs || typ != "" || len(as.Rhs) != 1 {
			return true
		}
		if ce, isCall := as.Rhs[0].(*ast.CallExpr); isCall && len(ce.Args) == 1 {
			switch f := ce.Fun.(type) {
			case *ast.Ident:
				if f.Name != "string" {
					typ = p.dir + "." + f.Name
				}
			case *ast.SelectorExpr:
				if x, isX := f.X.(*ast.Ident); isX {
					if rel, has := imports[x.Name]; has {
						typ = rel + "." + f.Sel.Name
					}
				}
			}
		}
		return true
	})
	found := false
	ast.Inspect(fd.Body, func(n ast.Node) bool {
		sw, isSw := n.(*ast.SwitchStmt)
		if !isSw || found {
			return true
		}
		found = true
		ok = true
		for _, c := range sw.Body.List {
			cc := c.(*ast.CaseClause)
			retTrue := false
			for _, st := range cc.Body {
				if rs, isRet := st.(*ast.ReturnStmt); isRet && len(rs.Results) == 1 {
					if id, isId := rs.Results[0].(*ast.Ident); isId && id.Name == "true" {
						retTrue = true
					}
				}
			}
			if !retTrue {
				continue
			}
			for _, e := range cc.List {
				v, r := ix.resolve(e, p, imports)
				if !r {
					ok = false
					continue
				}
				vals = append(vals, v)
				if id, isId := e.(*ast.Ident); isId {
					if typ == "" {
						typ = p.dir + "." + p.consts[id.Name].typ
					}
				} else if sel, isSel := e.(*ast.SelectorExpr); isSel {
					if x, isX := sel.X.(*ast.Ident); isX {
						if rel, has := imports[x.Name]; has && typ == "" {
							typ = rel + "." + ix.pkgs[rel].consts[sel.Sel.Name].typ
						}
					}
				}
			}
		}
		return false
	})
	return vals, typ, ok && found
}

type fieldRow struct {
	owner, goName, jsonName string
	omitempty               bool
	tags                    []string
	kind                    string
}

func (g *gen) walkType(t reflect.Type, seen map[reflect.Type]bool, rows *[]fieldRow) {
	for t.Kind() == reflect.Ptr || t.Kind() == reflect.Slice || t.Kind() == reflect.Array {
		t = t.Elem()
	}
	if t.Kind() != reflect.Struct || seen[t] {
		return
	}
	seen[t] = true
	if t.PkgPath() == "time" {
		return
	}
	for i := 0; i < t.NumField(); i++ {
		f := t.Field(i)
		if f.PkgPath != "" && !f.Anonymous {
			continue
		}
		js := f.Tag.Get("json")
		name, omit := js, false
		if k := strings.IndexByte(js, ','); k >= 0 {
			name = js[:k]
			omit = strings.Contains(js[k:], "omitempty")
		}
		var tags []string
		if v := f.Tag.Get("validate"); v != "" {
			tags = strings.Split(v, ",")
		}
		ft := f.Type
		kind := ft.Kind().String()
		*rows = append(*rows, fieldRow{t.PkgPath()[strings.Index(t.PkgPath(), "ocpp-go/")+8:] + "." + t.Name(), f.Name, name, omit, tags, kind})
		g.walkType(ft, seen, rows)
	}
}

var builtinTags = map[string]bool{"required": true, "omitempty": true, "max": true, "min": true, "gte": true, "gt": true, "lte": true,
	"lt": true, "eq": true, "dive": true, "unique": true, "uri": true, "url": true, "-": true, "len": true, "ne": true, "oneof": true,
	"required_without": true, "required_with": true, "excluded_with": true, "isdefault": true, "numeric": true}

func (g *gen) tables() {
	ix := &astIndex{fset: token.NewFileSet(), pkgs: map[string]*pkgIndex{}}
	for _, top := range []string{"ocpp1.6", "ocpp2.0.1"} {
		g.indexDir(ix, top)
		ents, _ := os.ReadDir(filepath.Join(g.repo, top))
		for _, e := range ents {
			if e.IsDir() {
				g.indexDir(ix, top+"/"+e.Name())
			}
		}
	}
	g.indexDir(ix, "ocppj")
	g.indexDir(ix, "ocpp")

	var sb strings.Builder
	sb.WriteString("(** Generated by tools/cmd/extract from the current /repo working tree. Do not edit. *)\n")
	sb.WriteString("From Coq Require Import String List.\nImport ListNotations.\nOpen Scope string_scope.\n\n")

	// ---- profiles by reflection
	for _, v := range []struct {
		name     string
		profiles []*ocpp.Profile
	}{{"16", profiles16()}, {"201", profiles201()}} {
		sb.WriteString(fmt.Sprintf("(** profile, then per feature: name; request type; response type; name reported by a request value; by a response value *)\nDefinition profiles%s : list (string * list (string * string * string * string * string)) := [\n", v.name))
		for pi, p := range v.profiles {
			var names []string
			for n := range p.Features {
				names = append(names, n)
			}
			sort.Strings(names)
			sb.WriteString("  (" + coqStr(p.Name) + ", [")
			for i, n := range names {
				f := p.Features[n]
				rq, rs := f.GetRequestType(), f.GetResponseType()
				rqn := reflect.New(rq).Interface().(ocpp.Request).GetFeatureName()
				rsn := reflect.New(rs).Interface().(ocpp.Response).GetFeatureName()
				if i > 0 {
					sb.WriteString(";\n     ")
				}
				sb.WriteString(fmt.Sprintf("(%s, %s, %s, %s, %s)", coqStr(n), coqStr(rq.String()), coqStr(rs.String()), coqStr(rqn), coqStr(rsn)))
			}
			sb.WriteString("])")
			if pi < len(v.profiles)-1 {
				sb.WriteString(";")
			}
			sb.WriteString("\n")
		}
		sb.WriteString("].\n\n")
		// the feature objects' own name vs the map key
		sb.WriteString(fmt.Sprintf("Definition feature_keys%s : list (string * string) := [", v.name))
		first := true
		for _, p := range v.profiles {
			var names []string
			for n := range p.Features {
				names = append(names, n)
			}
			sort.Strings(names)
			for _, n := range names {
				if !first {
					sb.WriteString("; ")
				}
				first = false
				sb.WriteString("(" + coqStr(n) + ", " + coqStr(p.Features[n].GetFeatureName()) + ")")
			}
		}
		sb.WriteString("].\n\n")
	}

	// ---- role tables by AST
	roles := []struct{ id, rel, file, recv string }{
		{"cp16", "ocpp1.6", "charge_point.go", "chargePoint"},
		{"cs16", "ocpp1.6", "central_system.go", "centralSystem"},
		{"cs201", "ocpp2.0.1", "charging_station.go", "chargingStation"},
		{"csms201", "ocpp2.0.1", "csms.go", "csms"},
	}
	for _, r := range roles {
		rt := g.roleFile(ix, r.rel, r.file, r.recv)
		sb.WriteString(fmt.Sprintf("Definition send_%s : list string := %s.\n", r.id, coqList(rt.send)))
		sb.WriteString(fmt.Sprintf("Definition handle_%s : list (string * string * string * string) := [", r.id))
		for i, h := range rt.handle {
			if i > 0 {
				sb.WriteString(";\n  ")
			}
			sb.WriteString(fmt.Sprintf("(%s, %s, %s, %s)", coqStr(h[0]), coqStr(h[1]), coqStr(h[2]), coqStr(h[3])))
		}
		sb.WriteString("].\n")
		sb.WriteString(fmt.Sprintf("Definition profcheck_%s : list (string * string) := [", r.id))
		for i, h := range rt.profCheck {
			if i > 0 {
				sb.WriteString("; ")
			}
			sb.WriteString(fmt.Sprintf("(%s, %s)", coqStr(h[0]), coqStr(h[1])))
		}
		sb.WriteString("].\n")
		sb.WriteString(fmt.Sprintf("Definition default_arm_%s : bool := %v.\nDefinition role_ok_%s : bool := %v.\n", r.id, rt.hasDefaultNotSupported, r.id, rt.ok))
		// setter -> handler field it assigns
		sb.WriteString(fmt.Sprintf("Definition setters_%s : list (string * string) := [", r.id))
		var sn []string
		for n := range ix.pkgs[r.rel].funcs {
			if strings.HasPrefix(n, r.recv+".Set") && strings.HasSuffix(n, "Handler") {
				sn = append(sn, n)
			}
		}
		sort.Strings(sn)
		firstS := true
		for _, n := range sn {
			fd := ix.pkgs[r.rel].funcs[n]
			field := ""
			ast.Inspect(fd.Body, func(m ast.Node) bool {
				if as, ok := m.(*ast.AssignStmt); ok && len(as.Lhs) == 1 {
					if sel, ok := as.Lhs[0].(*ast.SelectorExpr); ok && field == "" {
						if x, ok := sel.X.(*ast.Ident); ok && x.Name == recvVar(fd) {
							field = sel.Sel.Name
						}
					}
				}
				return true
			})
			if field == "" {
				continue
			}
			if !firstS {
				sb.WriteString("; ")
			}
			firstS = false
			sb.WriteString(fmt.Sprintf("(%s, %s)", coqStr(strings.TrimPrefix(n, r.recv+".")), coqStr(field)))
		}
		sb.WriteString("].\n\n")
	}

	// ---- validators
	regs := g.registrations(ix)
	sb.WriteString("(** RegisterValidation calls: tag, function (package-qualified) *)\nDefinition registered_tags : list (string * string) := [")
	for i, r := range regs {
		if i > 0 {
			sb.WriteString(";\n  ")
		}
		sb.WriteString(fmt.Sprintf("(%s, %s)", coqStr(r.tag), coqStr(r.pkg+"."+r.fn)))
	}
	sb.WriteString("].\n\n")

	// ---- enumerations: accepted set of the validator vs declared constants of the type
	sb.WriteString("(** per registered enum validator: tag; type; values accepted by the isValid switch; declared constants of that type; switch shape understood *)\nDefinition enum_tables : list (string * string * list string * list string * bool) := [")
	firstE := true
	for _, r := range regs {
		vals, typ, declared, ok, use := g.enumRow(ix, r)
		if !use {
			continue
		}
		if !firstE {
			sb.WriteString(";\n  ")
		}
		firstE = false
		sb.WriteString(fmt.Sprintf("(%s, %s, %s, %s, %v)", coqStr(r.tag), coqStr(typ), coqList(vals), coqList(declared), ok))
	}
	sb.WriteString("].\n\n")
	sb.WriteString("Definition enum_sets : list (string * list string) := map (fun r => let '(t, _, acc, _, _) := r in (t, acc)) enum_tables.\n\n")

	// ---- every payload field with its tags (by reflection, reachable from the features)
	var rows []fieldRow
	seen := map[reflect.Type]bool{}
	for _, ps := range [][]*ocpp.Profile{profiles16(), profiles201()} {
		for _, p := range ps {
			var names []string
			for n := range p.Features {
				names = append(names, n)
			}
			sort.Strings(names)
			for _, n := range names {
				g.walkType(p.Features[n].GetRequestType(), seen, &rows)
				g.walkType(p.Features[n].GetResponseType(), seen, &rows)
			}
		}
	}
	sb.WriteString("(** every field of every payload type reachable from a feature: owner type; Go field; JSON key; omitempty; validate tags *)\nDefinition payload_fields : list (string * string * string * bool * list string) := [")
	for i, r := range rows {
		if i > 0 {
			sb.WriteString(";\n  ")
		}
		sb.WriteString(fmt.Sprintf("(%s, %s, %s, %v, %s)", coqStr(r.owner), coqStr(r.goName), coqStr(r.jsonName), r.omitempty, coqList(r.tags)))
	}
	sb.WriteString("].\n\n")
	var bt []string
	for k := range builtinTags {
		bt = append(bt, k)
	}
	sort.Strings(bt)
	sb.WriteString("Definition builtin_tags : list string := " + coqList(bt) + ".\n\n")

	// ---- errorFromValidation tag switch and IsErrorCodeValid
	if p := ix.pkgs["ocppj"]; p != nil {
		imports := map[string]string{}
		var tagCases [][2]string
		if fd := p.funcs["errorFromValidation"]; fd != nil {
			ast.Inspect(fd.Body, func(n ast.Node) bool {
				if sw, ok := n.(*ast.SwitchStmt); ok {
					for _, c := range sw.Body.List {
						cc := c.(*ast.CaseClause)
						cls := "other"
						ast.Inspect(cc, func(m ast.Node) bool {
							if ce, ok := m.(*ast.CallExpr); ok {
								if id, ok := ce.Fun.(*ast.Ident); ok {
									if id.Name == "occurrenceViolation" {
										cls = "occurrence"
									} else if id.Name == "propertyConstraintViolation" {
										cls = "property"
									}
								}
							}
							return true
						})
						for _, e := range cc.List {
							if v, ok := ix.resolve(e, p, imports); ok {
								tagCases = append(tagCases, [2]string{v, cls})
							}
						}
					}
					return false
				}
				return true
			})
		}
		sb.WriteString("Definition error_class_of_tag : list (string * string) := [")
		for i, t := range tagCases {
			if i > 0 {
				sb.WriteString("; ")
			}
			sb.WriteString(fmt.Sprintf("(%s, %s)", coqStr(t[0]), coqStr(t[1])))
		}
		sb.WriteString("].\n")
		vals, _, ok := g.acceptedOf(ix, p, "IsErrorCodeValid")
		sort.Strings(vals)
		sb.WriteString(fmt.Sprintf("Definition valid_error_codes : list string := %s.\nDefinition valid_error_codes_ok : bool := %v.\n", coqList(vals), ok))
		var decl []string
		for n, c := range p.consts {
			if c.typ == "ErrorCode" {
				_ = n
				decl = append(decl, c.value)
			}
		}
		sort.Strings(decl)
		sb.WriteString("Definition declared_error_codes : list string := " + coqList(decl) + ".\n")
	}
	g.writeIfChanged("Tables.v", sb.String())
	if g.stubsDir != "" {
		g.stubs(ix, g.stubsDir)
	}
	g.params["tables"] = map[string]interface{}{"payload_fields": len(rows), "registered_tags": len(regs)}
}

func profiles16() []*ocpp.Profile  { return profiles.V16() }
func profiles201() []*ocpp.Profile { return profiles.V201() }

// ---- schema trees (gen/Schemas.v) ----------------------------------------------------------

func shortType(t reflect.Type) string {
	pp := t.PkgPath()
	return pp[strings.LastIndexByte(pp, '/')+1:] + "." + t.Name()
}

func isDateTime(t reflect.Type) bool {
	return t.Kind() == reflect.Struct && t.Name() == "DateTime" && strings.HasSuffix(t.PkgPath(), "/types")
}

func coqTags(v string) string {
	if v == "" {
		return "[]"
	}
	var parts []string
	for _, p := range strings.Split(v, ",") {
		n, a := p, ""
		if k := strings.IndexByte(p, '='); k >= 0 {
			n, a = p[:k], p[k+1:]
		}
		parts = append(parts, fmt.Sprintf("(%s, %s)", coqStr(n), coqStr(a)))
	}
	return "[" + strings.Join(parts, "; ") + "]"
}

func (g *gen) coqKind(t reflect.Type, depth int, stack map[reflect.Type]bool) string {
	if isDateTime(t) {
		return "KTime"
	}
	switch t.Kind() {
	case reflect.String:
		return "KString"
	case reflect.Int, reflect.Int8, reflect.Int16, reflect.Int32, reflect.Int64, reflect.Uint, reflect.Uint8, reflect.Uint16, reflect.Uint32, reflect.Uint64:
		return "KInt"
	case reflect.Float32, reflect.Float64:
		return "KFloat"
	case reflect.Bool:
		return "KBool"
	case reflect.Interface:
		return "KAny"
	case reflect.Ptr:
		return "(KPtr " + g.coqKind(t.Elem(), depth, stack) + ")"
	case reflect.Slice, reflect.Array:
		return "(KSlice " + g.coqKind(t.Elem(), depth, stack) + ")"
	case reflect.Struct:
		if stack[t] || depth > 12 {
			g.fail("recursive or too deep payload type %s", t)
			return "KAny"
		}
		stack[t] = true
		defer delete(stack, t)
		var fs []string
		for i := 0; i < t.NumField(); i++ {
			f := t.Field(i)
			if f.PkgPath != "" {
				continue
			}
			fs = append(fs, fmt.Sprintf("(%s, %s, %s)", coqStr(f.Name), coqTags(f.Tag.Get("validate")), g.coqKind(f.Type, depth+1, stack)))
		}
		return fmt.Sprintf("(KStruct %s [%s])", coqStr(shortType(t)), strings.Join(fs, ";\n      "))
	}
	g.fail("unsupported kind %s", t.Kind())
	return "KAny"
}

func (g *gen) schemas() {
	var sb strings.Builder
	sb.WriteString("(** Generated by tools/cmd/extract: the payload type of every request and response as a schema tree. Do not edit. *)\n")
	sb.WriteString("From Coq Require Import String List.\nImport ListNotations.\nFrom Verif Require Import M2.Validator.\nOpen Scope string_scope.\n\n")
	var names []string
	idx := 0
	for _, v := range []struct {
		name string
		ps   []*ocpp.Profile
	}{{"16", profiles16()}, {"201", profiles201()}} {
		for _, p := range v.ps {
			var fn []string
			for n := range p.Features {
				fn = append(fn, n)
			}
			sort.Strings(fn)
			for _, n := range fn {
				f := p.Features[n]
				for di, t := range []reflect.Type{f.GetRequestType(), f.GetResponseType()} {
					dn := "req"
					if di == 1 {
						dn = "resp"
					}
					id := fmt.Sprintf("schema_%d", idx)
					idx++
					sb.WriteString(fmt.Sprintf("Definition %s : kind := %s.\n", id, g.coqKind(t, 0, map[reflect.Type]bool{})))
					names = append(names, fmt.Sprintf("(%s, %s)", coqStr(v.name+"/"+n+"/"+dn), id))
				}
			}
		}
	}
	sb.WriteString("\nDefinition schemas : list (string * kind) := [\n  " + strings.Join(names, ";\n  ") + "].\n")
	g.writeIfChanged("Schemas.v", sb.String())
	g.params["schemas"] = idx
}

// enumRow: accepted values of the validator registered by r, its enumeration type, the declared constants of that type
func (g *gen) enumRow(ix *astIndex, r regRow) (vals []string, typ string, declared []string, ok bool, use bool) {
	use = true
		p := ix.pkgs[r.pkg]
		if p == nil || strings.Contains(r.fn, ".") && !strings.HasPrefix(r.fn, "types.") {
			return nil, "", nil, false, false
		}
		fn := r.fn
		pp := p
		if strings.HasPrefix(fn, "types.") { // function of the version's types package
			fn = strings.TrimPrefix(fn, "types.")
			for _, f := range p.files {
				if rel, ok := g.importsOf(f)["types"]; ok {
					pp = ix.pkgs[rel]
				}
			}
		}
		vals, typ, ok = g.acceptedOf(ix, pp, fn)
		if typ != "" {
			k := strings.LastIndexByte(typ, '.')
			tp, tn := typ[:k], typ[k+1:]
			if q := ix.pkgs[tp]; q != nil {
				var names []string
				for n, c := range q.consts {
					if c.typ == tn {
						names = append(names, n)
					}
				}
				sort.Strings(names)
				for _, n := range names {
					declared = append(declared, q.consts[n].value)
				}
			}
			if len(declared) == 0 {
				// constants of that type declared in another package (ocpp.ErrorCode values live in ocppj)
				var rels2 []string
				for rel := range ix.pkgs {
					rels2 = append(rels2, rel)
				}
				sort.Strings(rels2)
				for _, rel := range rels2 {
					q := ix.pkgs[rel]
					var names []string
					for n, c := range q.consts {
						if c.typ == tn && rel != tp {
							names = append(names, n)
						}
					}
					sort.Strings(names)
					for _, n := range names {
						if tn == "ErrorCode" {
							declared = append(declared, q.consts[n].value)
						}
					}
				}
			}
		}
	sort.Strings(vals)
	sort.Strings(declared)
	return
}

// ---- JSON schema trees (gen/JSchemas.v) ----------------------------------------------------

func (g *gen) coqJKind(t reflect.Type, depth int, stack map[reflect.Type]bool) string {
	if isDateTime(t) {
		return "JKTime"
	}
	switch t.Kind() {
	case reflect.String:
		return "JKString"
	case reflect.Int, reflect.Int8, reflect.Int16, reflect.Int32, reflect.Int64, reflect.Uint, reflect.Uint8, reflect.Uint16, reflect.Uint32, reflect.Uint64:
		return "JKInt"
	case reflect.Float32, reflect.Float64:
		return "JKFloat"
	case reflect.Bool:
		return "JKBool"
	case reflect.Interface:
		return "JKAny"
	case reflect.Ptr:
		return "(JKPtr " + g.coqJKind(t.Elem(), depth, stack) + ")"
	case reflect.Slice, reflect.Array:
		return "(JKSlice " + g.coqJKind(t.Elem(), depth, stack) + ")"
	case reflect.Struct:
		if stack[t] || depth > 12 {
			return "JKAny"
		}
		stack[t] = true
		defer delete(stack, t)
		var fs []string
		for i := 0; i < t.NumField(); i++ {
			f := t.Field(i)
			if f.PkgPath != "" {
				continue
			}
			js := f.Tag.Get("json")
			name, omit := js, false
			if k := strings.IndexByte(js, ','); k >= 0 {
				name = js[:k]
				omit = strings.Contains(js[k:], "omitempty")
			}
			if js == "" {
				name = f.Name
			}
			fs = append(fs, fmt.Sprintf("(%s, %v, %s)", coqStr(name), omit, g.coqJKind(f.Type, depth+1, stack)))
		}
		return fmt.Sprintf("(JKStruct [%s])", strings.Join(fs, ";\n      "))
	}
	return "JKAny"
}

func (g *gen) jschemas() {
	var sb strings.Builder
	sb.WriteString("(** Generated by tools/cmd/extract: JSON keys / omitempty / kinds of every request and response type, in Go field order. Do not edit. *)\n")
	sb.WriteString("From Coq Require Import String List.\nImport ListNotations.\nFrom Verif Require Import M2.Json.\nOpen Scope string_scope.\n\n")
	var names []string
	idx := 0
	for _, v := range []struct {
		name string
		ps   []*ocpp.Profile
	}{{"16", profiles16()}, {"201", profiles201()}} {
		for _, p := range v.ps {
			var fn []string
			for n := range p.Features {
				fn = append(fn, n)
			}
			sort.Strings(fn)
			for _, n := range fn {
				f := p.Features[n]
				for di, t := range []reflect.Type{f.GetRequestType(), f.GetResponseType()} {
					dn := "req"
					if di == 1 {
						dn = "resp"
					}
					id := fmt.Sprintf("jschema_%d", idx)
					idx++
					sb.WriteString(fmt.Sprintf("Definition %s : jkind := %s.\n", id, g.coqJKind(t, 0, map[reflect.Type]bool{})))
					names = append(names, fmt.Sprintf("(%s, %s)", coqStr(v.name+"/"+n+"/"+dn), id))
				}
			}
		}
	}
	sb.WriteString("\nDefinition jschemas : list (string * jkind) := [\n  " + strings.Join(names, ";\n  ") + "].\n")
	g.writeIfChanged("JSchemas.v", sb.String())
}
