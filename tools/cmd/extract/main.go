// extract is the translator: it regenerates the table-shaped parts of the Coq
// development (coq/gen/*.v) from the current /repo working tree, by reflection
// over the real profile / feature / payload values and by go/ast over the
// source files.
package main

import (
	"flag"
	"fmt"
	"os"
)

func main() {
	repo := flag.String("repo", "/repo", "repository root")
	out := flag.String("out", "coq/gen", "output directory for generated .v files")
	params := flag.String("params", "build/params.json", "output file for extracted parameters")
	stubs := flag.String("stubs", "", "directory for the generated Go handler stubs (tools/internal/stubs)")
	flag.Parse()
	if err := os.MkdirAll(*out, 0o755); err != nil {
		fmt.Fprintln(os.Stderr, err)
		os.Exit(1)
	}
	g := &gen{repo: *repo, out: *out, stubsDir: *stubs, params: map[string]interface{}{}}
	g.run()
	g.writeParams(*params)
	if g.failed {
		os.Exit(1)
	}
}
