package main

// Access table (C19): every access to a struct field of the concurrent core
// (internal/callbackqueue, ws, ocppj, ocpp1.6, ocpp2.0.1 top-level packages),
// resolved with go/types, together with the mutexes that are syntactically held
// at that point (flow-sensitive inside a function, entry locksets of unexported
// helpers computed from their call sites).  The Coq side (M4/Access.v) decides
// the lock discipline on this table.

import (
	"fmt"
	"go/ast"
	"go/build"
	"go/importer"
	"go/parser"
	"go/token"
	"go/types"
	"os"
	"path/filepath"
	"sort"
	"strings"
)

const modPath = "github.com/lorenzodonini/ocpp-go/"

var accessPkgs = []string{"internal/callbackqueue", "ws", "ocppj", "ocpp1.6", "ocpp2.0.1"}

var analysedPkg = map[string]bool{}

func init() {
	for _, p := range accessPkgs {
		analysedPkg[p] = true
	}
}

// access kinds
const (
	akRead     = 0
	akWrite    = 1
	akSend     = 2
	akRecv     = 3
	akClose    = 4
	akElemRead = 5 // map / slice element read, range, len
	akElemWrt  = 6 // map / slice element write, delete
	akAddr     = 7 // address taken
)

type lockset map[string]int // mutex -> 1 shared, 2 exclusive

func (l lockset) clone() lockset {
	c := lockset{}
	for k, v := range l {
		c[k] = v
	}
	return c
}

func meet(a, b lockset) lockset {
	c := lockset{}
	for k, v := range a {
		if w, ok := b[k]; ok {
			if w < v {
				v = w
			}
			c[k] = v
		}
	}
	return c
}

func join(a, b lockset) lockset {
	c := a.clone()
	for k, v := range b {
		if c[k] < v {
			c[k] = v
		}
	}
	return c
}

type accRow struct {
	Field  string
	Func   string
	Kind   int
	Locks  lockset
	Init   bool
	Pos    string
	OnRecv bool           // rooted at the receiver of the enclosing method
	Acq    map[string]int // for every lock held: the line where it was taken in this function (0: held on entry)
}

type callSite struct {
	caller string
	callee string
	held   lockset
	spawn  bool
	fresh  bool // the receiver of the call is a value created in the caller
	onRecv bool // the receiver of the call is the caller's own receiver
}

type fnInfo struct {
	name     string
	exported bool
	escapes  bool // referenced as a value: may be called from anywhere
	literal  bool
	deferred lockset // for deferred literals: the locks certainly still held when they run
	parent   string
	spawned  bool // literal started with `go`
}

type analyzer struct {
	fset     *token.FileSet
	info     *types.Info
	pkg      string // short package name for keys
	rows     []accRow
	calls    []callSite
	fns      map[string]*fnInfo
	repo     string
	closures map[types.Object]string // local variables holding a function literal that is only ever called
}

type fnCtx struct {
	recv   types.Object
	name   string
	fresh  map[types.Object]bool
	sticky lockset // locks whose unlock is deferred
	litN   int
	acq    map[string]int // mutex -> line of the Lock / RLock statement of the critical section being analysed
}

func isSyncType(t types.Type) bool {
	for {
		if p, ok := t.(*types.Pointer); ok {
			t = p.Elem()
			continue
		}
		break
	}
	if n, ok := t.(*types.Named); ok && n.Obj().Pkg() != nil {
		p := n.Obj().Pkg().Path()
		return p == "sync" || p == "sync/atomic"
	}
	return false
}

func isMutexType(t types.Type) bool {
	for {
		if p, ok := t.(*types.Pointer); ok {
			t = p.Elem()
			continue
		}
		break
	}
	if n, ok := t.(*types.Named); ok && n.Obj().Pkg() != nil && n.Obj().Pkg().Path() == "sync" {
		return n.Obj().Name() == "Mutex" || n.Obj().Name() == "RWMutex"
	}
	return false
}

func shortPkg(p *types.Package) string {
	if p == nil {
		return ""
	}
	return strings.TrimPrefix(p.Path(), modPath)
}

// fieldKey names the field selected by sel ("ws.webSocket.outQueue"), "" when sel is no field of a library struct.
func (a *analyzer) fieldKey(sel *ast.SelectorExpr) (string, *types.Var) {
	s, ok := a.info.Selections[sel]
	if !ok || s.Kind() != types.FieldVal {
		return "", nil
	}
	v, ok := s.Obj().(*types.Var)
	if !ok || v.Pkg() == nil || !strings.HasPrefix(v.Pkg().Path(), modPath) || !analysedPkg[shortPkg(v.Pkg())] {
		return "", nil
	}
	// the struct that declares the field (through embedding too)
	recv := s.Recv()
	for {
		if p, ok := recv.(*types.Pointer); ok {
			recv = p.Elem()
			continue
		}
		break
	}
	owner := "?"
	if n, ok := recv.(*types.Named); ok {
		owner = n.Obj().Name()
		if len(s.Index()) > 1 {
			// promoted through embedding: find the declaring struct
			t := recv
			for _, ix := range s.Index()[:len(s.Index())-1] {
				st, ok := t.Underlying().(*types.Struct)
				if !ok {
					break
				}
				t = st.Field(ix).Type()
				if p, ok := t.(*types.Pointer); ok {
					t = p.Elem()
				}
			}
			if n2, ok := t.(*types.Named); ok {
				owner = n2.Obj().Name()
			}
		}
	}
	return shortPkg(v.Pkg()) + "." + owner + "." + v.Name(), v
}

func (a *analyzer) mutexKey(e ast.Expr) string {
	tv, ok := a.info.Types[e]
	if !ok || !isMutexType(tv.Type) {
		return ""
	}
	switch x := e.(type) {
	case *ast.SelectorExpr:
		if k, _ := a.fieldKey(x); k != "" {
			return k
		}
		if id, ok := x.X.(*ast.Ident); ok { // pkg.var
			return id.Name + "." + x.Sel.Name
		}
	case *ast.Ident:
		if o := a.info.Uses[x]; o != nil {
			return shortPkg(o.Pkg()) + "." + x.Name
		}
	case *ast.ParenExpr:
		return a.mutexKey(x.X)
	}
	return ""
}

// lockOp recognises <mutex>.Lock() etc.
func (a *analyzer) lockOp(e ast.Expr) (mutex string, op string) {
	c, ok := e.(*ast.CallExpr)
	if !ok {
		return "", ""
	}
	sel, ok := c.Fun.(*ast.SelectorExpr)
	if !ok {
		return "", ""
	}
	switch sel.Sel.Name {
	case "Lock", "RLock", "Unlock", "RUnlock":
	default:
		return "", ""
	}
	m := a.mutexKey(sel.X)
	if m == "" {
		return "", ""
	}
	return m, sel.Sel.Name
}

func rootIdent(e ast.Expr) *ast.Ident {
	for {
		switch x := e.(type) {
		case *ast.SelectorExpr:
			e = x.X
		case *ast.IndexExpr:
			e = x.X
		case *ast.StarExpr:
			e = x.X
		case *ast.ParenExpr:
			e = x.X
		case *ast.Ident:
			return x
		default:
			return nil
		}
	}
}

func (a *analyzer) record(ctx *fnCtx, sel *ast.SelectorExpr, kind int, held lockset) {
	key, v := a.fieldKey(sel)
	if key == "" {
		return
	}
	if isSyncType(v.Type()) {
		return
	}
	init, onRecv := false, false
	if id := rootIdent(sel.X); id != nil {
		if o := a.info.Uses[id]; o != nil {
			if ctx.fresh[o] {
				init = true
			}
			if ctx.recv != nil && o == ctx.recv {
				onRecv = true
			}
		}
	}
	p := a.fset.Position(sel.Sel.Pos())
	rel, _ := filepath.Rel(a.repo, p.Filename)
	acq := map[string]int{}
	for m := range held {
		acq[m] = ctx.acq[m]
	}
	a.rows = append(a.rows, accRow{Field: key, Func: ctx.name, Kind: kind, Locks: held.clone(), Init: init, OnRecv: onRecv, Pos: fmt.Sprintf("%s:%d", rel, p.Line), Acq: acq})
}

func isMapOrSlice(t types.Type) bool {
	switch t.Underlying().(type) {
	case *types.Map, *types.Slice:
		return true
	}
	return false
}

// lhs records the write done by assigning to e.
func (a *analyzer) lhs(ctx *fnCtx, e ast.Expr, held lockset) {
	switch x := e.(type) {
	case *ast.SelectorExpr:
		a.record(ctx, x, akWrite, held)
		a.expr(ctx, x.X, held)
	case *ast.IndexExpr:
		if sel, ok := x.X.(*ast.SelectorExpr); ok {
			if k, _ := a.fieldKey(sel); k != "" {
				a.record(ctx, sel, akElemWrt, held)
				a.expr(ctx, sel.X, held)
				a.expr(ctx, x.Index, held)
				return
			}
		}
		a.expr(ctx, x.X, held)
		a.expr(ctx, x.Index, held)
	case *ast.StarExpr:
		a.expr(ctx, x.X, held)
	case *ast.ParenExpr:
		a.lhs(ctx, x.X, held)
	case *ast.Ident:
	default:
		a.expr(ctx, e, held)
	}
}

func (a *analyzer) funcName(f *types.Func) string {
	if f == nil || f.Pkg() == nil || !strings.HasPrefix(f.Pkg().Path(), modPath) {
		return ""
	}
	sig := f.Type().(*types.Signature)
	if r := sig.Recv(); r != nil {
		t := r.Type()
		if p, ok := t.(*types.Pointer); ok {
			t = p.Elem()
		}
		if n, ok := t.(*types.Named); ok {
			if _, isIface := n.Underlying().(*types.Interface); isIface {
				return ""
			}
			return shortPkg(f.Pkg()) + "." + n.Obj().Name() + "." + f.Name()
		}
		return ""
	}
	return shortPkg(f.Pkg()) + "." + f.Name()
}

func (a *analyzer) calleeOf(fun ast.Expr) string {
	switch x := fun.(type) {
	case *ast.Ident:
		if f, ok := a.info.Uses[x].(*types.Func); ok {
			return a.funcName(f)
		}
		if o := a.info.Uses[x]; o != nil {
			if n, ok := a.closures[o]; ok {
				return n
			}
		}
	case *ast.SelectorExpr:
		if s, ok := a.info.Selections[x]; ok {
			if f, ok := s.Obj().(*types.Func); ok {
				return a.funcName(f)
			}
		} else if f, ok := a.info.Uses[x.Sel].(*types.Func); ok {
			return a.funcName(f)
		}
	case *ast.ParenExpr:
		return a.calleeOf(x.X)
	}
	return ""
}

func (a *analyzer) literal(ctx *fnCtx, lit *ast.FuncLit, held lockset, tag string, spawned bool) string {
	ctx.litN++
	name := fmt.Sprintf("%s$%s%d", ctx.name, tag, ctx.litN)
	a.fns[name] = &fnInfo{name: name, literal: true, parent: ctx.name, deferred: held.clone(), spawned: spawned, escapes: tag == "lit"}
	a.calls = append(a.calls, callSite{caller: ctx.name, callee: name, held: held.clone(), spawn: spawned, onRecv: true})
	sub := &fnCtx{name: name, fresh: ctx.fresh, sticky: lockset{}, recv: ctx.recv, acq: map[string]int{}}
	a.block(sub, lit.Body.List, held.clone())
	return name
}

func (a *analyzer) call(ctx *fnCtx, c *ast.CallExpr, held lockset, spawn bool) {
	// builtins
	if id, ok := c.Fun.(*ast.Ident); ok {
		if _, isB := a.info.Uses[id].(*types.Builtin); isB {
			switch id.Name {
			case "close":
				if sel, ok := c.Args[0].(*ast.SelectorExpr); ok {
					a.record(ctx, sel, akClose, held)
					a.expr(ctx, sel.X, held)
					return
				}
			case "delete":
				if sel, ok := c.Args[0].(*ast.SelectorExpr); ok {
					a.record(ctx, sel, akElemWrt, held)
					a.expr(ctx, sel.X, held)
					a.expr(ctx, c.Args[1], held)
					return
				}
			case "len", "cap":
				if sel, ok := c.Args[0].(*ast.SelectorExpr); ok {
					if k, v := a.fieldKey(sel); k != "" && isMapOrSlice(v.Type()) {
						a.record(ctx, sel, akElemRead, held)
						a.expr(ctx, sel.X, held)
						return
					}
				}
			}
			for _, x := range c.Args {
				a.expr(ctx, x, held)
			}
			return
		}
	}
	if lit, ok := c.Fun.(*ast.FuncLit); ok {
		for _, x := range c.Args {
			a.expr(ctx, x, held)
		}
		if spawn {
			a.literal(ctx, lit, lockset{}, "go", true)
		} else {
			a.literal(ctx, lit, held, "call", false)
		}
		return
	}
	if callee := a.calleeOf(c.Fun); callee != "" {
		h := held.clone()
		if spawn {
			h = lockset{}
		}
		cs := callSite{caller: ctx.name, callee: callee, held: h, spawn: spawn}
		if f, ok := c.Fun.(*ast.SelectorExpr); ok {
			if id := rootIdent(f.X); id != nil {
				if o := a.info.Uses[id]; o != nil {
					cs.fresh = ctx.fresh[o]
					cs.onRecv = ctx.recv != nil && o == ctx.recv
				}
			}
		}
		a.calls = append(a.calls, cs)
	}
	// the function expression itself (receiver chain) and the arguments are read
	switch f := c.Fun.(type) {
	case *ast.SelectorExpr:
		a.expr(ctx, f.X, held)
	case *ast.Ident:
	default:
		a.expr(ctx, c.Fun, held)
	}
	for _, x := range c.Args {
		a.expr(ctx, x, held)
	}
}

func (a *analyzer) expr(ctx *fnCtx, e ast.Expr, held lockset) {
	switch x := e.(type) {
	case nil:
	case *ast.SelectorExpr:
		if k, _ := a.fieldKey(x); k != "" {
			a.record(ctx, x, akRead, held)
		} else if f, ok := a.info.Uses[x.Sel].(*types.Func); ok {
			a.escape(f)
		} else if s, ok := a.info.Selections[x]; ok {
			if f, ok := s.Obj().(*types.Func); ok {
				a.escape(f)
			}
		}
		a.expr(ctx, x.X, held)
	case *ast.Ident:
		if f, ok := a.info.Uses[x].(*types.Func); ok {
			a.escape(f)
		}
		if o := a.info.Uses[x]; o != nil {
			if n, ok := a.closures[o]; ok {
				a.fns[n].escapes = true
			}
		}
	case *ast.IndexExpr:
		if sel, ok := x.X.(*ast.SelectorExpr); ok {
			if k, v := a.fieldKey(sel); k != "" && isMapOrSlice(v.Type()) {
				a.record(ctx, sel, akElemRead, held)
				a.expr(ctx, sel.X, held)
				a.expr(ctx, x.Index, held)
				return
			}
		}
		a.expr(ctx, x.X, held)
		a.expr(ctx, x.Index, held)
	case *ast.CallExpr:
		a.call(ctx, x, held, false)
	case *ast.UnaryExpr:
		if x.Op == token.ARROW {
			if sel, ok := x.X.(*ast.SelectorExpr); ok {
				if k, _ := a.fieldKey(sel); k != "" {
					a.record(ctx, sel, akRecv, held)
					a.expr(ctx, sel.X, held)
					return
				}
			}
		}
		if x.Op == token.AND {
			if sel, ok := x.X.(*ast.SelectorExpr); ok {
				if k, _ := a.fieldKey(sel); k != "" {
					a.record(ctx, sel, akAddr, held)
					a.expr(ctx, sel.X, held)
					return
				}
			}
		}
		a.expr(ctx, x.X, held)
	case *ast.BinaryExpr:
		a.expr(ctx, x.X, held)
		a.expr(ctx, x.Y, held)
	case *ast.ParenExpr:
		a.expr(ctx, x.X, held)
	case *ast.StarExpr:
		a.expr(ctx, x.X, held)
	case *ast.TypeAssertExpr:
		a.expr(ctx, x.X, held)
	case *ast.SliceExpr:
		a.expr(ctx, x.X, held)
		a.expr(ctx, x.Low, held)
		a.expr(ctx, x.High, held)
		a.expr(ctx, x.Max, held)
	case *ast.KeyValueExpr:
		a.expr(ctx, x.Value, held)
	case *ast.CompositeLit:
		for _, el := range x.Elts {
			a.expr(ctx, el, held)
		}
	case *ast.FuncLit:
		a.literal(ctx, x, lockset{}, "lit", false)
	}
}

func (a *analyzer) escape(f *types.Func) {
	if n := a.funcName(f); n != "" {
		if fi, ok := a.fns[n]; ok {
			fi.escapes = true
		} else {
			a.fns[n] = &fnInfo{name: n, escapes: true, exported: f.Exported()}
		}
	}
}

func terminates(s ast.Stmt) bool {
	switch x := s.(type) {
	case *ast.ReturnStmt:
		return true
	case *ast.BranchStmt:
		return x.Tok == token.BREAK || x.Tok == token.CONTINUE || x.Tok == token.GOTO
	case *ast.ExprStmt:
		if c, ok := x.X.(*ast.CallExpr); ok {
			if id, ok := c.Fun.(*ast.Ident); ok && id.Name == "panic" {
				return true
			}
		}
	}
	return false
}

func (a *analyzer) block(ctx *fnCtx, stmts []ast.Stmt, held lockset) (lockset, bool) {
	for _, s := range stmts {
		var term bool
		held, term = a.stmt(ctx, s, held)
		if term {
			return held, true
		}
	}
	return held, false
}

// isMutexNilGuard: if X.m != nil { Lock; defer Unlock }
func (a *analyzer) isMutexNilGuard(ifs *ast.IfStmt) bool {
	be, ok := ifs.Cond.(*ast.BinaryExpr)
	if !ok || be.Op != token.NEQ || ifs.Else != nil || ifs.Init != nil {
		return false
	}
	if id, ok := be.Y.(*ast.Ident); !ok || id.Name != "nil" {
		return false
	}
	return a.mutexKey(be.X) != ""
}

func (a *analyzer) markFresh(ctx *fnCtx, lhs ast.Expr, rhs ast.Expr) {
	id, ok := lhs.(*ast.Ident)
	if !ok {
		return
	}
	o := a.info.Defs[id]
	if o == nil {
		return
	}
	fresh := false
	switch r := rhs.(type) {
	case *ast.CompositeLit:
		fresh = true
	case *ast.UnaryExpr:
		if r.Op == token.AND {
			_, fresh = r.X.(*ast.CompositeLit)
		}
	case *ast.CallExpr:
		if f, ok := r.Fun.(*ast.Ident); ok && f.Name == "new" {
			fresh = true
		}
	}
	if fresh {
		ctx.fresh[o] = true
	}
}

func (a *analyzer) stmt(ctx *fnCtx, s ast.Stmt, held lockset) (lockset, bool) {
	switch x := s.(type) {
	case nil:
	case *ast.ExprStmt:
		if m, op := a.lockOp(x.X); m != "" {
			held = held.clone()
			switch op {
			case "Lock":
				held[m] = 2
				ctx.acq[m] = a.fset.Position(x.Pos()).Line
			case "RLock":
				held[m] = 1
				ctx.acq[m] = a.fset.Position(x.Pos()).Line
			default:
				delete(held, m)
				delete(ctx.sticky, m)
				// ctx.acq[m] stays: on the paths where m is still held (an early return released it on this one),
				// the critical section is the one opened by the last Lock statement seen
			}
			return held, false
		}
		a.expr(ctx, x.X, held)
		return held, terminates(s)
	case *ast.DeferStmt:
		if m, op := a.lockOp(x.Call); m != "" && (op == "Unlock" || op == "RUnlock") {
			if v, ok := held[m]; ok {
				ctx.sticky[m] = v
			}
			return held, false
		}
		if lit, ok := x.Call.Fun.(*ast.FuncLit); ok {
			for _, arg := range x.Call.Args {
				a.expr(ctx, arg, held)
			}
			a.literal(ctx, lit, ctx.sticky, "defer", false)
			return held, false
		}
		// a deferred call runs with the sticky locks
		if callee := a.calleeOf(x.Call.Fun); callee != "" {
			a.calls = append(a.calls, callSite{caller: ctx.name, callee: callee, held: ctx.sticky.clone()})
		}
		if f, ok := x.Call.Fun.(*ast.SelectorExpr); ok {
			a.expr(ctx, f.X, held)
		}
		for _, arg := range x.Call.Args {
			a.expr(ctx, arg, held)
		}
	case *ast.GoStmt:
		a.call(ctx, x.Call, held, true)
	case *ast.AssignStmt:
		for i, r := range x.Rhs {
			if lit, ok := r.(*ast.FuncLit); ok && x.Tok == token.DEFINE && len(x.Lhs) == len(x.Rhs) {
				if id, ok := x.Lhs[i].(*ast.Ident); ok && a.info.Defs[id] != nil {
					a.closures[a.info.Defs[id]] = a.literal(ctx, lit, lockset{}, "local", false)
					continue
				}
			}
			a.expr(ctx, r, held)
		}
		for i, l := range x.Lhs {
			a.lhs(ctx, l, held)
			if x.Tok == token.DEFINE && len(x.Lhs) == len(x.Rhs) {
				a.markFresh(ctx, l, x.Rhs[i])
			}
		}
	case *ast.DeclStmt:
		if gd, ok := x.Decl.(*ast.GenDecl); ok {
			for _, sp := range gd.Specs {
				if vs, ok := sp.(*ast.ValueSpec); ok {
					for _, v := range vs.Values {
						a.expr(ctx, v, held)
					}
					if len(vs.Values) == 0 {
						for _, id := range vs.Names {
							if o := a.info.Defs[id]; o != nil {
								if _, isStruct := o.Type().Underlying().(*types.Struct); isStruct {
									ctx.fresh[o] = true
								}
							}
						}
					}
				}
			}
		}
	case *ast.IncDecStmt:
		a.lhs(ctx, x.X, held)
	case *ast.SendStmt:
		if sel, ok := x.Chan.(*ast.SelectorExpr); ok {
			if k, _ := a.fieldKey(sel); k != "" {
				a.record(ctx, sel, akSend, held)
				a.expr(ctx, sel.X, held)
			} else {
				a.expr(ctx, x.Chan, held)
			}
		} else {
			a.expr(ctx, x.Chan, held)
		}
		a.expr(ctx, x.Value, held)
	case *ast.ReturnStmt:
		for _, r := range x.Results {
			a.expr(ctx, r, held)
		}
		return held, true
	case *ast.BranchStmt:
		return held, terminates(s)
	case *ast.BlockStmt:
		return a.block(ctx, x.List, held)
	case *ast.LabeledStmt:
		return a.stmt(ctx, x.Stmt, held)
	case *ast.IfStmt:
		if a.isMutexNilGuard(x) {
			h, _ := a.block(ctx, x.Body.List, held)
			return h, false
		}
		if x.Init != nil {
			held, _ = a.stmt(ctx, x.Init, held)
		}
		a.expr(ctx, x.Cond, held)
		h1, t1 := a.block(ctx, x.Body.List, held.clone())
		h2, t2 := held, false
		if x.Else != nil {
			h2, t2 = a.stmt(ctx, x.Else, held.clone())
		}
		switch {
		case t1 && t2:
			return held, true
		case t1:
			return h2, false
		case t2:
			return h1, false
		}
		return meet(h1, h2), false
	case *ast.ForStmt:
		if x.Init != nil {
			held, _ = a.stmt(ctx, x.Init, held)
		}
		a.expr(ctx, x.Cond, held)
		h, t := a.block(ctx, x.Body.List, held.clone())
		if x.Post != nil {
			a.stmt(ctx, x.Post, h)
		}
		if !t {
			held = meet(held, h)
		}
		return held, false
	case *ast.RangeStmt:
		if sel, ok := x.X.(*ast.SelectorExpr); ok {
			if k, v := a.fieldKey(sel); k != "" && isMapOrSlice(v.Type()) {
				a.record(ctx, sel, akElemRead, held)
				a.expr(ctx, sel.X, held)
			} else if k != "" {
				if _, isChan := v.Type().Underlying().(*types.Chan); isChan {
					a.record(ctx, sel, akRecv, held)
					a.expr(ctx, sel.X, held)
				} else {
					a.expr(ctx, x.X, held)
				}
			} else {
				a.expr(ctx, x.X, held)
			}
		} else {
			a.expr(ctx, x.X, held)
		}
		if x.Tok == token.ASSIGN {
			if x.Key != nil {
				a.lhs(ctx, x.Key, held)
			}
			if x.Value != nil {
				a.lhs(ctx, x.Value, held)
			}
		}
		h, t := a.block(ctx, x.Body.List, held.clone())
		if !t {
			held = meet(held, h)
		}
		return held, false
	case *ast.SwitchStmt:
		if x.Init != nil {
			held, _ = a.stmt(ctx, x.Init, held)
		}
		a.expr(ctx, x.Tag, held)
		return a.cases(ctx, x.Body, held, true), false
	case *ast.TypeSwitchStmt:
		if x.Init != nil {
			held, _ = a.stmt(ctx, x.Init, held)
		}
		a.stmt(ctx, x.Assign, held)
		return a.cases(ctx, x.Body, held, true), false
	case *ast.SelectStmt:
		return a.cases(ctx, x.Body, held, false), false
	}
	return held, false
}

func (a *analyzer) cases(ctx *fnCtx, body *ast.BlockStmt, held lockset, includeBefore bool) lockset {
	var out lockset
	hasDefault := false
	add := func(h lockset) {
		if out == nil {
			out = h.clone()
		} else {
			out = meet(out, h)
		}
	}
	for _, c := range body.List {
		var list []ast.Stmt
		h := held.clone()
		switch cc := c.(type) {
		case *ast.CaseClause:
			if cc.List == nil {
				hasDefault = true
			}
			for _, e := range cc.List {
				a.expr(ctx, e, held)
			}
			list = cc.Body
		case *ast.CommClause:
			if cc.Comm == nil {
				hasDefault = true
			} else {
				h, _ = a.stmt(ctx, cc.Comm, h)
			}
			list = cc.Body
		}
		h2, t := a.block(ctx, list, h)
		if !t {
			add(h2)
		}
	}
	if includeBefore && !hasDefault {
		add(held)
	}
	if out == nil {
		return held
	}
	return out
}

func (g *gen) accessTable() {
	fset := token.NewFileSet()
	build.Default.Dir = g.repo
	imp := importer.ForCompiler(fset, "source", nil)
	var rows []accRow
	var calls []callSite
	fns := map[string]*fnInfo{}
	spawnRoots := map[string]bool{}
	for _, dir := range accessPkgs {
		pkgs, err := parser.ParseDir(fset, filepath.Join(g.repo, dir), func(fi os.FileInfo) bool { return !strings.HasSuffix(fi.Name(), "_test.go") }, 0)
		if err != nil {
			g.fail("access: parse %s: %v", dir, err)
			return
		}
		for _, p := range pkgs {
			var files []*ast.File
			var names []string
			for n := range p.Files {
				names = append(names, n)
			}
			sort.Strings(names)
			for _, n := range names {
				files = append(files, p.Files[n])
			}
			nerr := 0
			conf := types.Config{Importer: imp, Error: func(err error) {
				nerr++
				if nerr <= 3 {
					fmt.Fprintln(os.Stderr, "extract: access: type error:", err)
				}
			}}
			info := &types.Info{Selections: map[*ast.SelectorExpr]*types.Selection{}, Uses: map[*ast.Ident]types.Object{}, Defs: map[*ast.Ident]types.Object{}, Types: map[ast.Expr]types.TypeAndValue{}}
			_, _ = conf.Check(modPath+dir, fset, files, info)
			if nerr > 0 {
				g.fail("access: %d type errors in %s", nerr, dir)
			}
			an := &analyzer{fset: fset, info: info, pkg: dir, fns: fns, repo: g.repo, closures: map[types.Object]string{}}
			for _, f := range files {
				for _, d := range f.Decls {
					fd, ok := d.(*ast.FuncDecl)
					if !ok || fd.Body == nil {
						continue
					}
					fo, _ := info.Defs[fd.Name].(*types.Func)
					name := an.funcName(fo)
					if name == "" {
						continue
					}
					if fi, ok := fns[name]; ok {
						fi.exported = fo.Exported()
					} else {
						fns[name] = &fnInfo{name: name, exported: fo.Exported()}
					}
					ctx := &fnCtx{name: name, fresh: map[types.Object]bool{}, sticky: lockset{}, acq: map[string]int{}}
					if fd.Recv != nil && len(fd.Recv.List) > 0 && len(fd.Recv.List[0].Names) > 0 {
						ctx.recv = info.Defs[fd.Recv.List[0].Names[0]]
					}
					an.block(ctx, fd.Body.List, lockset{})
				}
			}
			rows = append(rows, an.rows...)
			calls = append(calls, an.calls...)
		}
	}
	// entry locksets: exported / escaping / spawned functions start with nothing; helpers with the meet over their call sites
	entry := map[string]lockset{}
	top := map[string]bool{}
	hasSite := map[string]bool{}
	for _, c := range calls {
		hasSite[c.callee] = true
		if c.spawn {
			spawnRoots[c.callee] = true
		}
	}
	for n, fi := range fns {
		switch {
		case fi.literal && (fi.spawned || fi.escapes):
			entry[n] = lockset{}
		case fi.literal:
			top[n] = true // call / defer literal: locks of the enclosing point joined with the parent's entry (below)
		case fi.exported || fi.escapes || !hasSite[n] || spawnRoots[n]:
			entry[n] = lockset{}
		default:
			top[n] = true
		}
	}
	get := func(n string) (lockset, bool) {
		if top[n] {
			return nil, true
		}
		return entry[n], false
	}
	for iter := 0; iter < 50; iter++ {
		changed := false
		// literals (non spawned): entry = parent entry joined with the locks at the point of creation
		for n, fi := range fns {
			if !fi.literal || fi.spawned || fi.escapes {
				continue
			}
			pe, ptop := get(fi.parent)
			if ptop {
				continue
			}
			ne := join(pe, fi.deferred)
			if top[n] || !sameLockset(entry[n], ne) {
				entry[n] = ne
				delete(top, n)
				changed = true
			}
		}
		for n := range fns {
			fi := fns[n]
			if fi.literal || fi.exported || fi.escapes || !hasSite[n] || spawnRoots[n] {
				continue
			}
			var acc lockset
			accTop := true
			for _, c := range calls {
				if c.callee != n {
					continue
				}
				ce, ctop := get(c.caller)
				if ctop {
					continue
				}
				h := join(ce, c.held)
				if accTop {
					acc, accTop = h, false
				} else {
					acc = meet(acc, h)
				}
			}
			if accTop {
				continue
			}
			if top[n] || !sameLockset(entry[n], acc) {
				entry[n] = acc
				delete(top, n)
				changed = true
			}
		}
		if !changed {
			break
		}
	}
	for n := range top { // unreachable recursion: nothing known
		entry[n] = lockset{}
	}
	for i := range rows {
		rows[i].Locks = join(rows[i].Locks, entry[rows[i].Func])
	}
	// initialisation-only helpers: unexported, never used as a value, and every call is made on a value the
	// caller has just created (or on the receiver of another such helper): their accesses through the receiver
	// happen before the object is shared
	initOnly := map[string]bool{}
	for n, fi := range fns {
		if !fi.exported && !fi.escapes && hasSite[n] && !spawnRoots[n] && !(fi.literal && fi.spawned) {
			initOnly[n] = true
		}
	}
	for changed := true; changed; {
		changed = false
		for _, c := range calls {
			if !initOnly[c.callee] {
				continue
			}
			if c.fresh || (c.onRecv && initOnly[c.caller]) {
				continue
			}
			delete(initOnly, c.callee)
			changed = true
		}
	}
	for i := range rows {
		if rows[i].OnRecv && initOnly[rows[i].Func] {
			rows[i].Init = true
		}
	}
	sort.SliceStable(rows, func(i, j int) bool {
		if rows[i].Field != rows[j].Field {
			return rows[i].Field < rows[j].Field
		}
		if rows[i].Func != rows[j].Func {
			return rows[i].Func < rows[j].Func
		}
		return rows[i].Pos < rows[j].Pos
	})
	// merge identical rows (same field, function, kind, locks, init)
	var out []accRow
	seen := map[string]bool{}
	for _, r := range rows {
		k := fmt.Sprintf("%s|%s|%d|%s|%v", r.Field, r.Func, r.Kind, lockStr(r.Locks), r.Init)
		if seen[k] {
			continue
		}
		seen[k] = true
		out = append(out, r)
	}
	var sb strings.Builder
	sb.WriteString("(* GENERATED by tools/cmd/extract (go/types over internal/callbackqueue, ws, ocppj, ocpp1.6, ocpp2.0.1) -- do not edit *)\n")
	sb.WriteString("From Coq Require Import String List ZArith.\nImport ListNotations.\nOpen Scope string_scope.\n\n")
	sb.WriteString("(* (field, function, kind, locks held [(mutex, mode)], rooted at a value created in this function, position)\n")
	sb.WriteString("   kind: 0 read, 1 write, 2 channel send, 3 channel receive, 4 close, 5 element read, 6 element write, 7 address taken; mode: 1 shared, 2 exclusive *)\n")
	sb.WriteString("Definition access_table : list (string * string * Z * list (string * Z) * bool * string) := [\n")
	for i, r := range out {
		sep := ";"
		if i == len(out)-1 {
			sep = ""
		}
		fmt.Fprintf(&sb, "  (%q, %q, %d%%Z, %s, %v, %q)%s\n", r.Field, r.Func, r.Kind, lockStr(r.Locks), r.Init, r.Pos, sep)
	}
	sb.WriteString("].\n\n")
	// critical sections: for every access made with a lock held, where (line) in the same function that lock was taken
	sb.WriteString("(* (field, function, kind, [(mutex, mode, line of the Lock / RLock statement in this function; 0 = held on entry)]):\n   two accesses of one function with the same mutex and the same non-zero line are in the same critical section *)\n")
	sb.WriteString("Definition section_table : list (string * string * Z * list (string * Z * Z)) := [\n")
	var secs []string
	secSeen := map[string]bool{}
	for _, r := range rows {
		if len(r.Locks) == 0 {
			continue
		}
		var ms []string
		for m := range r.Locks {
			ms = append(ms, m)
		}
		sort.Strings(ms)
		var parts []string
		for _, m := range ms {
			parts = append(parts, fmt.Sprintf("(%q, %d%%Z, %d%%Z)", m, r.Locks[m], r.Acq[m]))
		}
		line := fmt.Sprintf("  (%q, %q, %d%%Z, [%s])", r.Field, r.Func, r.Kind, strings.Join(parts, "; "))
		if !secSeen[line] {
			secSeen[line] = true
			secs = append(secs, line)
		}
	}
	sb.WriteString(strings.Join(secs, ";\n"))
	sb.WriteString("\n].\n\n")
	sb.WriteString("(* synchronous call edges (caller, callee) between the analysed functions, closures included; `go` statements are not edges *)\nDefinition call_edges : list (string * string) := [\n")
	edgeSeen := map[string]bool{}
	var edges [][2]string
	for _, c := range calls {
		if c.spawn {
			continue
		}
		k := c.caller + "|" + c.callee
		if !edgeSeen[k] {
			edgeSeen[k] = true
			edges = append(edges, [2]string{c.caller, c.callee})
		}
	}
	sort.Slice(edges, func(i, j int) bool {
		if edges[i][0] != edges[j][0] {
			return edges[i][0] < edges[j][0]
		}
		return edges[i][1] < edges[j][1]
	})
	for i, e := range edges {
		sep := ";"
		if i == len(edges)-1 {
			sep = ""
		}
		fmt.Fprintf(&sb, "  (%q, %q)%s\n", e[0], e[1], sep)
	}
	sb.WriteString("].\n\n(* functions that are referenced as values (callbacks): callable from anywhere *)\nDefinition escaping_functions : list string := [\n")
	var esc []string
	for n, fi := range fns {
		if fi.escapes {
			esc = append(esc, n)
		}
	}
	sort.Strings(esc)
	for i, n := range esc {
		sep := ";"
		if i == len(esc)-1 {
			sep = ""
		}
		fmt.Fprintf(&sb, "  %q%s\n", n, sep)
	}
	sb.WriteString("].\n\n")
	sb.WriteString("(* functions started with `go` *)\nDefinition goroutine_roots : list string := [\n")
	var roots []string
	for n := range spawnRoots {
		roots = append(roots, n)
	}
	for n, fi := range fns {
		if fi.literal && fi.spawned {
			roots = append(roots, n)
		}
	}
	sort.Strings(roots)
	for i, n := range roots {
		sep := ";"
		if i == len(roots)-1 {
			sep = ""
		}
		fmt.Fprintf(&sb, "  %q%s\n", n, sep)
	}
	sb.WriteString("].\n")
	g.writeIfChanged("AccessTable.v", sb.String())
	g.params["access_rows"] = len(out)
	g.params["access_goroutine_roots"] = len(roots)
}

func sameLockset(a, b lockset) bool {
	if len(a) != len(b) {
		return false
	}
	for k, v := range a {
		if b[k] != v {
			return false
		}
	}
	return true
}

func lockStr(l lockset) string {
	var ks []string
	for k := range l {
		ks = append(ks, k)
	}
	sort.Strings(ks)
	parts := make([]string, len(ks))
	for i, k := range ks {
		parts[i] = fmt.Sprintf("(%q, %d%%Z)", k, l[k])
	}
	return "[" + strings.Join(parts, "; ") + "]"
}
