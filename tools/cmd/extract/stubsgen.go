package main

// Generates tools/internal/stubs/gen_stubs.go: handler stubs for every handler interface of the four
// endpoint roles (from the Set...Handler methods of the endpoint interfaces and the handler interface
// declarations), and gen_enums.go: the accepted value sets of the enum validators (for payload generation).

import (
	"fmt"
	"go/ast"
	"os"
	"path/filepath"
	"sort"
	"strings"
)

type stubRole struct {
	id, rel, file, iface, epType, epPkgAlias string
}

func (g *gen) findInterface(p *pkgIndex, name string) *ast.InterfaceType {
	for _, f := range p.files {
		for _, d := range f.Decls {
			gd, ok := d.(*ast.GenDecl)
			if !ok {
				continue
			}
			for _, s := range gd.Specs {
				ts, ok := s.(*ast.TypeSpec)
				if ok && ts.Name.Name == name {
					if it, ok := ts.Type.(*ast.InterfaceType); ok {
						return it
					}
				}
			}
		}
	}
	return nil
}

func qualify(e ast.Expr, alias string) string {
	switch e := e.(type) {
	case *ast.StarExpr:
		return "*" + qualify(e.X, alias)
	case *ast.Ident:
		if e.Name != "" && e.Name[0] >= 'A' && e.Name[0] <= 'Z' {
			return alias + "." + e.Name
		}
		return e.Name
	case *ast.SelectorExpr:
		return exprString(e)
	}
	return exprString(e)
}

func (g *gen) stubs(ix *astIndex, outDir string) {
	roles := []stubRole{
		{"16CP", "ocpp1.6", "v16.go", "ChargePoint", "ocpp16.ChargePoint", "ocpp16"},
		{"16CS", "ocpp1.6", "v16.go", "CentralSystem", "ocpp16.CentralSystem", "ocpp16"},
		{"201CS", "ocpp2.0.1", "v2.go", "ChargingStation", "ocpp2.ChargingStation", "ocpp2"},
		{"201CSMS", "ocpp2.0.1", "v2.go", "CSMS", "ocpp2.CSMS", "ocpp2"},
	}
	imports := map[string]string{} // alias -> path
	var body strings.Builder
	for ri, r := range roles {
		p := ix.pkgs[r.rel]
		it := g.findInterface(p, r.iface)
		if it == nil {
			g.fail("stubs: interface %s not found", r.iface)
			continue
		}
		var f *ast.File
		for _, ff := range p.files {
			if filepath.Base(ix.fset.Position(ff.Pos()).Filename) == r.file {
				f = ff
			}
		}
		fimports := g.importsOf(f)
		var installs []string
		var setterRows []string
		for _, m := range it.Methods.List {
			if len(m.Names) == 0 {
				continue
			}
			name := m.Names[0].Name
			if !strings.HasPrefix(name, "Set") || !strings.HasSuffix(name, "Handler") {
				continue
			}
			ft := m.Type.(*ast.FuncType)
			if len(ft.Params.List) != 1 {
				continue
			}
			sel, ok := ft.Params.List[0].Type.(*ast.SelectorExpr)
			if !ok {
				continue
			}
			pkgLocal := sel.X.(*ast.Ident).Name
			rel, ok := fimports[pkgLocal]
			if !ok || !strings.HasSuffix(sel.Sel.Name, "Handler") || pkgLocal == "ws" {
				continue
			}
			hp := ix.pkgs[rel]
			if hp == nil {
				continue
			}
			hit := g.findInterface(hp, sel.Sel.Name)
			if hit == nil {
				continue
			}
			alias := "p" + strings.NewReplacer("/", "_", ".", "").Replace(rel)
			imports[alias] = "github.com/lorenzodonini/ocpp-go/" + rel
			tname := fmt.Sprintf("stub%s_%s", r.id, alias)
			body.WriteString(fmt.Sprintf("type %s struct{ rec *Recorder }\n\n", tname))
			for _, hm := range hit.Methods.List {
				if len(hm.Names) == 0 {
					continue
				}
				hft := hm.Type.(*ast.FuncType)
				var params, args []string
				reqArg, cidArg := "nil", "\"\""
				k := 0
				for _, pf := range hft.Params.List {
					n := len(pf.Names)
					if n == 0 {
						n = 1
					}
					for j := 0; j < n; j++ {
						an := fmt.Sprintf("a%d", k)
						k++
						ts := qualify(pf.Type, alias)
						params = append(params, an+" "+ts)
						args = append(args, an)
						if strings.HasPrefix(ts, "*") {
							reqArg = an
						} else if ts == "string" {
							cidArg = an
						}
					}
				}
				if strings.HasPrefix(reqArg, "a") {
					for _, pp := range params {
						if strings.Contains(pp, "*") {
							setterRows = append(setterRows, fmt.Sprintf("\t\t%q: %q,\n", strings.TrimPrefix(pp[strings.IndexByte(pp, '*'):], "*"), name))
						}
					}
				}
				resType := "ocpp.Response"
				if hft.Results != nil && len(hft.Results.List) > 0 {
					resType = qualify(hft.Results.List[0].Type, alias)
				}
				body.WriteString(fmt.Sprintf("func (s *%s) %s(%s) (%s, error) {\n\tr, e := s.rec.Handle(%d, %s, %q, %s)\n\tif r == nil {\n\t\treturn nil, e\n\t}\n\treturn r.(%s), e\n}\n\n",
					tname, hm.Names[0].Name, strings.Join(params, ", "), resType, ri, cidArg, hm.Names[0].Name, reqArg, resType))
			}
			installs = append(installs, fmt.Sprintf("\tif !skip[%q] {\n\t\tep.%s(&%s{rec})\n\t}\n", name, name, tname))
		}
		body.WriteString(fmt.Sprintf("// Install%s registers a recording stub for every handler interface of the role, except the setters named in skip.\nfunc Install%s(ep %s, rec *Recorder, skip map[string]bool) {\n%s}\n\n", r.id, r.id, r.epType, strings.Join(installs, "")))
		body.WriteString(fmt.Sprintf("var handlerSetter%s = map[string]string{\n%s}\n\n", r.id, strings.Join(setterRows, "")))
		body.WriteString(fmt.Sprintf("var setters%s = []string{", r.id))
		for _, ins := range installs {
			k := strings.Index(ins, "skip[\"")
			name := ins[k+6:]
			name = name[:strings.IndexByte(name, '"')]
			body.WriteString(fmt.Sprintf("%q, ", name))
		}
		body.WriteString("}\n\n")
	}
	body.WriteString("// HandlerSetter: request type (generated import alias + type name) -> the setter whose handler interface has a method taking it.\nfunc HandlerSetter(role int) map[string]string {\n\tswitch role {\n\tcase 0:\n\t\treturn handlerSetter16CP\n\tcase 1:\n\t\treturn handlerSetter16CS\n\tcase 2:\n\t\treturn handlerSetter201CS\n\t}\n\treturn handlerSetter201CSMS\n}\n\n")
	body.WriteString("// Setters lists the handler setters of a role (0 cp16, 1 cs16, 2 cs201, 3 csms201).\nfunc Setters(role int) []string {\n\tswitch role {\n\tcase 0:\n\t\treturn setters16CP\n\tcase 1:\n\t\treturn setters16CS\n\tcase 2:\n\t\treturn setters201CS\n\t}\n\treturn setters201CSMS\n}\n")
	var hdr strings.Builder
	hdr.WriteString("// Code generated by verif/tools/cmd/extract from the handler interfaces of the current /repo tree. DO NOT EDIT.\n\npackage stubs\n\nimport (\n")
	hdr.WriteString("\t\"github.com/lorenzodonini/ocpp-go/ocpp\"\n\tocpp16 \"github.com/lorenzodonini/ocpp-go/ocpp1.6\"\n\tocpp2 \"github.com/lorenzodonini/ocpp-go/ocpp2.0.1\"\n")
	var al []string
	for a := range imports {
		al = append(al, a)
	}
	sort.Strings(al)
	for _, a := range al {
		hdr.WriteString(fmt.Sprintf("\t%s %q\n", a, imports[a]))
	}
	hdr.WriteString(")\n\nvar _ ocpp.Response\n\n")
	writeIfChangedPath(filepath.Join(outDir, "gen_stubs.go"), hdr.String()+body.String())

	// enum accepted sets
	var eb strings.Builder
	eb.WriteString("// Code generated by verif/tools/cmd/extract. DO NOT EDIT.\n\npackage stubs\n\n// accepted values of the registered enum validators, read from their isValid switches\nvar enumTags = map[string][]string{\n")
	regs := g.registrations(ix)
	seen := map[string]bool{}
	var declAll []string
	declByTag := map[string][]string{}
	for _, r := range regs {
		if seen[r.tag] {
			continue
		}
		seen[r.tag] = true
		vals, _, declared, ok, use := g.enumRow(ix, r)
		if !ok || !use {
			continue
		}
		declAll = append(declAll, declared...)
		declByTag[r.tag] = declared
		eb.WriteString(fmt.Sprintf("\t%q: {", r.tag))
		for i, v := range vals {
			if i > 0 {
				eb.WriteString(", ")
			}
			eb.WriteString(fmt.Sprintf("%q", v))
		}
		eb.WriteString("},\n")
	}
	eb.WriteString("}\n\n// every declared (exported) constant value of the enumeration types\nvar enumDeclared = []string{")
	sort.Strings(declAll)
	for i, v := range declAll {
		if i > 0 && declAll[i-1] == v {
			continue
		}
		eb.WriteString(fmt.Sprintf("%q, ", v))
	}
	eb.WriteString("}\n\n// declared constants of the enumeration type validated under each tag\nvar enumDeclaredByTag = map[string][]string{\n")
	var tnames []string
	for t := range declByTag {
		tnames = append(tnames, t)
	}
	sort.Strings(tnames)
	for _, t := range tnames {
		eb.WriteString(fmt.Sprintf("\t%q: {", t))
		for i, v := range declByTag[t] {
			if i > 0 {
				eb.WriteString(", ")
			}
			eb.WriteString(fmt.Sprintf("%q", v))
		}
		eb.WriteString("},\n")
	}
	eb.WriteString("}\n")
	writeIfChangedPath(filepath.Join(outDir, "gen_enums.go"), eb.String())
}

func writeIfChangedPath(p string, data string) {
	old, err := os.ReadFile(p)
	if err == nil && string(old) == data {
		return
	}
	_ = os.MkdirAll(filepath.Dir(p), 0o755)
	_ = os.WriteFile(p, []byte(data), 0o644)
}
