package main

// C17: the websocket client reconnects until stopped; dead peers are detected (entry c17).
// A raw gorilla server on loopback parks every incoming dial until the scenario decides whether it fails or succeeds, so
// that the label sequences of M3/Reconnect.v are reproduced exactly; keep-alive scenarios run in real time (monitor).

import (
	"fmt"
	"math/rand"
	"net"
	"net/http"
	"sync"
	"time"

	"github.com/gorilla/websocket"
	"github.com/lorenzodonini/ocpp-go/ws"
)

type parked struct {
	w    http.ResponseWriter
	r    *http.Request
	done chan bool // true: complete the handshake, false: fail it
}

type rawSrv struct {
	ln      net.Listener
	port    int
	mu      sync.Mutex
	parkedC chan *parked
	conn    *websocket.Conn
	pong    bool
	pings   int
	dials   int
	srv     *http.Server
}

func startRaw() *rawSrv {
	ln, err := net.Listen("tcp", "127.0.0.1:0")
	if err != nil {
		panic(err)
	}
	s := &rawSrv{ln: ln, port: ln.Addr().(*net.TCPAddr).Port, parkedC: make(chan *parked, 16), pong: true}
	up := websocket.Upgrader{Subprotocols: []string{"ocpp1.6"}, CheckOrigin: func(*http.Request) bool { return true }}
	mux := http.NewServeMux()
	mux.HandleFunc("/", func(w http.ResponseWriter, r *http.Request) {
		p := &parked{w, r, make(chan bool, 1)}
		s.mu.Lock()
		s.dials++
		s.mu.Unlock()
		s.parkedC <- p
		ok := <-p.done
		if !ok {
			// fail the dial: drop the TCP connection without an HTTP answer
			if hj, okh := w.(http.Hijacker); okh {
				c, _, _ := hj.Hijack()
				if c != nil {
					_ = c.Close()
				}
			}
			return
		}
		c, err := up.Upgrade(w, r, nil)
		if err != nil {
			return
		}
		c.SetPingHandler(func(data string) error {
			s.mu.Lock()
			s.pings++
			answer := s.pong
			s.mu.Unlock()
			if answer {
				return c.WriteControl(websocket.PongMessage, []byte(data), time.Now().Add(time.Second))
			}
			return nil
		})
		s.mu.Lock()
		s.conn = c
		s.mu.Unlock()
		for {
			if _, _, err := c.ReadMessage(); err != nil {
				return
			}
		}
	})
	s.srv = &http.Server{Handler: mux}
	go s.srv.Serve(ln)
	return s
}

func (s *rawSrv) stop() {
	_ = s.srv.Close()
	for {
		select {
		case p := <-s.parkedC:
			p.done <- false
		default:
			return
		}
	}
}

// next parked dial, or nil after the wait
func (s *rawSrv) nextDial(wait time.Duration) *parked {
	select {
	case p := <-s.parkedC:
		return p
	case <-time.After(wait):
		return nil
	}
}

type c17Client struct {
	c   ws.Client
	mu  sync.Mutex
	ev  []int64
	url string
}

func newC17Client(port int, minMs int64, ping, pong time.Duration) *c17Client {
	cl := &c17Client{c: ws.NewClient(), url: fmt.Sprintf("ws://127.0.0.1:%d/ws/cp1", port)}
	cfg := ws.NewClientTimeoutConfig()
	cfg.HandshakeTimeout = 4 * time.Second
	cfg.WriteWait = time.Second
	cfg.PingPeriod = ping
	cfg.PongWait = pong
	cfg.RetryBackOffWaitMinimum = time.Duration(minMs) * time.Millisecond
	cfg.RetryBackOffRandomRange = 0
	cfg.RetryBackOffRepeatTimes = 2
	cl.c.SetTimeoutConfig(cfg)
	cl.c.SetRequestedSubProtocol("ocpp1.6")
	cl.c.SetDisconnectedHandler(func(err error) {
		cl.mu.Lock()
		if err != nil {
			cl.ev = append(cl.ev, 1)
		} else {
			cl.ev = append(cl.ev, 2)
		}
		cl.mu.Unlock()
	})
	cl.c.SetReconnectedHandler(func() {
		cl.mu.Lock()
		cl.ev = append(cl.ev, 3)
		cl.mu.Unlock()
	})
	return cl
}

func c17Eval(in []int64) []int64 {
	if len(in) < 3 {
		return []int64{-1}
	}
	minMs := in[0]
	labs := in[3:]
	srv := startRaw()
	defer srv.stop()
	cl := newC17Client(srv.port, minMs, 0, 0)
	dialWait := time.Duration(minMs*6+400) * time.Millisecond
	var pending *parked // a dial in flight that the scenario has not decided yet
	dialsDecided := 0
	for _, l := range labs {
		switch l {
		case 1: // start: the first dial succeeds
			done := make(chan error, 1)
			go func() { done <- cl.c.Start(cl.url) }()
			if p := srv.nextDial(2 * time.Second); p != nil {
				p.done <- true
			}
			select {
			case <-done:
			case <-time.After(3 * time.Second):
				return []int64{-8}
			}
			time.Sleep(5 * time.Millisecond)
		case 2, 6, 7: // lose the connection: abruptly (2), or the server ends it with a close frame 1000 (6) / 1001 (7)
			srv.mu.Lock()
			c := srv.conn
			srv.conn = nil
			srv.mu.Unlock()
			if c != nil && cl.c.IsConnected() {
				if l == 2 {
					if tc, ok := c.UnderlyingConn().(*net.TCPConn); ok {
						_ = tc.SetLinger(0)
					}
				} else {
					code := websocket.CloseNormalClosure
					if l == 7 {
						code = websocket.CloseGoingAway
					}
					_ = c.WriteControl(websocket.CloseMessage, websocket.FormatCloseMessage(code, ""), time.Now().Add(time.Second))
					time.Sleep(5 * time.Millisecond)
				}
				_ = c.Close()
				// the client notices, waits its back-off and dials: the dial is parked
				if pending == nil {
					pending = srv.nextDial(dialWait)
				}
			}
		case 3, 4:
			if pending == nil {
				pending = srv.nextDial(dialWait)
			}
			if pending != nil {
				pending.done <- (l == 4)
				pending = nil
				dialsDecided++
				if l == 3 {
					// after a failed dial the loop waits and dials again, unless aborted
					pending = srv.nextDial(dialWait)
				} else {
					time.Sleep(10 * time.Millisecond)
				}
			}
		case 5:
			done := make(chan struct{})
			go func() { cl.c.Stop(); close(done) }()
			select {
			case <-done:
			case <-time.After(3 * time.Second):
				return []int64{-8}
			}
			time.Sleep(10 * time.Millisecond)
		}
	}
	// final phase: connected (1), a dial in flight (2), idle (0)
	final := int64(0)
	if cl.c.IsConnected() {
		final = 1
	} else {
		if pending == nil {
			pending = srv.nextDial(dialWait)
		}
		if pending != nil {
			final = 2
		}
	}
	cl.mu.Lock()
	out := append([]int64(nil), cl.ev...)
	cl.mu.Unlock()
	out = append(out, -2, int64(dialsDecided), final)
	if pending != nil {
		pending.done <- false
	}
	go cl.c.Stop()
	time.Sleep(5 * time.Millisecond)
	return out
}

// real-time keep-alive scenarios: 0 dead peer (stops answering pings), 1 healthy idle, 2 server-side: silent client, 3 server-side: pinging client,
// 4 server with its own pings: client never answers, 5 server with its own pings: client answers
func c17KeepAlive(kind int) (string, string) {
	switch kind {
	case 0, 1:
		srv := startRaw()
		defer srv.stop()
		cl := newC17Client(srv.port, 40, 100*time.Millisecond, 450*time.Millisecond)
		go func() {
			for {
				p := srv.nextDial(5 * time.Second)
				if p == nil {
					return
				}
				p.done <- true
			}
		}()
		if err := cl.c.Start(cl.url); err != nil {
			return "C17-setup", err.Error()
		}
		defer cl.c.Stop()
		time.Sleep(350 * time.Millisecond)
		if !cl.c.IsConnected() {
			return "C17-healthy-connection-dropped", "dropped while pongs were answered"
		}
		if kind == 1 {
			time.Sleep(1200 * time.Millisecond)
			cl.mu.Lock()
			n := len(cl.ev)
			cl.mu.Unlock()
			if !cl.c.IsConnected() || n != 0 {
				return "C17-healthy-connection-dropped", fmt.Sprintf("healthy idle connection: connected=%v handler events=%d", cl.c.IsConnected(), n)
			}
			return "", ""
		}
		srv.mu.Lock()
		srv.pong = false
		srv.mu.Unlock()
		t0 := time.Now()
		for time.Since(t0) < 3*time.Second {
			cl.mu.Lock()
			n := len(cl.ev)
			cl.mu.Unlock()
			if n > 0 {
				break
			}
			time.Sleep(5 * time.Millisecond)
		}
		el := time.Since(t0)
		cl.mu.Lock()
		ev := append([]int64(nil), cl.ev...)
		cl.mu.Unlock()
		if len(ev) == 0 || ev[0] != 1 {
			return "C17-dead-peer-not-detected", fmt.Sprintf("peer stopped answering pings; after %v the client still reports connected=%v, events %v", el, cl.c.IsConnected(), ev)
		}
		if el > 1200*time.Millisecond {
			return "C17-dead-peer-detected-late", fmt.Sprintf("detected after %v with PongWait 450ms", el)
		}
		// and it reconnects
		srv.mu.Lock()
		srv.pong = true
		srv.mu.Unlock()
		for i := 0; i < 400 && !cl.c.IsConnected(); i++ {
			time.Sleep(5 * time.Millisecond)
		}
		if !cl.c.IsConnected() {
			return "C17-no-reconnect-after-dead-peer", "not reconnected 2 s after the dead peer was detected"
		}
		return "", ""
	case 4, 5:
		// server that sends pings itself (PingPeriod 100ms, PongWait 400ms) and keeps the default PingWait (1 min):
		// 4: a client that stops reading (never answers a ping) is dropped by PongWait; 5: one that answers is kept
		s := ws.NewServer()
		tc := ws.NewServerTimeoutConfig()
		tc.PingPeriod = 100 * time.Millisecond
		tc.PongWait = 400 * time.Millisecond
		s.SetTimeoutConfig(tc)
		var mu sync.Mutex
		gone := 0
		s.SetDisconnectedClientHandler(func(c ws.Channel) { mu.Lock(); gone++; mu.Unlock() })
		s.SetMessageHandler(func(c ws.Channel, d []byte) error { return nil })
		go s.Start(0, "/ws/{id}")
		for i := 0; i < 4000 && s.Addr() == nil; i++ {
			time.Sleep(250 * time.Microsecond)
		}
		defer s.Stop()
		d := websocket.Dialer{Subprotocols: []string{"ocpp1.6"}}
		c, _, err := d.Dial(fmt.Sprintf("ws://127.0.0.1:%d/ws/k1", s.Addr().Port), nil)
		if err != nil {
			return "C17-setup", err.Error()
		}
		defer c.Close()
		if kind == 5 {
			go func() {
				for {
					if _, _, err := c.ReadMessage(); err != nil { // gorilla answers pings while reading
						return
					}
				}
			}()
			time.Sleep(1300 * time.Millisecond)
			mu.Lock()
			g := gone
			mu.Unlock()
			if g != 0 {
				return "C17-healthy-connection-dropped", "server with own pings dropped a client that answers every ping"
			}
			return "", ""
		}
		t0 := time.Now()
		for time.Since(t0) < 3*time.Second {
			mu.Lock()
			g := gone
			mu.Unlock()
			if g > 0 {
				break
			}
			time.Sleep(5 * time.Millisecond)
		}
		el := time.Since(t0)
		mu.Lock()
		g := gone
		mu.Unlock()
		if g != 1 {
			return "C17-dead-peer-not-detected", fmt.Sprintf("client never answers the server's pings: %d disconnected callbacks after %v (PongWait 400ms)", g, el)
		}
		if el > 1200*time.Millisecond {
			return "C17-dead-peer-detected-late", fmt.Sprintf("detected after %v with PongWait 400ms", el)
		}
		return "", ""
	default:
		s := ws.NewServer()
		tc := ws.NewServerTimeoutConfig()
		tc.PingWait = 300 * time.Millisecond
		s.SetTimeoutConfig(tc)
		var mu sync.Mutex
		gone := 0
		s.SetDisconnectedClientHandler(func(c ws.Channel) { mu.Lock(); gone++; mu.Unlock() })
		s.SetMessageHandler(func(c ws.Channel, d []byte) error { return nil })
		go s.Start(0, "/ws/{id}")
		for i := 0; i < 4000 && s.Addr() == nil; i++ {
			time.Sleep(250 * time.Microsecond)
		}
		defer s.Stop()
		d := websocket.Dialer{Subprotocols: []string{"ocpp1.6"}}
		c, _, err := d.Dial(fmt.Sprintf("ws://127.0.0.1:%d/ws/k1", s.Addr().Port), nil)
		if err != nil {
			return "C17-setup", err.Error()
		}
		defer c.Close()
		go func() {
			for {
				if _, _, err := c.ReadMessage(); err != nil {
					return
				}
			}
		}()
		if kind == 3 {
			for i := 0; i < 10; i++ {
				_ = c.WriteControl(websocket.PingMessage, []byte("p"), time.Now().Add(time.Second))
				time.Sleep(100 * time.Millisecond)
			}
			mu.Lock()
			g := gone
			mu.Unlock()
			if g != 0 {
				return "C17-healthy-connection-dropped", "server dropped a client that pings every 100ms (PingWait 300ms)"
			}
			return "", ""
		}
		time.Sleep(900 * time.Millisecond)
		mu.Lock()
		g := gone
		mu.Unlock()
		if g != 1 {
			return "C17-dead-peer-not-detected", fmt.Sprintf("silent client: %d disconnected callbacks after 900ms with PingWait 300ms", g)
		}
		return "", ""
	}
}

// after the last Stop (with no Start since) the client must not be connected at the end of the history
func c17Monitor(in []int64) func(obs []int64) (string, string) {
	return func(obs []int64) (string, string) {
		labs := in[3:]
		lastStop := -1
		for i, l := range labs {
			if l == 5 {
				lastStop = i
			} else if l == 1 {
				lastStop = -1
			}
		}
		if lastStop >= 0 && len(obs) >= 1 && obs[len(obs)-1] == 1 {
			return "C17-reconnected-after-stop", fmt.Sprintf("labels %v: Stop was called (no Start since) and the client is connected at the end", labs)
		}
		return "", ""
	}
}

func c17Gen(cfg config, emit func(Case)) {
	rng := rand.New(rand.NewSource(cfg.seed + 17))
	corpus := [][]int64{
		{30, 0, 2, 1, 2, 4},             // loss, first retry succeeds
		{30, 0, 2, 1, 2, 3, 3, 3, 3, 4}, // four failed retries, then success
		{30, 0, 2, 1, 5, 1, 2, 4},       // stopped and started again earlier, then a loss (F7)
		{30, 0, 2, 1, 2, 3, 5, 3},       // stop while a dial is in flight; it fails
		{30, 0, 2, 1, 2, 5, 4},          // stop while a dial is in flight; it succeeds (F26)
		{30, 0, 2, 1, 2, 4, 2, 3, 4, 5},
		{30, 0, 2, 1, 6, 4},    // the server ends the connection with a normal-closure frame: the client reconnects
		{30, 0, 2, 1, 7, 3, 4}, // ... with a going-away frame
		{30, 0, 2, 1, 6, 4, 5, 1, 6, 4},
	}
	for _, c := range corpus {
		emit(Case{Class: "corpus", Input: c, Comment: "corpus", Check: c17Monitor(c)})
	}
	n := 10
	if cfg.thorough {
		n = 150
	}
	for i := 0; i < n; i++ {
		in := []int64{30, 0, 2, 1}
		k := 2 + rng.Intn(7)
		// the generator follows the phases of the reconnection machine so that Start is only issued when the client is idle
		// (a Start while an earlier reconnection dial is still in flight is outside the model)
		phase, token, halted := 1, false, false // 0 idle, 1 up, 2 dial in flight
		for j := 0; j < k; j++ {
			l := []int64{2, 3, 3, 4, 4, 5, 1, 6, 7}[rng.Intn(9)]
			if l == 1 && phase != 0 {
				l = 2
			}
			switch l {
			case 1:
				phase, token, halted = 1, false, false
			case 2, 6, 7:
				if phase == 1 {
					if token {
						phase, token = 0, false
					} else {
						phase = 2
					}
				}
			case 3:
				if phase == 2 && token {
					phase, token = 0, false
				}
			case 4:
				if phase == 2 {
					if halted {
						phase = 0
					} else {
						phase = 1
					}
				}
			case 5:
				if phase == 1 {
					phase = 0
				}
				token, halted = !token, true
			}
			in = append(in, l)
		}
		cc := append([]int64(nil), in...)
		emit(Case{Class: "sequence", Input: cc, Check: c17Monitor(cc)})
	}
}

func c17kGen(cfg config, emit func(Case)) {
	for kind := 0; kind < 6; kind++ {
		k, d := c17KeepAlive(kind)
		emit(Case{Class: fmt.Sprintf("keepalive%d", kind), Input: []int64{30, 0, 2}, Obs: []int64{-2, 0, 0}, Comment: fmt.Sprintf("keep-alive scenario %d", kind),
			Check: func([]int64) (string, string) { return k, d }})
	}
}

func init() {
	properties["c17"] = []*Entry{{Name: "c17", Eval: c17Eval, Gen: c17Gen, Isolated: true, Workers: 6},
		{Name: "c17k", Eval: func(in []int64) []int64 { return nil }, Gen: c17kGen}}
}
