package main

// C19: concurrent workloads on the real stack over loopback sockets, meant to be run in the
// race-instrumented build of this harness (the race detector's reports are collected by bin/check from
// the GORACE log files; what an entry returns only says whether the scenario ran to its end).
//
// input: [scenario, seed, size]
//   0 full stack ocpp1.6: central system + charge points, concurrent senders on both sides, forced
//     disconnections with automatic reconnection, short request timeouts, Stop while traffic is in flight
//   1 the same on ocpp2.0.1
//   2 ws layer: the peer keeps pinging while the server closes the connection
//   3 ws layer: concurrent writers on both sides while either side closes
//   4 ws client Stop while the reconnection goroutine is dialling, the dial then fails (finding F17)
//   5 SendRequest racing Stop on a charge point (finding F10; evaluated for C16)
//   6 concurrent senders on a charge point whose connection keeps being dropped (finding F30; evaluated for C07)
// output: [1, callbacks seen] when the scenario ended; [-7] the process died (panic in a library goroutine); [-8] hung

import (
	"fmt"
	"math/rand"
	"net"
	"net/http"
	"strings"
	"sync"
	"sync/atomic"
	"time"

	"github.com/gorilla/websocket"
	"github.com/lorenzodonini/ocpp-go/ocpp"
	ocpp16 "github.com/lorenzodonini/ocpp-go/ocpp1.6"
	core16 "github.com/lorenzodonini/ocpp-go/ocpp1.6/core"
	ocpp2 "github.com/lorenzodonini/ocpp-go/ocpp2.0.1"
	data2 "github.com/lorenzodonini/ocpp-go/ocpp2.0.1/data"
	"github.com/lorenzodonini/ocpp-go/ocppj"
	"github.com/lorenzodonini/ocpp-go/ws"

	"verif/tools/internal/profiles"
	"verif/tools/internal/stubs"
)

func c19WaitAddr(s ws.Server) int {
	for i := 0; i < 8000 && s.Addr() == nil; i++ {
		time.Sleep(250 * time.Microsecond)
	}
	if s.Addr() == nil {
		return 0
	}
	return s.Addr().Port
}

func c19ClientCfg() ws.ClientTimeoutConfig {
	cfg := ws.NewClientTimeoutConfig()
	cfg.RetryBackOffWaitMinimum = 5 * time.Millisecond
	cfg.RetryBackOffRandomRange = 0
	cfg.RetryBackOffRepeatTimes = 2
	cfg.PingPeriod = 20 * time.Millisecond
	cfg.PongWait = 2 * time.Second
	cfg.HandshakeTimeout = 2 * time.Second
	return cfg
}

type c19Sender interface {
	SendRequestAsync(request ocpp.Request, callback func(confirmation ocpp.Response, err error)) error
}

// c19Stack: one server endpoint, k client endpoints, g sender goroutines per endpoint and direction.
func c19Stack(v2 bool, seed int64, size int) []int64 {
	rng := rand.New(rand.NewSource(seed))
	k, g, rounds := 3, 3, 6+size
	var cbs int64
	rec := &stubs.Recorder{Outcome: stubs.OutValid, Seed: seed}
	wsSrv := ws.NewServer()
	scfg := ws.NewServerTimeoutConfig()
	scfg.PingWait = 2 * time.Second
	wsSrv.SetTimeoutConfig(scfg)
	sdisp := ocppj.NewDefaultServerDispatcher(ocppj.NewFIFOQueueMap(4))
	sdisp.SetTimeout(30 * time.Millisecond)
	var sendTo func(id string, i int, cb func(ocpp.Response, error)) error
	var stopServer func()
	var profs []*ocpp.Profile
	if !v2 {
		profs = profiles.V16()
		srv := ocppj.NewServer(wsSrv, sdisp, nil, profs...)
		cs := ocpp16.NewCentralSystem(srv, wsSrv)
		stubs.Install16CS(cs, rec, nil)
		cs.SetNewChargePointHandler(func(cp ocpp16.ChargePointConnection) { _ = cp.RemoteAddr() })
		cs.SetChargePointDisconnectedHandler(func(cp ocpp16.ChargePointConnection) { _ = cp.RemoteAddr() })
		go cs.Start(0, "/{ws}")
		sendTo = func(id string, i int, cb func(ocpp.Response, error)) error {
			return cs.SendRequestAsync(id, core16.NewDataTransferRequest(fmt.Sprintf("v%d", i)), cb)
		}
		stopServer = cs.Stop
	} else {
		profs = profiles.V201()
		srv := ocppj.NewServer(wsSrv, sdisp, nil, profs...)
		cs := ocpp2.NewCSMS(srv, wsSrv)
		stubs.Install201CSMS(cs, rec, nil)
		cs.SetNewChargingStationHandler(func(cp ocpp2.ChargingStationConnection) { _ = cp.RemoteAddr() })
		cs.SetChargingStationDisconnectedHandler(func(cp ocpp2.ChargingStationConnection) { _ = cp.RemoteAddr() })
		go cs.Start(0, "/{ws}")
		sendTo = func(id string, i int, cb func(ocpp.Response, error)) error {
			return cs.SendRequestAsync(id, data2.NewDataTransferRequest(fmt.Sprintf("v%d", i)), cb)
		}
		stopServer = cs.Stop
	}
	port := c19WaitAddr(wsSrv)
	if port == 0 {
		return []int64{-3}
	}
	type cli struct {
		id   string
		send c19Sender
		stop func()
		conn func() bool
	}
	var clis []cli
	for c := 0; c < k; c++ {
		id := fmt.Sprintf("cp%d", c)
		wc := ws.NewClient()
		wc.SetTimeoutConfig(c19ClientCfg())
		cdisp := ocppj.NewDefaultClientDispatcher(ocppj.NewFIFOClientQueue(4))
		cdisp.SetTimeout(30 * time.Millisecond)
		jc := ocppj.NewClient(id, wc, cdisp, nil, profs...)
		url := fmt.Sprintf("ws://127.0.0.1:%d", port)
		if !v2 {
			cp := ocpp16.NewChargePoint(id, jc, wc)
			stubs.Install16CP(cp, rec, nil)
			if err := cp.Start(url); err != nil {
				return []int64{-4}
			}
			clis = append(clis, cli{id, cp, cp.Stop, cp.IsConnected})
		} else {
			cp := ocpp2.NewChargingStation(id, jc, wc)
			stubs.Install201CS(cp, rec, nil)
			if err := cp.Start(url); err != nil {
				return []int64{-4}
			}
			clis = append(clis, cli{id, cp, cp.Stop, cp.IsConnected})
		}
	}
	time.Sleep(10 * time.Millisecond)
	var wg sync.WaitGroup
	cb := func(ocpp.Response, error) { atomic.AddInt64(&cbs, 1) }
	newReq := func(i int) ocpp.Request {
		if !v2 {
			if i%3 == 0 {
				return core16.NewHeartbeatRequest()
			}
			return core16.NewDataTransferRequest(fmt.Sprintf("c%d", i))
		}
		return data2.NewDataTransferRequest(fmt.Sprintf("c%d", i))
	}
	for _, c := range clis {
		c := c
		for j := 0; j < g; j++ {
			pause := time.Duration(rng.Intn(300)) * time.Microsecond
			wg.Add(1)
			go func(j int) { // client -> server
				defer wg.Done()
				for i := 0; i < rounds; i++ {
					_ = c.send.SendRequestAsync(newReq(i+j), cb)
					_ = c.conn()
					time.Sleep(pause)
				}
			}(j)
		}
		wg.Add(1)
		go func() { // server -> client: one request at a time per client (many at once is finding F3 of C07)
			defer wg.Done()
			for i := 0; i < rounds; i++ {
				done := make(chan struct{})
				if err := sendTo(c.id, i, func(r ocpp.Response, e error) { cb(r, e); close(done) }); err == nil {
					select {
					case <-done:
					case <-time.After(time.Second):
					}
				}
			}
		}()
	}
	// connection events while the traffic runs: the server drops connections, the clients reconnect
	wg.Add(1)
	go func() {
		defer wg.Done()
		for i := 0; i < 2+size/4; i++ {
			time.Sleep(time.Duration(2+rng.Intn(6)) * time.Millisecond)
			id := fmt.Sprintf("cp%d", i%k)
			_ = wsSrv.StopConnection(id, websocket.CloseError{Code: websocket.CloseGoingAway, Text: "x"})
		}
	}()
	wg.Wait()
	time.Sleep(40 * time.Millisecond) // let timeouts of the last requests fire
	// Stop while requests of the other side may still be outstanding (a send racing Stop is finding F10 of C16: scenario 5)
	for _, c := range clis {
		_ = sendTo(c.id, 99, cb)
		c.stop()
	}
	stopServer()
	time.Sleep(20 * time.Millisecond)
	return []int64{1, atomic.LoadInt64(&cbs)}
}

// c19Ping: the peer floods pings while the server closes the connection.
func c19Ping(seed int64, size int) []int64 {
	srv := ws.NewServer()
	srv.AddSupportedSubprotocol("ocpp1.6")
	srv.SetMessageHandler(func(c ws.Channel, data []byte) error { return nil })
	connected := make(chan string, 16)
	srv.SetNewClientHandler(func(c ws.Channel) { connected <- c.ID() })
	go srv.Start(0, "/{ws}")
	port := c19WaitAddr(srv)
	if port == 0 {
		return []int64{-3}
	}
	for i := 0; i < 20+4*size; i++ {
		id := fmt.Sprintf("cp%d", i)
		conn, _, err := (&websocket.Dialer{Subprotocols: []string{"ocpp1.6"}, HandshakeTimeout: 2 * time.Second}).Dial(fmt.Sprintf("ws://127.0.0.1:%d/%s", port, id), nil)
		if err != nil {
			return []int64{-4}
		}
		select {
		case <-connected:
		case <-time.After(2 * time.Second):
			return []int64{-5}
		}
		stop := make(chan struct{})
		go func() {
			for {
				select {
				case <-stop:
					return
				default:
				}
				if err := conn.WriteControl(websocket.PingMessage, []byte("x"), time.Now().Add(time.Second)); err != nil {
					return
				}
			}
		}()
		go func() {
			for {
				if _, _, err := conn.ReadMessage(); err != nil {
					return
				}
			}
		}()
		time.Sleep(time.Duration((int(seed)+i)%5) * time.Millisecond)
		_ = srv.StopConnection(id, websocket.CloseError{Code: websocket.CloseNormalClosure})
		time.Sleep(3 * time.Millisecond)
		close(stop)
		conn.Close()
	}
	srv.Stop()
	return []int64{1, 0}
}

// c19Writers: library client and library server, writers on both sides, either side closes meanwhile.
func c19Writers(seed int64, size int) []int64 {
	var got int64
	srv := ws.NewServer()
	srv.AddSupportedSubprotocol("ocpp1.6")
	srv.SetMessageHandler(func(c ws.Channel, data []byte) error { atomic.AddInt64(&got, 1); return nil })
	srv.SetNewClientHandler(func(c ws.Channel) { _ = c.IsConnected() })
	srv.SetDisconnectedClientHandler(func(c ws.Channel) { _ = c.RemoteAddr() })
	go srv.Start(0, "/{ws}")
	port := c19WaitAddr(srv)
	if port == 0 {
		return []int64{-3}
	}
	for round := 0; round < 6+size; round++ {
		cli := ws.NewClient()
		cli.SetRequestedSubProtocol("ocpp1.6")
		cfg := c19ClientCfg()
		cli.SetTimeoutConfig(cfg)
		cli.SetMessageHandler(func(data []byte) error { atomic.AddInt64(&got, 1); return nil })
		if err := cli.Start(fmt.Sprintf("ws://127.0.0.1:%d/peer", port)); err != nil {
			return []int64{-4}
		}
		time.Sleep(2 * time.Millisecond)
		var wg sync.WaitGroup
		for j := 0; j < 4; j++ {
			wg.Add(2)
			go func() {
				defer wg.Done()
				for i := 0; i < 30; i++ {
					_ = cli.Write([]byte("c"))
					_ = cli.IsConnected()
				}
			}()
			go func() {
				defer wg.Done()
				for i := 0; i < 30; i++ {
					_ = srv.Write("peer", []byte("s"))
				}
			}()
		}
		time.Sleep(time.Duration((int(seed)+round)%4) * 300 * time.Microsecond)
		switch (int(seed) + round) % 3 {
		case 0:
			cli.Stop()
		case 1:
			_ = srv.StopConnection("peer", websocket.CloseError{Code: websocket.CloseNormalClosure})
		default:
			_ = srv.StopConnection("peer", websocket.CloseError{Code: websocket.CloseGoingAway}) // the client reconnects
		}
		wg.Wait()
		time.Sleep(15 * time.Millisecond)
		cli.Stop()
		time.Sleep(5 * time.Millisecond)
		for i := 0; i < 400; i++ {
			if _, ok := srv.GetChannel("peer"); !ok {
				break
			}
			time.Sleep(500 * time.Microsecond)
		}
	}
	srv.Stop()
	return []int64{1, atomic.LoadInt64(&got)}
}

// c19ErrC (finding F17): Stop closes the client's error channel while the reconnection goroutine is inside a
// dial; the dial then fails and the failure is reported through the closed channel.
func c19ErrC() []int64 {
	raw := startRaw()
	defer raw.stop()
	cl := newC17Client(raw.port, 5, 0, 0)
	errs := cl.c.Errors()
	go func() {
		for range errs {
		}
	}()
	done := make(chan error, 1)
	go func() { done <- cl.c.Start(cl.url) }()
	p := raw.nextDial(2 * time.Second)
	if p == nil {
		return []int64{-4}
	}
	p.done <- true
	if err := <-done; err != nil {
		return []int64{-4}
	}
	time.Sleep(5 * time.Millisecond)
	raw.mu.Lock()
	conn := raw.conn
	raw.mu.Unlock()
	if conn == nil {
		return []int64{-5}
	}
	_ = conn.UnderlyingConn().Close() // forced disconnect: the client starts to reconnect
	p = raw.nextDial(2 * time.Second) // ... and is now inside a dial
	if p == nil {
		return []int64{-6}
	}
	cl.c.Stop()     // closes the error channel
	p.done <- false // the dial fails: "reconnection failed" is reported
	time.Sleep(150 * time.Millisecond)
	return []int64{1, 0}
}

// c19SendStop (finding F10, property C16): SendRequest on a client endpoint concurrently with Stop.
func c19SendStop(seed int64) []int64 {
	wsSrv := ws.NewServer()
	srv := ocppj.NewServer(wsSrv, nil, nil, profiles.V16()...)
	cs := ocpp16.NewCentralSystem(srv, wsSrv)
	rec := &stubs.Recorder{Outcome: stubs.OutValid, Seed: seed}
	stubs.Install16CS(cs, rec, nil)
	go cs.Start(0, "/{ws}")
	port := c19WaitAddr(wsSrv)
	if port == 0 {
		return []int64{-3}
	}
	defer cs.Stop()
	for round := 0; round < 40; round++ {
		cp := ocpp16.NewChargePoint(fmt.Sprintf("cp%d", round), nil, nil)
		stubs.Install16CP(cp, rec, nil)
		if err := cp.Start(fmt.Sprintf("ws://127.0.0.1:%d", port)); err != nil {
			return []int64{-4}
		}
		var wg sync.WaitGroup
		for j := 0; j < 4; j++ {
			wg.Add(1)
			go func() {
				defer wg.Done()
				for i := 0; i < 20; i++ {
					_ = cp.SendRequestAsync(core16.NewHeartbeatRequest(), func(ocpp.Response, error) {})
				}
			}()
		}
		time.Sleep(time.Duration((int(seed)+round)%7) * 100 * time.Microsecond)
		cp.Stop()
		fin := make(chan struct{})
		go func() { wg.Wait(); close(fin) }()
		select {
		case <-fin:
		case <-time.After(3 * time.Second):
			return []int64{-8}
		}
	}
	return []int64{1, 0}
}

// c19SendDisconnect (finding F30, property C07): concurrent senders on a charge point while its connection is
// dropped again and again; every send must return.
func c19SendDisconnect(seed int64) []int64 {
	wsSrv := ws.NewServer()
	srv := ocppj.NewServer(wsSrv, nil, nil, profiles.V16()...)
	cs := ocpp16.NewCentralSystem(srv, wsSrv)
	rec := &stubs.Recorder{Outcome: stubs.OutValid, Seed: seed}
	stubs.Install16CS(cs, rec, nil)
	go cs.Start(0, "/{ws}")
	port := c19WaitAddr(wsSrv)
	if port == 0 {
		return []int64{-3}
	}
	wc := ws.NewClient()
	wc.SetTimeoutConfig(c19ClientCfg())
	cdisp := ocppj.NewDefaultClientDispatcher(ocppj.NewFIFOClientQueue(0))
	cdisp.SetTimeout(50 * time.Millisecond)
	jc := ocppj.NewClient("cp0", wc, cdisp, nil, profiles.V16()...)
	cp := ocpp16.NewChargePoint("cp0", jc, wc)
	stubs.Install16CP(cp, rec, nil)
	if err := cp.Start(fmt.Sprintf("ws://127.0.0.1:%d", port)); err != nil {
		return []int64{-4}
	}
	var wg sync.WaitGroup
	var halt int32
	for j := 0; j < 4; j++ {
		wg.Add(1)
		go func() {
			defer wg.Done()
			for atomic.LoadInt32(&halt) == 0 {
				_ = cp.SendRequestAsync(core16.NewHeartbeatRequest(), func(ocpp.Response, error) {})
			}
		}()
	}
	for i := 0; i < 12; i++ {
		time.Sleep(time.Duration(1+(int(seed)+i)%3) * time.Millisecond)
		_ = wsSrv.StopConnection("cp0", websocket.CloseError{Code: websocket.CloseGoingAway, Text: "x"})
		for w := 0; w < 200 && !cp.IsConnected(); w++ {
			time.Sleep(250 * time.Microsecond)
		}
	}
	atomic.StoreInt32(&halt, 1)
	fin := make(chan struct{})
	go func() { wg.Wait(); close(fin) }()
	select {
	case <-fin:
	case <-time.After(5 * time.Second):
		return []int64{-8}
	}
	stopped := make(chan struct{})
	go func() { cp.Stop(); close(stopped) }()
	select {
	case <-stopped:
	case <-time.After(5 * time.Second):
		return []int64{-9}
	}
	cs.Stop()
	return []int64{1, 0}
}

// c19StopBusyReconnect (C13): the server stops a connection whose write routine is busy with a large message to a
// peer that does not read; until that connection has really ended (disconnected callback), another connection with
// the same id must be refused, and afterwards a new one must work.
func c19StopBusyReconnect() []int64 {
	srv := ws.NewServer()
	srv.AddSupportedSubprotocol("ocpp1.6")
	cfg := ws.NewServerTimeoutConfig()
	cfg.WriteWait = 1500 * time.Millisecond
	cfg.PingWait = 0
	srv.SetTimeoutConfig(cfg)
	srv.SetMessageHandler(func(c ws.Channel, data []byte) error { return nil })
	var news, gones int64
	srv.SetNewClientHandler(func(c ws.Channel) { atomic.AddInt64(&news, 1) })
	srv.SetDisconnectedClientHandler(func(c ws.Channel) { atomic.AddInt64(&gones, 1) })
	go srv.Start(0, "/{ws}")
	port := c19WaitAddr(srv)
	if port == 0 {
		return []int64{-3}
	}
	defer srv.Stop()
	dial := func() (*websocket.Conn, error) {
		c, _, err := (&websocket.Dialer{Subprotocols: []string{"ocpp1.6"}, HandshakeTimeout: 2 * time.Second}).Dial(fmt.Sprintf("ws://127.0.0.1:%d/cpX", port), nil)
		return c, err
	}
	a, err := dial()
	if err != nil {
		return []int64{-4}
	}
	defer a.Close()
	if !waitFor(2*time.Second, func() bool { return atomic.LoadInt64(&news) == 1 }) {
		return []int64{-5}
	}
	_ = srv.Write("cpX", make([]byte, 64<<20)) // A never reads: the write routine blocks until WriteWait
	time.Sleep(50 * time.Millisecond)
	_ = srv.StopConnection("cpX", websocket.CloseError{Code: websocket.CloseNormalClosure})
	time.Sleep(20 * time.Millisecond)
	refused := int64(0)
	if atomic.LoadInt64(&gones) == 0 { // A has not ended yet: B must be turned away
		b, err := dial()
		if err != nil {
			refused = 1
		} else {
			_ = b.SetReadDeadline(time.Now().Add(2 * time.Second))
			if _, _, rerr := b.ReadMessage(); rerr != nil && websocket.IsCloseError(rerr, websocket.ClosePolicyViolation) {
				refused = 1
			}
			b.Close()
		}
		if atomic.LoadInt64(&news) != 1 {
			refused = 0
		}
	} else {
		refused = 1 // the window did not open on this run (the write went through): nothing to check
	}
	if !waitFor(6*time.Second, func() bool { return atomic.LoadInt64(&gones) >= 1 }) {
		return []int64{-8}
	}
	time.Sleep(30 * time.Millisecond)
	c, err := dial()
	works := int64(0)
	if err == nil {
		if waitFor(2*time.Second, func() bool { _, ok := srv.GetChannel("cpX"); return ok }) && srv.Write("cpX", []byte("x")) == nil {
			works = 1
		}
		c.Close()
	}
	if refused == 1 && works == 1 && atomic.LoadInt64(&gones) >= 1 {
		return []int64{1, 0}
	}
	return []int64{0, refused, works, atomic.LoadInt64(&news), atomic.LoadInt64(&gones)}
}

// gateLog parks the goroutine that logs a line with the given prefix (once, when armed): the library's logger is a
// public extension point (ws.SetLogger), which makes the moment "the write routine has picked up the forced close,
// cleanup has not run yet" addressable.
type gateLog struct {
	prefix  string
	armed   int32
	reached chan struct{}
	release chan struct{}
}

func (l *gateLog) Debug(args ...interface{}) {}
func (l *gateLog) Debugf(format string, args ...interface{}) {
	if strings.HasPrefix(format, l.prefix) && atomic.CompareAndSwapInt32(&l.armed, 1, 0) {
		close(l.reached)
		<-l.release
	}
}
func (l *gateLog) Info(args ...interface{})                  {}
func (l *gateLog) Infof(format string, args ...interface{})  {}
func (l *gateLog) Error(args ...interface{})                 {}
func (l *gateLog) Errorf(format string, args ...interface{}) {}

// c19StopDuringLoss (C16, C17): Stop is called while a connection loss is being handled (the client still counts as
// connected).  After Stop has returned the client must not dial again, let alone be connected.
func c19StopDuringLoss() []int64 {
	raw := startRaw()
	defer raw.stop()
	cl := newC17Client(raw.port, 5, 0, 0)
	gl := &gateLog{prefix: "handling forced close signal", reached: make(chan struct{}), release: make(chan struct{})}
	ws.SetLogger(gl)
	done := make(chan error, 1)
	go func() { done <- cl.c.Start(cl.url) }()
	p := raw.nextDial(2 * time.Second)
	if p == nil {
		return []int64{-4}
	}
	p.done <- true
	if err := <-done; err != nil {
		return []int64{-4}
	}
	time.Sleep(5 * time.Millisecond)
	raw.mu.Lock()
	conn := raw.conn
	dials0 := raw.dials
	raw.mu.Unlock()
	if conn == nil {
		return []int64{-5}
	}
	atomic.StoreInt32(&gl.armed, 1)
	_ = conn.UnderlyingConn().Close() // the connection is lost
	select {
	case <-gl.reached: // the write routine has the forced-close signal, cleanup has not run
	case <-time.After(3 * time.Second):
		close(gl.release)
		return []int64{2, 0} // the window did not open on this run
	}
	stopped := make(chan struct{})
	go func() { cl.c.Stop(); close(stopped) }()
	select {
	case <-stopped:
	case <-time.After(3 * time.Second):
		close(gl.release)
		return []int64{-8}
	}
	close(gl.release)
	late := raw.nextDial(400 * time.Millisecond) // a reconnection attempt after Stop would show up here
	if late != nil {
		late.done <- true
		time.Sleep(30 * time.Millisecond)
	}
	raw.mu.Lock()
	dials1 := raw.dials
	raw.mu.Unlock()
	cl.mu.Lock()
	recon := int64(0)
	for _, e := range cl.ev {
		if e == 3 {
			recon++
		}
	}
	cl.mu.Unlock()
	if late == nil && dials1 == dials0 && !cl.c.IsConnected() && recon == 0 {
		return []int64{1, 0}
	}
	return []int64{0, int64(dials1 - dials0), b2i(cl.c.IsConnected()), recon}
}

// scenario 39 (C13): a duplicate connection for id x arrives while the server's connection table is locked (a blocked
// Write to a peer y that does not read holds it), and the first connection of x drops meanwhile: its removal queues
// behind the duplicate's check.  Whatever is decided about the duplicate, at quiescence the ids reported as connected are
// exactly the live connections, at most one per id, and new-client / disconnected callbacks pair up.
func c19StaleEntryDuplicate() []int64 {
	srv := ws.NewServer()
	srv.AddSupportedSubprotocol("ocpp1.6")
	cfg := ws.NewServerTimeoutConfig()
	cfg.WriteWait = 20 * time.Second
	cfg.PingWait = 0
	srv.SetTimeoutConfig(cfg)
	srv.SetMessageHandler(func(c ws.Channel, data []byte) error { return nil })
	var mu sync.Mutex
	news, gones := map[string]int{}, map[string]int{}
	srv.SetNewClientHandler(func(c ws.Channel) { mu.Lock(); news[c.ID()]++; mu.Unlock() })
	srv.SetDisconnectedClientHandler(func(c ws.Channel) { mu.Lock(); gones[c.ID()]++; mu.Unlock() })
	go srv.Start(0, "/{ws}")
	port := c19WaitAddr(srv)
	if port == 0 {
		return []int64{-3}
	}
	defer srv.Stop()
	cnt := func(m map[string]int, id string) int { mu.Lock(); defer mu.Unlock(); return m[id] }
	type peer struct {
		c     *websocket.Conn
		ended chan struct{}
	}
	dial := func(id string, read bool) *peer {
		c, _, err := (&websocket.Dialer{Subprotocols: []string{"ocpp1.6"}, HandshakeTimeout: 5 * time.Second}).Dial(fmt.Sprintf("ws://127.0.0.1:%d/%s", port, id), nil)
		if err != nil {
			return nil
		}
		p := &peer{c: c, ended: make(chan struct{})}
		if read {
			go func() {
				for {
					if _, _, err := c.ReadMessage(); err != nil {
						close(p.ended)
						return
					}
				}
			}()
		}
		return p
	}
	a := dial("x", true)
	b := dial("y", false)
	if a == nil || b == nil || !waitFor(3*time.Second, func() bool { return cnt(news, "x") == 1 && cnt(news, "y") == 1 }) {
		return []int64{-4}
	}
	var progress, stop int64
	writerDone := make(chan struct{})
	payload := make([]byte, 1<<20)
	go func() {
		defer close(writerDone)
		for i := 0; i < 4096 && atomic.LoadInt64(&stop) == 0; i++ {
			if err := srv.Write("y", payload); err != nil {
				return
			}
			atomic.AddInt64(&progress, 1)
		}
	}()
	last, lastChange := int64(-1), time.Now()
	deadline := time.Now().Add(15 * time.Second)
	for {
		pr := atomic.LoadInt64(&progress)
		if pr != last {
			last, lastChange = pr, time.Now()
		}
		if pr >= 3 && time.Since(lastChange) > 400*time.Millisecond {
			break
		}
		if time.Now().After(deadline) {
			atomic.StoreInt64(&stop, 1)
			b.c.Close()
			return []int64{1, 1} // the writer never stalled on this machine: the window cannot be opened, nothing to check
		}
		time.Sleep(5 * time.Millisecond)
	}
	a2c := make(chan *peer, 1)
	go func() { a2c <- dial("x", true) }() // the handshake completes, the duplicate check waits for the table
	time.Sleep(250 * time.Millisecond)
	a.c.Close() // the first connection of x ends: its removal queues behind the duplicate's check
	time.Sleep(250 * time.Millisecond)
	atomic.StoreInt64(&stop, 1)
	b.c.Close() // the blocked Write returns, the table is released
	select {
	case <-writerDone:
	case <-time.After(25 * time.Second):
		return []int64{-8}
	}
	var a2 *peer
	select {
	case a2 = <-a2c:
	case <-time.After(5 * time.Second):
		return []int64{-8, 1}
	}
	waitFor(5*time.Second, func() bool { return cnt(gones, "x") >= 1 })
	time.Sleep(300 * time.Millisecond)
	a2live := false
	if a2 != nil {
		select {
		case <-a2.ended:
		case <-time.After(200 * time.Millisecond):
			a2live = true
		}
	}
	_, registered := srv.GetChannel("x")
	n, g := cnt(news, "x"), cnt(gones, "x")
	consistent := a2live == registered && n-g == int(b2i(a2live))
	if a2 != nil {
		a2.c.Close()
	}
	waitFor(3*time.Second, func() bool { return cnt(news, "x") == cnt(gones, "x") })
	time.Sleep(50 * time.Millisecond)
	// afterwards the id is usable again, by one connection
	a3 := dial("x", true)
	works := a3 != nil && waitFor(2*time.Second, func() bool { _, ok := srv.GetChannel("x"); return ok }) && srv.Write("x", []byte("ok")) == nil
	a4 := dial("x", true)
	second := false
	if a4 != nil {
		select {
		case <-a4.ended:
		case <-time.After(300 * time.Millisecond):
			second = true // two live connections for x
		}
		a4.c.Close()
	}
	if a3 != nil {
		a3.c.Close()
	}
	if consistent && works && !second {
		return []int64{1, 0}
	}
	return []int64{0, b2i(a2live), b2i(registered), int64(n), int64(g), b2i(works), b2i(second)}
}

// scenario 40 (C13): six concurrent StopConnection calls on the same id, 12 rounds: every accepted connection is
// announced once and reported as disconnected exactly once, and is not reported as connected afterwards.
func c19ConcurrentStopConnection() []int64 {
	srv := ws.NewServer()
	srv.AddSupportedSubprotocol("ocpp1.6")
	srv.SetMessageHandler(func(c ws.Channel, data []byte) error { return nil })
	var mu sync.Mutex
	news, gones := map[ws.Channel]int{}, map[ws.Channel]int{}
	srv.SetNewClientHandler(func(c ws.Channel) { mu.Lock(); news[c]++; mu.Unlock() })
	srv.SetDisconnectedClientHandler(func(c ws.Channel) { mu.Lock(); gones[c]++; mu.Unlock() })
	go srv.Start(0, "/{ws}")
	port := c19WaitAddr(srv)
	if port == 0 {
		return []int64{-3}
	}
	defer srv.Stop()
	total := func(m map[ws.Channel]int) int {
		mu.Lock()
		defer mu.Unlock()
		n := 0
		for _, v := range m {
			n += v
		}
		return n
	}
	const rounds = 12
	stale := int64(0)
	for r := 0; r < rounds; r++ {
		id := fmt.Sprintf("cp%d", r%2)
		c, _, err := (&websocket.Dialer{Subprotocols: []string{"ocpp1.6"}, HandshakeTimeout: 3 * time.Second}).Dial(fmt.Sprintf("ws://127.0.0.1:%d/%s", port, id), nil)
		if err != nil {
			return []int64{-4, int64(r)}
		}
		ended := make(chan struct{})
		go func() {
			for {
				if _, _, err := c.ReadMessage(); err != nil {
					close(ended)
					return
				}
			}
		}()
		if !waitFor(3*time.Second, func() bool { return total(news) >= r+1 }) {
			return []int64{-5, int64(r)}
		}
		start := make(chan struct{})
		var wg sync.WaitGroup
		for i := 0; i < 6; i++ {
			wg.Add(1)
			go func() {
				defer wg.Done()
				<-start
				_ = srv.StopConnection(id, websocket.CloseError{Code: websocket.CloseNormalClosure, Text: "bye"})
			}()
		}
		close(start)
		if !within(6*time.Second, wg.Wait) {
			return []int64{-8, int64(r)}
		}
		select {
		case <-ended:
		case <-time.After(4 * time.Second):
			return []int64{-8, 1, int64(r)}
		}
		c.Close()
		if !waitFor(4*time.Second, func() bool { return total(gones) >= r+1 }) {
			return []int64{-8, 2, int64(r)}
		}
		time.Sleep(25 * time.Millisecond)
		if _, ok := srv.GetChannel(id); ok {
			stale++
		}
	}
	time.Sleep(100 * time.Millisecond)
	mu.Lock()
	defer mu.Unlock()
	bad := int64(0)
	for ch, n := range news {
		if n != 1 || gones[ch] != 1 {
			bad++
		}
	}
	for ch := range gones {
		if news[ch] == 0 {
			bad++
		}
	}
	if bad == 0 && stale == 0 && len(news) == rounds {
		return []int64{1, 0}
	}
	return []int64{0, bad, stale, int64(len(news))}
}

// scenario 41 (C16, C17): a ws client is started, used and stopped three times, alternating Start and StartWithRetries:
// every session connects, exchanges a message with the server and ends; a restarted client behaves like a fresh one.
func c19ClientRestartRetries() []int64 {
	srv := ws.NewServer()
	srv.AddSupportedSubprotocol("ocpp1.6")
	srv.SetMessageHandler(func(c ws.Channel, data []byte) error { return srv.Write(c.ID(), data) })
	go srv.Start(0, "/{ws}")
	port := c19WaitAddr(srv)
	if port == 0 {
		return []int64{-3}
	}
	defer srv.Stop()
	cl := ws.NewClient()
	cl.AddOption(func(d *websocket.Dialer) { d.Subprotocols = []string{"ocpp1.6"} })
	cl.SetTimeoutConfig(c19ClientCfg())
	got := make(chan string, 8)
	cl.SetMessageHandler(func(data []byte) error { got <- string(data); return nil })
	url := fmt.Sprintf("ws://127.0.0.1:%d/cpR", port)
	for session := 0; session < 4; session++ {
		ok := true
		if session%2 == 0 {
			if !within(4*time.Second, func() { ok = cl.Start(url) == nil }) {
				return []int64{-8, int64(session)}
			}
		} else {
			if !within(4*time.Second, func() { cl.StartWithRetries(url) }) {
				return []int64{-8, int64(session)}
			}
		}
		if !ok || !waitFor(2*time.Second, cl.IsConnected) {
			return []int64{0, int64(session), 1}
		}
		msg := fmt.Sprintf("s%d", session)
		if err := cl.Write([]byte(msg)); err != nil {
			return []int64{0, int64(session), 2}
		}
		select {
		case m := <-got:
			if m != msg {
				return []int64{0, int64(session), 3}
			}
		case <-time.After(2 * time.Second):
			return []int64{0, int64(session), 4}
		}
		if !within(4*time.Second, cl.Stop) {
			return []int64{-8, int64(session), 1}
		}
		if !waitFor(2*time.Second, func() bool { _, there := srv.GetChannel("cpR"); return !there }) {
			return []int64{0, int64(session), 5}
		}
	}
	return []int64{1, 0}
}

// scenario 42 (C15): a peer stops reading but keeps sending pings while the server writes more than the socket
// buffers hold.  When the write times out the connection is cleaned up: the disconnected callback fires, blocked
// writers are released with an error and every later Write fails at once instead of blocking.
func c19StalledPeerKeepsPinging() []int64 {
	srv := ws.NewServer()
	srv.AddSupportedSubprotocol("ocpp1.6")
	cfg := ws.NewServerTimeoutConfig()
	cfg.WriteWait = 1200 * time.Millisecond
	cfg.PingWait = 60 * time.Second
	srv.SetTimeoutConfig(cfg)
	srv.SetMessageHandler(func(c ws.Channel, data []byte) error { return nil })
	var news, gones int64
	srv.SetNewClientHandler(func(c ws.Channel) { atomic.AddInt64(&news, 1) })
	srv.SetDisconnectedClientHandler(func(c ws.Channel) { atomic.AddInt64(&gones, 1) })
	go srv.Start(0, "/{ws}")
	port := c19WaitAddr(srv)
	if port == 0 {
		return []int64{-3}
	}
	defer func() { go srv.Stop() }()
	peer, _, err := (&websocket.Dialer{Subprotocols: []string{"ocpp1.6"}, HandshakeTimeout: 3 * time.Second}).Dial(fmt.Sprintf("ws://127.0.0.1:%d/stalled", port), nil)
	if err != nil {
		return []int64{-4}
	}
	defer peer.Close()
	if !waitFor(2*time.Second, func() bool { return atomic.LoadInt64(&news) == 1 }) {
		return []int64{-5}
	}
	stopPings := make(chan struct{})
	defer close(stopPings)
	go func() {
		for i := 0; ; i++ {
			select {
			case <-stopPings:
				return
			case <-time.After(15 * time.Millisecond):
			}
			if e := peer.WriteControl(websocket.PingMessage, []byte(fmt.Sprintf("p%d", i)), time.Now().Add(time.Second)); e != nil {
				return
			}
		}
	}()
	payload := make([]byte, 1<<20)
	const writers = 3
	done := make(chan bool, writers)
	for i := 0; i < writers; i++ {
		go func() {
			for n := 0; n < 4096; n++ {
				if e := srv.Write("stalled", payload); e != nil {
					done <- true
					return
				}
			}
			done <- false
		}()
	}
	for i := 0; i < writers; i++ {
		select {
		case stalled := <-done:
			if !stalled {
				return []int64{1, 1} // the peer never stalled on this machine: nothing to check
			}
		case <-time.After(20 * time.Second):
			return []int64{0, 1}
		}
	}
	if !waitFor(6*time.Second, func() bool { return atomic.LoadInt64(&gones) == 1 }) {
		return []int64{0, 2}
	}
	for i := 0; i < 3; i++ {
		var werr error
		if !within(3*time.Second, func() { werr = srv.Write("stalled", []byte("late")) }) {
			return []int64{0, 3}
		}
		if werr == nil {
			return []int64{0, 4}
		}
	}
	if !within(5*time.Second, srv.Stop) {
		return []int64{0, 5}
	}
	return []int64{1, 0}
}

// scenario 43 (C13, C11): connections that die right after the handshake (TCP reset), 24 peers x 200: for every accepted
// connection the new-client callback comes before the disconnected callback, and both come exactly once.
func c19DiesAtOnce() []int64 {
	srv := ws.NewServer()
	srv.AddSupportedSubprotocol("ocpp1.6")
	srv.SetMessageHandler(func(c ws.Channel, data []byte) error { return nil })
	var mu sync.Mutex
	state := map[ws.Channel]int{} // bit 0: announced, bit 1: disconnected before it was announced
	news, discs, early, twice := 0, 0, 0, 0
	srv.SetNewClientHandler(func(c ws.Channel) {
		mu.Lock()
		news++
		if state[c]&1 != 0 {
			twice++
		}
		if state[c]&2 != 0 {
			early++
		}
		state[c] |= 1
		mu.Unlock()
	})
	srv.SetDisconnectedClientHandler(func(c ws.Channel) {
		mu.Lock()
		discs++
		if state[c]&1 == 0 {
			state[c] |= 2
		}
		if state[c]&4 != 0 {
			twice++
		}
		state[c] |= 4
		mu.Unlock()
	})
	go srv.Start(0, "/{ws}")
	port := c19WaitAddr(srv)
	if port == 0 {
		return []int64{-3}
	}
	defer srv.Stop()
	var wg sync.WaitGroup
	var accepted int64
	for w := 0; w < 24; w++ {
		wg.Add(1)
		go func(w int) {
			defer wg.Done()
			for i := 0; i < 200; i++ {
				nc, err := net.DialTimeout("tcp", fmt.Sprintf("127.0.0.1:%d", port), 2*time.Second)
				if err != nil {
					continue
				}
				d := websocket.Dialer{NetDial: func(string, string) (net.Conn, error) { return nc, nil }, HandshakeTimeout: 2 * time.Second, Subprotocols: []string{"ocpp1.6"}}
				c, _, err := d.Dial(fmt.Sprintf("ws://127.0.0.1:%d/w%di%d", port, w, i), nil)
				if err != nil {
					nc.Close()
					continue
				}
				atomic.AddInt64(&accepted, 1)
				if tc, ok := nc.(*net.TCPConn); ok {
					_ = tc.SetLinger(0)
				}
				c.Close()
			}
		}(w)
	}
	if !within(60*time.Second, wg.Wait) {
		return []int64{-8}
	}
	n := int(atomic.LoadInt64(&accepted))
	waitFor(5*time.Second, func() bool { mu.Lock(); defer mu.Unlock(); return news == n && discs == n })
	time.Sleep(50 * time.Millisecond)
	mu.Lock()
	defer mu.Unlock()
	if early == 0 && twice == 0 && news == n && discs == n && n > 0 {
		return []int64{1, int64(n)}
	}
	return []int64{0, int64(early), int64(twice), int64(news), int64(discs), int64(n)}
}

func c19Eval(in []int64) []int64 {
	if len(in) < 3 {
		return []int64{-1}
	}
	switch in[0] {
	case 0:
		return c19Stack(false, in[1], int(in[2]))
	case 1:
		return c19Stack(true, in[1], int(in[2]))
	case 2:
		return c19Ping(in[1], int(in[2]))
	case 3:
		return c19Writers(in[1], int(in[2]))
	case 4:
		return c19ErrC()
	case 5:
		return c19SendStop(in[1])
	case 6:
		return c19SendDisconnect(in[1])
	case 7, 8, 9, 10, 11, 12, 13, 14, 16, 19, 20, 21, 22, 23, 24, 25, 26, 27, 28, 29, 30, 31, 32, 33, 34, 35, 36, 37, 38, 44, 45:
		return gatedEval(in)
	case 15:
		return c19StopBusyReconnect()
	case 18:
		return c19StopDuringLoss()
	case 39:
		return c19StaleEntryDuplicate()
	case 40:
		return c19ConcurrentStopConnection()
	case 41:
		return c19ClientRestartRetries()
	case 42:
		return c19StalledPeerKeepsPinging()
	case 43:
		return c19DiesAtOnce()
	}
	return []int64{-1}
}

func c19Gen(cfg config, emit func(Case)) {
	check := func(scen int64) func(obs []int64) (string, string) {
		return func(obs []int64) (string, string) {
			if len(obs) > 0 && obs[0] == 1 {
				return "", ""
			}
			if scen == 4 {
				return "C19-errc-send-on-closed", fmt.Sprintf("ws client: an error reported after Stop closed the error channel ended the process (outcome %v)", obs)
			}
			if len(obs) > 0 && obs[0] == -7 {
				return "C19-panic", fmt.Sprintf("scenario %d: the process died (panic in a library goroutine)", scen)
			}
			return "C19-hang", fmt.Sprintf("scenario %d did not run to its end: %v", scen, obs)
		}
	}
	n := cfg.n
	if n < 1 {
		n = 1
	}
	emit(Case{Class: "errc", Input: []int64{4, 0, 0}, Comment: "F17 witness", Check: check(4)})
	for i := 0; i < n; i++ {
		seed := cfg.seed*1000 + int64(i)
		size := i % 8
		emit(Case{Class: "stack16", Input: []int64{0, seed, int64(size)}, Check: check(0)})
		emit(Case{Class: "stack201", Input: []int64{1, seed, int64(size)}, Check: check(1)})
		emit(Case{Class: "ping", Input: []int64{2, seed, int64(size)}, Check: check(2)})
		emit(Case{Class: "writers", Input: []int64{3, seed, int64(size)}, Check: check(3)})
	}
}

func init() {
	properties["c19"] = []*Entry{{Name: "c19", Eval: c19Eval, Gen: c19Gen, Isolated: true, Workers: 6}}
}

type rawUp struct {
	Port int
	ln   net.Listener
	srv  *http.Server
}

func (r *rawUp) Close() { _ = r.srv.Close() }

// startRawUpgrader: a plain gorilla server (not the library) that hands every upgraded connection to f.
func startRawUpgrader(f func(conn *websocket.Conn), up *websocket.Upgrader) *rawUp {
	ln, err := net.Listen("tcp", "127.0.0.1:0")
	if err != nil {
		panic(err)
	}
	r := &rawUp{Port: ln.Addr().(*net.TCPAddr).Port, ln: ln}
	r.srv = &http.Server{Handler: http.HandlerFunc(func(w http.ResponseWriter, req *http.Request) {
		conn, err := up.Upgrade(w, req, nil)
		if err != nil {
			return
		}
		go f(conn)
	})}
	go r.srv.Serve(ln)
	return r
}
