package main

// Gated scenarios: interleavings finer than one handler / one pump iteration, forced on the unmodified library
// through its public extension points (a RequestQueue wrapper, the network double's write hook, an application
// callback that blocks until released).  Each returns [1, ...] when the property held.
//
//   7  (C11) bare ocppj.Server without a disconnect handler: a session ends with a request outstanding, the same id
//      connects again; the new session's first reply must be accepted
//   8  (C01) two concurrent senders on one charge point; the first is held inside the request queue and then refused:
//      its callback registration must be rolled back without touching the other sender's callback
//   9  (C07) a write fails, the pump runs the application's cancel callback (held); the connection drops and comes back
//      meanwhile: Resume must not block the pump
//   10 (C10, C02) the connection drops exactly while the dispatcher is inside ws.Client.Write; after the reconnection
//      a further request is queued: the outstanding request must not be written a second time
//   11 (C16, C02) Stop while a ready token is unconsumed; after Start the first request is written exactly once
//   13 (C07) 60 concurrent server-side sends (more than the request channel holds) with a slow network write
//   12 (C16, C01) Stop while a conclusion is still travelling to the callback goroutine; after Start the first callback
//      receives its own reply

import (
	"encoding/json"
	"errors"
	"fmt"
	"strings"
	"sync"
	"sync/atomic"
	"time"

	"github.com/lorenzodonini/ocpp-go/ocpp"
	ocpp16 "github.com/lorenzodonini/ocpp-go/ocpp1.6"
	core16 "github.com/lorenzodonini/ocpp-go/ocpp1.6/core"
	ocpp2 "github.com/lorenzodonini/ocpp-go/ocpp2.0.1"
	data2 "github.com/lorenzodonini/ocpp-go/ocpp2.0.1/data"
	"github.com/lorenzodonini/ocpp-go/ocppj"
	"github.com/lorenzodonini/ocpp-go/ws"

	"verif/tools/internal/fakews"
)

type ws_Channel = ws.Channel

func fakeSetConnected(c *fakews.Client, b bool) { c.SetConnected(b) }

func within(d time.Duration, f func()) bool {
	done := make(chan struct{})
	go func() { f(); close(done) }()
	select {
	case <-done:
		return true
	case <-time.After(d):
		return false
	}
}

// waitFor polls cond for up to d.
func waitFor(d time.Duration, cond func() bool) bool {
	end := time.Now().Add(d)
	for time.Now().Before(end) {
		if cond() {
			return true
		}
		time.Sleep(500 * time.Microsecond)
	}
	return cond()
}

func clientWrote(fake *fakews.Client, id int64) func() bool {
	return func() bool { return fake.CountWritten(func(d []byte) bool { return callID(d) == id }) > 0 }
}

// scenario 7
func gatedBareServer() []int64 {
	installIDGen()
	fake := fakews.NewServer()
	disp := ocppj.NewDefaultServerDispatcher(ocppj.NewFIFOQueueMap(0))
	disp.SetTimeout(time.Hour)
	srv := ocppj.NewServer(fake, disp, nil, core16.Profile)
	var mu sync.Mutex
	var got []string
	srv.SetResponseHandler(func(c ws_Channel, r ocpp.Response, id string) {
		mu.Lock()
		got = append(got, id)
		mu.Unlock()
	})
	srv.SetErrorHandler(func(c ws_Channel, e *ocpp.Error, d interface{}) {})
	srv.SetRequestHandler(func(c ws_Channel, r ocpp.Request, id, action string) {})
	go srv.Start(0, "/{ws}")
	for i := 0; i < 400 && !disp.IsRunning(); i++ {
		time.Sleep(500 * time.Microsecond)
	}
	fake.Connect("c1")
	setNextID("11")
	if err := srv.SendRequest("c1", core16.NewDataTransferRequest("v")); err != nil {
		return []int64{-2}
	}
	if !waitFor(3*time.Second, func() bool { return fake.CountWritten(func(to string, d []byte) bool { return callID(d) == 11 }) > 0 }) {
		return []int64{-8}
	}
	time.Sleep(5 * time.Millisecond)
	fake.Disconnect("c1") // session ends, request 11 outstanding
	time.Sleep(20 * time.Millisecond)
	fake.Connect("c1")
	setNextID("12")
	if err := srv.SendRequest("c1", core16.NewDataTransferRequest("v")); err != nil {
		return []int64{-3}
	}
	if !waitFor(3*time.Second, func() bool { return fake.CountWritten(func(to string, d []byte) bool { return callID(d) == 12 }) > 0 }) {
		return []int64{-8}
	}
	time.Sleep(5 * time.Millisecond)
	_ = fake.Inject("c1", []byte(`[3,"11",{"status":"Accepted"}]`)) // late reply to the old session's request: to be ignored
	time.Sleep(5 * time.Millisecond)
	_ = fake.Inject("c1", []byte(`[3,"12",{"status":"Accepted"}]`))
	waitFor(2*time.Second, func() bool { mu.Lock(); defer mu.Unlock(); return len(got) > 0 })
	within(2*time.Second, srv.Stop)
	mu.Lock()
	defer mu.Unlock()
	if len(got) == 1 && got[0] == "12" {
		return []int64{1, 0}
	}
	return []int64{0, int64(len(got))}
}

type gateQueue struct {
	ocppj.RequestQueue
	entered chan struct{}
	release chan struct{}
}

func (g *gateQueue) Push(el interface{}) error {
	if b, ok := el.(ocppj.RequestBundle); ok {
		if dt, ok := b.Call.Payload.(*core16.DataTransferRequest); ok && dt.VendorId == "A" {
			close(g.entered)
			<-g.release
			return errors.New("request queue is full (gate)")
		}
	}
	return g.RequestQueue.Push(el)
}

// scenario 8
func gatedTryQueue() []int64 {
	installIDGen()
	fake := fakews.NewClient()
	g := &gateQueue{RequestQueue: ocppj.NewFIFOClientQueue(0), entered: make(chan struct{}), release: make(chan struct{})}
	disp := ocppj.NewDefaultClientDispatcher(g)
	disp.SetTimeout(time.Hour)
	cp := ocpp16.NewChargePoint("cp1", ocppj.NewClient("cp1", fake, disp, nil, core16.Profile), fake)
	if err := cp.Start("ws://fake"); err != nil {
		return []int64{-2}
	}
	var mu sync.Mutex
	var aCalled, bCalled int
	var bData string
	var errA error
	doneA := make(chan struct{})
	go func() {
		errA = cp.SendRequestAsync(core16.NewDataTransferRequest("A"), func(r ocpp.Response, e error) {
			mu.Lock()
			aCalled++
			mu.Unlock()
		})
		close(doneA)
	}()
	select {
	case <-g.entered:
	case <-time.After(2 * time.Second):
		return []int64{-3}
	}
	doneB := make(chan struct{})
	go func() {
		_ = cp.SendRequestAsync(core16.NewDataTransferRequest("B"), func(r ocpp.Response, e error) {
			mu.Lock()
			bCalled++
			if dt, ok := r.(*core16.DataTransferConfirmation); ok && dt != nil {
				bData = fmt.Sprint(dt.Data)
			}
			mu.Unlock()
		})
		close(doneB)
	}()
	time.Sleep(40 * time.Millisecond) // B either completes (callback lock released early) or waits for A
	close(g.release)
	<-doneA
	select {
	case <-doneB:
	case <-time.After(2 * time.Second):
		return []int64{-8}
	}
	waitFor(3*time.Second, func() bool { return fake.CountWritten(func([]byte) bool { return true }) > 0 })
	time.Sleep(5 * time.Millisecond)
	// answer whatever was written
	for _, w := range fake.TakeWritten() {
		s := string(w)
		if i := strings.Index(s, `"`); i >= 0 {
			id := s[i+1:]
			id = id[:strings.Index(id, `"`)]
			_ = fake.Inject([]byte(fmt.Sprintf(`[3,"%s",{"status":"Accepted","data":"forB"}]`, id)))
		}
	}
	waitFor(2*time.Second, func() bool { mu.Lock(); defer mu.Unlock(); return aCalled+bCalled > 0 })
	time.Sleep(20 * time.Millisecond)
	within(2*time.Second, cp.Stop)
	mu.Lock()
	defer mu.Unlock()
	if errA != nil && aCalled == 0 && bCalled == 1 && bData == "forB" {
		return []int64{1, 0}
	}
	return []int64{0, int64(aCalled), int64(bCalled)}
}

// scenario 9
func gatedResume() []int64 {
	installIDGen()
	fake := fakews.NewClient()
	disp := ocppj.NewDefaultClientDispatcher(ocppj.NewFIFOClientQueue(0))
	disp.SetTimeout(time.Hour)
	cl := ocppj.NewClient("cp1", fake, disp, nil, core16.Profile)
	cl.SetResponseHandler(func(r ocpp.Response, id string) {})
	cl.SetErrorHandler(func(e *ocpp.Error, d interface{}) {})
	cl.SetRequestHandler(func(r ocpp.Request, id, action string) {})
	entered := make(chan struct{}, 4)
	release := make(chan struct{})
	cl.SetOnRequestCanceled(func(id string, r ocpp.Request, e *ocpp.Error) {
		entered <- struct{}{}
		<-release
	})
	if err := cl.Start("ws://fake"); err != nil {
		return []int64{-2}
	}
	fake.FailWrite = true
	if err := cl.SendRequest(core16.NewDataTransferRequest("v1")); err != nil {
		return []int64{-3}
	}
	select {
	case <-entered: // the pump has completed the request (ready token posted) and now sits in the application callback
	case <-time.After(2 * time.Second):
		return []int64{-4}
	}
	fake.FailWrite = false
	if !within(2*time.Second, func() { fake.Drop() }) {
		close(release)
		return []int64{-5}
	}
	resumed := make(chan struct{})
	go func() { fake.Reconnect(); close(resumed) }() // Resume: nothing pending, posts a second ready token (may wait for the pump)
	time.Sleep(30 * time.Millisecond)
	close(release)
	select {
	case <-resumed:
	case <-time.After(3 * time.Second):
		return []int64{-8}
	}
	// the endpoint must still work
	ok := within(3*time.Second, func() { _ = cl.SendRequest(core16.NewDataTransferRequest("v2")) })
	waitFor(3*time.Second, func() bool { return fake.CountWritten(func([]byte) bool { return true }) >= 2 })
	n := len(fake.TakeWritten())
	stopped := within(3*time.Second, cl.Stop)
	if ok && stopped && n >= 2 {
		return []int64{1, int64(n)}
	}
	return []int64{-8, int64(n)}
}

// scenario 10
func gatedDropDuringWrite() []int64 {
	installIDGen()
	fake := fakews.NewClient()
	disp := ocppj.NewDefaultClientDispatcher(ocppj.NewFIFOClientQueue(0))
	disp.SetTimeout(time.Hour)
	cl := ocppj.NewClient("cp1", fake, disp, nil, core16.Profile)
	cl.SetResponseHandler(func(r ocpp.Response, id string) {})
	cl.SetErrorHandler(func(e *ocpp.Error, d interface{}) {})
	cl.SetRequestHandler(func(r ocpp.Request, id, action string) {})
	cl.SetOnRequestCanceled(func(id string, r ocpp.Request, e *ocpp.Error) {})
	entered := make(chan struct{}, 8)
	release := make(chan struct{})
	var once sync.Once
	fake.OnWrite = func(data []byte) {
		first := false
		once.Do(func() { first = true })
		if first {
			entered <- struct{}{}
			<-release
		}
	}
	if err := cl.Start("ws://fake"); err != nil {
		return []int64{-2}
	}
	setNextID("21")
	if err := cl.SendRequest(core16.NewDataTransferRequest("v1")); err != nil {
		return []int64{-3}
	}
	select {
	case <-entered: // the pump is inside Write for request 21
	case <-time.After(2 * time.Second):
		return []int64{-4}
	}
	// the connection is reported lost while the write is in progress (it still succeeds)
	dropped := make(chan struct{})
	go func() {
		// Drop flips the double's state only after the handler ran; the write must still succeed, so keep the state and call the handler
		fake.Drop()
		close(dropped)
	}()
	time.Sleep(20 * time.Millisecond)
	fakeSetConnected(fake, true) // the frame had been handed over before the loss was noticed
	close(release)
	select {
	case <-dropped:
	case <-time.After(2 * time.Second):
		return []int64{-8}
	}
	if !waitFor(3*time.Second, clientWrote(fake, 21)) {
		return []int64{-8}
	}
	time.Sleep(20 * time.Millisecond)
	fakeSetConnected(fake, false)
	if !within(2*time.Second, func() { fake.Reconnect() }) {
		return []int64{-8}
	}
	time.Sleep(20 * time.Millisecond)
	setNextID("22")
	_ = cl.SendRequest(core16.NewDataTransferRequest("v2"))
	time.Sleep(40 * time.Millisecond)
	var ids []int64
	for _, w := range fake.TakeWritten() {
		ids = append(ids, callID(w))
	}
	within(2*time.Second, cl.Stop)
	// request 21 is still awaited: it must have been written exactly once, and 22 not at all yet
	n21, n22 := 0, 0
	for _, id := range ids {
		if id == 21 {
			n21++
		}
		if id == 22 {
			n22++
		}
	}
	if n21 == 1 && n22 == 0 {
		return []int64{1, 0}
	}
	return []int64{0, int64(n21), int64(n22)}
}

// scenario 11 (C16, C02): Stop arrives while a ready token is unconsumed (the pump sits in the application's cancel
// callback); if the pump then sees the closed request channel first, the token survives in readyForDispatch.  After
// Start the first request must still be written exactly once.
func gatedStaleReadyToken() []int64 {
	installIDGen()
	twice := int64(0)
	for try := 0; try < 12; try++ {
		fake := fakews.NewClient()
		disp := ocppj.NewDefaultClientDispatcher(ocppj.NewFIFOClientQueue(0))
		disp.SetTimeout(time.Hour)
		cl := ocppj.NewClient("cp1", fake, disp, nil, core16.Profile)
		cl.SetResponseHandler(func(r ocpp.Response, id string) {})
		cl.SetErrorHandler(func(e *ocpp.Error, d interface{}) {})
		cl.SetRequestHandler(func(r ocpp.Request, id, action string) {})
		entered := make(chan struct{}, 4)
		release := make(chan struct{})
		var once sync.Once
		cl.SetOnRequestCanceled(func(id string, r ocpp.Request, e *ocpp.Error) {
			first := false
			once.Do(func() { first = true })
			if first {
				entered <- struct{}{}
				<-release
			}
		})
		if err := cl.Start("ws://fake"); err != nil {
			return []int64{-2}
		}
		fake.FailWrite = true
		setNextID("31")
		if err := cl.SendRequest(core16.NewDataTransferRequest("v1")); err != nil {
			return []int64{-3}
		}
		select {
		case <-entered: // request 31 completed (ready token posted), pump held in the callback
		case <-time.After(2 * time.Second):
			return []int64{-4}
		}
		fake.FailWrite = false
		stopped := make(chan struct{})
		go func() { cl.Stop(); close(stopped) }()
		time.Sleep(20 * time.Millisecond)
		close(release)
		select {
		case <-stopped:
		case <-time.After(3 * time.Second):
			return []int64{-8}
		}
		for i := 0; i < 400 && disp.IsRunning(); i++ {
			time.Sleep(500 * time.Microsecond)
		}
		fake.TakeWritten()
		if err := cl.Start("ws://fake"); err != nil {
			return []int64{-5}
		}
		setNextID("32")
		if err := cl.SendRequest(core16.NewDataTransferRequest("v2")); err != nil {
			return []int64{-6}
		}
		if !waitFor(3*time.Second, clientWrote(fake, 32)) {
			return []int64{-8}
		}
		time.Sleep(40 * time.Millisecond) // a second transmission would follow at once
		n32 := 0
		for _, w := range fake.TakeWritten() {
			if callID(w) == 32 {
				n32++
			}
		}
		within(2*time.Second, cl.Stop)
		if n32 != 1 {
			twice++
		}
	}
	if twice == 0 {
		return []int64{1, 0}
	}
	return []int64{0, twice}
}

// scenario 12 (C16, C01): Stop arrives while a conclusion is still travelling to the callback goroutine (which sits in
// an earlier, slow application callback); if the goroutine then sees the stop signal first, the conclusion survives in
// the channel.  After Start, the first request's callback must receive its own reply.
func gatedStaleConclusion() []int64 {
	installIDGen()
	wrong := int64(0)
	for try := 0; try < 12; try++ {
		fake := fakews.NewClient()
		disp := ocppj.NewDefaultClientDispatcher(ocppj.NewFIFOClientQueue(0))
		disp.SetTimeout(time.Hour)
		cp := ocpp16.NewChargePoint("cp1", ocppj.NewClient("cp1", fake, disp, nil, core16.Profile), fake)
		if err := cp.Start("ws://fake"); err != nil {
			return []int64{-2}
		}
		entered := make(chan struct{}, 2)
		release := make(chan struct{})
		setNextID("41")
		_ = cp.SendRequestAsync(core16.NewDataTransferRequest("v1"), func(r ocpp.Response, e error) {
			entered <- struct{}{}
			<-release
		})
		if !waitFor(3*time.Second, clientWrote(fake, 41)) {
			return []int64{-8}
		}
		setNextID("42")
		_ = cp.SendRequestAsync(core16.NewDataTransferRequest("v2"), func(r ocpp.Response, e error) {})
		time.Sleep(5 * time.Millisecond)
		_ = fake.Inject([]byte(`[3,"41",{"status":"Accepted","data":"r41"}]`))
		select {
		case <-entered: // the callback goroutine is held inside callback 41
		case <-time.After(2 * time.Second):
			return []int64{-4}
		}
		if !waitFor(3*time.Second, clientWrote(fake, 42)) { // 42 is dispatched once 41 has been completed
			return []int64{-8}
		}
		time.Sleep(5 * time.Millisecond)
		// the reply to 42 is concluded by the OCPP-J layer and handed over: it waits in the channel
		if !within(2*time.Second, func() { _ = fake.Inject([]byte(`[3,"42",{"status":"Accepted","data":"r42"}]`)) }) {
			return []int64{-5}
		}
		stopped := make(chan struct{})
		go func() { cp.Stop(); close(stopped) }()
		time.Sleep(20 * time.Millisecond)
		close(release)
		select {
		case <-stopped:
		case <-time.After(3 * time.Second):
			return []int64{-8}
		}
		time.Sleep(20 * time.Millisecond)
		fake.TakeWritten()
		if err := cp.Start("ws://fake"); err != nil {
			return []int64{-6}
		}
		var mu sync.Mutex
		got := ""
		calls := 0
		setNextID("43")
		_ = cp.SendRequestAsync(core16.NewDataTransferRequest("v3"), func(r ocpp.Response, e error) {
			mu.Lock()
			calls++
			if dt, ok := r.(*core16.DataTransferConfirmation); ok && dt != nil {
				got = fmt.Sprint(dt.Data)
			}
			mu.Unlock()
		})
		if !waitFor(3*time.Second, clientWrote(fake, 43)) {
			return []int64{-8}
		}
		time.Sleep(5 * time.Millisecond)
		within(time.Second, func() { _ = fake.Inject([]byte(`[3,"43",{"status":"Accepted","data":"r43"}]`)) })
		waitFor(time.Second, func() bool { mu.Lock(); defer mu.Unlock(); return calls > 0 })
		time.Sleep(20 * time.Millisecond)
		within(2*time.Second, cp.Stop)
		mu.Lock()
		if !(calls == 1 && got == "r43") {
			wrong++
		}
		mu.Unlock()
	}
	if wrong == 0 {
		return []int64{1, 0}
	}
	return []int64{0, wrong}
}

// scenario 13 (C07): a burst of server-side sends larger than the capacity of the dispatcher's request channel (20)
// while the network write is slow: every SendRequest must return and every request must be written.
func gatedServerBurst() []int64 {
	installIDGen()
	fake := fakews.NewServer()
	fake.OnWrite = func(to string, data []byte) { time.Sleep(15 * time.Millisecond) }
	disp := ocppj.NewDefaultServerDispatcher(ocppj.NewFIFOQueueMap(0))
	disp.SetTimeout(time.Hour)
	srv := ocppj.NewServer(fake, disp, nil, core16.Profile)
	srv.SetResponseHandler(func(c ws_Channel, r ocpp.Response, id string) {})
	srv.SetErrorHandler(func(c ws_Channel, e *ocpp.Error, d interface{}) {})
	srv.SetRequestHandler(func(c ws_Channel, r ocpp.Request, id, action string) {})
	go srv.Start(0, "/{ws}")
	if !waitFor(2*time.Second, disp.IsRunning) {
		return []int64{-2}
	}
	const n = 60
	for i := 0; i < n; i++ {
		fake.Connect(fmt.Sprintf("c%d", i))
	}
	var wg sync.WaitGroup
	for i := 0; i < n; i++ {
		wg.Add(1)
		go func(i int) {
			defer wg.Done()
			_ = srv.SendRequest(fmt.Sprintf("c%d", i), core16.NewDataTransferRequest("v"))
		}(i)
	}
	returned := within(6*time.Second, wg.Wait)
	written := waitFor(8*time.Second, func() bool { return fake.CountWritten(func(string, []byte) bool { return true }) >= n })
	cnt := fake.CountWritten(func(string, []byte) bool { return true })
	if !returned {
		return []int64{-8, int64(cnt)}
	}
	within(3*time.Second, srv.Stop)
	if written {
		return []int64{1, int64(cnt)}
	}
	return []int64{0, int64(cnt)}
}

// scenario 14 (C10): the application sends a request from inside its disconnect handler: the connection is already
// down, so the request must be held back until the reconnection.
func gatedSendFromDisconnectHandler() []int64 {
	installIDGen()
	fake := fakews.NewClient()
	disp := ocppj.NewDefaultClientDispatcher(ocppj.NewFIFOClientQueue(0))
	disp.SetTimeout(time.Hour)
	cl := ocppj.NewClient("cp1", fake, disp, nil, core16.Profile)
	cl.SetResponseHandler(func(r ocpp.Response, id string) {})
	cl.SetErrorHandler(func(e *ocpp.Error, d interface{}) {})
	cl.SetRequestHandler(func(r ocpp.Request, id, action string) {})
	var cancelled int64
	var mu sync.Mutex
	cl.SetOnRequestCanceled(func(id string, r ocpp.Request, e *ocpp.Error) { mu.Lock(); cancelled++; mu.Unlock() })
	cl.SetOnDisconnectedHandler(func(err error) {
		setNextID("51")
		_ = cl.SendRequest(core16.NewDataTransferRequest("v1"))
		time.Sleep(30 * time.Millisecond) // the application goes on with its own clean-up
	})
	if err := cl.Start("ws://fake"); err != nil {
		return []int64{-2}
	}
	if !within(3*time.Second, func() { fake.Drop() }) {
		return []int64{-8}
	}
	time.Sleep(40 * time.Millisecond)
	during := fake.CountWritten(func(d []byte) bool { return true }) // write attempts while disconnected
	if !within(3*time.Second, func() { fake.Reconnect() }) {
		return []int64{-8}
	}
	waitFor(3*time.Second, clientWrote(fake, 51))
	after := fake.CountWritten(func(d []byte) bool { return callID(d) == 51 })
	within(2*time.Second, cl.Stop)
	mu.Lock()
	defer mu.Unlock()
	if during == 0 && after == 1 && cancelled == 0 {
		return []int64{1, 0}
	}
	return []int64{0, int64(during), int64(after), cancelled}
}

// scenario 16 (C11, C02, C06; finding F1): client C's request times out right after client A completed an exchange, and
// the application reacts to the timeout by sending a request to A from its cancel handler.  Nothing of that may touch
// C's (now empty) queue: the new request goes to A, once, and nothing crashes.
func gatedTimeoutThenSendToOther() []int64 {
	installIDGen()
	fake := fakews.NewServer()
	disp := ocppj.NewDefaultServerDispatcher(ocppj.NewFIFOQueueMap(0))
	disp.SetTimeout(120 * time.Millisecond)
	srv := ocppj.NewServer(fake, disp, nil, core16.Profile)
	srv.SetResponseHandler(func(c ws_Channel, r ocpp.Response, id string) {})
	srv.SetErrorHandler(func(c ws_Channel, e *ocpp.Error, d interface{}) {})
	srv.SetRequestHandler(func(c ws_Channel, r ocpp.Request, id, action string) {})
	var mu sync.Mutex
	cancelled := []string{}
	srv.SetCanceledRequestHandler(func(clientID string, requestID string, r ocpp.Request, e *ocpp.Error) {
		mu.Lock()
		cancelled = append(cancelled, requestID)
		first := len(cancelled) == 1
		mu.Unlock()
		if first && clientID == "C" {
			setNextID("63")
			_ = srv.SendRequest("A", core16.NewDataTransferRequest("a2"))
		}
	})
	go srv.Start(0, "/{ws}")
	if !waitFor(2*time.Second, disp.IsRunning) {
		return []int64{-2}
	}
	fake.Connect("A")
	fake.Connect("C")
	wrote := func(to string, id int64) func() bool {
		return func() bool {
			return fake.CountWritten(func(t string, d []byte) bool { return t == to && callID(d) == id }) > 0
		}
	}
	setNextID("61")
	if err := srv.SendRequest("C", core16.NewDataTransferRequest("c1")); err != nil {
		return []int64{-3}
	}
	if !waitFor(2*time.Second, wrote("C", 61)) {
		return []int64{-8}
	}
	setNextID("62")
	if err := srv.SendRequest("A", core16.NewDataTransferRequest("a1")); err != nil {
		return []int64{-3}
	}
	if !waitFor(2*time.Second, wrote("A", 62)) {
		return []int64{-8}
	}
	_ = fake.Inject("A", []byte(`[3,"62",{"status":"Accepted"}]`)) // A is done: the pump's last event concerns A
	// C's request 61 now times out; the cancel handler sends 63 to A
	if !waitFor(3*time.Second, wrote("A", 63)) {
		return []int64{0, 0}
	}
	time.Sleep(40 * time.Millisecond)
	nA := fake.CountWritten(func(t string, d []byte) bool { return t == "A" && callID(d) == 63 })
	nC := fake.CountWritten(func(t string, d []byte) bool { return t == "C" && callID(d) != 61 })
	within(3*time.Second, srv.Stop)
	mu.Lock()
	defer mu.Unlock()
	if nA == 1 && nC == 0 && len(cancelled) >= 1 && cancelled[0] == "61" {
		return []int64{1, 0}
	}
	return []int64{0, int64(nA), int64(nC), int64(len(cancelled))}
}

// scenario 19 (C01; finding F5): while the callback routine is busy with an earlier callback, the reply to request 2
// and then the error reply to request 3 are concluded.  Each must reach its own callback.
func gatedConclusionOrder() []int64 {
	installIDGen()
	wrong := int64(0)
	for try := 0; try < 12; try++ {
		fake := fakews.NewClient()
		disp := ocppj.NewDefaultClientDispatcher(ocppj.NewFIFOClientQueue(0))
		disp.SetTimeout(time.Hour)
		cp := ocpp16.NewChargePoint("cp1", ocppj.NewClient("cp1", fake, disp, nil, core16.Profile), fake)
		if err := cp.Start("ws://fake"); err != nil {
			return []int64{-2}
		}
		entered := make(chan struct{}, 2)
		release := make(chan struct{})
		var mu sync.Mutex
		got := map[int]string{}
		rec := func(n int) func(ocpp.Response, error) {
			return func(r ocpp.Response, e error) {
				v := "?"
				if e != nil {
					v = "err"
				} else if dt, ok := r.(*core16.DataTransferConfirmation); ok && dt != nil {
					v = fmt.Sprint(dt.Data)
				}
				mu.Lock()
				got[n] = v
				mu.Unlock()
			}
		}
		setNextID("71")
		_ = cp.SendRequestAsync(core16.NewDataTransferRequest("v1"), func(r ocpp.Response, e error) {
			entered <- struct{}{}
			<-release
		})
		setNextID("72")
		_ = cp.SendRequestAsync(core16.NewDataTransferRequest("v2"), rec(2))
		setNextID("73")
		_ = cp.SendRequestAsync(core16.NewDataTransferRequest("v3"), rec(3))
		if !waitFor(3*time.Second, clientWrote(fake, 71)) {
			return []int64{-8}
		}
		_ = fake.Inject([]byte(`[3,"71",{"status":"Accepted","data":"r71"}]`))
		select {
		case <-entered:
		case <-time.After(2 * time.Second):
			return []int64{-4}
		}
		if !waitFor(3*time.Second, clientWrote(fake, 72)) {
			return []int64{-8}
		}
		if !within(2*time.Second, func() { _ = fake.Inject([]byte(`[3,"72",{"status":"Accepted","data":"r72"}]`)) }) {
			return []int64{-5}
		}
		if !waitFor(3*time.Second, clientWrote(fake, 73)) {
			return []int64{-8}
		}
		if !within(2*time.Second, func() { _ = fake.Inject([]byte(`[4,"73","NotSupported","no",{}]`)) }) {
			return []int64{-5}
		}
		time.Sleep(5 * time.Millisecond)
		close(release)
		waitFor(2*time.Second, func() bool { mu.Lock(); defer mu.Unlock(); return len(got) == 2 })
		within(2*time.Second, cp.Stop)
		mu.Lock()
		if !(got[2] == "r72" && got[3] == "err") {
			wrong++
		}
		mu.Unlock()
	}
	if wrong == 0 {
		return []int64{1, 0}
	}
	return []int64{0, wrong}
}

// scenario 20 (C07; finding F18): the requests of 8 clients time out at the same moment.  Every one of them must be
// cancelled, and the dispatcher must still serve a request sent afterwards.
func gatedSimultaneousTimeouts() []int64 {
	installIDGen()
	fake := fakews.NewServer()
	disp := ocppj.NewDefaultServerDispatcher(ocppj.NewFIFOQueueMap(0))
	disp.SetTimeout(150 * time.Millisecond)
	srv := ocppj.NewServer(fake, disp, nil, core16.Profile)
	srv.SetResponseHandler(func(c ws_Channel, r ocpp.Response, id string) {})
	srv.SetErrorHandler(func(c ws_Channel, e *ocpp.Error, d interface{}) {})
	srv.SetRequestHandler(func(c ws_Channel, r ocpp.Request, id, action string) {})
	var mu sync.Mutex
	cancelled := 0
	srv.SetCanceledRequestHandler(func(clientID string, requestID string, r ocpp.Request, e *ocpp.Error) {
		mu.Lock()
		cancelled++
		mu.Unlock()
	})
	go srv.Start(0, "/{ws}")
	if !waitFor(2*time.Second, disp.IsRunning) {
		return []int64{-2}
	}
	const n = 8
	// hold the pump inside the first write until all requests are queued, so that all are written (and time out) together
	gate := make(chan struct{})
	var once sync.Once
	fake.OnWrite = func(to string, data []byte) { once.Do(func() { <-gate }) }
	for i := 0; i < n; i++ {
		fake.Connect(fmt.Sprintf("c%d", i))
	}
	for i := 0; i < n; i++ {
		if err := srv.SendRequest(fmt.Sprintf("c%d", i), core16.NewDataTransferRequest("v")); err != nil {
			close(gate)
			return []int64{-3}
		}
	}
	close(gate)
	ok := waitFor(3*time.Second, func() bool { mu.Lock(); defer mu.Unlock(); return cancelled == n })
	mu.Lock()
	c := cancelled
	mu.Unlock()
	// afterwards the dispatcher still works
	fake.TakeWritten()
	served := int64(0)
	if within(2*time.Second, func() { _ = srv.SendRequest("c0", core16.NewDataTransferRequest("after")) }) &&
		waitFor(2*time.Second, func() bool { return fake.CountWritten(func(string, []byte) bool { return true }) >= 1 }) {
		served = 1
	}
	within(3*time.Second, srv.Stop)
	if ok && served == 1 {
		return []int64{1, int64(c)}
	}
	return []int64{0, int64(c), served}
}

// emptyGate is a request queue whose IsEmpty can be held: the point at which the pump has decided to look at the queue
// but has not dispatched yet.
type emptyGate struct {
	ocppj.RequestQueue
	armed   int32
	entered chan struct{}
	release chan struct{}
}

func (g *emptyGate) IsEmpty() bool {
	if atomic.CompareAndSwapInt32(&g.armed, 1, 0) {
		close(g.entered)
		<-g.release
	}
	return g.RequestQueue.IsEmpty()
}

// scenario 21 (C02, C10; finding F16): the connection drops and comes back while the pump is about to dispatch a request
// it has just been told about.  The request must be written once.
func gatedReconnectRacingSend() []int64 {
	installIDGen()
	fake := fakews.NewClient()
	g := &emptyGate{RequestQueue: ocppj.NewFIFOClientQueue(0), entered: make(chan struct{}), release: make(chan struct{})}
	disp := ocppj.NewDefaultClientDispatcher(g)
	disp.SetTimeout(time.Hour)
	cl := ocppj.NewClient("cp1", fake, disp, nil, core16.Profile)
	cl.SetResponseHandler(func(r ocpp.Response, id string) {})
	cl.SetErrorHandler(func(e *ocpp.Error, d interface{}) {})
	cl.SetRequestHandler(func(r ocpp.Request, id, action string) {})
	cl.SetOnRequestCanceled(func(id string, r ocpp.Request, e *ocpp.Error) {})
	if err := cl.Start("ws://fake"); err != nil {
		return []int64{-2}
	}
	time.Sleep(10 * time.Millisecond)
	atomic.StoreInt32(&g.armed, 1)
	setNextID("81")
	if err := cl.SendRequest(core16.NewDataTransferRequest("v1")); err != nil {
		return []int64{-3}
	}
	select {
	case <-g.entered: // the pump is about to dispatch 81
	case <-time.After(2 * time.Second):
		return []int64{-4}
	}
	ok := within(2*time.Second, func() { fake.Drop() }) && within(2*time.Second, func() { fake.Reconnect() })
	close(g.release)
	if !ok {
		return []int64{-8}
	}
	if !waitFor(3*time.Second, clientWrote(fake, 81)) {
		return []int64{-8}
	}
	time.Sleep(40 * time.Millisecond)
	n := fake.CountWritten(func(d []byte) bool { return callID(d) == 81 })
	within(2*time.Second, cl.Stop)
	if n == 1 {
		return []int64{1, 0}
	}
	return []int64{0, int64(n)}
}

// peekGate is a request queue whose Peek can be held after it has read the head: the caller continues with a head that
// may no longer be the head.
type peekGate struct {
	ocppj.RequestQueue
	armed   int32
	entered chan struct{}
	release chan struct{}
}

func (g *peekGate) Peek() interface{} {
	el := g.RequestQueue.Peek()
	if atomic.CompareAndSwapInt32(&g.armed, 1, 0) {
		close(g.entered)
		<-g.release
	}
	return el
}

// scenario 22 (C01, C07; finding F9): the reply to a request and its timeout are handled at the same time.  The request
// is concluded once, the next request is neither lost nor left without a conclusion, and the dispatcher goes on.
func gatedReplyRacingTimeout() []int64 {
	installIDGen()
	fake := fakews.NewClient()
	g := &peekGate{RequestQueue: ocppj.NewFIFOClientQueue(0), entered: make(chan struct{}), release: make(chan struct{})}
	disp := ocppj.NewDefaultClientDispatcher(g)
	disp.SetTimeout(time.Hour)
	cl := ocppj.NewClient("cp1", fake, disp, nil, core16.Profile)
	var mu sync.Mutex
	concluded := map[string]int{}
	cl.SetResponseHandler(func(r ocpp.Response, id string) { mu.Lock(); concluded[id]++; mu.Unlock() })
	cl.SetErrorHandler(func(e *ocpp.Error, d interface{}) {})
	cl.SetRequestHandler(func(r ocpp.Request, id, action string) {})
	cl.SetOnRequestCanceled(func(id string, r ocpp.Request, e *ocpp.Error) { mu.Lock(); concluded[id]++; mu.Unlock() })
	if err := cl.Start("ws://fake"); err != nil {
		return []int64{-2}
	}
	for _, id := range []string{"91", "92", "93"} {
		setNextID(id)
		if err := cl.SendRequest(core16.NewDataTransferRequest("v" + id)); err != nil {
			return []int64{-3}
		}
	}
	if !waitFor(3*time.Second, clientWrote(fake, 91)) {
		return []int64{-8}
	}
	time.Sleep(10 * time.Millisecond)
	// the reply to 91 arrives: the reader thread is held right after it has looked at the queue head
	atomic.StoreInt32(&g.armed, 1)
	replied := make(chan struct{})
	go func() { _ = fake.Inject([]byte(`[3,"91",{"status":"Accepted"}]`)); close(replied) }()
	select {
	case <-g.entered:
	case <-time.After(2 * time.Second):
		return []int64{-4}
	}
	// ... while the request's timeout fires and is handled by the pump
	disp.VerifFireTimer()
	time.Sleep(60 * time.Millisecond)
	close(g.release)
	select {
	case <-replied:
	case <-time.After(3 * time.Second):
		return []int64{-8}
	}
	// 92 must be written, answered and concluded; then 93
	if !waitFor(3*time.Second, clientWrote(fake, 92)) {
		return []int64{0, 92}
	}
	within(2*time.Second, func() { _ = fake.Inject([]byte(`[3,"92",{"status":"Accepted"}]`)) })
	if !waitFor(3*time.Second, clientWrote(fake, 93)) {
		return []int64{0, 93}
	}
	within(2*time.Second, func() { _ = fake.Inject([]byte(`[3,"93",{"status":"Accepted"}]`)) })
	waitFor(2*time.Second, func() bool { mu.Lock(); defer mu.Unlock(); return concluded["93"] > 0 })
	within(2*time.Second, cl.Stop)
	mu.Lock()
	defer mu.Unlock()
	if concluded["92"] == 1 && concluded["93"] == 1 && concluded["91"] == 1 {
		return []int64{1, int64(concluded["91"])}
	}
	return []int64{0, int64(concluded["91"]), int64(concluded["92"]), int64(concluded["93"])}
}

// scenario 23 (C08, C01; finding F8): the reply to a request arrives at the moment its timeout expires, while the pump is
// busy: both the timeout token and the ready token wait for the pump.  The NEXT request must get its own full timeout.
func gatedStaleTimeoutToken() []int64 {
	installIDGen()
	early := int64(0)
	for try := 0; try < 8; try++ {
		fake := fakews.NewServer()
		disp := ocppj.NewDefaultServerDispatcher(ocppj.NewFIFOQueueMap(0))
		disp.SetTimeout(120 * time.Millisecond)
		srv := ocppj.NewServer(fake, disp, nil, core16.Profile)
		var mu sync.Mutex
		cancelledAt := map[string]time.Time{}
		answered := map[string]bool{}
		srv.SetResponseHandler(func(c ws_Channel, r ocpp.Response, id string) { mu.Lock(); answered[id] = true; mu.Unlock() })
		srv.SetErrorHandler(func(c ws_Channel, e *ocpp.Error, d interface{}) {})
		srv.SetRequestHandler(func(c ws_Channel, r ocpp.Request, id, action string) {})
		srv.SetCanceledRequestHandler(func(clientID string, requestID string, r ocpp.Request, e *ocpp.Error) {
			mu.Lock()
			cancelledAt[requestID] = time.Now()
			mu.Unlock()
		})
		gate := make(chan struct{})
		var writtenAt sync.Map
		fake.OnWrite = func(to string, data []byte) {
			writtenAt.Store(callID(data), time.Now())
			if to == "B" {
				<-gate
			}
		}
		go srv.Start(0, "/{ws}")
		if !waitFor(2*time.Second, disp.IsRunning) {
			return []int64{-2}
		}
		fake.Connect("A")
		fake.Connect("B")
		base := int64(100 + try*10)
		setNextID(fmt.Sprint(base + 1))
		_ = srv.SendRequest("A", core16.NewDataTransferRequest("a1"))
		setNextID(fmt.Sprint(base + 2))
		_ = srv.SendRequest("A", core16.NewDataTransferRequest("a2"))
		if !waitFor(2*time.Second, func() bool { _, ok := writtenAt.Load(base + 1); return ok }) {
			close(gate)
			return []int64{-8}
		}
		time.Sleep(50 * time.Millisecond)
		setNextID(fmt.Sprint(base + 3))
		_ = srv.SendRequest("B", core16.NewDataTransferRequest("b1"))                       // the pump is now held inside the write to B
		time.Sleep(100 * time.Millisecond)                                                  // a1's deadline has passed: its timeout token is waiting
		_ = fake.Inject("A", []byte(fmt.Sprintf(`[3,"%d",{"status":"Accepted"}]`, base+1))) // and its reply arrives just now
		time.Sleep(5 * time.Millisecond)
		close(gate)
		if !waitFor(2*time.Second, func() bool { _, ok := writtenAt.Load(base + 2); return ok }) {
			within(2*time.Second, srv.Stop)
			return []int64{0, -1}
		}
		time.Sleep(60 * time.Millisecond) // half of a2's timeout
		mu.Lock()
		_, cancelledEarly := cancelledAt[fmt.Sprint(base+2)]
		mu.Unlock()
		_ = fake.Inject("A", []byte(fmt.Sprintf(`[3,"%d",{"status":"Accepted"}]`, base+2)))
		time.Sleep(20 * time.Millisecond)
		mu.Lock()
		ok2 := answered[fmt.Sprint(base+2)]
		mu.Unlock()
		within(2*time.Second, srv.Stop)
		if cancelledEarly || !ok2 {
			early++
		}
	}
	if early == 0 {
		return []int64{1, 0}
	}
	return []int64{0, early}
}

// scenario 24 (C11, C07; finding F13): a client disconnects with a request outstanding and the same id reconnects before
// the pump has handled the disconnection (it is busy writing to another client).  A request sent to the new session must
// be written promptly -- nothing of the old session, not even its timeout context, may hold it back.
func gatedReconnectBeforePumpNotices() []int64 {
	installIDGen()
	fake := fakews.NewServer()
	disp := ocppj.NewDefaultServerDispatcher(ocppj.NewFIFOQueueMap(0))
	disp.SetTimeout(3 * time.Second)
	srv := ocppj.NewServer(fake, disp, nil, core16.Profile)
	srv.SetResponseHandler(func(c ws_Channel, r ocpp.Response, id string) {})
	srv.SetErrorHandler(func(c ws_Channel, e *ocpp.Error, d interface{}) {})
	srv.SetRequestHandler(func(c ws_Channel, r ocpp.Request, id, action string) {})
	srv.SetCanceledRequestHandler(func(clientID string, requestID string, r ocpp.Request, e *ocpp.Error) {})
	gate := make(chan struct{})
	fake.OnWrite = func(to string, data []byte) {
		if to == "B" {
			<-gate
		}
	}
	go srv.Start(0, "/{ws}")
	if !waitFor(2*time.Second, disp.IsRunning) {
		return []int64{-2}
	}
	fake.Connect("A")
	fake.Connect("B")
	wrote := func(to string, id int64) func() bool {
		return func() bool {
			return fake.CountWritten(func(t string, d []byte) bool { return t == to && callID(d) == id }) > 0
		}
	}
	setNextID("201")
	_ = srv.SendRequest("A", core16.NewDataTransferRequest("a1"))
	if !waitFor(2*time.Second, wrote("A", 201)) {
		close(gate)
		return []int64{-8}
	}
	setNextID("202")
	_ = srv.SendRequest("B", core16.NewDataTransferRequest("b1")) // the pump is now held inside the write to B
	time.Sleep(20 * time.Millisecond)
	fake.Disconnect("A") // a1 outstanding
	fake.Connect("A")    // the same id is back at once
	setNextID("203")
	if err := srv.SendRequest("A", core16.NewDataTransferRequest("a2")); err != nil {
		close(gate)
		return []int64{0, -1}
	}
	close(gate)
	ok := waitFor(1500*time.Millisecond, wrote("A", 203)) // well before a1's old deadline (3 s)
	within(3*time.Second, srv.Stop)
	if ok {
		return []int64{1, 0}
	}
	return []int64{0, 0}
}

// scenario 25 (C03, C06): an invalid-message hook is installed and substitutes its own error (which carries no message id,
// or another one).  A rejected CALL must still get exactly one CALL_ERROR carrying the CALL's own id -- on both roles.
func gatedInvalidMessageHook() []int64 {
	installIDGen()
	bad := int64(0)
	calls := []struct{ id, frame string }{
		{"h1", `[2,"h1","NoSuchAction",{}]`},
		{"h2", `[2,"h2","DataTransfer",{"vendorId":""}]`},
		{"h3", `[2,"h3","DataTransfer",{"vendorId":5}]`},
	}
	frameID := func(d []byte) (int, string) {
		var arr []json.RawMessage
		if json.Unmarshal(d, &arr) != nil || len(arr) < 2 {
			return 0, ""
		}
		var t int
		var id string
		_ = json.Unmarshal(arr[0], &t)
		_ = json.Unmarshal(arr[1], &id)
		return t, id
	}
	for variant := 0; variant < 3; variant++ { // hook error: 0 without id, 1 with a foreign id, 2 hook returns nil
		mkErr := func(orig *ocpp.Error) *ocpp.Error {
			switch variant {
			case 0:
				return ocpp.NewHandlerError(ocppj.GenericError, "rewritten by the application")
			case 1:
				return ocpp.NewError(ocppj.GenericError, "rewritten by the application", "some-other-id")
			}
			return nil
		}
		// server role
		fs := fakews.NewServer()
		sd := ocppj.NewDefaultServerDispatcher(ocppj.NewFIFOQueueMap(0))
		srv := ocppj.NewServer(fs, sd, nil, core16.Profile)
		srv.SetDialect(ocpp.V16)
		srv.SetRequestHandler(func(c ws_Channel, r ocpp.Request, id, action string) {})
		srv.SetResponseHandler(func(c ws_Channel, r ocpp.Response, id string) {})
		srv.SetErrorHandler(func(c ws_Channel, e *ocpp.Error, d interface{}) {})
		srv.SetInvalidMessageHook(func(c ws_Channel, e *ocpp.Error, raw string, parsed []interface{}) *ocpp.Error { return mkErr(e) })
		go srv.Start(0, "/{ws}")
		if !waitFor(2*time.Second, sd.IsRunning) {
			return []int64{-2}
		}
		fs.Connect("c1")
		for _, c := range calls {
			_ = fs.Inject("c1", []byte(c.frame))
		}
		time.Sleep(30 * time.Millisecond)
		for _, c := range calls {
			n := fs.CountWritten(func(to string, d []byte) bool { t, id := frameID(d); return to == "c1" && t == 4 && id == c.id })
			if n != 1 {
				bad++
			}
		}
		if fs.CountWritten(func(to string, d []byte) bool { return true }) != len(calls) {
			bad++
		}
		within(2*time.Second, srv.Stop)
		// client role
		fc := fakews.NewClient()
		cd := ocppj.NewDefaultClientDispatcher(ocppj.NewFIFOClientQueue(0))
		cl := ocppj.NewClient("cp1", fc, cd, nil, core16.Profile)
		cl.SetDialect(ocpp.V16)
		cl.SetRequestHandler(func(r ocpp.Request, id, action string) {})
		cl.SetResponseHandler(func(r ocpp.Response, id string) {})
		cl.SetErrorHandler(func(e *ocpp.Error, d interface{}) {})
		cl.SetInvalidMessageHook(func(e *ocpp.Error, raw string, parsed []interface{}) *ocpp.Error { return mkErr(e) })
		if err := cl.Start("ws://fake"); err != nil {
			return []int64{-3}
		}
		for _, c := range calls {
			_ = fc.Inject([]byte(c.frame))
		}
		time.Sleep(30 * time.Millisecond)
		for _, c := range calls {
			n := fc.CountWritten(func(d []byte) bool { t, id := frameID(d); return t == 4 && id == c.id })
			if n != 1 {
				bad++
			}
		}
		if fc.CountWritten(func(d []byte) bool { return true }) != len(calls) {
			bad++
		}
		within(2*time.Second, cl.Stop)
	}
	if bad == 0 {
		return []int64{1, 0}
	}
	return []int64{0, bad}
}

// scenario 26 (C02, C08; finding F19): a request to client A times out and the application's cancel handler at once sends
// the next request to the same client.  That request is written once and keeps its own timeout.
func gatedTimeoutThenSendToSame() []int64 {
	bad := int64(0)
	for try := 0; try < 6; try++ { // which of the two tokens the pump takes first is a coin flip
		r := gatedTimeoutThenSendToSameOnce()
		if len(r) == 0 || r[0] < 0 {
			return r
		}
		if r[0] != 1 {
			bad++
		}
	}
	if bad == 0 {
		return []int64{1, 0}
	}
	return []int64{0, bad}
}

func gatedTimeoutThenSendToSameOnce() []int64 {
	installIDGen()
	fake := fakews.NewServer()
	disp := ocppj.NewDefaultServerDispatcher(ocppj.NewFIFOQueueMap(0))
	disp.SetTimeout(150 * time.Millisecond)
	srv := ocppj.NewServer(fake, disp, nil, core16.Profile)
	srv.SetResponseHandler(func(c ws_Channel, r ocpp.Response, id string) {})
	srv.SetErrorHandler(func(c ws_Channel, e *ocpp.Error, d interface{}) {})
	srv.SetRequestHandler(func(c ws_Channel, r ocpp.Request, id, action string) {})
	var mu sync.Mutex
	cancelled := []string{}
	srv.SetCanceledRequestHandler(func(clientID string, requestID string, r ocpp.Request, e *ocpp.Error) {
		mu.Lock()
		cancelled = append(cancelled, requestID)
		first := len(cancelled) == 1
		mu.Unlock()
		if first {
			setNextID("302")
			_ = srv.SendRequest("A", core16.NewDataTransferRequest("a2"))
		}
	})
	go srv.Start(0, "/{ws}")
	if !waitFor(2*time.Second, disp.IsRunning) {
		return []int64{-2}
	}
	fake.Connect("A")
	setNextID("301")
	_ = srv.SendRequest("A", core16.NewDataTransferRequest("a1"))
	count := func(id int64) int {
		return fake.CountWritten(func(t string, d []byte) bool { return t == "A" && callID(d) == id })
	}
	if !waitFor(2*time.Second, func() bool { return count(302) >= 1 }) { // a1 times out after 150 ms, a2 follows
		within(2*time.Second, srv.Stop)
		return []int64{0, 0}
	}
	time.Sleep(60 * time.Millisecond)
	n2 := count(302)
	// a2 is never answered: it must time out on its own, once
	ok := waitFor(time.Second, func() bool { mu.Lock(); defer mu.Unlock(); return len(cancelled) >= 2 })
	time.Sleep(50 * time.Millisecond)
	within(2*time.Second, srv.Stop)
	mu.Lock()
	defer mu.Unlock()
	if n2 == 1 && ok && len(cancelled) == 2 && cancelled[0] == "301" && cancelled[1] == "302" {
		return []int64{1, 0}
	}
	return []int64{0, int64(n2), int64(len(cancelled))}
}

// scenario 27 (C08, C11): requests are outstanding for clients X and Y (Y's dispatched last); X's session ends.  Y's request
// must still time out at its own deadline, exactly once -- the end of X's session touches nothing of Y.
func gatedDisconnectKeepsOtherTimeout() []int64 {
	installIDGen()
	fake := fakews.NewServer()
	disp := ocppj.NewDefaultServerDispatcher(ocppj.NewFIFOQueueMap(0))
	disp.SetTimeout(200 * time.Millisecond)
	srv := ocppj.NewServer(fake, disp, nil, core16.Profile)
	srv.SetResponseHandler(func(c ws_Channel, r ocpp.Response, id string) {})
	srv.SetErrorHandler(func(c ws_Channel, e *ocpp.Error, d interface{}) {})
	srv.SetRequestHandler(func(c ws_Channel, r ocpp.Request, id, action string) {})
	var mu sync.Mutex
	cancelled := map[string]int{}
	srv.SetCanceledRequestHandler(func(clientID string, requestID string, r ocpp.Request, e *ocpp.Error) {
		mu.Lock()
		cancelled[requestID]++
		mu.Unlock()
	})
	go srv.Start(0, "/{ws}")
	if !waitFor(2*time.Second, disp.IsRunning) {
		return []int64{-2}
	}
	fake.Connect("X")
	fake.Connect("Y")
	wrote := func(to string, id int64) func() bool {
		return func() bool {
			return fake.CountWritten(func(t string, d []byte) bool { return t == to && callID(d) == id }) > 0
		}
	}
	setNextID("401")
	_ = srv.SendRequest("X", core16.NewDataTransferRequest("x1"))
	if !waitFor(2*time.Second, wrote("X", 401)) {
		return []int64{-8}
	}
	setNextID("402")
	_ = srv.SendRequest("Y", core16.NewDataTransferRequest("y1"))
	if !waitFor(2*time.Second, wrote("Y", 402)) {
		return []int64{-8}
	}
	t0 := time.Now()
	time.Sleep(20 * time.Millisecond)
	fake.Disconnect("X")
	ok := waitFor(1200*time.Millisecond, func() bool { mu.Lock(); defer mu.Unlock(); return cancelled["402"] >= 1 })
	el := time.Since(t0)
	time.Sleep(50 * time.Millisecond)
	within(2*time.Second, srv.Stop)
	mu.Lock()
	defer mu.Unlock()
	if ok && cancelled["402"] == 1 && el >= 150*time.Millisecond {
		return []int64{1, 0}
	}
	return []int64{0, int64(cancelled["402"]), int64(el / time.Millisecond)}
}

// scenario 28 (C11, C07): while the pump is busy writing to client C, the replies of clients A and B arrive, each of
// which has a further request queued.  Both follow-up requests must be written: activity on one connection never
// swallows the wake-up of another.
func gatedTwoCompletionsWhilePumpBusy() []int64 {
	installIDGen()
	fake := fakews.NewServer()
	disp := ocppj.NewDefaultServerDispatcher(ocppj.NewFIFOQueueMap(0))
	disp.SetTimeout(time.Hour)
	srv := ocppj.NewServer(fake, disp, nil, core16.Profile)
	srv.SetResponseHandler(func(c ws_Channel, r ocpp.Response, id string) {})
	srv.SetErrorHandler(func(c ws_Channel, e *ocpp.Error, d interface{}) {})
	srv.SetRequestHandler(func(c ws_Channel, r ocpp.Request, id, action string) {})
	gate := make(chan struct{})
	fake.OnWrite = func(to string, data []byte) {
		if to == "C" {
			<-gate
		}
	}
	go srv.Start(0, "/{ws}")
	if !waitFor(2*time.Second, disp.IsRunning) {
		return []int64{-2}
	}
	for _, c := range []string{"A", "B", "C"} {
		fake.Connect(c)
	}
	wrote := func(to string, id int64) func() bool {
		return func() bool {
			return fake.CountWritten(func(t string, d []byte) bool { return t == to && callID(d) == id }) > 0
		}
	}
	send := func(to string, id int64) {
		setNextID(fmt.Sprint(id))
		_ = srv.SendRequest(to, core16.NewDataTransferRequest("v"))
	}
	send("A", 501)
	send("A", 502)
	send("B", 511)
	send("B", 512)
	if !waitFor(2*time.Second, func() bool { return wrote("A", 501)() && wrote("B", 511)() }) {
		close(gate)
		return []int64{-8}
	}
	send("C", 521) // the pump is now held inside the write to C
	time.Sleep(20 * time.Millisecond)
	_ = fake.Inject("A", []byte(`[3,"501",{"status":"Accepted"}]`))
	_ = fake.Inject("B", []byte(`[3,"511",{"status":"Accepted"}]`))
	time.Sleep(10 * time.Millisecond)
	close(gate)
	okA := waitFor(2*time.Second, wrote("A", 502))
	okB := waitFor(2*time.Second, wrote("B", 512))
	within(3*time.Second, srv.Stop)
	if okA && okB {
		return []int64{1, 0}
	}
	return []int64{0, b2i(okA), b2i(okB)}
}

// scenario 29 (C07): a request times out and, while the pump is inside the application's cancel handler, the connection
// drops (and later comes back).  The disconnection must be processed (Pause returns), and the endpoint must work afterwards.
func gatedDisconnectDuringTimeoutHandling() []int64 {
	installIDGen()
	fake := fakews.NewClient()
	disp := ocppj.NewDefaultClientDispatcher(ocppj.NewFIFOClientQueue(0))
	disp.SetTimeout(time.Hour)
	cl := ocppj.NewClient("cp1", fake, disp, nil, core16.Profile)
	cl.SetResponseHandler(func(r ocpp.Response, id string) {})
	cl.SetErrorHandler(func(e *ocpp.Error, d interface{}) {})
	cl.SetRequestHandler(func(r ocpp.Request, id, action string) {})
	entered := make(chan struct{}, 4)
	release := make(chan struct{})
	var once sync.Once
	cl.SetOnRequestCanceled(func(id string, r ocpp.Request, e *ocpp.Error) {
		first := false
		once.Do(func() { first = true })
		if first {
			entered <- struct{}{}
			<-release
		}
	})
	if err := cl.Start("ws://fake"); err != nil {
		return []int64{-2}
	}
	setNextID("601")
	_ = cl.SendRequest(core16.NewDataTransferRequest("v1"))
	if !waitFor(2*time.Second, clientWrote(fake, 601)) {
		return []int64{-8}
	}
	disp.VerifFireTimer() // the request times out
	select {
	case <-entered: // the pump has taken the expiry and sits in the cancel handler
	case <-time.After(2 * time.Second):
		return []int64{-4}
	}
	dropped := within(2*time.Second, func() { fake.Drop() })
	close(release)
	if !dropped {
		return []int64{-8, 1}
	}
	if !within(2*time.Second, func() { fake.Reconnect() }) {
		return []int64{-8, 2}
	}
	setNextID("602")
	if !within(2*time.Second, func() { _ = cl.SendRequest(core16.NewDataTransferRequest("v2")) }) {
		return []int64{-8, 3}
	}
	ok := waitFor(2*time.Second, clientWrote(fake, 602))
	stopped := within(3*time.Second, cl.Stop)
	if ok && stopped {
		return []int64{1, 0}
	}
	return []int64{0, b2i(ok), b2i(stopped)}
}

// scenario 30 (C16, C01): Stop while the callback goroutine is busy inside an application callback; the endpoint is
// started again and a request is sent before that callback returns.  The new session's request must be concluded at
// its own callback: the previous session's goroutine must not take the new session's callbacks with it when it leaves.
func gatedRestartWhileCallbackBusy() []int64 {
	installIDGen()
	fake := fakews.NewClient()
	disp := ocppj.NewDefaultClientDispatcher(ocppj.NewFIFOClientQueue(0))
	disp.SetTimeout(time.Hour)
	cp := ocpp16.NewChargePoint("cp1", ocppj.NewClient("cp1", fake, disp, nil, core16.Profile), fake)
	if err := cp.Start("ws://fake"); err != nil {
		return []int64{-2}
	}
	entered := make(chan struct{}, 2)
	release := make(chan struct{})
	setNextID("701")
	_ = cp.SendRequestAsync(core16.NewDataTransferRequest("v1"), func(r ocpp.Response, e error) {
		entered <- struct{}{}
		<-release
	})
	if !waitFor(3*time.Second, clientWrote(fake, 701)) {
		return []int64{-8}
	}
	_ = fake.Inject([]byte(`[3,"701",{"status":"Accepted","data":"r701"}]`))
	select {
	case <-entered: // the callback goroutine is held inside callback 701
	case <-time.After(2 * time.Second):
		return []int64{-4}
	}
	if !within(3*time.Second, cp.Stop) {
		close(release)
		return []int64{-8, 1}
	}
	fake.TakeWritten()
	if err := cp.Start("ws://fake"); err != nil {
		close(release)
		return []int64{-6}
	}
	var mu sync.Mutex
	got := ""
	calls := 0
	setNextID("702")
	_ = cp.SendRequestAsync(core16.NewDataTransferRequest("v2"), func(r ocpp.Response, e error) {
		mu.Lock()
		calls++
		if dt, ok := r.(*core16.DataTransferConfirmation); ok && dt != nil {
			got = fmt.Sprint(dt.Data)
		}
		mu.Unlock()
	})
	if !waitFor(3*time.Second, clientWrote(fake, 702)) {
		close(release)
		n := fake.CountWritten(func(d []byte) bool { return true })
		first := int64(-1)
		fake.CountWritten(func(d []byte) bool {
			if first == -1 {
				first = callID(d)
			}
			return true
		})
		return []int64{-8, 2, int64(n), first, b2i(cp.IsConnected())}
	}
	close(release) // the first session's callback returns only now
	time.Sleep(30 * time.Millisecond)
	within(time.Second, func() { _ = fake.Inject([]byte(`[3,"702",{"status":"Accepted","data":"r702"}]`)) })
	waitFor(2*time.Second, func() bool { mu.Lock(); defer mu.Unlock(); return calls > 0 })
	time.Sleep(20 * time.Millisecond)
	stopped := within(3*time.Second, cp.Stop)
	mu.Lock()
	defer mu.Unlock()
	if calls == 1 && got == "r702" && stopped {
		return []int64{1, 0}
	}
	return []int64{0, int64(calls), b2i(got == "r702"), b2i(stopped)}
}

// scenario 31 (C16, C01): Stop while the callback goroutine is busy and a further conclusion is already waiting for
// it; once Stop has returned no callback may fire any more, 16 tries.
func gatedNoCallbackAfterStop() []int64 {
	installIDGen()
	late := int64(0)
	for try := 0; try < 16; try++ {
		fake := fakews.NewClient()
		disp := ocppj.NewDefaultClientDispatcher(ocppj.NewFIFOClientQueue(0))
		disp.SetTimeout(time.Hour)
		cp := ocpp16.NewChargePoint("cp1", ocppj.NewClient("cp1", fake, disp, nil, core16.Profile), fake)
		if err := cp.Start("ws://fake"); err != nil {
			return []int64{-2}
		}
		entered := make(chan struct{}, 2)
		release := make(chan struct{})
		var stoppedFlag, lateCalls int32
		setNextID("801")
		_ = cp.SendRequestAsync(core16.NewDataTransferRequest("v1"), func(r ocpp.Response, e error) {
			entered <- struct{}{}
			<-release
		})
		if !waitFor(3*time.Second, clientWrote(fake, 801)) {
			return []int64{-8}
		}
		setNextID("802")
		_ = cp.SendRequestAsync(core16.NewDataTransferRequest("v2"), func(r ocpp.Response, e error) {
			if atomic.LoadInt32(&stoppedFlag) == 1 {
				atomic.AddInt32(&lateCalls, 1)
			}
		})
		time.Sleep(2 * time.Millisecond)
		_ = fake.Inject([]byte(`[3,"801",{"status":"Accepted","data":"r801"}]`))
		select {
		case <-entered:
		case <-time.After(2 * time.Second):
			return []int64{-4}
		}
		if !waitFor(3*time.Second, clientWrote(fake, 802)) {
			close(release)
			return []int64{-8, 1}
		}
		// the reply to 802 is concluded by the OCPP-J layer and waits for the (busy) callback goroutine
		if !within(2*time.Second, func() { _ = fake.Inject([]byte(`[3,"802",{"status":"Accepted","data":"r802"}]`)) }) {
			close(release)
			return []int64{-5}
		}
		time.Sleep(2 * time.Millisecond)
		if !within(3*time.Second, cp.Stop) {
			close(release)
			return []int64{-8, 2}
		}
		atomic.StoreInt32(&stoppedFlag, 1)
		close(release)
		time.Sleep(25 * time.Millisecond)
		if atomic.LoadInt32(&lateCalls) > 0 {
			late++
		}
	}
	if late == 0 {
		return []int64{1, 0}
	}
	return []int64{0, late}
}

// scenario 32 (C07): the requests of 14 clients time out while the pump is held inside the first cancel callback, and
// one of the clients disconnects meanwhile: more expiries are waiting than the pump's timer channel holds.  Every
// request is cancelled, the disconnection is processed, and the dispatcher serves a request sent afterwards.
func gatedManyTimeoutsPumpBusy() []int64 {
	installIDGen()
	fake := fakews.NewServer()
	disp := ocppj.NewDefaultServerDispatcher(ocppj.NewFIFOQueueMap(0))
	disp.SetTimeout(120 * time.Millisecond)
	srv := ocppj.NewServer(fake, disp, nil, core16.Profile)
	srv.SetResponseHandler(func(c ws_Channel, r ocpp.Response, id string) {})
	srv.SetErrorHandler(func(c ws_Channel, e *ocpp.Error, d interface{}) {})
	srv.SetRequestHandler(func(c ws_Channel, r ocpp.Request, id, action string) {})
	srv.SetDisconnectedClientHandler(func(c ws_Channel) {})
	var mu sync.Mutex
	cancelled := 0
	entered := make(chan struct{}, 1)
	release := make(chan struct{})
	var once sync.Once
	srv.SetCanceledRequestHandler(func(clientID string, requestID string, r ocpp.Request, e *ocpp.Error) {
		once.Do(func() { entered <- struct{}{}; <-release })
		mu.Lock()
		cancelled++
		mu.Unlock()
	})
	go srv.Start(0, "/{ws}")
	if !waitFor(2*time.Second, disp.IsRunning) {
		return []int64{-2}
	}
	const n = 14
	gate := make(chan struct{})
	var wonce sync.Once
	fake.OnWrite = func(to string, data []byte) { wonce.Do(func() { <-gate }) }
	for i := 0; i < n; i++ {
		fake.Connect(fmt.Sprintf("c%d", i))
	}
	for i := 0; i < n; i++ {
		if err := srv.SendRequest(fmt.Sprintf("c%d", i), core16.NewDataTransferRequest("v")); err != nil {
			close(gate)
			return []int64{-3}
		}
	}
	close(gate) // all 14 are written, and expire, together
	select {
	case <-entered: // the pump sits in the first cancel callback
	case <-time.After(3 * time.Second):
		return []int64{-4}
	}
	time.Sleep(250 * time.Millisecond) // the other 13 expiries are reported meanwhile
	disc := make(chan bool, 1)
	go func() { disc <- within(4*time.Second, func() { fake.Disconnect("c13") }) }()
	time.Sleep(30 * time.Millisecond)
	close(release)
	disconnected := <-disc
	ok := waitFor(3*time.Second, func() bool { mu.Lock(); defer mu.Unlock(); return cancelled >= n-1 })
	mu.Lock()
	c := cancelled
	mu.Unlock()
	fake.TakeWritten()
	served := int64(0)
	if within(2*time.Second, func() { _ = srv.SendRequest("c0", core16.NewDataTransferRequest("after")) }) &&
		waitFor(2*time.Second, func() bool { return fake.CountWritten(func(string, []byte) bool { return true }) >= 1 }) {
		served = 1
	}
	stopped := within(3*time.Second, srv.Stop)
	if ok && served == 1 && disconnected && stopped {
		return []int64{1, int64(c)}
	}
	return []int64{0, int64(c), served, b2i(disconnected), b2i(stopped)}
}

// callOnlyID is callID for CALL frames (message type 2) and -4 for anything else.
func callOnlyID(frame []byte) int64 {
	var arr []json.RawMessage
	var typ int
	if json.Unmarshal(frame, &arr) != nil || len(arr) < 2 || json.Unmarshal(arr[0], &typ) != nil || typ != 2 {
		return -4
	}
	return callID(frame)
}

// scenario 33 (C02, C09): the peer answers the outstanding CALL with a CALL_RESULT whose payload is unusable (right id,
// wrong type).  The CALL stays outstanding until it is concluded by its timeout: it is never written a second time,
// neither after the timeout when the next request follows (server) nor after a disconnection and reconnection (client).
func gatedMalformedAnswer() []int64 {
	installIDGen()
	bad := int64(0)
	{ // server role
		fake := fakews.NewServer()
		disp := ocppj.NewDefaultServerDispatcher(ocppj.NewFIFOQueueMap(0))
		disp.SetTimeout(150 * time.Millisecond)
		srv := ocppj.NewServer(fake, disp, nil, core16.Profile)
		srv.SetDialect(ocpp.V16)
		srv.SetResponseHandler(func(c ws_Channel, r ocpp.Response, id string) {})
		srv.SetErrorHandler(func(c ws_Channel, e *ocpp.Error, d interface{}) {})
		srv.SetRequestHandler(func(c ws_Channel, r ocpp.Request, id, action string) {})
		var mu sync.Mutex
		cancelled := []string{}
		srv.SetCanceledRequestHandler(func(clientID string, requestID string, r ocpp.Request, e *ocpp.Error) {
			mu.Lock()
			cancelled = append(cancelled, requestID)
			mu.Unlock()
		})
		go srv.Start(0, "/{ws}")
		if !waitFor(2*time.Second, disp.IsRunning) {
			return []int64{-2}
		}
		fake.Connect("A")
		setNextID("901")
		_ = srv.SendRequest("A", core16.NewDataTransferRequest("a1"))
		count := func(id int64) int {
			return fake.CountWritten(func(t string, d []byte) bool { return t == "A" && callOnlyID(d) == id })
		}
		if !waitFor(2*time.Second, func() bool { return count(901) >= 1 }) {
			return []int64{-8}
		}
		_ = fake.Inject("A", []byte(`[3,"901",{"status":12}]`))
		waitFor(2*time.Second, func() bool { mu.Lock(); defer mu.Unlock(); return len(cancelled) >= 1 }) // the timeout concludes it
		setNextID("902")
		_ = srv.SendRequest("A", core16.NewDataTransferRequest("a2"))
		waitFor(2*time.Second, func() bool { return count(902) >= 1 })
		setNextID("903")
		_ = srv.SendRequest("A", core16.NewDataTransferRequest("a3"))
		time.Sleep(60 * time.Millisecond)
		mu.Lock()
		nc := len(cancelled)
		mu.Unlock()
		if !(count(901) == 1 && count(902) == 1 && nc >= 1) {
			bad |= 1
		}
		within(2*time.Second, srv.Stop)
	}
	{ // client role
		fake := fakews.NewClient()
		disp := ocppj.NewDefaultClientDispatcher(ocppj.NewFIFOClientQueue(0))
		disp.SetTimeout(time.Hour)
		cl := ocppj.NewClient("cp1", fake, disp, nil, core16.Profile)
		cl.SetDialect(ocpp.V16)
		cl.SetResponseHandler(func(r ocpp.Response, id string) {})
		cl.SetErrorHandler(func(e *ocpp.Error, d interface{}) {})
		cl.SetRequestHandler(func(r ocpp.Request, id, action string) {})
		cl.SetOnRequestCanceled(func(id string, r ocpp.Request, e *ocpp.Error) {})
		if err := cl.Start("ws://fake"); err != nil {
			return []int64{-2}
		}
		setNextID("911")
		_ = cl.SendRequest(core16.NewDataTransferRequest("v1"))
		if !waitFor(2*time.Second, clientWrote(fake, 911)) {
			return []int64{-8, 1}
		}
		setNextID("912")
		_ = cl.SendRequest(core16.NewDataTransferRequest("v2"))
		_ = fake.Inject([]byte(`[3,"911",{"status":12}]`))
		time.Sleep(10 * time.Millisecond)
		within(2*time.Second, func() { fake.Drop() })
		within(2*time.Second, func() { fake.Reconnect() })
		time.Sleep(40 * time.Millisecond)
		n1 := fake.CountWritten(func(d []byte) bool { return callOnlyID(d) == 911 })
		n2 := fake.CountWritten(func(d []byte) bool { return callOnlyID(d) == 912 })
		if !(n1 == 1 && n2 == 0) { // 911 is still outstanding: nothing else may be written
			bad |= 2
		}
		within(3*time.Second, cl.Stop)
	}
	if bad == 0 {
		return []int64{1, 0}
	}
	return []int64{0, bad}
}

// scenario 34 (C11, C02, C09): the application's disconnect handler for an ended session is slow; the same id connects
// again meanwhile and a CALL is written to the new session.  When the old handler finally returns, nothing of the new
// session may be touched: its reply is accepted and delivered, its request is not written again.
func gatedSlowDisconnectHandler() []int64 {
	installIDGen()
	fake := fakews.NewServer()
	disp := ocppj.NewDefaultServerDispatcher(ocppj.NewFIFOQueueMap(0))
	disp.SetTimeout(400 * time.Millisecond)
	srv := ocppj.NewServer(fake, disp, nil, core16.Profile)
	var mu sync.Mutex
	answered := []string{}
	cancelled := []string{}
	srv.SetResponseHandler(func(c ws_Channel, r ocpp.Response, id string) {
		mu.Lock()
		answered = append(answered, id)
		mu.Unlock()
	})
	srv.SetErrorHandler(func(c ws_Channel, e *ocpp.Error, d interface{}) {})
	srv.SetRequestHandler(func(c ws_Channel, r ocpp.Request, id, action string) {})
	srv.SetCanceledRequestHandler(func(clientID string, requestID string, r ocpp.Request, e *ocpp.Error) {
		mu.Lock()
		cancelled = append(cancelled, requestID)
		mu.Unlock()
	})
	entered := make(chan struct{}, 4)
	release := make(chan struct{})
	var once sync.Once
	srv.SetDisconnectedClientHandler(func(c ws_Channel) {
		once.Do(func() { entered <- struct{}{}; <-release })
	})
	go srv.Start(0, "/{ws}")
	if !waitFor(2*time.Second, disp.IsRunning) {
		return []int64{-2}
	}
	fake.Connect("A")
	go fake.Disconnect("A") // idle session ends; the application's handler is slow
	select {
	case <-entered:
	case <-time.After(2 * time.Second):
		return []int64{-4}
	}
	if !within(2*time.Second, func() { fake.Connect("A") }) {
		close(release)
		return []int64{-8, 1}
	}
	setNextID("921")
	_ = srv.SendRequest("A", core16.NewDataTransferRequest("a1"))
	count := func(id int64) int {
		return fake.CountWritten(func(t string, d []byte) bool { return t == "A" && callID(d) == id })
	}
	if !waitFor(2*time.Second, func() bool { return count(921) >= 1 }) {
		close(release)
		return []int64{-8, 2}
	}
	close(release) // the handler of the ended session returns only now
	time.Sleep(30 * time.Millisecond)
	_ = fake.Inject("A", []byte(`[3,"921",{"status":"Accepted","data":"r"}]`))
	ok := waitFor(time.Second, func() bool { mu.Lock(); defer mu.Unlock(); return len(answered) >= 1 })
	setNextID("922")
	_ = srv.SendRequest("A", core16.NewDataTransferRequest("a2"))
	waitFor(2*time.Second, func() bool { return count(922) >= 1 })
	time.Sleep(600 * time.Millisecond) // past the timeout of 921, had it been left outstanding
	n1, n2 := count(921), count(922)
	mu.Lock()
	nc := 0
	for _, id := range cancelled {
		if id == "921" {
			nc++
		}
	}
	mu.Unlock()
	within(2*time.Second, srv.Stop)
	if ok && n1 == 1 && n2 == 1 && nc == 0 {
		return []int64{1, 0}
	}
	return []int64{0, b2i(ok), int64(n1), int64(n2), int64(nc)}
}

// scenario 35 (C07, C11): central system / CSMS: the application callback of a request that timed out blocks (it waits
// for an exchange with another station, as an application may).  The dispatcher must go on serving the other station:
// callbacks run on their own, never on the message pump.  Both protocol versions.
func gatedBlockingCancelCallback() []int64 {
	installIDGen()
	bad := int64(0)
	for variant := 0; variant < 2; variant++ {
		fake := fakews.NewServer()
		disp := ocppj.NewDefaultServerDispatcher(ocppj.NewFIFOQueueMap(0))
		disp.SetTimeout(120 * time.Millisecond)
		var ep serverSendAPI
		var mkReq func() ocpp.Request
		if variant == 0 {
			cs := ocpp16.NewCentralSystem(ocppj.NewServer(fake, disp, nil, core16.Profile), fake)
			cs.SetChargePointDisconnectedHandler(func(cp ocpp16.ChargePointConnection) {})
			ep = cs
			mkReq = func() ocpp.Request { return core16.NewDataTransferRequest("v") }
		} else {
			cs := ocpp2.NewCSMS(ocppj.NewServer(fake, disp, nil, data2.Profile), fake)
			cs.SetChargingStationDisconnectedHandler(func(cp ocpp2.ChargingStationConnection) {})
			ep = cs
			mkReq = func() ocpp.Request { return data2.NewDataTransferRequest("v") }
		}
		go ep.Start(0, "/{ws}")
		if !waitFor(2*time.Second, disp.IsRunning) {
			return []int64{-2}
		}
		fake.Connect("mute")
		fake.Connect("okst")
		release := make(chan struct{})
		entered := make(chan struct{}, 1)
		setNextID("951")
		_ = ep.SendRequestAsync("mute", mkReq(), func(conf ocpp.Response, err error) {
			entered <- struct{}{}
			<-release // e.g. waits for something that needs the dispatcher
		})
		select {
		case <-entered: // 951 timed out, its callback is running (and stays)
		case <-time.After(3 * time.Second):
			bad |= 1 << (2 * variant)
			close(release)
			within(2*time.Second, ep.Stop)
			continue
		}
		got := make(chan struct{}, 1)
		setNextID("952")
		_ = ep.SendRequestAsync("okst", mkReq(), func(conf ocpp.Response, err error) {
			if err == nil {
				got <- struct{}{}
			}
		})
		wrote := waitFor(2*time.Second, func() bool {
			return fake.CountWritten(func(t string, d []byte) bool { return t == "okst" && callOnlyID(d) == 952 }) >= 1
		})
		if wrote {
			_ = fake.Inject("okst", []byte(`[3,"952",{"status":"Accepted","data":"r"}]`))
		}
		answered := false
		select {
		case <-got:
			answered = true
		case <-time.After(2 * time.Second):
		}
		close(release)
		if !(wrote && answered) {
			bad |= 2 << (2 * variant)
		}
		within(2*time.Second, ep.Stop)
	}
	if bad == 0 {
		return []int64{1, 0}
	}
	return []int64{0, bad}
}

// scenario 36 (C08, C11): a client connects and disconnects without any traffic, then connects again; two CALLs are
// queued for it and the first is never answered: it is cancelled by its timeout (once, not early) and the second one
// is written afterwards.  What the dispatcher remembers of the idle session must not disturb the next one.
func gatedIdleSessionThenTimeout() []int64 {
	installIDGen()
	fake := fakews.NewServer()
	disp := ocppj.NewDefaultServerDispatcher(ocppj.NewFIFOQueueMap(0))
	disp.SetTimeout(150 * time.Millisecond)
	srv := ocppj.NewServer(fake, disp, nil, core16.Profile)
	srv.SetDialect(ocpp.V16)
	srv.SetResponseHandler(func(c ws_Channel, r ocpp.Response, id string) {})
	srv.SetErrorHandler(func(c ws_Channel, e *ocpp.Error, d interface{}) {})
	srv.SetRequestHandler(func(c ws_Channel, r ocpp.Request, id, action string) {})
	srv.SetDisconnectedClientHandler(func(c ws_Channel) {})
	var mu sync.Mutex
	cancelled := []string{}
	var cancelAt time.Time
	srv.SetCanceledRequestHandler(func(clientID string, requestID string, r ocpp.Request, e *ocpp.Error) {
		mu.Lock()
		cancelled = append(cancelled, requestID)
		if requestID == "961" {
			cancelAt = time.Now()
		}
		mu.Unlock()
	})
	go srv.Start(0, "/{ws}")
	if !waitFor(2*time.Second, disp.IsRunning) {
		return []int64{-2}
	}
	fake.Connect("A")
	time.Sleep(5 * time.Millisecond)
	fake.Disconnect("A") // a session without any request
	time.Sleep(20 * time.Millisecond)
	fake.Connect("A")
	count := func(id int64) int {
		return fake.CountWritten(func(t string, d []byte) bool { return t == "A" && callOnlyID(d) == id })
	}
	setNextID("961")
	_ = srv.SendRequest("A", core16.NewDataTransferRequest("a1"))
	setNextID("962")
	_ = srv.SendRequest("A", core16.NewDataTransferRequest("a2"))
	if !waitFor(2*time.Second, func() bool { return count(961) >= 1 }) {
		within(2*time.Second, srv.Stop)
		return []int64{0, 0}
	}
	wroteAt := time.Now()
	second := waitFor(2*time.Second, func() bool { return count(962) >= 1 })
	mu.Lock()
	n := 0
	for _, id := range cancelled {
		if id == "961" {
			n++
		}
	}
	early := n > 0 && cancelAt.Sub(wroteAt) < 100*time.Millisecond
	mu.Unlock()
	_ = fake.Inject("A", []byte(`[3,"962",{"status":"Accepted","data":"r"}]`))
	time.Sleep(20 * time.Millisecond)
	within(2*time.Second, srv.Stop)
	if second && n == 1 && !early && count(961) == 1 && count(962) == 1 {
		return []int64{1, 0}
	}
	return []int64{0, b2i(second), int64(n), b2i(early), int64(count(961)), int64(count(962))}
}

// scenario 37 (C09): replies that do not belong to the outstanding request are discarded silently, whatever their
// shape: with a request outstanding, a truncated CALL_ERROR and a truncated CALL_RESULT carrying a foreign id arrive.
// Nothing is written back, no handler fires, and the genuine reply is then accepted.  Both roles.
func gatedTruncatedForeignReply() []int64 {
	installIDGen()
	bad := int64(0)
	foreign := [][]byte{[]byte(`[4,"zzz9","SomeCode"]`), []byte(`[4,"777",12]`), []byte(`[3,"zzz9",{"status":12}]`), []byte(`[3,"778",7]`), []byte(`[4,"zzz9","SomeCode","descr"]`)}
	{ // server
		fake := fakews.NewServer()
		disp := ocppj.NewDefaultServerDispatcher(ocppj.NewFIFOQueueMap(0))
		disp.SetTimeout(time.Hour)
		srv := ocppj.NewServer(fake, disp, nil, core16.Profile)
		srv.SetDialect(ocpp.V16)
		var hooks, handlers, answered int32
		srv.SetInvalidMessageHook(func(c ws_Channel, err *ocpp.Error, raw string, parsed []interface{}) *ocpp.Error {
			atomic.AddInt32(&hooks, 1)
			return nil
		})
		srv.SetResponseHandler(func(c ws_Channel, r ocpp.Response, id string) { atomic.AddInt32(&answered, 1) })
		srv.SetErrorHandler(func(c ws_Channel, e *ocpp.Error, d interface{}) { atomic.AddInt32(&handlers, 1) })
		srv.SetRequestHandler(func(c ws_Channel, r ocpp.Request, id, action string) { atomic.AddInt32(&handlers, 1) })
		srv.SetCanceledRequestHandler(func(clientID string, requestID string, r ocpp.Request, e *ocpp.Error) { atomic.AddInt32(&handlers, 1) })
		go srv.Start(0, "/{ws}")
		if !waitFor(2*time.Second, disp.IsRunning) {
			return []int64{-2}
		}
		fake.Connect("A")
		setNextID("971")
		_ = srv.SendRequest("A", core16.NewDataTransferRequest("a1"))
		if !waitFor(2*time.Second, func() bool {
			return fake.CountWritten(func(t string, d []byte) bool { return callOnlyID(d) == 971 }) >= 1
		}) {
			return []int64{-8}
		}
		before := fake.CountWritten(func(string, []byte) bool { return true })
		for _, f := range foreign {
			_ = fake.Inject("A", f)
		}
		time.Sleep(30 * time.Millisecond)
		after := fake.CountWritten(func(string, []byte) bool { return true })
		_ = fake.Inject("A", []byte(`[3,"971",{"status":"Accepted","data":"r"}]`))
		ok := waitFor(time.Second, func() bool { return atomic.LoadInt32(&answered) == 1 })
		if !(after == before && atomic.LoadInt32(&hooks) == 0 && atomic.LoadInt32(&handlers) == 0 && ok) {
			bad |= 1
		}
		within(2*time.Second, srv.Stop)
	}
	{ // client
		fake := fakews.NewClient()
		disp := ocppj.NewDefaultClientDispatcher(ocppj.NewFIFOClientQueue(0))
		disp.SetTimeout(time.Hour)
		cl := ocppj.NewClient("cp1", fake, disp, nil, core16.Profile)
		cl.SetDialect(ocpp.V16)
		var hooks, handlers, answered int32
		cl.SetInvalidMessageHook(func(err *ocpp.Error, raw string, parsed []interface{}) *ocpp.Error {
			atomic.AddInt32(&hooks, 1)
			return nil
		})
		cl.SetResponseHandler(func(r ocpp.Response, id string) { atomic.AddInt32(&answered, 1) })
		cl.SetErrorHandler(func(e *ocpp.Error, d interface{}) { atomic.AddInt32(&handlers, 1) })
		cl.SetRequestHandler(func(r ocpp.Request, id, action string) { atomic.AddInt32(&handlers, 1) })
		cl.SetOnRequestCanceled(func(id string, r ocpp.Request, e *ocpp.Error) { atomic.AddInt32(&handlers, 1) })
		if err := cl.Start("ws://fake"); err != nil {
			return []int64{-2}
		}
		setNextID("981")
		_ = cl.SendRequest(core16.NewDataTransferRequest("v1"))
		if !waitFor(2*time.Second, clientWrote(fake, 981)) {
			return []int64{-8, 1}
		}
		before := fake.CountWritten(func([]byte) bool { return true })
		for _, f := range foreign {
			_ = fake.Inject(f)
		}
		time.Sleep(30 * time.Millisecond)
		after := fake.CountWritten(func([]byte) bool { return true })
		_ = fake.Inject([]byte(`[3,"981",{"status":"Accepted","data":"r"}]`))
		ok := waitFor(time.Second, func() bool { return atomic.LoadInt32(&answered) == 1 })
		if !(after == before && atomic.LoadInt32(&hooks) == 0 && atomic.LoadInt32(&handlers) == 0 && ok) {
			bad |= 2
		}
		within(3*time.Second, cl.Stop)
	}
	if bad == 0 {
		return []int64{1, 0}
	}
	return []int64{0, bad}
}

// scenario 38 (C11, C01): central system: the application's disconnect handler sends a request to the client whose
// session has just ended.  It is refused (nothing of the ended session is left to queue it on) and its callback never
// fires; after the same id has connected again, a request is answered at its own callback.
func gatedServerSendFromDisconnectHandler() []int64 {
	installIDGen()
	fake := fakews.NewServer()
	disp := ocppj.NewDefaultServerDispatcher(ocppj.NewFIFOQueueMap(0))
	disp.SetTimeout(time.Hour)
	cs := ocpp16.NewCentralSystem(ocppj.NewServer(fake, disp, nil, core16.Profile), fake)
	var mu sync.Mutex
	refused := int64(-1)
	strayCalls := 0
	cs.SetChargePointDisconnectedHandler(func(cp ocpp16.ChargePointConnection) {
		setNextID("991")
		err := cs.SendRequestAsync(cp.ID(), core16.NewDataTransferRequest("late"), func(conf ocpp.Response, err error) {
			mu.Lock()
			strayCalls++
			mu.Unlock()
		})
		mu.Lock()
		refused = b2i(err != nil)
		mu.Unlock()
		time.Sleep(10 * time.Millisecond)
	})
	go cs.Start(0, "/{ws}")
	if !waitFor(2*time.Second, disp.IsRunning) {
		return []int64{-2}
	}
	fake.Connect("A")
	if !within(3*time.Second, func() { fake.Disconnect("A") }) {
		return []int64{-8}
	}
	time.Sleep(20 * time.Millisecond)
	fake.Connect("A")
	got := ""
	calls := 0
	setNextID("992")
	_ = cs.SendRequestAsync("A", core16.NewDataTransferRequest("a2"), func(conf ocpp.Response, err error) {
		mu.Lock()
		calls++
		if dt, ok := conf.(*core16.DataTransferConfirmation); ok && dt != nil {
			got = fmt.Sprint(dt.Data)
		}
		mu.Unlock()
	})
	wrote := waitFor(2*time.Second, func() bool {
		return fake.CountWritten(func(t string, d []byte) bool { return t == "A" && callOnlyID(d) == 992 }) >= 1
	})
	n991 := fake.CountWritten(func(t string, d []byte) bool { return callOnlyID(d) == 991 })
	_ = fake.Inject("A", []byte(`[3,"992",{"status":"Accepted","data":"r992"}]`))
	waitFor(time.Second, func() bool { mu.Lock(); defer mu.Unlock(); return calls > 0 })
	time.Sleep(20 * time.Millisecond)
	within(2*time.Second, cs.Stop)
	mu.Lock()
	defer mu.Unlock()
	if refused == 1 && strayCalls == 0 && wrote && n991 == 0 && calls == 1 && got == "r992" {
		return []int64{1, 0}
	}
	return []int64{0, refused, int64(strayCalls), b2i(wrote), int64(n991), int64(calls), b2i(got == "r992")}
}

// scenario 44 (C16, C08): Stop and Start while the message pump of the first session is still busy (inside the
// application's cancel callback of a request that timed out).  Whatever the restarted endpoint does while that pump
// winds down, the new session is a fresh one: its request is written once and gets its own timeout.
func gatedRestartWhilePumpBusy() []int64 {
	installIDGen()
	fake := fakews.NewClient()
	disp := ocppj.NewDefaultClientDispatcher(ocppj.NewFIFOClientQueue(0))
	disp.SetTimeout(150 * time.Millisecond)
	cl := ocppj.NewClient("cp1", fake, disp, nil, core16.Profile)
	cl.SetDialect(ocpp.V16)
	cl.SetResponseHandler(func(r ocpp.Response, id string) {})
	cl.SetErrorHandler(func(e *ocpp.Error, d interface{}) {})
	cl.SetRequestHandler(func(r ocpp.Request, id, action string) {})
	entered := make(chan struct{}, 1)
	release := make(chan struct{})
	var once sync.Once
	var mu sync.Mutex
	cancelled := map[string]int{}
	cl.SetOnRequestCanceled(func(id string, r ocpp.Request, e *ocpp.Error) {
		once.Do(func() { entered <- struct{}{}; <-release })
		mu.Lock()
		cancelled[id]++
		mu.Unlock()
	})
	if err := cl.Start("ws://fake"); err != nil {
		return []int64{-2}
	}
	setNextID("1001")
	_ = cl.SendRequest(core16.NewDataTransferRequest("v1"))
	select {
	case <-entered: // 1001 timed out; the pump sits in the cancel callback
	case <-time.After(3 * time.Second):
		return []int64{-4}
	}
	if !within(3*time.Second, cl.Stop) {
		close(release)
		return []int64{-8, 1}
	}
	fake.TakeWritten()
	started := make(chan error, 1)
	go func() { started <- cl.Start("ws://fake") }()
	early := false
	select {
	case <-started: // the restart did not wait for the old pump
		early = true
	case <-time.After(300 * time.Millisecond):
	}
	send := func() bool {
		setNextID("1002")
		if err := cl.SendRequest(core16.NewDataTransferRequest("v2")); err != nil {
			return false
		}
		return waitFor(3*time.Second, clientWrote(fake, 1002))
	}
	wrote := false
	if early {
		wrote = send()
		close(release)
	} else {
		close(release)
		select {
		case <-started:
		case <-time.After(3 * time.Second):
			return []int64{-8, 2}
		}
		wrote = send()
	}
	timedOut := waitFor(2*time.Second, func() bool { mu.Lock(); defer mu.Unlock(); return cancelled["1002"] >= 1 })
	time.Sleep(200 * time.Millisecond)
	n := fake.CountWritten(func(d []byte) bool { return callOnlyID(d) == 1002 })
	stopped := within(3*time.Second, cl.Stop)
	mu.Lock()
	defer mu.Unlock()
	if wrote && timedOut && n == 1 && cancelled["1002"] == 1 && cancelled["1001"] == 1 && stopped {
		return []int64{1, b2i(early)}
	}
	return []int64{0, b2i(early), b2i(wrote), b2i(timedOut), int64(n), int64(cancelled["1002"]), int64(cancelled["1001"]), b2i(stopped)}
}

// scenario 45 (C16, C11): the same on a server endpoint: Stop and Start while the message pump of the first session is
// still inside the application's cancel callback.  A client that connects to the restarted endpoint is served: its
// request is written once (the old pump must not wipe the new session's queues when it finally leaves).
func gatedServerRestartWhilePumpBusy() []int64 {
	installIDGen()
	fake := fakews.NewServer()
	disp := ocppj.NewDefaultServerDispatcher(ocppj.NewFIFOQueueMap(0))
	disp.SetTimeout(150 * time.Millisecond)
	srv := ocppj.NewServer(fake, disp, nil, core16.Profile)
	srv.SetDialect(ocpp.V16)
	srv.SetResponseHandler(func(c ws_Channel, r ocpp.Response, id string) {})
	srv.SetErrorHandler(func(c ws_Channel, e *ocpp.Error, d interface{}) {})
	srv.SetRequestHandler(func(c ws_Channel, r ocpp.Request, id, action string) {})
	srv.SetDisconnectedClientHandler(func(c ws_Channel) {})
	entered := make(chan struct{}, 1)
	release := make(chan struct{})
	var once sync.Once
	srv.SetCanceledRequestHandler(func(clientID string, requestID string, r ocpp.Request, e *ocpp.Error) {
		once.Do(func() { entered <- struct{}{}; <-release })
	})
	go srv.Start(0, "/{ws}")
	if !waitFor(2*time.Second, disp.IsRunning) {
		return []int64{-2}
	}
	fake.Connect("A")
	setNextID("1101")
	_ = srv.SendRequest("A", core16.NewDataTransferRequest("a1"))
	select {
	case <-entered: // 1101 timed out; the pump sits in the cancel callback
	case <-time.After(3 * time.Second):
		return []int64{-4}
	}
	if !within(3*time.Second, srv.Stop) {
		close(release)
		return []int64{-8, 1}
	}
	fake.TakeWritten()
	go srv.Start(0, "/{ws}")
	early := waitFor(300*time.Millisecond, disp.IsRunning)
	serve := func() bool {
		fake.Connect("A")
		setNextID("1102")
		if err := srv.SendRequest("A", core16.NewDataTransferRequest("a2")); err != nil {
			return false
		}
		return true
	}
	accepted := false
	if early {
		accepted = serve()
		time.Sleep(20 * time.Millisecond)
		close(release)
	} else {
		close(release)
		if !waitFor(3*time.Second, disp.IsRunning) {
			return []int64{-8, 2}
		}
		accepted = serve()
	}
	wrote := waitFor(2*time.Second, func() bool {
		return fake.CountWritten(func(t string, d []byte) bool { return t == "A" && callOnlyID(d) == 1102 }) >= 1
	})
	time.Sleep(50 * time.Millisecond)
	n := fake.CountWritten(func(t string, d []byte) bool { return callOnlyID(d) == 1102 })
	// the session goes on: the reply is accepted and the next request is written
	_ = fake.Inject("A", []byte(`[3,"1102",{"status":"Accepted","data":"r"}]`))
	setNextID("1103")
	next := srv.SendRequest("A", core16.NewDataTransferRequest("a3")) == nil && waitFor(2*time.Second, func() bool {
		return fake.CountWritten(func(t string, d []byte) bool { return t == "A" && callOnlyID(d) == 1103 }) >= 1
	})
	stopped := within(3*time.Second, srv.Stop)
	if accepted && wrote && n == 1 && next && stopped {
		return []int64{1, b2i(early)}
	}
	return []int64{0, b2i(early), b2i(accepted), b2i(wrote), int64(n), b2i(next), b2i(stopped)}
}

func gatedEval(in []int64) []int64 {
	switch in[0] {
	case 7:
		return gatedBareServer()
	case 8:
		return gatedTryQueue()
	case 9:
		return gatedResume()
	case 10:
		return gatedDropDuringWrite()
	case 11:
		return gatedStaleReadyToken()
	case 12:
		return gatedStaleConclusion()
	case 13:
		return gatedServerBurst()
	case 14:
		return gatedSendFromDisconnectHandler()
	case 16:
		return gatedTimeoutThenSendToOther()
	case 19:
		return gatedConclusionOrder()
	case 20:
		return gatedSimultaneousTimeouts()
	case 21:
		return gatedReconnectRacingSend()
	case 22:
		return gatedReplyRacingTimeout()
	case 23:
		return gatedStaleTimeoutToken()
	case 24:
		return gatedReconnectBeforePumpNotices()
	case 25:
		return gatedInvalidMessageHook()
	case 26:
		return gatedTimeoutThenSendToSame()
	case 27:
		return gatedDisconnectKeepsOtherTimeout()
	case 28:
		return gatedTwoCompletionsWhilePumpBusy()
	case 29:
		return gatedDisconnectDuringTimeoutHandling()
	case 30:
		return gatedRestartWhileCallbackBusy()
	case 31:
		return gatedNoCallbackAfterStop()
	case 32:
		return gatedManyTimeoutsPumpBusy()
	case 33:
		return gatedMalformedAnswer()
	case 34:
		return gatedSlowDisconnectHandler()
	case 35:
		return gatedBlockingCancelCallback()
	case 36:
		return gatedIdleSessionThenTimeout()
	case 37:
		return gatedTruncatedForeignReply()
	case 38:
		return gatedServerSendFromDisconnectHandler()
	case 44:
		return gatedRestartWhilePumpBusy()
	case 45:
		return gatedServerRestartWhilePumpBusy()
	}
	return []int64{-1}
}
