package main

// C03: every well-formed incoming CALL is answered exactly once with the same id (entry c03).
// Full cross product, enumerated: role x every feature of the role's protocol version (both directions, plus an
// unknown action) x 6 handler outcomes x handler sets {all, none, all-but-the-one of the feature's profile, random subset}.

import (
	"os"
	"runtime"
	"runtime/debug"
	"encoding/json"
	"fmt"
	"math/rand"
	"reflect"
	"sort"
	"strings"

	"github.com/lorenzodonini/ocpp-go/ocpp"
	ocpp16 "github.com/lorenzodonini/ocpp-go/ocpp1.6"
	ocpp2 "github.com/lorenzodonini/ocpp-go/ocpp2.0.1"
	"github.com/lorenzodonini/ocpp-go/ocppj"
	"gopkg.in/go-playground/validator.v9"

	"verif/tools/internal/cw"
	"verif/tools/internal/fakews"
	"verif/tools/internal/profiles"
	"verif/tools/internal/sched"
	"verif/tools/internal/stubs"
)

type c03Endpoint struct {
	role    int64
	rec     *stubs.Recorder
	fc      *fakews.Client
	fs      *fakews.Server
	inject  func(frame []byte) error
	written func() [][]byte
	stop    func()
}

func newC03Endpoint(role int64, skip map[string]bool) *c03Endpoint {
	installIDGen()
	e := &c03Endpoint{role: role, rec: &stubs.Recorder{}}
	switch role {
	case 0:
		e.fc = fakews.NewClient()
		cp := ocpp16.NewChargePoint("cp", ocppj.NewClient("cp", e.fc, ocppj.NewDefaultClientDispatcher(ocppj.NewFIFOClientQueue(0)), nil, profiles.V16()...), e.fc)
		stubs.Install16CP(cp, e.rec, skip)
		_ = cp.Start("ws://fake")
		e.stop = cp.Stop
	case 2:
		e.fc = fakews.NewClient()
		cs := ocpp2.NewChargingStation("cs", ocppj.NewClient("cs", e.fc, ocppj.NewDefaultClientDispatcher(ocppj.NewFIFOClientQueue(0)), nil, profiles.V201()...), e.fc)
		stubs.Install201CS(cs, e.rec, skip)
		_ = cs.Start("ws://fake")
		e.stop = cs.Stop
	case 1:
		e.fs = fakews.NewServer()
		disp := ocppj.NewDefaultServerDispatcher(ocppj.NewFIFOQueueMap(0))
		cs := ocpp16.NewCentralSystem(ocppj.NewServer(e.fs, disp, nil, profiles.V16()...), e.fs)
		stubs.Install16CS(cs, e.rec, skip)
		go cs.Start(0, "/")
		for !disp.IsRunning() || !e.fs.Running() {
			runtime.Gosched()
		}
		e.stop = cs.Stop
	default:
		e.fs = fakews.NewServer()
		disp := ocppj.NewDefaultServerDispatcher(ocppj.NewFIFOQueueMap(0))
		cs := ocpp2.NewCSMS(ocppj.NewServer(e.fs, disp, nil, profiles.V201()...), e.fs)
		stubs.Install201CSMS(cs, e.rec, skip)
		go cs.Start(0, "/")
		for !disp.IsRunning() || !e.fs.Running() {
			runtime.Gosched()
		}
		e.stop = cs.Stop
	}
	if e.fc != nil {
		e.inject = e.fc.Inject
		e.written = e.fc.TakeWritten
	} else {
		for i := 0; i < 200 && !e.fs.Connect("c1"); i++ {
		}
		e.inject = func(b []byte) error { return e.fs.Inject("c1", b) }
		e.written = func() [][]byte {
			var out [][]byte
			for _, f := range e.fs.TakeWritten() {
				out = append(out, f.Data)
			}
			return out
		}
	}
	return e
}

// failingTags: the rule tags validator.v9 reports for a zero-valued response of the feature (in its order)
func failingTags(role int64, action string) []string {
	f := stubs.FeatureByName(int(role), action)
	if f == nil {
		return nil
	}
	resp := reflect.New(f.GetResponseType()).Interface().(ocpp.Response)
	err := ocppj.Validate.Struct(ocppj.CallResult{MessageTypeId: ocppj.CALL_RESULT, UniqueId: "x", Payload: resp})
	var tags []string
	if ve, ok := err.(validator.ValidationErrors); ok {
		for _, fe := range ve {
			tags = append(tags, fe.ActualTag())
		}
	}
	return tags
}

func c03Decode(in []int64) (role, oc int64, tags []string, action string, skipped []string) {
	role, oc = in[0], in[1]
	n := int(in[2])
	rest := in[3:]
	for i := 0; i < n; i++ {
		var s string
		s, rest = decodeLP(rest)
		tags = append(tags, s)
	}
	action, rest = decodeLP(rest)
	if len(rest) > 0 {
		k := int(rest[0])
		rest = rest[1:]
		for i := 0; i < k; i++ {
			var s string
			s, rest = decodeLP(rest)
			skipped = append(skipped, s)
		}
	}
	return
}

func c03Eval(in []int64) (out []int64) {
	defer func() {
		if r := recover(); r != nil {
			if os.Getenv("VERIF_DEBUG") != "" {
				fmt.Fprintln(os.Stderr, "panic:", r)
				debug.PrintStack()
			}
			out = []int64{-7}
		}
	}()
	role, oc, _, action, skipped := c03Decode(in)
	skip := map[string]bool{}
	for _, s := range skipped {
		skip[s] = true
	}
	e := newC03Endpoint(role, skip)
	defer e.stop()
	e.rec.Outcome = int(oc)
	e.rec.Seed = 7
	// a valid CALL of the action
	payload := []byte("{}")
	if f := stubs.FeatureByName(int(role), action); f != nil {
		if v, ok := stubs.ValidValue(f.GetRequestType(), rand.New(rand.NewSource(11))); ok {
			payload, _ = json.Marshal(v.Interface())
		} else {
			return []int64{-99}
		}
	}
	frame := fmt.Sprintf(`[2,"id-77","%s",%s]`, action, payload)
	e.written()
	if err := e.inject([]byte(frame)); err != nil && os.Getenv("VERIF_DEBUG") != "" {
		fmt.Fprintln(os.Stderr, "inject:", err)
	}
	sched.Settle()
	frames := e.written()
	out = []int64{int64(len(frames))}
	for _, fr := range frames {
		var arr []json.RawMessage
		_ = json.Unmarshal(fr, &arr)
		var typ int64
		var id, code string
		if len(arr) >= 2 {
			_ = json.Unmarshal(arr[0], &typ)
			_ = json.Unmarshal(arr[1], &id)
		}
		if id != "id-77" {
			typ = -typ // wrong id
		}
		if typ == 3 {
			out = append(out, 3, 0)
		} else {
			if len(arr) >= 3 {
				_ = json.Unmarshal(arr[2], &code)
			}
			out = append(out, typ)
			out = append(out, cw.LP([]byte(code))...)
		}
	}
	calls := e.rec.Take()
	if len(calls) == 1 {
		out = append(out, 1)
		out = append(out, cw.LP([]byte(calls[0].Method))...)
		// the handler must have received the decoded payload of that action
		if f := stubs.FeatureByName(int(role), action); f != nil {
			want := "*" + f.GetRequestType().String()
			got := calls[0].ReqType
			// generated stubs import packages under aliases: compare the type's base name
			if want[strings.LastIndexByte(want, '.'):] != got[strings.LastIndexByte(got, '.'):] {
				out = append(out, -5)
			}
			var a, b interface{}
			_ = json.Unmarshal(payload, &a)
			_ = json.Unmarshal(calls[0].Payload, &b)
			if !reflect.DeepEqual(a, b) {
				out = append(out, -6)
			}
		}
	} else if len(calls) == 0 {
		out = append(out, 0, 0)
	} else {
		out = append(out, int64(len(calls)), 0)
	}
	return out
}

func c03Gen(cfg config, emit func(Case)) {
	rng := rand.New(rand.NewSource(cfg.seed*17 + 1))
	for role := int64(0); role < 4; role++ {
		ps := profiles.V16()
		if role >= 2 {
			ps = profiles.V201()
		}
		var names []string
		for _, p := range ps {
			for n := range p.Features {
				names = append(names, n)
			}
		}
		sort.Strings(names)
		names = append(names, "NoSuchAction")
		setters := stubs.Setters(int(role))
		for _, n := range names {
			for oc := int64(0); oc < 6; oc++ {
				var tags []string
				if oc == 1 {
					tags = failingTags(role, n)
					if len(tags) == 0 {
						continue // the zero response of this feature is valid: not an "invalid response" case
					}
				}
				modes := []int{0}
				if oc == 0 || cfg.thorough {
					modes = []int{0, 1, 2, 3}
				} else if rng.Intn(4) == 0 {
					modes = []int{0, 2 + rng.Intn(2)}
				}
				if oc == 0 {
					// every single missing handler, systematically
					for k := range setters {
						modes = append(modes, 100+k)
					}
				}
				for _, mode := range modes {
					var skipped []string
					if mode >= 100 {
						skipped = []string{setters[mode-100]}
						mode = 4
					}
					switch mode {
					case 1:
						skipped = setters
					case 2:
						for _, s := range setters {
							if rng.Intn(2) == 0 {
								skipped = append(skipped, s)
							}
						}
					case 3:
						k := rng.Intn(len(setters))
						skipped = []string{setters[k]}
					}
					in := []int64{role, oc, int64(len(tags))}
					for _, t := range tags {
						in = append(in, cw.LP([]byte(t))...)
					}
					in = append(in, cw.LP([]byte(n))...)
					in = append(in, int64(len(skipped)))
					for _, s := range skipped {
						in = append(in, cw.LP([]byte(s))...)
					}
					emit(Case{Class: fmt.Sprintf("role%d-outcome%d-handlers%d", role, oc, mode), Input: in,
						Comment: fmt.Sprintf("role %d %s outcome %d skipped %v", role, n, oc, skipped), Check: c03Monitor(role, n, oc, skipped)})
				}
			}
		}
	}
}

// the property itself on the implementation's observation: exactly one reply, with the CALL's id
func c03Monitor(role int64, action string, oc int64, skipped []string) func(obs []int64) (string, string) {
	// from the public handler interfaces: is a handler for this feature registered on this role?
	wantInvoked := false
	if f := stubs.FeatureByName(int(role), action); f != nil {
		t := f.GetRequestType()
		pp := t.PkgPath()
		rel := pp[strings.Index(pp, "ocpp-go/")+8:]
		key := "p" + strings.NewReplacer("/", "_", ".", "").Replace(rel) + "." + t.Name()
		if setter, ok := stubs.HandlerSetter(int(role))[key]; ok {
			wantInvoked = true
			for _, s := range skipped {
				if s == setter {
					wantInvoked = false
				}
			}
		}
	}
	return func(obs []int64) (string, string) {
		if len(obs) >= 4 && obs[0] == 1 {
			invoked := false
			// layout: 1, kind, (0 | LP code), invoked, LP method
			k := 2
			if obs[1] == 3 || obs[1] == -3 {
				k = 3
			} else if len(obs) > 2 {
				k = 3 + int(obs[2])
			}
			if k < len(obs) {
				invoked = obs[k] == 1
			}
			if invoked != wantInvoked {
				return "C03-handler-presence", fmt.Sprintf("CALL %s on role %d, handlers skipped %v: handler invoked = %v, but a handler for the feature is registered = %v", action, role, skipped, invoked, wantInvoked)
			}
			if wantInvoked && oc == 0 && obs[1] != 3 {
				return "C03-valid-response-not-sent", fmt.Sprintf("CALL %s on role %d: handler returned a valid response but the reply is not a CALL_RESULT", action, role)
			}
			if !wantInvoked && obs[1] != 4 {
				return "C03-no-handler-not-error", fmt.Sprintf("CALL %s on role %d: no handler available but the reply is not a CALL_ERROR", action, role)
			}
		}
		if len(obs) == 1 && obs[0] == -7 {
			return "C03-panic", "handling the CALL of " + action + " panicked"
		}
		if len(obs) == 1 && obs[0] == -99 {
			return "", ""
		}
		if len(obs) > 0 && obs[0] != 1 {
			return "C03-reply-count", fmt.Sprintf("CALL of %s got %d replies", action, obs[0])
		}
		if len(obs) > 1 && obs[1] < 0 {
			return "C03-reply-id", "reply carries another id"
		}
		for _, x := range obs {
			if x == -5 {
				return "C03-wrong-payload-type", "handler received a payload of another type"
			}
			if x == -6 {
				return "C03-payload-differs", "handler received a payload that differs from the one sent"
			}
		}
		return "", ""
	}
}

func init() {
	properties["c03"] = []*Entry{{Name: "c03", Eval: c03Eval, Gen: c03Gen, Isolated: true}}
}
