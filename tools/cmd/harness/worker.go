package main

import (
	"bufio"
	"fmt"
	"os"
	"os/exec"
	"runtime"
	"strconv"
	"strings"
	"sync"
	"time"

	"verif/tools/internal/sched"
)

// workerMain: harness __worker <prop> <entry> <slow>; reads one case per line on stdin
// ("<index> <ints...>"), answers "<index> <ints...>" on stdout.
func workerMain(args []string) {
	prop, name := args[0], args[1]
	if len(args) > 2 {
		sched.Slow, _ = strconv.Atoi(args[2])
		if sched.Slow < 1 {
			sched.Slow = 1
		}
	}
	var e *Entry
	for _, x := range properties[prop] {
		if x.Name == name {
			e = x
		}
	}
	if e == nil {
		os.Exit(2)
	}
	in := bufio.NewReaderSize(os.Stdin, 1<<20)
	out := bufio.NewWriter(os.Stdout)
	for {
		line, err := in.ReadString('\n')
		line = strings.TrimSpace(line)
		if line != "" {
			f := strings.Fields(line)
			xs := make([]int64, 0, len(f))
			for _, t := range f[1:] {
				v, _ := strconv.ParseInt(t, 10, 64)
				xs = append(xs, v)
			}
			res := e.Eval(xs)
			fmt.Fprintf(out, "%s %s\n", f[0], intsToString(res))
			out.Flush()
		}
		if err != nil {
			return
		}
	}
}

type workerProc struct {
	cmd *exec.Cmd
	in  *bufio.Writer
	out *bufio.Reader
	w   interface{ Close() error }
}

func startWorker(prop string, e *Entry, slow int) *workerProc {
	self, _ := os.Executable()
	cmd := exec.Command(self, "__worker", prop, e.Name, strconv.Itoa(slow))
	stdin, _ := cmd.StdinPipe()
	stdout, _ := cmd.StdoutPipe()
	cmd.Stderr = nil
	if err := cmd.Start(); err != nil {
		panic(err)
	}
	return &workerProc{cmd: cmd, in: bufio.NewWriter(stdin), out: bufio.NewReaderSize(stdout, 1<<20), w: stdin}
}

// evalIsolated runs the cases on a pool of worker processes; a worker that dies
// (panic in a library goroutine) or does not answer within the watchdog gives [-7] / [-8].
func evalIsolated(prop string, e *Entry, cases []Case, cfg config) [][]int64 {
	outs := make([][]int64, len(cases))
	nw := e.Workers
	if nw <= 0 {
		nw = runtime.NumCPU() / 2
	}
	if nw > len(cases) {
		nw = len(cases)
	}
	if nw < 1 {
		nw = 1
	}
	var next int
	var mu sync.Mutex
	var wg sync.WaitGroup
	for k := 0; k < nw; k++ {
		wg.Add(1)
		go func() {
			defer wg.Done()
			var w *workerProc
			for {
				mu.Lock()
				i := next
				next++
				mu.Unlock()
				if i >= len(cases) {
					break
				}
				if w == nil {
					w = startWorker(prop, e, cfg.slow)
				}
				fmt.Fprintf(w.in, "%d %s\n", i, intsToString(cases[i].Input))
				w.in.Flush()
				type ans struct {
					line string
					err  error
				}
				ch := make(chan ans, 1)
				go func(r *bufio.Reader) {
					l, err := r.ReadString('\n')
					ch <- ans{l, err}
				}(w.out)
				var a ans
				timedOut := false
				select {
				case a = <-ch:
				case <-time.After(120 * time.Second):
					timedOut = true
				}
				if timedOut || a.err != nil {
					_ = w.cmd.Process.Kill()
					_ = w.cmd.Wait()
					w = nil
					if timedOut {
						outs[i] = []int64{-8}
					} else {
						outs[i] = []int64{-7}
					}
					continue
				}
				f := strings.Fields(a.line)
				res := make([]int64, 0, len(f))
				for _, t := range f[1:] {
					v, _ := strconv.ParseInt(t, 10, 64)
					res = append(res, v)
				}
				outs[i] = res
			}
			if w != nil {
				_ = w.w.Close()
				_ = w.cmd.Wait()
			}
		}()
	}
	wg.Wait()
	return outs
}
