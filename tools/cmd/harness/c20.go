package main

// C20: types.DateTime (both protocol versions) against M2/DateTime.v.
//
// case encodings (see c20_entry); ver = 16 | 201 selects the types package:
//   ver 0 b...            UnmarshalJSON(b) called directly (recover around it)
//   ver 1 layout sec ns   MarshalJSON of that instant (presented in zone sec%29-14 h) under DateTimeFormat(layout)
//   ver 2 layout sec ns   marshal then json.Unmarshal again
//   ver 3 b...            json.Unmarshal(b, &dt) for valid JSON values b
// observed: unmarshal -> [0] unset | [1 sec ns] | [2] error | [3] panic ; marshal -> bytes

import (
	"encoding/json"
	"fmt"
	"math/rand"
	"regexp"
	"strings"
	"time"

	t16 "github.com/lorenzodonini/ocpp-go/ocpp1.6/types"
	t2 "github.com/lorenzodonini/ocpp-go/ocpp2.0.1/types"

	"verif/tools/internal/cw"
)

// liberalISO over-approximates the ISO 8601 extended calendar date / date-time
// representations (reduced precision, optional zone, optional sign, any number of
// fraction digits); anything outside it is certainly not an ISO 8601 timestamp.
var liberalISO = regexp.MustCompile(`^[+-]?\d{4,}(-\d{2}(-\d{2}(T\d{2}(:\d{2}(:\d{2}([.,]\d+)?)?)?(Z|[+-]\d{2}(:?\d{2})?)?)?)?)?$`)

type dtImpl struct {
	name      string
	unmarshal func(b []byte) (set bool, t time.Time, err error)
	viaJSON   func(b []byte) (set bool, t time.Time, err error)
	marshal   func(t time.Time) ([]byte, error)
	setFormat func(f string)
}

var sentinel = time.Date(1234, 5, 6, 7, 8, 9, 10, time.UTC)

func dtImpls() []dtImpl {
	return []dtImpl{
		{
			name: "v16",
			unmarshal: func(b []byte) (bool, time.Time, error) {
				dt := t16.DateTime{Time: sentinel}
				err := dt.UnmarshalJSON(b)
				return !dt.Time.Equal(sentinel) || dt.Time.Location() != sentinel.Location(), dt.Time, err
			},
			viaJSON: func(b []byte) (bool, time.Time, error) {
				dt := t16.DateTime{Time: sentinel}
				err := json.Unmarshal(b, &dt)
				return !dt.Time.Equal(sentinel), dt.Time, err
			},
			marshal:   func(t time.Time) ([]byte, error) { return json.Marshal(t16.NewDateTime(t)) },
			setFormat: func(f string) { t16.DateTimeFormat = f },
		},
		{
			name: "v201",
			unmarshal: func(b []byte) (bool, time.Time, error) {
				dt := t2.DateTime{Time: sentinel}
				err := dt.UnmarshalJSON(b)
				return !dt.Time.Equal(sentinel) || dt.Time.Location() != sentinel.Location(), dt.Time, err
			},
			viaJSON: func(b []byte) (bool, time.Time, error) {
				dt := t2.DateTime{Time: sentinel}
				err := json.Unmarshal(b, &dt)
				return !dt.Time.Equal(sentinel), dt.Time, err
			},
			marshal:   func(t time.Time) ([]byte, error) { return json.Marshal(t2.NewDateTime(t)) },
			setFormat: func(f string) { t2.DateTimeFormat = f },
		},
	}
}

func layoutString(k int64) string {
	switch k {
	case 0:
		return time.RFC3339
	case 10:
		return time.RFC3339Nano
	case 11:
		return ""
	default:
		return "2006-01-02T15:04:05." + strings.Repeat("0", int(k)) + "Z07:00"
	}
}

func obsUnmarshal(f func(b []byte) (bool, time.Time, error), b []byte) (obs []int64) {
	defer func() {
		if r := recover(); r != nil {
			obs = []int64{3}
		}
	}()
	set, t, err := f(b)
	if err != nil {
		return []int64{2}
	}
	if !set {
		return []int64{0}
	}
	return []int64{1, t.Unix(), int64(t.Nanosecond())}
}

// denoted instant of a by-construction valid ISO 8601 timestamp, used as the
// property monitor that does not go through the model.
type isoCase struct {
	text      string
	sec, nano int64
}

func genISO(r *rand.Rand) isoCase {
	// instant uniformly in years 0..9999 (with boundary bias)
	var y int
	switch r.Intn(10) {
	case 0:
		y = []int{0, 1, 4, 100, 400, 1600, 1900, 1969, 1970, 2000, 2038, 2100, 9999}[r.Intn(13)]
	default:
		y = r.Intn(10000)
	}
	mo := 1 + r.Intn(12)
	dim := []int{31, 28, 31, 30, 31, 30, 31, 31, 30, 31, 30, 31}[mo-1]
	if mo == 2 && (y%4 == 0 && (y%100 != 0 || y%400 == 0)) {
		dim = 29
	}
	d := 1 + r.Intn(dim)
	if r.Intn(8) == 0 {
		d = dim
	}
	h, mi, s := r.Intn(24), r.Intn(60), r.Intn(60)
	if r.Intn(10) == 0 {
		h, mi, s = 23, 59, 59
	}
	if r.Intn(10) == 0 {
		h, mi, s = 0, 0, 0
	}
	text := fmt.Sprintf("%04d-%02d-%02dT%02d:%02d:%02d", y, mo, d, h, mi, s)
	nano := int64(0)
	if r.Intn(2) == 0 {
		nd := 1 + r.Intn(9)
		frac := r.Int63n(pow10(nd))
		if r.Intn(6) == 0 {
			frac = 0
		}
		if r.Intn(6) == 0 {
			frac = pow10(nd) - 1
		}
		text += fmt.Sprintf(".%0*d", nd, frac)
		nano = frac * pow10(9-nd)
	}
	off := 0
	switch r.Intn(5) {
	case 0:
		text += "Z"
	default:
		oh, om := r.Intn(15), []int{0, 0, 15, 30, 45, r.Intn(60)}[r.Intn(6)]
		sign := 1
		if r.Intn(2) == 0 {
			sign = -1
		}
		if sign == -1 && oh == 0 && om == 0 {
			sign = 1 // -00:00 is not an ISO 8601 offset
		}
		off = sign * (oh*3600 + om*60)
		sg := "+"
		if sign < 0 {
			sg = "-"
		}
		switch r.Intn(3) {
		case 0:
			text += fmt.Sprintf("%s%02d:%02d", sg, oh, om)
		case 1:
			text += fmt.Sprintf("%s%02d%02d", sg, oh, om)
		default:
			if om == 0 {
				text += fmt.Sprintf("%s%02d", sg, oh)
			} else {
				text += fmt.Sprintf("%s%02d:%02d", sg, oh, om)
			}
		}
	}
	base := time.Date(y, time.Month(mo), d, h, mi, s, 0, time.UTC).Unix()
	return isoCase{text: text, sec: base - int64(off), nano: nano}
}

func pow10(n int) int64 {
	r := int64(1)
	for i := 0; i < n; i++ {
		r *= 10
	}
	return r
}

func mutateISO(r *rand.Rand, s string) string {
	b := []byte(s)
	pool := []byte("0123456789-+:.TZz tW/,\"\\xe")
	switch r.Intn(6) {
	case 0: // replace a char
		if len(b) > 0 {
			b[r.Intn(len(b))] = pool[r.Intn(len(pool))]
		}
	case 1: // delete a char
		if len(b) > 0 {
			i := r.Intn(len(b))
			b = append(b[:i], b[i+1:]...)
		}
	case 2: // insert a char
		i := r.Intn(len(b) + 1)
		b = append(b[:i], append([]byte{pool[r.Intn(len(pool))]}, b[i:]...)...)
	case 3: // truncate
		b = b[:r.Intn(len(b)+1)]
	case 4: // append junk
		n := 1 + r.Intn(4)
		for i := 0; i < n; i++ {
			b = append(b, pool[r.Intn(len(pool))])
		}
	case 5: // out-of-range field
		fields := []string{"13", "00", "32", "24", "60", "61", "99", "29", "30", "31"}
		pos := []int{5, 8, 11, 14, 17}[r.Intn(5)]
		if pos+2 <= len(b) {
			copy(b[pos:], fields[r.Intn(len(fields))])
		}
	}
	return string(b)
}


func c20Eval(in []int64) []int64 {
	if len(in) < 2 {
		return []int64{-1}
	}
	var im dtImpl
	for _, x := range dtImpls() {
		if (in[0] == 16 && x.name == "v16") || (in[0] == 201 && x.name == "v201") {
			im = x
		}
	}
	if im.name == "" {
		return []int64{-1}
	}
	toBytes := func(xs []int64) []byte {
		b := make([]byte, len(xs))
		for i, x := range xs {
			b[i] = byte(x)
		}
		return b
	}
	switch in[1] {
	case 0:
		return obsUnmarshal(im.unmarshal, toBytes(in[2:]))
	case 3:
		return obsUnmarshal(im.viaJSON, toBytes(in[2:]))
	case 1, 2:
		if len(in) != 5 {
			return []int64{-1}
		}
		k, sec, nano := in[2], in[3], in[4]
		loc := time.FixedZone("", int((((sec%29)+29)%29)-14)*3600)
		t := time.Unix(sec, nano).In(loc)
		im.setFormat(layoutString(k))
		defer im.setFormat(time.RFC3339)
		out, err := im.marshal(t)
		if err != nil {
			return []int64{-2}
		}
		if in[1] == 1 {
			return cw.Bytes(out)
		}
		return obsUnmarshal(im.viaJSON, out)
	}
	return []int64{-1}
}

func c20Gen(cfg config, emit func(Case)) {
	r := rand.New(rand.NewSource(cfg.seed))
	vers := []int64{16, 201}
	unm := func(class string, b []byte, check func(obs []int64) (string, string)) {
		for _, v := range vers {
			emit(Case{Class: class, Input: append([]int64{v, 0}, cw.Bytes(b)...), Comment: fmt.Sprintf("v%d %q", v, b), Check: check})
			if json.Valid(b) {
				emit(Case{Class: class + "-json", Input: append([]int64{v, 3}, cw.Bytes(b)...), Comment: fmt.Sprintf("v%d json %q", v, b), Check: check})
			}
		}
	}
	rejectNonString := func(b []byte) func(obs []int64) (string, string) {
		return func(obs []int64) (string, string) {
			// property monitor: a valid JSON value that is neither null nor a string must be rejected
			if json.Valid(b) && string(b) != "null" && len(b) > 0 && b[0] != '"' && fmt.Sprint(obs) != "[2]" {
				return "non-string-accepted", fmt.Sprintf("%q -> %v", b, obs)
			}
			// a JSON string that is no ISO 8601 representation (even read liberally: reduced
			// precision, missing zone, sign) must be rejected
			if json.Valid(b) && len(b) >= 2 && b[0] == '"' && !liberalISO.Match(b[1:len(b)-1]) && fmt.Sprint(obs) != "[2]" {
				return "non-iso-string-accepted", fmt.Sprintf("%q -> %v", b, obs)
			}
			if string(b) == "null" && fmt.Sprint(obs) != "[0]" {
				return "null-not-unset", fmt.Sprintf("%v", obs)
			}
			return "", ""
		}
	}

	// corpus: witnesses of findings and hand-picked edge cases (always run first)
	for _, s := range []string{`null`, `"ul"`, `"al"`, `"ux"`, `"u"`, `nul`, `nulll`, `NULL`, `true`, `1234`, `"xx"`, `""`, `"`, ``, `{}`, `[]`, `12`,
		`"2020-01-01T00:00:00Z"`, `"2020-01-01T00:00:00Zab"`, `"2020-01-01T00:00:00+12345"`, `"2020-01-01T00:00:00-00:00"`,
		`"2020-02-30T00:00:00Z"`, `"2020-02-29T00:00:00Z"`, `"2021-02-29T00:00:00Z"`, `"2020-01-01T24:00:00Z"`,
		`"2020-01-01"`, `"2020"`, `"2020-01-01T00:00:00"`, `"2020-01-01T00:00:00.1234567891Z"`, `"2020-01-01T00:00:00.0000000001Z"`,
		`"+2020-01-01T00:00:00Z"`, `"-2020-01-01T00:00:00Z"`, `"2020-01-01T00:00:00z"`, `"2020-01-01t00:00:00Z"`,
		`"2020-01-18446744073709551615T00:00:00Z"`, `"99999999999999999999-01-01T00:00:00Z"`,
		`"2020-01-01T12:30:45:99Z"`, `"2020-01-01T00:00:00.Z"`} {
		unm("corpus", []byte(s), rejectNonString([]byte(s)))
	}

	// exhaustive short tokens
	alpha := []byte(`nul"t1aZ`)
	if cfg.thorough {
		alpha = []byte(`nul"tre01[]aZ-:`)
	}
	var rec func(prefix []byte, depth int)
	rec = func(prefix []byte, depth int) {
		b := append([]byte{}, prefix...)
		unm(fmt.Sprintf("token-len%d", len(prefix)), b, rejectNonString(b))
		if depth == 0 {
			return
		}
		for _, c := range alpha {
			rec(append(prefix, c), depth-1)
		}
	}
	rec(nil, 4)

	// by-construction valid ISO 8601 timestamps: property monitor = denoted instant
	for i := 0; i < cfg.n; i++ {
		c := genISO(r)
		want := fmt.Sprint([]int64{1, c.sec, c.nano})
		unm("iso-valid", []byte(`"`+c.text+`"`), func(obs []int64) (string, string) {
			if fmt.Sprint(obs) != want {
				return "iso-denotation", fmt.Sprintf("%s parsed as %v, denotes %v", c.text, obs, want)
			}
			return "", ""
		})
	}
	// near misses
	for i := 0; i < cfg.n; i++ {
		c := genISO(r)
		s := mutateISO(r, c.text)
		if r.Intn(4) == 0 {
			s = mutateISO(r, s)
		}
		unm("iso-mutated", []byte(`"`+s+`"`), rejectNonString([]byte(`"`+s+`"`)))
	}
	// non-string JSON values
	for _, s := range []string{`true`, `false`, `0`, `-1`, `1e3`, `1.5`, `{}`, `[]`, `{"a":1}`, `["2020-01-01T00:00:00Z"]`, `12345678`, `[1]`, `1234`, `nul1`, `{"":0}`, `2020`, `-0.5`, `[[]]`, `1E10`, `[{}]`, `0.00`, `[""]`, `{} `} {
		unm("non-string", []byte(s), rejectNonString([]byte(s)))
	}

	// marshalling and round trip
	layouts := []int64{0, 3, 10, 11, 1, 6, 9}
	for i := 0; i < cfg.n; i++ {
		c := genISO(r)
		k := layouts[r.Intn(len(layouts))]
		if i%3 == 0 {
			k = 0
		}
		if y := time.Unix(c.sec, c.nano).UTC().Year(); y < 0 || y > 9999 {
			continue
		}
		wantN := c.nano
		switch {
		case k == 0:
			wantN = 0
		case k >= 1 && k <= 9:
			p := pow10(int(9 - k))
			wantN = c.nano / p * p
		}
		want := fmt.Sprint([]int64{1, c.sec, wantN})
		for _, v := range vers {
			emit(Case{Class: fmt.Sprintf("marshal-layout%d", k), Input: []int64{v, 1, k, c.sec, c.nano}, Comment: fmt.Sprintf("v%d %s", v, c.text),
				Check: func(obs []int64) (string, string) {
					n := len(obs)
					if n < 3 || obs[n-1] != '"' || obs[n-2] != 'Z' {
						return "not-utc", fmt.Sprintf("layout %d instant (%d,%d) -> %v", k, c.sec, c.nano, obs)
					}
					return "", ""
				}})
			emit(Case{Class: fmt.Sprintf("roundtrip-layout%d", k), Input: []int64{v, 2, k, c.sec, c.nano}, Comment: fmt.Sprintf("v%d %s", v, c.text),
				Check: func(obs []int64) (string, string) {
					if fmt.Sprint(obs) != want {
						return "roundtrip", fmt.Sprintf("layout %d instant (%d,%d) -> %v", k, c.sec, c.nano, obs)
					}
					return "", ""
				}})
		}
	}
}

func init() {
	properties["c20"] = []*Entry{{Name: "c20", Eval: c20Eval, Gen: c20Gen}}
}
