package main

// C12: the five containers against M1/Containers.v.
//   c12:     [kind; param; ops...] sequential operation sequences (see c12_entry)
//   c12_lin: a recorded concurrent history of one bounded queue; the model decides
//            whether it is linearizable w.r.t. the sequential queue model.

import (
	"errors"
	"fmt"
	"math/rand"
	"runtime"
	"strconv"
	"sync"
	"sync/atomic"

	"github.com/lorenzodonini/ocpp-go/ocpp"
	"github.com/lorenzodonini/ocpp-go/ocppj"
	"github.com/lorenzodonini/ocpp-go/verifhooks"
)

type dummyReq struct{ n int64 }

func (d dummyReq) GetFeatureName() string { return "Dummy" }

func idStr(id int64) string {
	if id == 0 {
		return ""
	}
	return strconv.FormatInt(id, 10)
}

func b2i(b bool) int64 {
	if b {
		return 1
	}
	return 0
}

func elemOf(x interface{}) int64 {
	if x == nil {
		return -1
	}
	return x.(int64)
}

func c12Eval(in []int64) (out []int64) {
	out = []int64{}
	defer func() {
		if r := recover(); r != nil {
			out = append(out, -7)
		}
	}()
	if len(in) < 2 {
		return []int64{-1}
	}
	kind, param, ops := in[0], in[1], in[2:]
	next := func(n int) ([]int64, bool) {
		if len(ops) < n {
			ops = nil
			return nil, false
		}
		a := ops[:n]
		ops = ops[n:]
		return a, true
	}
	switch kind {
	case 1:
		q := ocppj.NewFIFOClientQueue(int(param))
		for len(ops) > 0 {
			switch ops[0] {
			case 0:
				next(1)
				q.Init()
			case 1:
				a, ok := next(2)
				if !ok {
					return
				}
				out = append(out, b2i(q.Push(a[1]) == nil))
			case 2:
				next(1)
				out = append(out, elemOf(q.Peek()))
			case 3:
				next(1)
				out = append(out, elemOf(q.Pop()))
			case 4:
				next(1)
				out = append(out, int64(q.Size()))
			case 5:
				next(1)
				out = append(out, b2i(q.IsFull()))
			case 6:
				next(1)
				out = append(out, b2i(q.IsEmpty()))
			default:
				return
			}
		}
	case 2:
		m := ocppj.NewFIFOQueueMap(int(param))
		for len(ops) > 0 {
			switch ops[0] {
			case 0:
				next(1)
				m.Init()
			case 1:
				a, ok := next(2)
				if !ok {
					return
				}
				q, found := m.Get(idStr(a[1]))
				if found {
					out = append(out, 1, int64(q.Size()))
				} else {
					out = append(out, 0, 0)
				}
			case 2:
				a, ok := next(2)
				if !ok {
					return
				}
				out = append(out, int64(m.GetOrCreate(idStr(a[1])).Size()))
			case 3:
				a, ok := next(2)
				if !ok {
					return
				}
				m.Remove(idStr(a[1]))
			case 4:
				a, ok := next(3)
				if !ok {
					return
				}
				m.Add(idStr(a[1]), ocppj.NewFIFOClientQueue(int(a[2])))
			case 5:
				a, ok := next(3)
				if !ok {
					return
				}
				q, found := m.Get(idStr(a[1]))
				if found {
					out = append(out, 1, b2i(q.Push(a[2]) == nil))
				} else {
					out = append(out, 0, 0)
				}
			case 6:
				a, ok := next(2)
				if !ok {
					return
				}
				q, found := m.Get(idStr(a[1]))
				if found {
					out = append(out, 1, elemOf(q.Pop()))
				} else {
					out = append(out, 0, -1)
				}
			default:
				return
			}
		}
	case 3:
		s := ocppj.NewClientState()
		for len(ops) > 0 {
			switch ops[0] {
			case 0:
				a, ok := next(2)
				if !ok {
					return
				}
				s.AddPendingRequest(idStr(a[1]), dummyReq{a[1]})
			case 1:
				a, ok := next(2)
				if !ok {
					return
				}
				_, found := s.GetPendingRequest(idStr(a[1]))
				out = append(out, b2i(found))
			case 2:
				a, ok := next(2)
				if !ok {
					return
				}
				s.DeletePendingRequest(idStr(a[1]))
			case 3:
				next(1)
				s.ClearPendingRequests()
			case 4:
				next(1)
				out = append(out, b2i(s.HasPendingRequest()))
			default:
				return
			}
		}
	case 4:
		var mu sync.RWMutex
		var s ocppj.ServerState
		if param == 0 {
			s = ocppj.NewServerState(nil)
		} else {
			s = ocppj.NewServerState(&mu)
		}
		var handles []ocppj.ClientState
		h := func(k int64) ocppj.ClientState {
			if k < 0 || int(k) >= len(handles) {
				return nil
			}
			return handles[k]
		}
		for len(ops) > 0 {
			switch ops[0] {
			case 0:
				a, ok := next(3)
				if !ok {
					return
				}
				s.AddPendingRequest(idStr(a[1]), idStr(a[2]), dummyReq{a[2]})
			case 1:
				a, ok := next(3)
				if !ok {
					return
				}
				s.DeletePendingRequest(idStr(a[1]), idStr(a[2]))
			case 2:
				a, ok := next(2)
				if !ok {
					return
				}
				handles = append(handles, s.GetClientState(idStr(a[1])))
			case 3:
				a, ok := next(2)
				if !ok {
					return
				}
				out = append(out, b2i(s.HasPendingRequest(idStr(a[1]))))
			case 4:
				next(1)
				out = append(out, b2i(s.HasPendingRequests()))
			case 5:
				a, ok := next(2)
				if !ok {
					return
				}
				s.ClearClientPendingRequest(idStr(a[1]))
			case 6:
				next(1)
				s.ClearAllPendingRequests()
			case 7:
				a, ok := next(3)
				if !ok {
					return
				}
				if hh := h(a[1]); hh != nil {
					_, found := hh.GetPendingRequest(idStr(a[2]))
					out = append(out, b2i(found))
				} else {
					out = append(out, -2)
				}
			case 8:
				a, ok := next(3)
				if !ok {
					return
				}
				if hh := h(a[1]); hh != nil {
					hh.AddPendingRequest(idStr(a[2]), dummyReq{a[2]})
				} else {
					out = append(out, -2)
				}
			case 9:
				a, ok := next(2)
				if !ok {
					return
				}
				if hh := h(a[1]); hh != nil {
					out = append(out, b2i(hh.HasPendingRequest()))
				} else {
					out = append(out, -2)
				}
			case 10:
				a, ok := next(3)
				if !ok {
					return
				}
				if hh := h(a[1]); hh != nil {
					hh.DeletePendingRequest(idStr(a[2]))
				} else {
					out = append(out, -2)
				}
			default:
				return
			}
		}
	case 5:
		cq := verifhooks.NewCallbackQueue()
		for len(ops) > 0 {
			switch ops[0] {
			case 0:
				a, ok := next(4)
				if !ok {
					return
				}
				cbNo := a[2]
				okTry := a[3] != 0
				var fired *int64
				_ = fired
				err := cq.TryQueue(idStr(a[1]), func() error {
					if okTry {
						return nil
					}
					return errors.New("send failed")
				}, func(confirmation ocpp.Response, err error) {
					// the callback identifies itself through the error it is given
					if e, ok := err.(*cbProbe); ok {
						e.got = cbNo
					}
				})
				out = append(out, b2i(err == nil))
			case 1:
				a, ok := next(2)
				if !ok {
					return
				}
				cb, found := cq.Dequeue(idStr(a[1]))
				if !found {
					out = append(out, 0, 0)
				} else {
					p := &cbProbe{got: -1}
					cb(nil, p)
					out = append(out, 1, p.got)
				}
			default:
				return
			}
		}
	default:
		return []int64{-1}
	}
	return out
}

type cbProbe struct{ got int64 }

func (c *cbProbe) Error() string { return "probe" }

func c12Gen(cfg config, emit func(Case)) {
	r := rand.New(rand.NewSource(cfg.seed))
	// corpus: boundary situations
	corpus := [][]int64{
		{1, 1, 1, 7, 1, 8, 5, 3, 1, 9, 4, 2, 3, 3, 6},             // cap 1: full, pop, push again
		{1, 0, 1, 1, 1, 2, 1, 3, 5, 4, 0, 4, 6, 3},                 // unbounded, init
		{1, 2, 3, 2, 4, 5, 6},                                      // empty queue observers
		{2, 1, 5, 1, 7, 2, 1, 5, 1, 7, 5, 1, 8, 1, 1, 3, 1, 1, 1}, // push to unknown, create, fill, remove
		{3, 0, 1, 0, 4, 0, 5, 0, 6, 1, 5, 1, 6, 2, 6, 4, 2, 5, 4, 0, 0, 1, 0},
		{4, 1, 0, 1, 5, 2, 1, 5, 1, 7, 0, 5, 3, 1, 9, 0, 0, 1, 6, 3, 1, 7, 0, 6, 8, 0, 9, 9, 0},
		{5, 0, 1, 1, 0, 0, 1, 1, 0, 1, 1, 1, 0, 1, 2, 0, 0, 1, 3, 1, 1, 1, 1, 1, 1, 1},
		{5, 0, 0, 1, 1, 1, 0, 1, 2, 1, 0, 1, 3, 0, 1, 1, 1, 1, 1, 1},
	}
	for _, c := range corpus {
		emit(Case{Class: fmt.Sprintf("corpus-kind%d", c[0]), Input: c, Comment: "corpus"})
	}
	for i := 0; i < cfg.n; i++ {
		n := 3 + r.Intn(35)
		// queue
		{
			cap := int64(r.Intn(5))
			in := []int64{1, cap}
			for j := 0; j < n; j++ {
				switch k := r.Intn(12); {
				case k < 5:
					in = append(in, 1, int64(1+r.Intn(99)))
				case k < 8:
					in = append(in, 3)
				case k == 8:
					in = append(in, 2)
				case k == 9:
					in = append(in, 4)
				case k == 10:
					in = append(in, int64(5+r.Intn(2)))
				default:
					if r.Intn(4) == 0 {
						in = append(in, 0)
					} else {
						in = append(in, 5)
					}
				}
			}
			emit(Case{Class: fmt.Sprintf("queue-cap%d", cap), Input: in, Comment: "queue ops"})
		}
		// queue map
		{
			cap := int64(r.Intn(3))
			in := []int64{2, cap}
			for j := 0; j < n; j++ {
				c := int64(1 + r.Intn(3))
				switch k := r.Intn(12); {
				case k < 4:
					in = append(in, 5, c, int64(1+r.Intn(99)))
				case k < 6:
					in = append(in, 6, c)
				case k < 8:
					in = append(in, 2, c)
				case k == 8:
					in = append(in, 1, c)
				case k == 9:
					in = append(in, 3, c)
				case k == 10:
					in = append(in, 4, c, int64(r.Intn(3)))
				default:
					if r.Intn(4) == 0 {
						in = append(in, 0)
					} else {
						in = append(in, 1, c)
					}
				}
			}
			emit(Case{Class: "queuemap", Input: in, Comment: "queue map ops"})
		}
		// client state
		{
			in := []int64{3, 0}
			for j := 0; j < n; j++ {
				id := int64(r.Intn(4)) // 0 = ""
				switch k := r.Intn(10); {
				case k < 3:
					in = append(in, 0, id)
				case k < 6:
					in = append(in, 1, id)
				case k < 8:
					in = append(in, 2, id)
				case k == 8:
					in = append(in, 4)
				default:
					if r.Intn(3) == 0 {
						in = append(in, 3)
					} else {
						in = append(in, 4)
					}
				}
			}
			emit(Case{Class: "clientstate", Input: in, Comment: "client state ops"})
		}
		// server state
		{
			in := []int64{4, int64(r.Intn(2))}
			nh := int64(0)
			for j := 0; j < n; j++ {
				c := int64(1 + r.Intn(3))
				id := int64(r.Intn(4))
				switch k := r.Intn(16); {
				case k < 3:
					in = append(in, 0, c, id)
				case k < 5:
					in = append(in, 1, c, id)
				case k < 7:
					in = append(in, 2, c)
					nh++
				case k < 9:
					in = append(in, 3, c)
				case k == 9:
					in = append(in, 4)
				case k == 10:
					in = append(in, 5, c)
				case k == 11:
					if r.Intn(3) == 0 {
						in = append(in, 6)
					} else {
						in = append(in, 4)
					}
				default:
					if nh == 0 {
						in = append(in, 3, c)
						continue
					}
					hk := int64(r.Intn(int(nh)))
					switch k {
					case 12:
						in = append(in, 7, hk, id)
					case 13:
						in = append(in, 8, hk, id)
					case 14:
						in = append(in, 9, hk)
					default:
						in = append(in, 10, hk, id)
					}
				}
			}
			emit(Case{Class: "serverstate", Input: in, Comment: "server state ops"})
		}
		// callback queue
		{
			in := []int64{5, 0}
			cb := int64(1)
			for j := 0; j < n; j++ {
				id := int64(1 + r.Intn(3))
				if r.Intn(5) < 3 {
					in = append(in, 0, id, cb, b2i(r.Intn(4) != 0))
					cb++
				} else {
					in = append(in, 1, id)
				}
			}
			emit(Case{Class: "callbackqueue", Input: in, Comment: "callback queue ops"})
		}
	}
}

// ---------------------------------------------------------------------------
// concurrent histories

func c12LinEval(in []int64) []int64 { return []int64{1} }

func c12LinGen(cfg config, emit func(Case)) {
	r := rand.New(rand.NewSource(cfg.seed + 77))
	prev := runtime.GOMAXPROCS(8)
	defer runtime.GOMAXPROCS(prev)
	rounds := cfg.n * 3
	for i := 0; i < rounds; i++ {
		cap := int64(1 + r.Intn(3))
		g := 2 + r.Intn(3)
		per := 2 + r.Intn(2)
		if g*per > 10 {
			per = 10 / g
		}
		q := ocppj.NewFIFOClientQueue(int(cap))
		// pre-fill so that the queue sits one below its capacity: the contended slot
		pre := int(cap) - 1
		type rec struct {
			code, arg int64
			out       []int64
			inv, res  int64
		}
		var clock int64
		var hist []rec
		for k := 0; k < pre; k++ {
			t0 := atomic.AddInt64(&clock, 1)
			ok := q.Push(int64(900 + k))
			t1 := atomic.AddInt64(&clock, 1)
			hist = append(hist, rec{1, int64(900 + k), []int64{b2i(ok == nil)}, t0, t1})
		}
		plans := make([][]rec, g)
		for t := 0; t < g; t++ {
			for k := 0; k < per; k++ {
				var op rec
				switch x := r.Intn(10); {
				case x < 6 || k == 0:
					op = rec{code: 1, arg: int64(100*t + k + 1)}
				case x < 8:
					op = rec{code: 3}
				case x == 8:
					op = rec{code: 4}
				default:
					op = rec{code: 5}
				}
				plans[t] = append(plans[t], op)
			}
		}
		var wg sync.WaitGroup
		var start int32
		for t := 0; t < g; t++ {
			wg.Add(1)
			go func(t int) {
				defer wg.Done()
				for atomic.LoadInt32(&start) == 0 {
				}
				for k := range plans[t] {
					op := &plans[t][k]
					op.inv = atomic.AddInt64(&clock, 1)
					switch op.code {
					case 1:
						op.out = []int64{b2i(q.Push(op.arg) == nil)}
					case 3:
						op.out = []int64{elemOf(q.Pop())}
					case 4:
						op.out = []int64{int64(q.Size())}
					case 5:
						op.out = []int64{b2i(q.IsFull())}
					}
					op.res = atomic.AddInt64(&clock, 1)
				}
			}(t)
		}
		atomic.StoreInt32(&start, 1)
		wg.Wait()
		for t := range plans {
			hist = append(hist, plans[t]...)
		}
		// final observation after quiescence
		t0 := atomic.AddInt64(&clock, 1)
		sz := int64(q.Size())
		t1 := atomic.AddInt64(&clock, 1)
		hist = append(hist, rec{4, 0, []int64{sz}, t0, t1})
		in := []int64{cap}
		for _, h := range hist {
			in = append(in, h.code, h.arg, int64(len(h.out)))
			in = append(in, h.out...)
			in = append(in, h.inv, h.res)
		}
		emit(Case{Class: fmt.Sprintf("lin-g%d-cap%d", g, cap), Input: in, Comment: "concurrent queue history",
			Check: func(obs []int64) (string, string) {
				if cap > 0 && sz > cap {
					return "queue-over-capacity", fmt.Sprintf("capacity %d but Size() = %d after %d concurrent goroutines", cap, sz, g)
				}
				return "", ""
			}})
	}
}

func init() {
	properties["c12"] = []*Entry{
		{Name: "c12", Eval: c12Eval, Gen: c12Gen},
		{Name: "c12_lin", Eval: c12LinEval, Gen: c12LinGen},
	}
}
