package main

// C04: wire round-trip fidelity.
//   c04e: [schema index; value]       real json marshalling of the payload (through CreateCall / CreateCallResult + MarshalJSON) vs the model's encode
//   c04d: [schema index; JSON tree]   real receive path (ParseRawJsonMessage + ParseMessage on a second endpoint) vs the model's decode
//   c04s: [esc; code points]          the JSON text of a string under both EscapeHTML settings vs print_str
// plus the property evaluated on the implementation itself: same kind / id / action, equal payload, identical re-serialisation.

import (
	"bytes"
	"encoding/json"
	"fmt"
	"math"
	"math/rand"
	"reflect"
	"strings"
	"time"

	"github.com/lorenzodonini/ocpp-go/ocpp"
	core16 "github.com/lorenzodonini/ocpp-go/ocpp1.6/core"
	types16 "github.com/lorenzodonini/ocpp-go/ocpp1.6/types"
	"github.com/lorenzodonini/ocpp-go/ocppj"

	"verif/tools/internal/cw"
	"verif/tools/internal/fakews"
	"verif/tools/internal/profiles"
	"verif/tools/internal/stubs"
)

var c04Pool = []rune("abcXYZ019 _-<>&\"\\/éü中  \U0001F600\t\n\u0001\u007f�ß'")

func c04Str(rng *rand.Rand, n int) string {
	rs := make([]rune, n)
	for i := range rs {
		rs[i] = c04Pool[rng.Intn(len(c04Pool))]
	}
	return string(rs)
}

// jsonTree: the flat encoding of a JSON text (object keys in document order)
func jsonTree(b []byte) ([]int64, error) {
	dec := json.NewDecoder(bytes.NewReader(b))
	dec.UseNumber()
	var walk func() ([]int64, error)
	walk = func() ([]int64, error) {
		tok, err := dec.Token()
		if err != nil {
			return nil, err
		}
		switch t := tok.(type) {
		case nil:
			return []int64{0}, nil
		case bool:
			return []int64{1, b2i(t)}, nil
		case json.Number:
			f, _ := t.Float64()
			return []int64{3, int64(math.Round(f * 1000))}, nil
		case string:
			rs := []rune(t)
			out := []int64{4, int64(len(rs))}
			for _, r := range rs {
				out = append(out, int64(r))
			}
			return out, nil
		case json.Delim:
			if t == '[' {
				var elems [][]int64
				for dec.More() {
					e, err := walk()
					if err != nil {
						return nil, err
					}
					elems = append(elems, e)
				}
				_, _ = dec.Token()
				out := []int64{6, int64(len(elems))}
				for _, e := range elems {
					out = append(out, e...)
				}
				return out, nil
			}
			var parts [][]int64
			n := 0
			for dec.More() {
				kt, err := dec.Token()
				if err != nil {
					return nil, err
				}
				key := kt.(string)
				v, err := walk()
				if err != nil {
					return nil, err
				}
				parts = append(parts, append(cw.LP([]byte(key)), v...))
				n++
			}
			_, _ = dec.Token()
			out := []int64{7, int64(n)}
			for _, p := range parts {
				out = append(out, p...)
			}
			return out, nil
		}
		return nil, fmt.Errorf("token")
	}
	return walk()
}

type c04Ends struct {
	a, b *ocppj.Client
}

func newC04Ends(version string) c04Ends {
	installIDGen()
	ps := profiles.V16()
	d := ocpp.V16
	if version == "201" {
		ps = profiles.V201()
		d = ocpp.V2
	}
	a := ocppj.NewClient("a", fakews.NewClient(), nil, nil, ps...)
	b := ocppj.NewClient("b", fakews.NewClient(), nil, nil, ps...)
	a.SetDialect(d)
	b.SetDialect(d)
	return c04Ends{a, b}
}

// equalPayload: DeepEqual with nil and empty slices identified
func normalize(v reflect.Value) {
	switch v.Kind() {
	case reflect.Ptr, reflect.Interface:
		if !v.IsNil() {
			normalize(v.Elem())
		}
	case reflect.Struct:
		for i := 0; i < v.NumField(); i++ {
			if v.Type().Field(i).PkgPath == "" {
				normalize(v.Field(i))
			}
		}
	case reflect.Slice:
		if v.Len() == 0 && !v.IsNil() && v.CanSet() {
			v.Set(reflect.Zero(v.Type()))
		}
		for i := 0; i < v.Len(); i++ {
			normalize(v.Index(i))
		}
	}
}

// roundTrip runs one payload through the real sender and receiver; returns the marshalled payload text,
// the decoded payload and a property-monitor verdict.
func c04RoundTrip(ends c04Ends, m msgType, v reflect.Value, esc bool) (payloadJSON []byte, decoded reflect.Value, kind, detail string) {
	ocppj.SetHTMLEscape(esc)
	defer ocppj.SetHTMLEscape(true)
	id := "rt-1"
	var frame []byte
	var err error
	state := ocppj.NewClientState()
	if m.isReq {
		setNextID(id)
		call, e := ends.a.CreateCall(v.Interface().(ocpp.Request))
		setNextID("")
		if e != nil {
			return nil, reflect.Value{}, "C04-valid-payload-refused", e.Error()
		}
		frame, err = call.MarshalJSON()
	} else {
		res, e := ends.a.CreateCallResult(v.Interface().(ocpp.Response), id)
		if e != nil {
			return nil, reflect.Value{}, "C04-valid-payload-refused", e.Error()
		}
		frame, err = res.MarshalJSON()
		f := stubs.FeatureByName(map[string]int{"16": 0, "201": 2}[m.version], m.feature)
		state.AddPendingRequest(id, reflect.New(f.GetRequestType()).Interface().(ocpp.Request))
	}
	if err != nil {
		return nil, reflect.Value{}, "C04-marshal-error", err.Error()
	}
	var arr []json.RawMessage
	if json.Unmarshal(frame, &arr) != nil {
		return nil, reflect.Value{}, "C04-frame-shape", "frame is not a JSON array: " + string(frame)
	}
	want := 3
	if m.isReq {
		want = 4
	}
	if len(arr) != want {
		return nil, reflect.Value{}, "C04-frame-shape", fmt.Sprintf("frame has %d elements: %s", len(arr), frame)
	}
	payloadJSON = arr[len(arr)-1]
	parsed, e1 := ocppj.ParseRawJsonMessage(frame)
	if e1 != nil {
		return payloadJSON, reflect.Value{}, "C04-peer-cannot-parse", e1.Error()
	}
	msg, e2 := ends.b.ParseMessage(parsed, state)
	if e2 != nil || msg == nil {
		return payloadJSON, reflect.Value{}, "C04-peer-rejects", fmt.Sprintf("%v", e2)
	}
	var pl interface{}
	switch mm := msg.(type) {
	case *ocppj.Call:
		if !m.isReq || mm.UniqueId != id || mm.Action != m.feature {
			return payloadJSON, reflect.Value{}, "C04-kind-id-action", fmt.Sprintf("decoded as CALL %s %s", mm.UniqueId, mm.Action)
		}
		pl = mm.Payload
	case *ocppj.CallResult:
		if m.isReq || mm.UniqueId != id {
			return payloadJSON, reflect.Value{}, "C04-kind-id-action", "decoded as CALL_RESULT " + mm.UniqueId
		}
		pl = mm.Payload
	default:
		return payloadJSON, reflect.Value{}, "C04-kind-id-action", "decoded as another kind"
	}
	decoded = reflect.ValueOf(pl)
	if decoded.Type() != v.Type() {
		return payloadJSON, decoded, "C04-payload-type", decoded.Type().String()
	}
	// equal payload (nil and empty slices identified, instants compared as the formatted text)
	normalize(v.Elem())
	normalize(decoded.Elem())
	if !reflect.DeepEqual(stubs.EncodeValJ(v.Elem()), stubs.EncodeValJ(decoded.Elem())) {
		a1, _ := json.Marshal(v.Interface())
		b1, _ := json.Marshal(decoded.Interface())
		return payloadJSON, decoded, "C04-payload-differs", fmt.Sprintf("a field of the payload did not survive: sent %s decoded %s", a1, b1)
	}
	// serialising the decoded message again yields the same JSON
	var again []byte
	if m.isReq {
		c2 := msg.(*ocppj.Call)
		again, _ = c2.MarshalJSON()
	} else {
		c2 := msg.(*ocppj.CallResult)
		again, _ = c2.MarshalJSON()
	}
	if !bytes.Equal(again, frame) {
		return payloadJSON, decoded, "C04-reserialisation-differs", fmt.Sprintf("%s vs %s", frame, again)
	}
	return payloadJSON, decoded, "", ""
}

type c04Case struct {
	e, d Case
}

var c04Cache []c04Case

func c04Gen(cfg config, emit func(Case)) {
	stubs.StrGen = c04Str
	defer func() { stubs.StrGen = nil }()
	ends := map[string]c04Ends{"16": newC04Ends("16"), "201": newC04Ends("201")}
	c04Cache = nil
	seeds := []int64{cfg.seed, cfg.seed + 1}
	if cfg.thorough {
		seeds = []int64{cfg.seed, cfg.seed + 1, cfg.seed + 2, cfg.seed + 3, cfg.seed + 4, cfg.seed + 5}
	}
	for _, m := range allMsgTypes() {
		// every exported enumeration value, on every field that carries it
		for _, e := range stubs.EnumVariants(m.t, cfg.seed*13+m.idx) {
			pj, _, kind, detail := c04RoundTrip(ends[m.version], m, e.Val, true)
			in := append([]int64{m.idx}, stubs.EncodeValJ(e.Val.Elem())...)
			tree := []int64{-3}
			if pj != nil {
				if t, err := jsonTree(pj); err == nil {
					tree = t
				}
			}
			k, d := kind, detail+" ("+e.Path+" "+e.Edit+")"
			emit(Case{Class: "encode/enum-value", Input: in, Obs: tree, Comment: fmt.Sprintf("%s/%s %s %s", m.version, m.feature, e.Path, e.Edit),
				Check: func(obs []int64) (string, string) { return k, d }})
		}
		for si, seed := range seeds {
			for _, mode := range []int{0, 1, 2} {
				v, ok := stubs.ValidValueMode(m.t, rand.New(rand.NewSource(seed*977+m.idx*3+int64(mode))), mode)
				if !ok {
					continue
				}
				esc := (si+mode)%2 == 0
				pj, dec, kind, detail := c04RoundTrip(ends[m.version], m, v, esc)
				if pj == nil && kind == "" {
					continue
				}
				in := append([]int64{m.idx}, stubs.EncodeValJ(v.Elem())...)
				tree, terr := jsonTree(pj)
				if terr != nil {
					tree = []int64{-3}
				}
				k, d := kind, detail
				c := Case{Class: fmt.Sprintf("encode/mode%d", mode), Input: in, Obs: tree,
					Comment: fmt.Sprintf("%s/%s req=%v esc=%v", m.version, m.feature, m.isReq, esc),
					Check:   func(obs []int64) (string, string) { return k, d }}
				emit(c)
				if dec.IsValid() && kind == "" {
					din := append([]int64{m.idx}, tree...)
					c04Cache = append(c04Cache, c04Case{d: Case{Class: fmt.Sprintf("decode/mode%d", mode), Input: din, Obs: stubs.EncodeValJ(dec.Elem()),
						Comment: fmt.Sprintf("%s/%s req=%v", m.version, m.feature, m.isReq)}})
				}
			}
		}
	}
}

func c04dGen(cfg config, emit func(Case)) {
	for _, c := range c04Cache {
		emit(c.d)
	}
	// decoder specifics on a fixed message: unknown keys ignored, case-insensitive keys, duplicates (last wins), null
	ends := newC04Ends("16")
	var bn msgType
	for _, m := range allMsgTypes() {
		if m.version == "16" && m.feature == "BootNotification" && m.isReq {
			bn = m
		}
	}
	for _, pl := range []string{
		`{"chargePointModel":"m","chargePointVendor":"v","unknownKey":{"a":[1,2]}}`,
		`{"CHARGEPOINTMODEL":"m","chargepointvendor":"v"}`,
		`{"chargePointModel":"first","chargePointVendor":"v","chargePointModel":"last"}`,
		`{"chargePointModel":"m","chargePointVendor":"v","iccid":null}`,
		`{"chargePointModel":"m","chargePointVendor":"v","imsi":""}`,
	} {
		parsed, _ := ocppj.ParseRawJsonMessage([]byte(`[2,"k1","BootNotification",` + pl + `]`))
		msg, err := ends.b.ParseMessage(parsed, ocppj.NewClientState())
		obs := []int64{-5}
		if err == nil && msg != nil {
			obs = stubs.EncodeValJ(reflect.ValueOf(msg.(*ocppj.Call).Payload).Elem())
		}
		tree, _ := jsonTree([]byte(pl))
		emit(Case{Class: "decode/specifics", Input: append([]int64{bn.idx}, tree...), Obs: obs, Comment: pl})
	}
}

// every declared error code survives the wire as a CALL_ERROR, in both dialects: built by CreateCallError on one endpoint,
// decoded by ParseMessage on the peer that has the request outstanding, same id / code / description.  Like the probe
// above these cases ride on a trivial string-text input; their Check reports what the real round trip did.
func c04ErrorCodes(emit func(Case)) {
	codes := []ocpp.ErrorCode{ocppj.NotImplemented, ocppj.NotSupported, ocppj.InternalError, ocppj.MessageTypeNotSupported, ocppj.ProtocolError,
		ocppj.SecurityError, ocppj.PropertyConstraintViolation, ocppj.OccurrenceConstraintViolationV2, ocppj.OccurrenceConstraintViolationV16,
		ocppj.TypeConstraintViolation, ocppj.GenericError, ocppj.FormatViolationV2, ocppj.FormatViolationV16}
	for _, ver := range []string{"16", "201"} {
		ends := newC04Ends(ver)
		for _, code := range codes {
			kind, detail := "", ""
			id := "e-1"
			ce, err := ends.a.CreateCallError(id, code, "descr", nil)
			if err != nil {
				kind, detail = "C04-valid-payload-refused", fmt.Sprintf("CreateCallError(%s): %v", code, err)
			} else if frame, err := ce.MarshalJSON(); err != nil {
				kind, detail = "C04-marshal-error", err.Error()
			} else {
				state := ocppj.NewClientState()
				state.AddPendingRequest(id, core16.NewHeartbeatRequest())
				parsed, e1 := ocppj.ParseRawJsonMessage(frame)
				var msg ocppj.Message
				var e2 error
				if e1 == nil {
					msg, e2 = ends.b.ParseMessage(parsed, state)
				}
				got, ok := msg.(*ocppj.CallError)
				switch {
				case e1 != nil || e2 != nil || msg == nil:
					kind, detail = "C04-peer-rejects", fmt.Sprintf("CALL_ERROR %s: %v %v", code, e1, e2)
				case !ok || got.UniqueId != id || got.ErrorCode != code || got.ErrorDescription != "descr":
					kind, detail = "C04-kind-id-action", fmt.Sprintf("CALL_ERROR %s decoded as %+v", code, msg)
				}
			}
			k, d := kind, detail
			emit(Case{Class: "probe/error-code", Input: []int64{1, 97}, Obs: []int64{97}, Comment: fmt.Sprintf("%s CALL_ERROR %s", ver, code),
				Check: func([]int64) (string, string) { return k, d }})
		}
	}
}

func c04sGen(cfg config, emit func(Case)) {
	c04BigIntProbe(emit)
	c04ErrorCodes(emit)
	rng := rand.New(rand.NewSource(cfg.seed + 99))
	n := 400
	if cfg.thorough {
		n = 6000
	}
	for i := 0; i < n; i++ {
		s := c04Str(rng, rng.Intn(12))
		if i < len(c04Pool) {
			s = string(c04Pool[i])
		}
		for _, esc := range []bool{true, false} {
			ocppj.SetHTMLEscape(esc)
			call := ocppj.CallError{MessageTypeId: ocppj.CALL_ERROR, UniqueId: "i", ErrorCode: ocppj.GenericError, ErrorDescription: s}
			b, err := call.MarshalJSON()
			ocppj.SetHTMLEscape(true)
			if err != nil {
				continue
			}
			// the description is the 4th element: cut its text out of the frame
			var arr []json.RawMessage
			if json.Unmarshal(b, &arr) != nil || len(arr) < 4 || len(arr[3]) < 2 {
				// the serialised frame is not the JSON array [4, id, code, description, details]
				in := []int64{b2i(esc)}
				for _, r := range []rune(s) {
					in = append(in, int64(r))
				}
				frame := string(b)
				emit(Case{Class: "string-text", Input: in, Obs: []int64{-5}, Comment: fmt.Sprintf("%q esc=%v", s, esc),
					Check: func([]int64) (string, string) {
						return "C04-frame-not-json", fmt.Sprintf("CallError.MarshalJSON produced %q, which is not a JSON array of five elements", frame)
					}})
				continue
			}
			txt := string(arr[3])
			txt = txt[1 : len(txt)-1]
			var obs []int64
			for _, r := range []rune(txt) {
				obs = append(obs, int64(r))
			}
			in := []int64{b2i(esc)}
			valid := !strings.ContainsRune(s, '�')
			for _, r := range []rune(s) {
				in = append(in, int64(r))
			}
			if obs == nil {
				obs = []int64{}
			}
			_ = valid
			emit(Case{Class: "string-text", Input: in, Obs: obs, Comment: fmt.Sprintf("%q esc=%v", s, esc)})
		}
	}
}

// probe for finding F14: an integer field above 2^53 (valid: the field has no upper bound) does not survive the wire,
// because the receiving endpoint decodes every frame into float64 values first.  The case rides on a trivial string-text
// input (the model entry has nothing to say about it); its Check reports what the real round trip did.
func c04BigIntProbe(emit func(Case)) {
	ends := newC04Ends("16")
	for _, m := range allMsgTypes() {
		if !(m.version == "16" && m.feature == "StartTransaction" && m.isReq) {
			continue
		}
		req := core16.NewStartTransactionRequest(1, "tag", 1<<53+1, types16.NewDateTime(time.Date(2026, 1, 2, 3, 4, 5, 0, time.UTC)))
		_, _, kind, detail := c04RoundTrip(ends, m, reflect.ValueOf(req), true)
		emit(Case{Class: "probe/int-above-2^53", Input: []int64{1, 97}, Obs: []int64{97}, Comment: "StartTransaction.meterStart = 2^53+1",
			Check: func([]int64) (string, string) { return kind, detail }})
	}
}

func init() {
	none := func(in []int64) []int64 { return []int64{-1} }
	properties["c04"] = []*Entry{
		{Name: "c04e", Eval: none, Gen: c04Gen},
		{Name: "c04d", Eval: none, Gen: c04dGen},
		{Name: "c04s", Eval: none, Gen: c04sGen},
	}
}
