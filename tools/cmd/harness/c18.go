package main

// C18: dynamic probes of the facts the generated tables state (entry c18):
//   [1; tag; value]    Validate.Var(value, tag) on the shared validator
//   [2; role; feature] does the role's SendRequestAsync let the feature through its allow-list?
//   [3; role; feature] does an incoming CALL of that feature reach a handler method of the role?

import (
	"fmt"
	"math/rand"
	"reflect"
	"runtime"
	"sort"
	"strings"
	"sync"

	"github.com/lorenzodonini/ocpp-go/ocpp"
	ocpp16 "github.com/lorenzodonini/ocpp-go/ocpp1.6"
	ocpp2 "github.com/lorenzodonini/ocpp-go/ocpp2.0.1"
	"github.com/lorenzodonini/ocpp-go/ocppj"

	"verif/tools/internal/cw"
	"verif/tools/internal/fakews"
	"verif/tools/internal/profiles"
	"verif/tools/internal/stubs"
)

func decodeLP(in []int64) (string, []int64) {
	if len(in) == 0 {
		return "", nil
	}
	n := int(in[0])
	if n > len(in)-1 {
		n = len(in) - 1
	}
	b := make([]byte, n)
	for i := 0; i < n; i++ {
		b[i] = byte(in[1+i])
	}
	return string(b), in[1+n:]
}

var roleOnce sync.Once
var roleCP16 ocpp16.ChargePoint
var roleCS16 ocpp16.CentralSystem
var roleCS201 ocpp2.ChargingStation
var roleCSMS201 ocpp2.CSMS
var roleFakeC16, roleFakeC201 *fakews.Client
var roleFakeS16, roleFakeS201 *fakews.Server
var roleRec = &stubs.Recorder{}

func rolesInit() {
	roleOnce.Do(func() {
		installIDGen()
		roleFakeC16, roleFakeC201 = fakews.NewClient(), fakews.NewClient()
		roleFakeS16, roleFakeS201 = fakews.NewServer(), fakews.NewServer()
		roleCP16 = ocpp16.NewChargePoint("cp", ocppj.NewClient("cp", roleFakeC16, ocppj.NewDefaultClientDispatcher(ocppj.NewFIFOClientQueue(0)), nil, profiles.V16()...), roleFakeC16)
		roleCS16 = ocpp16.NewCentralSystem(ocppj.NewServer(roleFakeS16, ocppj.NewDefaultServerDispatcher(ocppj.NewFIFOQueueMap(0)), nil, profiles.V16()...), roleFakeS16)
		roleCS201 = ocpp2.NewChargingStation("cs", ocppj.NewClient("cs", roleFakeC201, ocppj.NewDefaultClientDispatcher(ocppj.NewFIFOClientQueue(0)), nil, profiles.V201()...), roleFakeC201)
		roleCSMS201 = ocpp2.NewCSMS(ocppj.NewServer(roleFakeS201, ocppj.NewDefaultServerDispatcher(ocppj.NewFIFOQueueMap(0)), nil, profiles.V201()...), roleFakeS201)
		stubs.Install16CP(roleCP16, roleRec, nil)
		stubs.Install16CS(roleCS16, roleRec, nil)
		stubs.Install201CS(roleCS201, roleRec, nil)
		stubs.Install201CSMS(roleCSMS201, roleRec, nil)
		_ = roleCP16.Start("ws://fake")
		go roleCS16.Start(0, "/")
		_ = roleCS201.Start("ws://fake")
		go roleCSMS201.Start(0, "/")
		for !roleFakeS16.Running() || !roleFakeS201.Running() {
			runtime.Gosched()
		}
		roleFakeS16.Connect("c1")
		roleFakeS201.Connect("c1")
	})
}

func featureOf(role int64, name string) ocpp.Feature {
	ps := profiles.V16()
	if role >= 2 {
		ps = profiles.V201()
	}
	for _, p := range ps {
		if f, ok := p.Features[name]; ok {
			return f
		}
	}
	return nil
}

func c18Eval(in []int64) []int64 {
	if len(in) == 0 {
		return []int64{-1}
	}
	switch in[0] {
	case 1, 5:
		tag, rest := decodeLP(in[1:])
		val, _ := decodeLP(rest)
		err := ocppj.Validate.Var(val, tag)
		return []int64{b2i(err == nil)}
	case 2, 4:
		rolesInit()
		role := in[1]
		name, _ := decodeLP(in[2:])
		f := featureOf(role, name)
		if f == nil {
			return []int64{0}
		}
		req := reflect.New(f.GetRequestType()).Interface().(ocpp.Request)
		var err error
		cb := func(ocpp.Response, error) {}
		switch role {
		case 0:
			err = roleCP16.SendRequestAsync(req, cb)
		case 1:
			err = roleCS16.SendRequestAsync("c1", req, cb)
		case 2:
			err = roleCS201.SendRequestAsync(req, cb)
		default:
			err = roleCSMS201.SendRequestAsync("c1", req, cb)
		}
		if err != nil && strings.Contains(err.Error(), "unsupported action") {
			return []int64{0}
		}
		return []int64{1}
	}
	return []int64{-1}
}

var dfltOnce sync.Once
var dfltCP16 ocpp16.ChargePoint
var dfltCS16 ocpp16.CentralSystem
var dfltCS201 ocpp2.ChargingStation
var dfltCSMS201 ocpp2.CSMS

// defaultSend: 1 if the default-constructed endpoint of that role accepts to send the feature (whatever happens next: it is
// not started), 0 if it does not know the action or its profile.
func defaultSend(role int64, name string) int64 {
	dfltOnce.Do(func() {
		dfltCP16 = ocpp16.NewChargePoint("cp", nil, nil)
		dfltCS16 = ocpp16.NewCentralSystem(nil, nil)
		dfltCS201 = ocpp2.NewChargingStation("cs", nil, nil)
		dfltCSMS201 = ocpp2.NewCSMS(nil, nil)
	})
	f := featureOf(role, name)
	if f == nil {
		return 0
	}
	req := reflect.New(f.GetRequestType()).Interface().(ocpp.Request)
	var err error
	cb := func(ocpp.Response, error) {}
	switch role {
	case 0:
		err = dfltCP16.SendRequestAsync(req, cb)
	case 1:
		err = dfltCS16.SendRequestAsync("c1", req, cb)
	case 2:
		err = dfltCS201.SendRequestAsync(req, cb)
	default:
		err = dfltCSMS201.SendRequestAsync("c1", req, cb)
	}
	if err != nil && (strings.Contains(err.Error(), "unsupported action") || strings.Contains(err.Error(), "missing profile")) {
		return 0
	}
	return 1
}

func c18Gen(cfg config, emit func(Case)) {
	_ = rand.Int
	// every registered enum tag: every value accepted by any enum of the library plus non-members
	tags := stubs.EnumTags()
	pool := map[string]bool{"": true, "accepted": true, "ACCEPTED": true, "Accepted ": true, "zzz": true, "0": true}
	for _, vs := range tags {
		for _, v := range vs {
			pool[v] = true
		}
	}
	for _, v := range stubs.EnumDeclared() {
		pool[v] = true
	}
	var tnames []string
	for t := range tags {
		tnames = append(tnames, t)
	}
	sort.Strings(tnames)
	var values []string
	for v := range pool {
		values = append(values, v)
	}
	sort.Strings(values)
	for _, t := range tnames {
		for _, v := range values {
			in := append([]int64{1}, cw.LP([]byte(t))...)
			in = append(in, cw.LP([]byte(v))...)
			emit(Case{Class: "enum-probe", Input: in, Comment: t + " <- " + v})
		}
	}
	for role := int64(0); role < 4; role++ {
		ps := profiles.V16()
		if role >= 2 {
			ps = profiles.V201()
		}
		var names []string
		for _, p := range ps {
			for n := range p.Features {
				names = append(names, n)
			}
		}
		sort.Strings(names)
		for _, n := range names {
			in := append([]int64{2, role}, cw.LP([]byte(n))...)
			emit(Case{Class: "send-probe", Input: in, Comment: n})
			// the endpoint built with the library's defaults (nil arguments) must know the same profiles as one
			// built with the explicit list of all profiles
			expl, dflt := c18Eval(in), defaultSend(role, n)
			name := n
			emit(Case{Class: "send-probe-default", Input: in, Comment: n + " (default-constructed endpoint)",
				Check: func([]int64) (string, string) {
					if len(expl) == 1 && expl[0] != dflt {
						return "C18-default-endpoint-differs", fmt.Sprintf("role %d, feature %s: endpoint with all profiles -> %d, default-constructed endpoint -> %d", role, name, expl[0], dflt)
					}
					return "", ""
				}})
		}
	}
}

// the same probes against the property's own reading (Spec role assignment, declared constants)
func c18sGen(cfg config, emit func(Case)) {
	c18Gen(cfg, func(c Case) {
		in := append([]int64(nil), c.Input...)
		if in[0] == 1 {
			in[0] = 5
		} else {
			in[0] = 4
		}
		c.Input = in
		emit(c)
	})
}

func init() {
	properties["c18"] = []*Entry{{Name: "c18", Eval: c18Eval, Gen: c18Gen}, {Name: "c18s", Eval: c18Eval, Gen: c18sGen}}
}
