package main

// C14: websocket connections are admitted iff all configured checks pass (entry c14).
// Real ws.NewServer() on 127.0.0.1:0 and raw gorilla clients; the matrix of server configurations x handshakes
// is enumerated (quick: a systematic sub-sample of the handshakes for every configuration; thorough: all).

import (
	"encoding/base64"
	"fmt"
	"net/http"
	"strings"
	"sync"
	"sync/atomic"
	"time"

	"github.com/gorilla/websocket"
	"github.com/lorenzodonini/ocpp-go/ws"
)

type c14Server struct {
	srv      ws.Server
	port     int
	mu       sync.Mutex
	newC     map[string]int
	msgs     map[string]int
	stopOnce sync.Once
}

// 4 is a fragment of 1: names are compared as whole tokens, never as substrings
var protoNames = map[int64]string{1: "proto-a", 2: "proto-b", 3: "proto-c", 4: "proto"}

func startC14Server(sup []int64, auth, check bool, originPolicy int64) *c14Server {
	s := &c14Server{srv: ws.NewServer(), newC: map[string]int{}, msgs: map[string]int{}}
	for _, p := range sup {
		s.srv.AddSupportedSubprotocol(protoNames[p])
	}
	if auth {
		s.srv.SetBasicAuthHandler(func(u, p string) bool { return u == "user" && p == "right" })
	}
	if check {
		s.srv.SetCheckClientHandler(func(id string, r *http.Request) bool { return !strings.HasPrefix(id, "bad") })
	}
	switch originPolicy {
	case 1:
		s.srv.SetCheckOriginHandler(func(r *http.Request) bool { return true })
	case 2:
		s.srv.SetCheckOriginHandler(func(r *http.Request) bool { return false })
	}
	s.srv.SetNewClientHandler(func(c ws.Channel) {
		s.mu.Lock()
		s.newC[c.ID()]++
		s.mu.Unlock()
	})
	s.srv.SetMessageHandler(func(c ws.Channel, data []byte) error {
		s.mu.Lock()
		s.msgs[c.ID()]++
		s.mu.Unlock()
		return nil
	})
	go s.srv.Start(0, "/ws/{id}")
	for i := 0; i < 2000 && s.srv.Addr() == nil; i++ {
		time.Sleep(500 * time.Microsecond)
	}
	if a := s.srv.Addr(); a != nil {
		s.port = a.Port
	}
	return s
}

func (s *c14Server) stop() { s.stopOnce.Do(func() { s.srv.Stop() }) }

var c14Seq int64

// dial performs one handshake; returns outcome code, negotiated protocol and the connection (when upgraded and still open).
func (s *c14Server) dial(id string, req []int64, creds, origin int64) (code int64, proto int64, conn *websocket.Conn) {
	d := websocket.Dialer{HandshakeTimeout: 3 * time.Second}
	for _, p := range req {
		d.Subprotocols = append(d.Subprotocols, protoNames[p])
	}
	h := http.Header{}
	switch creds {
	case 1:
		h.Set("Authorization", "Basic "+base64.StdEncoding.EncodeToString([]byte("user:right")))
	case 2:
		h.Set("Authorization", "Basic "+base64.StdEncoding.EncodeToString([]byte("user:wrong")))
	case 3: // blank password
		h.Set("Authorization", "Basic "+base64.StdEncoding.EncodeToString([]byte("user:")))
	case 4: // blank user
		h.Set("Authorization", "Basic "+base64.StdEncoding.EncodeToString([]byte(":right")))
	case 5: // both blank
		h.Set("Authorization", "Basic "+base64.StdEncoding.EncodeToString([]byte(":")))
	}
	url := fmt.Sprintf("ws://127.0.0.1:%d/ws/%s", s.port, id)
	switch origin {
	case 1:
		h.Set("Origin", fmt.Sprintf("http://127.0.0.1:%d", s.port))
	case 2:
		h.Set("Origin", "http://evil.example.org")
	}
	c, resp, err := d.Dial(url, h)
	if err != nil {
		if resp != nil {
			switch resp.StatusCode {
			case 401:
				return 1, 0, nil
			case 403:
				return 2, 0, nil
			}
			return 5, int64(resp.StatusCode), nil
		}
		return 6, 0, nil
	}
	// upgraded: either a close frame follows at once or the connection stays open
	_ = c.SetReadDeadline(time.Now().Add(150 * time.Millisecond))
	_, _, rerr := c.ReadMessage()
	if ce, ok := rerr.(*websocket.CloseError); ok {
		_ = c.Close()
		switch ce.Code {
		case websocket.CloseProtocolError:
			return 3, 0, nil
		case websocket.ClosePolicyViolation:
			return 4, 0, nil
		}
		return 7, int64(ce.Code), nil
	}
	for k, v := range protoNames {
		if v == c.Subprotocol() {
			proto = k
		}
	}
	_ = c.SetReadDeadline(time.Time{})
	return 0, proto, c
}

func c14Gen(cfg config, emit func(Case)) {
	sups := [][]int64{{}, {1}, {2}, {1, 2}, {2, 1}, {1, 4}, {4, 1}}
	var reqs [][]int64
	reqs = append(reqs, []int64{})
	for a := int64(1); a <= 3; a++ {
		reqs = append(reqs, []int64{a})
		for b := int64(1); b <= 3; b++ {
			reqs = append(reqs, []int64{a, b})
		}
	}
	reqs = append(reqs, []int64{4}, []int64{4, 1}, []int64{1, 4})
	has := func(l []int64, x int64) bool {
		for _, y := range l {
			if y == x {
				return true
			}
		}
		return false
	}
	stride := 11
	if cfg.thorough {
		stride = 1
	}
	n := 0
	for _, sup := range sups {
		for _, auth := range []bool{false, true} {
			for _, check := range []bool{false, true} {
				for op := int64(0); op < 3; op++ {
					s := startC14Server(sup, auth, check, op)
					if s.port == 0 {
						continue
					}
					// a resident connection for the duplicate-id cases (needs a handshake that passes)
					resReq := []int64{1}
					if len(sup) > 0 {
						resReq = []int64{sup[0]}
					}
					var resident *websocket.Conn
					if op != 2 {
						_, _, resident = s.dial("resident", resReq, 1, 0)
					}
					k := 0
					for _, req := range reqs {
						for creds := int64(0); creds < 6; creds++ {
							for idk := int64(1); idk <= 2; idk++ {
								for origin := int64(0); origin < 3; origin++ {
									for dup := int64(0); dup < 2; dup++ {
										k++
										n++
										plain := idk == 1 && origin == 0 && dup == 0
										if creds >= 3 && !(auth && plain && len(req) <= 1) {
											continue // blank credentials: only where they decide the outcome
										}
										always := creds >= 3 || (plain && creds == 1 && has(sup, 4) && has(req, 4))
										if !always && (k+int(cfg.seed))%stride != 0 {
											continue
										}
										if dup == 1 && (resident == nil || idk == 2) {
											continue
										}
										id := fmt.Sprintf("ok%d", atomic.AddInt64(&c14Seq, 1))
										if idk == 2 {
											id = fmt.Sprintf("bad%d", atomic.AddInt64(&c14Seq, 1))
										}
										if dup == 1 {
											id = "resident"
										}
										s.mu.Lock()
										before := s.newC[id]
										s.mu.Unlock()
										code, proto, conn := s.dial(id, req, creds, origin)
										var monKind, monDetail string
										if conn != nil {
											_ = conn.WriteMessage(websocket.TextMessage, []byte("hello"))
											// the callbacks run on the server's goroutines: give them time under load, without slowing the common case
											for w := 0; w < 4000; w++ {
												s.mu.Lock()
												done := s.newC[id]-before >= 1 && s.msgs[id] >= 1
												s.mu.Unlock()
												if done {
													break
												}
												time.Sleep(500 * time.Microsecond)
											}
											time.Sleep(time.Millisecond)
										}
										time.Sleep(time.Millisecond)
										s.mu.Lock()
										nc, nm := s.newC[id]-before, s.msgs[id]
										s.mu.Unlock()
										if conn != nil && len(sup) > 0 {
											inReq, inSup := false, false
											for _, x := range req {
												inReq = inReq || x == proto
											}
											for _, x := range sup {
												inSup = inSup || x == proto
											}
											if !inReq || !inSup {
												monKind, monDetail = "C14-echoed-protocol", fmt.Sprintf("admitted with protocol %d which is not both requested %v and supported %v", proto, req, sup)
											}
										}
										if conn != nil {
											if nc != 1 || nm < 1 {
												monKind, monDetail = "C14-admitted-without-callbacks", fmt.Sprintf("admitted but new-client callbacks=%d messages=%d", nc, nm)
											}
											_ = conn.Close()
											time.Sleep(2 * time.Millisecond)
										} else if nc != 0 || (dup == 0 && nm != 0) {
											monKind, monDetail = "C14-refused-but-callback", fmt.Sprintf("refused (code %d) but new-client callbacks=%d messages=%d", code, nc, nm)
										}
										in := []int64{int64(len(sup))}
										in = append(in, sup...)
										in = append(in, b2i(auth), b2i(check), op, int64(len(req)))
										in = append(in, req...)
										in = append(in, creds, idk, origin, dup)
										mk, md := monKind, monDetail
										emit(Case{Class: fmt.Sprintf("outcome%d", code), Input: in, Obs: []int64{code, 0},
											Comment: fmt.Sprintf("sup=%v auth=%v check=%v origin-policy=%d | req=%v creds=%d id=%d origin=%d dup=%d", sup, auth, check, op, req, creds, idk, origin, dup),
											Check:   func([]int64) (string, string) { return mk, md }})
									}
								}
							}
						}
					}
					if resident != nil {
						_ = resident.Close()
					}
					s.stop()
				}
			}
		}
	}
}

func init() {
	properties["c14"] = []*Entry{{Name: "c14", Eval: func(in []int64) []int64 { return []int64{-1} }, Gen: c14Gen}}
}
