package main

// C08 real-time lane: scenarios on the real timers of the client dispatcher (time.Timer) and of the
// server dispatcher (context.WithTimeout per request), with measured times.  The measured, timed
// trace is the input of the Coq monitor M1/Timed.v (entry c08rt): verdict 1 = every C08 clause holds.

import (
	"fmt"
	"math/rand"
	"strconv"
	"sync"
	"time"

	"github.com/lorenzodonini/ocpp-go/ocpp"
	ocpp16 "github.com/lorenzodonini/ocpp-go/ocpp1.6"
	core16 "github.com/lorenzodonini/ocpp-go/ocpp1.6/core"
	ocpp2 "github.com/lorenzodonini/ocpp-go/ocpp2.0.1"
	data2 "github.com/lorenzodonini/ocpp-go/ocpp2.0.1/data"
	"github.com/lorenzodonini/ocpp-go/ocppj"

	"verif/tools/internal/fakews"
)

type rtTrace struct {
	mu    sync.Mutex
	start time.Time
	ev    []int64
}

func (t *rtTrace) now() int64 { return int64(time.Since(t.start) / time.Millisecond) }
func (t *rtTrace) add(xs ...int64) {
	t.mu.Lock()
	t.ev = append(t.ev, xs...)
	t.mu.Unlock()
}

func rtKind(k int64) int64 {
	switch k {
	case 2:
		return 2
	case 0, 1:
		return 3
	}
	return 4
}

const rtT = 160 // ms

// client scenarios ---------------------------------------------------------------------------
func rtClient(variant int64, scen int, jit int64) []int64 {
	installIDGen()
	tr := &rtTrace{start: time.Now()}
	fake := fakews.NewClient()
	disp := ocppj.NewDefaultClientDispatcher(ocppj.NewFIFOClientQueue(0))
	disp.SetTimeout(rtT * time.Millisecond)
	var ep clientSendAPI
	if variant == 0 {
		ep = ocpp16.NewChargePoint("cp1", ocppj.NewClient("cp1", fake, disp, nil, core16.Profile), fake)
	} else {
		ep = ocpp2.NewChargingStation("cs1", ocppj.NewClient("cs1", fake, disp, nil, data2.Profile), fake)
	}
	var writeDelay int64
	fake.OnWrite = func(data []byte) {
		tr.add(1, callID(data), tr.now())
		if writeDelay > 0 {
			time.Sleep(time.Duration(writeDelay) * time.Millisecond) // a slow network write
		}
	}
	_ = ep.Start("ws://fake")
	send := func(id int64) {
		setNextID(strconv.FormatInt(id, 10))
		var req ocpp.Request
		if variant == 0 {
			req = core16.NewDataTransferRequest("v")
		} else {
			req = data2.NewDataTransferRequest("v")
		}
		_ = ep.SendRequestAsync(req, func(conf ocpp.Response, err error) {
			_, k := conclusionOf(conf, err)
			tr.add(rtKind(k), id, tr.now())
		})
		setNextID("")
	}
	reply := func(id int64) {
		s := strconv.FormatInt(id, 10)
		_ = fake.Inject([]byte(fmt.Sprintf(`[3,"%s",{"status":"Accepted","data":"%s"}]`, s, s)))
	}
	ms := func(d int64) { time.Sleep(time.Duration(d) * time.Millisecond) }
	switch scen {
	case 0: // plain timeout, the next queued request is sent afterwards and answered
		send(1)
		send(2)
		ms(rtT + 60 + jit)
		reply(2)
	case 1: // the reply to 1 arrives late in its window; 2 must get a full timeout of its own
		send(1)
		send(2)
		ms(rtT*6/10 + jit)
		reply(1)
		ms(rtT + 80)
	case 2: // disconnect while outstanding, reconnect after the original deadline: timeout counted from the reconnection
		send(1)
		ms(rtT/2 + jit)
		fake.Drop()
		ms(rtT)
		fake.Reconnect()
		tr.add(5, tr.now())
		ms(rtT + 80)
	case 3: // answered in time, then idle: no timeout at all
		send(1)
		ms(rtT/3 + jit)
		reply(1)
		ms(rtT + 60)
	case 4: // three requests, each answered just before its deadline
		for id := int64(1); id <= 3; id++ {
			send(id)
		}
		for id := int64(1); id <= 3; id++ {
			ms(rtT*8/10 + jit/2)
			reply(id)
		}
		ms(40)
	case 5: // 1 is answered; its old deadline passes while the (slow) write of 2 is in progress: 2 must still get a full timeout
		send(1)
		ms(rtT / 2)
		reply(1)
		ms(rtT*4/10 - 5 + jit/4)
		writeDelay = rtT / 4
		send(2)
		ms(rtT + rtT/4 + 90)
	}
	ms(40)
	ep.Stop()
	tr.mu.Lock()
	defer tr.mu.Unlock()
	return append([]int64{rtT, 6}, tr.ev...)
}

// server scenarios ---------------------------------------------------------------------------
func rtServer(variant int64, scen int, jit int64) []int64 {
	installIDGen()
	tr := &rtTrace{start: time.Now()}
	fake := fakews.NewServer()
	disp := ocppj.NewDefaultServerDispatcher(ocppj.NewFIFOQueueMap(0))
	disp.SetTimeout(rtT * time.Millisecond)
	var ep serverSendAPI
	if variant == 0 {
		cs := ocpp16.NewCentralSystem(ocppj.NewServer(fake, disp, nil, core16.Profile), fake)
		cs.SetChargePointDisconnectedHandler(func(cp ocpp16.ChargePointConnection) {})
		ep = cs
	} else {
		cs := ocpp2.NewCSMS(ocppj.NewServer(fake, disp, nil, data2.Profile), fake)
		cs.SetChargingStationDisconnectedHandler(func(cp ocpp2.ChargingStationConnection) {})
		ep = cs
	}
	fake.OnWrite = func(to string, data []byte) { tr.add(1, callID(data), tr.now()) }
	go ep.Start(0, "/{ws}")
	time.Sleep(5 * time.Millisecond)
	send := func(c string, id int64) {
		setNextID(strconv.FormatInt(id, 10))
		var req ocpp.Request
		if variant == 0 {
			req = core16.NewDataTransferRequest("v")
		} else {
			req = data2.NewDataTransferRequest("v")
		}
		_ = ep.SendRequestAsync(c, req, func(conf ocpp.Response, err error) {
			_, k := conclusionOf(conf, err)
			tr.add(rtKind(k), id, tr.now())
		})
		setNextID("")
	}
	reply := func(c string, id int64) {
		s := strconv.FormatInt(id, 10)
		_ = fake.Inject(c, []byte(fmt.Sprintf(`[3,"%s",{"status":"Accepted","data":"%s"}]`, s, s)))
	}
	ms := func(d int64) { time.Sleep(time.Duration(d) * time.Millisecond) }
	fake.Connect("c1")
	fake.Connect("c2")
	switch scen {
	case 0: // plain timeout then next
		send("c1", 1)
		send("c1", 2)
		ms(rtT + 60 + jit)
		reply("c1", 2)
	case 1: // reply late in the window; the next request gets its own full timeout
		send("c1", 1)
		send("c1", 2)
		ms(rtT*6/10 + jit)
		reply("c1", 1)
		ms(rtT + 80)
	case 2: // session ends with a request outstanding, the id reconnects, a new request must get a full timeout
		send("c1", 1)
		ms(rtT*3/10 + jit/2)
		fake.Disconnect("c1")
		ms(30)
		fake.Connect("c1")
		ms(rtT*3/10)
		send("c1", 2)
		ms(rtT + 80)
	case 3: // two clients with staggered deadlines
		send("c1", 1)
		ms(rtT/2 + jit/2)
		send("c2", 2)
		send("c1", 3)
		ms(rtT + rtT/2 + 80)
		reply("c1", 3)
	case 4: // answered in time, idle
		send("c2", 1)
		ms(rtT/3 + jit)
		reply("c2", 1)
		ms(rtT + 60)
	}
	ms(40)
	ep.Stop()
	time.Sleep(5 * time.Millisecond)
	tr.mu.Lock()
	defer tr.mu.Unlock()
	return append([]int64{rtT, 6}, tr.ev...)
}

func c08rtGen(cfg config, emit func(Case)) {
	rng := rand.New(rand.NewSource(cfg.seed*31 + 3))
	rounds := 1
	if cfg.thorough {
		rounds = 6
	}
	type job struct {
		side    string
		variant int64
		scen    int
		jit     int64
	}
	var jobs []job
	for r := 0; r < rounds; r++ {
		for scen := 0; scen < 6; scen++ {
			for variant := int64(0); variant < 2; variant++ {
				jobs = append(jobs, job{"client", variant, scen, int64(rng.Intn(25))})
				if scen < 5 {
					jobs = append(jobs, job{"server", variant, scen, int64(rng.Intn(25))})
				}
			}
		}
	}
	for _, j := range jobs {
		var in []int64
		if j.side == "client" {
			in = rtClient(j.variant, j.scen, j.jit)
		} else {
			in = rtServer(j.variant, j.scen, j.jit)
		}
		emit(Case{Class: fmt.Sprintf("%s-v%d-scenario%d", j.side, j.variant, j.scen), Input: in, Obs: []int64{1},
			Comment: fmt.Sprintf("%s variant %d scenario %d jitter %d", j.side, j.variant, j.scen, j.jit)})
	}
}

// c11rtGen (C11): only the server scenario in which a session ends with a request outstanding and the same id
// connects again: nothing of the old session -- its timeout least of all -- may touch the new session's request.
func c11rtGen(cfg config, emit func(Case)) {
	rng := rand.New(rand.NewSource(cfg.seed*37 + 5))
	rounds := 2
	if cfg.thorough {
		rounds = 10
	}
	for r := 0; r < rounds; r++ {
		for variant := int64(0); variant < 2; variant++ {
			jit := int64(rng.Intn(25))
			emit(Case{Class: fmt.Sprintf("server-v%d-session-end-reconnect", variant), Input: rtServer(variant, 2, jit), Obs: []int64{1},
				Comment: fmt.Sprintf("server variant %d: request outstanding, session ends, same id reconnects, new request; jitter %d", variant, jit)})
		}
	}
}

func init() {
	properties["c11rt"] = []*Entry{{Name: "c11rt", Eval: func(in []int64) []int64 { return []int64{1} }, Gen: c11rtGen}}
	properties["c08rt"] = []*Entry{{Name: "c08rt", Eval: func(in []int64) []int64 { return []int64{1} }, Gen: c08rtGen}}
}
