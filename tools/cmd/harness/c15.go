package main

// C15: open connections deliver messages intact and in order; closed ones fail safely.
//   c15 : sequential scenarios (writes of boundary sizes, closes from either side) in both directions over real
//         loopback sockets, compared with M3/Conn.v (per-write result, delivered sequence)
//   c15c: concurrent writers racing a close: the property is evaluated on the implementation (per-writer order,
//         exactly once, byte-for-byte content, every Write returns, no panic)

import (
	"bytes"
	"crypto/sha256"
	"encoding/binary"
	"fmt"
	"math/rand"
	"sync"
	"sync/atomic"
	"time"

	"github.com/gorilla/websocket"
	"github.com/lorenzodonini/ocpp-go/ws"

	"verif/tools/internal/sched"
)

var c15Sizes = []int{0, 1, 2, 125, 126, 127, 1000, 65535, 65536, 70000, 1 << 20}

// payload: deterministic content for (writer, seq, size): a text frame of valid UTF-8 with multi-byte runes
func c15Payload(w, seq int64, size int) []byte {
	head := fmt.Sprintf("%d:%d:%d:", w, seq, size)
	var b bytes.Buffer
	b.WriteString(head)
	pool := []string{"a", "é", "中", "\U0001F600", "z", "<", "&", "\""}
	i := int(w*31 + seq*7)
	for b.Len() < size {
		b.WriteString(pool[i%len(pool)])
		i++
	}
	return b.Bytes()
}

func c15Parse(data []byte) (w, seq int64, size int, ok bool) {
	n, _ := fmt.Sscanf(string(data[:minInt(len(data), 40)]), "%d:%d:%d:", &w, &seq, &size)
	if n != 3 {
		return 0, 0, 0, false
	}
	return w, seq, size, bytes.Equal(data, c15Payload(w, seq, size))
}

func minInt(a, b int) int {
	if a < b {
		return a
	}
	return b
}

type c15Pair struct {
	srv     ws.Server
	port    int
	cli     ws.Client          // library client (direction client->server uses cli.Write)
	raw     *websocket.Conn    // raw peer of the server (direction server->client)
	mu      sync.Mutex
	gotSrv  [][]byte           // received by the server's message handler
	gotCli  [][]byte           // received by the library client's handler
	gotRaw  [][]byte           // received by the raw client
	rawDone chan struct{}
}

func startC15(useLibClient bool) *c15Pair {
	p := &c15Pair{srv: ws.NewServer(), rawDone: make(chan struct{})}
	p.srv.SetMessageHandler(func(c ws.Channel, data []byte) error {
		p.mu.Lock()
		p.gotSrv = append(p.gotSrv, append([]byte(nil), data...))
		p.mu.Unlock()
		return nil
	})
	go p.srv.Start(0, "/ws/{id}")
	for i := 0; i < 4000 && p.srv.Addr() == nil; i++ {
		time.Sleep(250 * time.Microsecond)
	}
	p.port = p.srv.Addr().Port
	url := fmt.Sprintf("ws://127.0.0.1:%d/ws/peer", p.port)
	if useLibClient {
		p.cli = ws.NewClient()
		p.cli.SetRequestedSubProtocol("ocpp1.6")
		p.cli.SetMessageHandler(func(data []byte) error {
			p.mu.Lock()
			p.gotCli = append(p.gotCli, append([]byte(nil), data...))
			p.mu.Unlock()
			return nil
		})
		_ = p.cli.Start(url)
	} else {
		d := websocket.Dialer{Subprotocols: []string{"ocpp1.6"}, HandshakeTimeout: 3 * time.Second}
		c, _, err := d.Dial(url, nil)
		if err == nil {
			p.raw = c
			go func() {
				defer close(p.rawDone)
				for {
					_, data, err := c.ReadMessage()
					if err != nil {
						return
					}
					p.mu.Lock()
					p.gotRaw = append(p.gotRaw, data)
					p.mu.Unlock()
				}
			}()
		}
	}
	for i := 0; i < 2000; i++ {
		if _, ok := p.srv.GetChannel("peer"); ok {
			break
		}
		time.Sleep(250 * time.Microsecond)
	}
	return p
}

func (p *c15Pair) stop() {
	if p.cli != nil {
		p.cli.Stop()
	}
	if p.raw != nil {
		_ = p.raw.Close()
	}
	p.srv.Stop()
}

func (p *c15Pair) waitCount(get func() int, n int) {
	deadline := time.Now().Add(time.Duration(sched.Slow) * 1500 * time.Millisecond)
	for time.Now().Before(deadline) {
		p.mu.Lock()
		k := get()
		p.mu.Unlock()
		if k >= n {
			return
		}
		time.Sleep(300 * time.Microsecond)
	}
}

// sequential scenario: dir 0 server->raw client, 1 library client->server, 2 server->library client
func c15Seq(dir int64, labs [][]int64) []int64 {
	p := startC15(dir != 0)
	defer p.stop()
	var res []int64
	okCount := 0
	closed := false
	for _, l := range labs {
		switch l[0] {
		case 1:
			data := c15Payload(l[1], l[2], c15Sizes[int(l[2])%len(c15Sizes)])
			var err error
			done := make(chan struct{})
			go func() {
				defer close(done)
				switch dir {
				case 0, 2:
					err = p.srv.Write("peer", data)
				default:
					err = p.cli.Write(data)
				}
			}()
			select {
			case <-done:
			case <-time.After(5 * time.Second):
				return append(res, -8)
			}
			res = append(res, b2i(err == nil))
			if err == nil {
				okCount++
				switch dir {
				case 0:
					p.waitCount(func() int { return len(p.gotRaw) }, okCount)
				case 1:
					p.waitCount(func() int { return len(p.gotSrv) }, okCount)
				default:
					p.waitCount(func() int { return len(p.gotCli) }, okCount)
				}
			}
		case 3:
			if closed {
				break
			}
			closed = true
			switch {
			case dir == 0 && l[1] == 0:
				_ = p.raw.Close() // peer goes away
			case dir == 0:
				_ = p.srv.StopConnection("peer", websocket.CloseError{Code: websocket.CloseNormalClosure})
			case l[1] == 0:
				p.cli.Stop()
			default:
				_ = p.srv.StopConnection("peer", websocket.CloseError{Code: websocket.CloseNormalClosure})
			}
			// closed on both sides before the next write
			for i := 0; i < 4000; i++ {
				_, live := p.srv.GetChannel("peer")
				cliDown := p.cli == nil || !p.cli.IsConnected()
				if !live && cliDown {
					break
				}
				time.Sleep(500 * time.Microsecond)
			}
			time.Sleep(2 * time.Millisecond)
		}
	}
	res = append(res, -2)
	p.mu.Lock()
	got := p.gotRaw
	if dir == 1 {
		got = p.gotSrv
	} else if dir == 2 {
		got = p.gotCli
	}
	for _, g := range got {
		_, seq, _, ok := c15Parse(g)
		if !ok {
			res = append(res, -5)
		} else {
			res = append(res, seq)
		}
	}
	p.mu.Unlock()
	return res
}

func c15Decode(in []int64) (dir int64, labs [][]int64) {
	if len(in) == 0 {
		return 0, nil
	}
	dir, in = in[0], in[1:]
	for len(in) > 0 {
		n := 3
		if in[0] == 3 {
			n = 2
		}
		if len(in) < n {
			break
		}
		labs = append(labs, in[:n])
		in = in[n:]
	}
	return
}

func c15Eval(in []int64) []int64 {
	dir, labs := c15Decode(in)
	return c15Seq(dir, labs)
}

func c15Gen(cfg config, emit func(Case)) {
	rng := rand.New(rand.NewSource(cfg.seed*3 + 15))
	n := 18
	if cfg.thorough {
		n = 300
	}
	for i := 0; i < n; i++ {
		dir := int64(i % 3)
		in := []int64{dir}
		k := 3 + rng.Intn(10)
		closeAt := -1
		if rng.Intn(3) != 0 {
			closeAt = rng.Intn(k)
		}
		seq := int64(0)
		for j := 0; j < k; j++ {
			if j == closeAt {
				in = append(in, 3, int64(rng.Intn(2)))
			}
			in = append(in, 1, 1, seq)
			seq += int64(1 + rng.Intn(3))
		}
		emit(Case{Class: fmt.Sprintf("sequential-dir%d", dir), Input: in})
	}
}

// ---- concurrent writers racing a close -----------------------------------------------------
func c15Concurrent(seed int64, dir int, writers int, withClose bool) (string, string) {
	rng := rand.New(rand.NewSource(seed))
	p := startC15(dir != 0)
	defer p.stop()
	var wg sync.WaitGroup
	var panics, stuck int64
	perWriter := 12
	accepted := make([][]int64, writers)
	var accMu sync.Mutex
	closeAfter := time.Duration(rng.Intn(3000)) * time.Microsecond
	for w := 0; w < writers; w++ {
		w := w
		wg.Add(1)
		go func() {
			defer wg.Done()
			defer func() {
				if r := recover(); r != nil {
					atomic.AddInt64(&panics, 1)
				}
			}()
			for s := 0; s < perWriter; s++ {
				size := c15Sizes[(w+s)%7]
				data := c15Payload(int64(w+1), int64(s), size)
				done := make(chan error, 1)
				go func() {
					defer func() {
						if r := recover(); r != nil {
							atomic.AddInt64(&panics, 1)
							done <- fmt.Errorf("panic")
						}
					}()
					if dir == 1 {
						done <- p.cli.Write(data)
					} else {
						done <- p.srv.Write("peer", data)
					}
				}()
				select {
				case err := <-done:
					if err == nil {
						accMu.Lock()
						accepted[w] = append(accepted[w], int64(s))
						accMu.Unlock()
					}
				case <-time.After(4 * time.Second):
					atomic.AddInt64(&stuck, 1)
					return
				}
			}
		}()
	}
	if withClose {
		time.Sleep(closeAfter)
		switch rng.Intn(3) {
		case 0:
			_ = p.srv.StopConnection("peer", websocket.CloseError{Code: websocket.CloseNormalClosure})
		case 1:
			if p.raw != nil {
				_ = p.raw.Close()
			} else {
				p.cli.Stop()
			}
		default:
			if p.raw != nil {
				_ = p.raw.UnderlyingConn().Close()
			} else {
				_ = p.srv.StopConnection("peer", websocket.CloseError{Code: websocket.CloseGoingAway})
			}
		}
	}
	wg.Wait()
	if panics > 0 {
		return "C15-write-panicked", fmt.Sprintf("%d Write calls panicked (dir %d, %d writers, close %v)", panics, dir, writers, withClose)
	}
	if stuck > 0 {
		return "C15-write-blocked-forever", fmt.Sprintf("%d writers were still blocked in Write 4 s after the connection was closed (dir %d, %d writers)", stuck, dir, writers)
	}
	if !withClose {
		total := 0
		for _, a := range accepted {
			total += len(a)
		}
		get := func() int { return len(p.gotRaw) }
		if dir == 1 {
			get = func() int { return len(p.gotSrv) }
		} else if dir == 2 {
			get = func() int { return len(p.gotCli) }
		}
		p.waitCount(get, total)
	} else {
		time.Sleep(20 * time.Millisecond)
	}
	p.mu.Lock()
	defer p.mu.Unlock()
	got := p.gotRaw
	if dir == 1 {
		got = p.gotSrv
	} else if dir == 2 {
		got = p.gotCli
	}
	last := map[int64]int64{}
	seen := map[[32]byte]bool{}
	count := 0
	for _, g := range got {
		w, s, _, ok := c15Parse(g)
		if !ok {
			return "C15-content-corrupted", fmt.Sprintf("a delivered message does not match what was written (len %d)", len(g))
		}
		var key [16]byte
		binary.LittleEndian.PutUint64(key[:8], uint64(w))
		binary.LittleEndian.PutUint64(key[8:], uint64(s))
		h := sha256.Sum256(key[:])
		if seen[h] {
			return "C15-delivered-twice", fmt.Sprintf("message %d of writer %d delivered twice", s, w)
		}
		seen[h] = true
		if l, ok := last[w]; ok && s <= l {
			return "C15-out-of-order", fmt.Sprintf("writer %d: message %d delivered after %d", w, s, l)
		}
		last[w] = s
		count++
	}
	if !withClose {
		total := 0
		for _, a := range accepted {
			total += len(a)
		}
		if count != total {
			return "C15-lost-while-open", fmt.Sprintf("%d messages accepted, %d delivered, connection never closed", total, count)
		}
	}
	return "", ""
}

// idle connection kept alive by pings (short WriteWait): data written long after the last ping must still arrive, both ways
func c15IdlePings() (string, string) {
	srv := ws.NewServer()
	var mu sync.Mutex
	var gotSrv, gotCli [][]byte
	srv.SetMessageHandler(func(c ws.Channel, data []byte) error {
		mu.Lock()
		gotSrv = append(gotSrv, append([]byte(nil), data...))
		mu.Unlock()
		return nil
	})
	stc := ws.NewServerTimeoutConfig()
	stc.WriteWait = 150 * time.Millisecond
	stc.PingWait = 0
	srv.SetTimeoutConfig(stc)
	go srv.Start(0, "/ws/{id}")
	for i := 0; i < 4000 && srv.Addr() == nil; i++ {
		time.Sleep(250 * time.Microsecond)
	}
	defer srv.Stop()
	cli := ws.NewClient()
	cli.SetRequestedSubProtocol("ocpp1.6")
	ctc := ws.NewClientTimeoutConfig()
	ctc.WriteWait = 150 * time.Millisecond
	ctc.PingPeriod = 400 * time.Millisecond
	ctc.PongWait = 2 * time.Second
	cli.SetTimeoutConfig(ctc)
	cli.SetMessageHandler(func(data []byte) error {
		mu.Lock()
		gotCli = append(gotCli, append([]byte(nil), data...))
		mu.Unlock()
		return nil
	})
	if err := cli.Start(fmt.Sprintf("ws://127.0.0.1:%d/ws/peer", srv.Addr().Port)); err != nil {
		return "C15-setup", err.Error()
	}
	defer cli.Stop()
	for _, at := range []time.Duration{50 * time.Millisecond, 700 * time.Millisecond, 1350 * time.Millisecond} {
		time.Sleep(at - 0)
		if err := cli.Write([]byte("c2s")); err != nil {
			return "C15-write-on-open-connection-failed", "client Write on a healthy idle connection: " + err.Error()
		}
		if err := srv.Write("peer", []byte("s2c")); err != nil {
			return "C15-write-on-open-connection-failed", "server Write on a healthy idle connection: " + err.Error()
		}
		time.Sleep(60 * time.Millisecond)
	}
	time.Sleep(100 * time.Millisecond)
	mu.Lock()
	defer mu.Unlock()
	if len(gotSrv) != 3 || len(gotCli) != 3 {
		return "C15-lost-while-open", fmt.Sprintf("idle connection with pings: %d of 3 client messages and %d of 3 server messages delivered", len(gotSrv), len(gotCli))
	}
	return "", ""
}

func c15cGen(cfg config, emit func(Case)) {
	{
		k, d := c15IdlePings()
		emit(Case{Class: "idle-with-pings", Input: []int64{0, 9}, Obs: []int64{-2}, Comment: "idle connection with pings",
			Check: func([]int64) (string, string) { return k, d }})
	}
	n := 80
	if cfg.thorough {
		n = 600
	}
	for i := 0; i < n; i++ {
		dir := i % 3
		writers := []int{1, 2, 4, 8}[i%4]
		withClose := i%2 == 1
		k, d := c15Concurrent(cfg.seed*100+int64(i), dir, writers, withClose)
		emit(Case{Class: fmt.Sprintf("concurrent-dir%d-w%d-close%v", dir, writers, withClose), Input: []int64{0}, Obs: []int64{-2},
			Comment: fmt.Sprintf("run %d", i), Check: func([]int64) (string, string) { return k, d }})
	}
}

func init() {
	properties["c15"] = []*Entry{{Name: "c15", Eval: c15Eval, Gen: c15Gen, Isolated: true, Workers: 3},
		{Name: "c15c", Eval: func(in []int64) []int64 { return nil }, Gen: c15cGen}}
}
