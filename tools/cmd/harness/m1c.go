package main

// M1 client side: the real ocpp1.6 ChargePoint / ocpp2.0.1 ChargingStation
// (on ocppj.Client + DefaultClientDispatcher + FIFOClientQueue + clientState)
// on an in-process ws.Client, driven by quiescent histories; compared with
// M1/Client.v (entry m1c).
//
//   input : [variant; cap; timeout; labels...]   labels as in Client.dec_labs
//   output: per label  -1, then Ret / writes / callbacks in canonical order; final  -2 ...

import (
	"encoding/json"
	"fmt"
	"math/rand"
	"sort"
	"strconv"
	"strings"
	"sync"
	"time"

	"github.com/lorenzodonini/ocpp-go/ocpp"
	ocpp16 "github.com/lorenzodonini/ocpp-go/ocpp1.6"
	core16 "github.com/lorenzodonini/ocpp-go/ocpp1.6/core"
	ocpp2 "github.com/lorenzodonini/ocpp-go/ocpp2.0.1"
	data2 "github.com/lorenzodonini/ocpp-go/ocpp2.0.1/data"
	"github.com/lorenzodonini/ocpp-go/ocppj"

	"verif/tools/internal/fakews"
	"verif/tools/internal/sched"
)

var idMu sync.Mutex
var nextMsgID string
var autoID int64

func installIDGen() {
	ocppj.SetMessageIdGenerator(func() string {
		idMu.Lock()
		defer idMu.Unlock()
		if nextMsgID != "" {
			id := nextMsgID
			nextMsgID = ""
			return id
		}
		autoID++
		return "auto" + strconv.FormatInt(autoID, 10)
	})
}

func setNextID(id string) { idMu.Lock(); nextMsgID = id; idMu.Unlock() }

type cbRec struct{ c, r, k int64 }

// conclusionOf maps what a callback received to (request id, kind).
func conclusionOf(conf ocpp.Response, err error) (int64, int64) {
	if conf != nil && err == nil {
		var d interface{}
		switch v := conf.(type) {
		case *core16.DataTransferConfirmation:
			d = v.Data
		case *data2.DataTransferResponse:
			d = v.Data
		}
		if s, ok := d.(string); ok {
			n, _ := strconv.ParseInt(s, 10, 64)
			return n, 0
		}
		return -5, 0
	}
	if oe, ok := err.(*ocpp.Error); ok {
		id, _ := strconv.ParseInt(oe.MessageId, 10, 64)
		switch {
		case oe.Code == ocppj.GenericError && strings.Contains(oe.Description, "timed out"):
			return id, 2
		case oe.Code == ocppj.InternalError:
			return id, 3
		case oe.Code == ocppj.GenericError && strings.Contains(oe.Description, "disconnected"):
			return id, 5
		case oe.Code == ocppj.GenericError && strings.Contains(oe.Description, "stopped"):
			return id, 4
		default:
			return id, 1
		}
	}
	return -6, 6
}

type clientSendAPI interface {
	SendRequestAsync(request ocpp.Request, callback func(confirmation ocpp.Response, err error)) error
	Start(url string) error
	Stop()
}

type m1cRun struct {
	variant int64
	fake    *fakews.Client
	disp    *ocppj.DefaultClientDispatcher
	ep      clientSendAPI
	mu      sync.Mutex
	cbs     []cbRec
	out     []int64
	started bool
	hung    bool
}

func newM1cRun(variant, capacity, timeoutMs int64) *m1cRun {
	installIDGen()
	r := &m1cRun{variant: variant, fake: fakews.NewClient()}
	r.disp = ocppj.NewDefaultClientDispatcher(ocppj.NewFIFOClientQueue(int(capacity)))
	if timeoutMs > 0 {
		r.disp.SetTimeout(time.Duration(timeoutMs) * time.Millisecond)
	} else {
		r.disp.SetTimeout(time.Hour)
	}
	if variant == 0 {
		c := ocppj.NewClient("cp1", r.fake, r.disp, nil, core16.Profile)
		r.ep = ocpp16.NewChargePoint("cp1", c, r.fake)
	} else {
		c := ocppj.NewClient("cs1", r.fake, r.disp, nil, data2.Profile)
		r.ep = ocpp2.NewChargingStation("cs1", c, r.fake)
	}
	return r
}

func (r *m1cRun) request(id int64, valid bool) ocpp.Request {
	vendor := "v" + strconv.FormatInt(id, 10)
	if !valid {
		vendor = ""
	}
	if r.variant == 0 {
		return core16.NewDataTransferRequest(vendor)
	}
	return data2.NewDataTransferRequest(vendor)
}

func callID(frame []byte) int64 {
	var arr []json.RawMessage
	if json.Unmarshal(frame, &arr) != nil || len(arr) < 2 {
		return -4
	}
	var id string
	if json.Unmarshal(arr[1], &id) != nil {
		return -4
	}
	n, err := strconv.ParseInt(id, 10, 64)
	if err != nil {
		return -4
	}
	return n
}

// flush appends what became observable since the last call, in canonical order.
func (r *m1cRun) flush(ret []int64) {
	r.out = append(r.out, -1)
	r.out = append(r.out, ret...)
	for _, w := range r.fake.TakeWritten() {
		r.out = append(r.out, 2, callID(w))
	}
	r.mu.Lock()
	cbs := r.cbs
	r.cbs = nil
	r.mu.Unlock()
	for _, c := range cbs {
		r.out = append(r.out, 3, c.c, c.r, c.k)
	}
}

// step executes one label on the implementation and waits for quiescence.
func (r *m1cRun) step(l []int64) {
	if r.hung {
		r.out = append(r.out, -1)
		return
	}
	var ret []int64
	returned := true
	switch l[0] {
	case 1: // Send r valid
		id, valid := l[1], l[2] != 0
		returned = sched.Call(func() {
			setNextID(strconv.FormatInt(id, 10))
			err := r.ep.SendRequestAsync(r.request(id, valid), func(conf ocpp.Response, err error) {
				rr, k := conclusionOf(conf, err)
				r.mu.Lock()
				r.cbs = append(r.cbs, cbRec{id, rr, k})
				r.mu.Unlock()
			})
			setNextID("")
			ret = []int64{1, id, b2i(err != nil)}
		})
	case 2: // Reply r k
		id := strconv.FormatInt(l[1], 10)
		var frame string
		if l[2] == 0 {
			frame = fmt.Sprintf(`[3,"%s",{"status":"Accepted","data":"%s"}]`, id, id)
		} else {
			frame = fmt.Sprintf(`[4,"%s","NotSupported","peer error",{}]`, id)
		}
		returned = sched.Call(func() { _ = r.fake.Inject([]byte(frame)) })
	case 3: // Expire
		if r.started {
			r.disp.VerifFireTimer()
			sched.Grace()
		}
	case 4: // Tick dt (ms, real time)
		time.Sleep(time.Duration(l[1]) * time.Millisecond)
	case 5:
		returned = sched.Call(func() { r.fake.Drop() })
	case 6:
		if r.started {
			returned = sched.Call(func() { r.fake.Reconnect() })
		}
	case 7:
		r.fake.FailWrite = l[1] != 0
	case 8:
		if r.started {
			returned = sched.Call(func() { r.ep.Stop() })
			r.started = false
		}
	case 9:
		if !r.started {
			returned = sched.Call(func() { _ = r.ep.Start("ws://fake") })
			r.started = true
		}
	case 16: // the dispatcher's public CompleteRequest called directly with some id
		returned = sched.Call(func() { r.disp.CompleteRequest(strconv.FormatInt(l[1], 10)) })
	}
	if !returned {
		r.hung = true
	}
	if !sched.Settle() {
		r.hung = true
	}
	r.flush(ret)
	if r.hung {
		r.out = append(r.out, 8)
	}
}

func (r *m1cRun) finish() []int64 {
	// final observables: only what the API exposes
	r.out = append(r.out, -2)
	return r.out
}

func m1cDecode(in []int64) (variant, capacity, timeout int64, labs [][]int64) {
	if len(in) < 3 {
		return 0, 0, 0, nil
	}
	variant, capacity, timeout = in[0], in[1], in[2]
	rest := in[3:]
	for len(rest) > 0 {
		n := 1
		switch rest[0] {
		case 1, 2:
			n = 3
		case 4, 7, 16:
			n = 2
		}
		if len(rest) < n {
			break
		}
		labs = append(labs, rest[:n])
		rest = rest[n:]
	}
	return
}

func m1cEval(in []int64) (out []int64) {
	variant, capacity, timeout, labs := m1cDecode(in)
	r := newM1cRun(variant, capacity, timeout)
	for _, l := range labs {
		r.step(l)
	}
	out = r.finish()
	if r.started && !r.hung {
		sched.Call(func() { r.ep.Stop() })
		sched.Settle()
	}
	return out
}

// model output has 7 trailing state fields after -2 that the API cannot show; cut them off
// on the model side instead: the harness prints only -2, the comparison is done on the prefix.

// m1cMonitor evaluates the property conclusions directly on what the implementation did
// (no model involved). Returns kind "" when everything holds.
func m1cMonitor(in []int64) func(obs []int64) (string, string) {
	return func(obs []int64) (string, string) {
		_, _, _, labs := m1cDecode(in)
		if len(obs) == 1 && obs[0] == -7 {
			return "C06-C16-panic", "a library goroutine panicked"
		}
		if len(obs) == 1 && obs[0] == -8 {
			return "C07-hang", "the history did not finish within the watchdog"
		}
		// split per event
		var segs [][]int64
		cur := []int64(nil)
		started := false
		for _, x := range obs {
			if x == -1 || x == -2 {
				if started {
					segs = append(segs, cur)
				}
				cur = nil
				started = true
				if x == -2 {
					break
				}
				continue
			}
			cur = append(cur, x)
		}
		if len(segs) != len(labs) {
			return "", ""
		}
		written := map[int64]bool{}
		concluded := map[int64]bool{}
		accepted := map[int64]bool{}
		rejected := map[int64]bool{}
		lastW := int64(0)
		outstanding := int64(0)
		paused := false
		stopped := true
		for i, seg := range segs {
			l := labs[i]
			outBefore := outstanding
			var ws, cbs [][]int64
			for j := 0; j < len(seg); {
				switch seg[j] {
				case 1:
					if seg[j+2] == 0 {
						accepted[seg[j+1]] = true
					} else {
						rejected[seg[j+1]] = true
					}
					j += 3
				case 2:
					ws = append(ws, seg[j:j+2])
					j += 2
				case 3:
					cbs = append(cbs, seg[j:j+4])
					j += 4
				case 8:
					return "C07-hang", fmt.Sprintf("event %d: an API call or callback did not return", i)
				default:
					j++
				}
			}
			switch l[0] {
			case 5:
				paused = true
			case 6, 9:
				paused = false
				if l[0] == 9 {
					stopped = false
				}
			case 8:
				stopped = true
				outstanding = 0
				for id := range accepted { // Stop discards what is queued, by design without conclusion
					if !concluded[id] {
						delete(accepted, id)
					}
				}
			}
			if (l[0] == 2 || l[0] == 16) && (l[1] != outBefore || l[0] == 16 && true) && len(ws)+len(cbs) > 0 && !(l[0] == 2 && l[1] == outBefore) {
				// a reply (or completion) that does not carry the outstanding id must be ignored
				return "C09-foreign-reply-effect", fmt.Sprintf("event %d: reply/completion with foreign id %d (outstanding %d) caused writes/callbacks", i, l[1], outBefore)
			}
			for _, w := range ws {
				id := w[1]
				if paused && l[0] != 6 && l[0] != 9 {
					return "C10-write-while-disconnected", fmt.Sprintf("event %d: CALL %d written while disconnected", i, id)
				}
				if written[id] {
					return "C02-written-twice", fmt.Sprintf("event %d: CALL %d written twice", i, id)
				}
				if !accepted[id] {
					return "C01-rejected-written", fmt.Sprintf("event %d: CALL %d written but never accepted", i, id)
				}
				if id < lastW {
					return "C02-order", fmt.Sprintf("event %d: CALL %d written after %d", i, id, lastW)
				}
				written[id], lastW = true, id
			}
			if len(ws) > len(cbs)+1 || (outstanding != 0 && len(ws) > len(cbs)) {
				return "C02-two-outstanding", fmt.Sprintf("event %d: %d writes but %d conclusions (outstanding before: %d)", i, len(ws), len(cbs), outstanding)
			}
			for _, c := range cbs {
				if c[1] != c[2] {
					return "C01-foreign-conclusion", fmt.Sprintf("event %d: callback of request %d received the conclusion of %d", i, c[1], c[2])
				}
				if concluded[c[1]] {
					return "C01-concluded-twice", fmt.Sprintf("event %d: request %d concluded twice", i, c[1])
				}
				if rejected[c[1]] {
					return "C01-rejected-concluded", fmt.Sprintf("event %d: callback of rejected request %d invoked", i, c[1])
				}
				if stopped {
					return "C16-callback-after-stop", fmt.Sprintf("event %d: callback of %d after Stop", i, c[1])
				}
				if !written[c[1]] {
					return "C01-concluded-unwritten", fmt.Sprintf("event %d: request %d concluded but never written", i, c[1])
				}
				concluded[c[1]] = true
				if outstanding == c[1] {
					outstanding = 0
				}
			}
			for _, w := range ws {
				if !concluded[w[1]] {
					outstanding = w[1]
				}
			}
			if l[0] == 2 && l[1] == outBefore && outBefore != 0 && !concluded[outBefore] {
				return "C01-C09-genuine-reply-dropped", fmt.Sprintf("event %d: the reply carrying the outstanding id %d was not delivered to its caller", i, outBefore)
			}
		}
		_ = 0
		// at the end (quiescent): an accepted, unconcluded request of a running, connected endpoint must be
		// outstanding or queued behind the outstanding one
		if !stopped && !paused {
			pendingN := 0
			for id := range accepted {
				if !concluded[id] {
					pendingN++
				}
			}
			if pendingN > 0 && outstanding == 0 {
				return "C01-C07-C10-stall", fmt.Sprintf("%d accepted request(s) neither concluded nor outstanding at the end of the history although the endpoint is connected", pendingN)
			}
		}
		return "", ""
	}
}

func m1cGen(cfg config, emit func(Case)) {
	rng := rand.New(rand.NewSource(cfg.seed*7919 + 11))
	corpus := [][]int64{
		// F4: Stop with a request outstanding, restart, next request must still be concluded by its reply
		{0, 0, 0, 9, 1, 1, 1, 8, 9, 1, 2, 1, 2, 2, 0},
		{1, 0, 0, 9, 1, 1, 1, 8, 9, 1, 2, 1, 2, 2, 0},
		// stop while disconnected, restart, send
		{0, 0, 0, 9, 5, 8, 9, 1, 1, 1, 2, 1, 0},
		// write failure chain
		{0, 3, 0, 9, 1, 1, 1, 1, 2, 1, 1, 3, 1, 7, 1, 2, 1, 0, 7, 0, 1, 4, 1, 2, 4, 1},
		// timeout while paused, then reconnect
		{0, 0, 0, 9, 1, 1, 1, 1, 2, 1, 5, 3, 6, 2, 2, 0},
		// full queue
		{0, 2, 0, 9, 1, 1, 1, 1, 2, 1, 1, 3, 1, 2, 1, 0, 1, 4, 1, 2, 2, 0, 2, 4, 1},
	}
	for _, c := range corpus {
		emit(Case{Class: "corpus", Input: c, Comment: "corpus", Check: m1cMonitor(c)})
	}
	n := cfg.n
	for i := 0; i < n; i++ {
		variant := int64(rng.Intn(2))
		capacity := []int64{0, 0, 1, 2, 3, 10}[rng.Intn(6)]
		in := []int64{variant, capacity, 0}
		length := 4 + rng.Intn(36)
		nextID := int64(1)
		started := false
		conn := false
		var issued []int64
		class := "mixed"
		style := rng.Intn(5)
		for j := 0; j < length; j++ {
			if !started {
				if rng.Intn(8) != 0 || j == 0 {
					in = append(in, 9)
					started, conn = true, true
				} else {
					in = append(in, 1, nextID, 1) // send while stopped: rejected
					issued = append(issued, nextID)
					nextID++
				}
				continue
			}
			p := rng.Intn(100)
			switch {
			case p < 34:
				valid := int64(1)
				if rng.Intn(12) == 0 {
					valid = 0
				}
				in = append(in, 1, nextID, valid)
				issued = append(issued, nextID)
				nextID++
			case p < 64:
				// reply: mostly to an issued request (often the oldest unanswered), sometimes foreign
				var id int64
				k := int64(rng.Intn(3) / 2)
				switch {
				case len(issued) == 0 || rng.Intn(10) == 0:
					id = 1000 + int64(rng.Intn(5))
				default:
					id = issued[rng.Intn(len(issued))]
					if rng.Intn(3) != 0 {
						id = issued[0]
						for _, x := range issued {
							if x > id-1 {
								break
							}
						}
					}
				}
				in = append(in, 2, id, k)
				if len(issued) > 0 && id == issued[0] {
					issued = issued[1:]
				}
			case p < 72:
				in = append(in, 3)
				if len(issued) > 0 && style != 4 {
					issued = issued[1:]
				}
			case p < 80:
				if conn {
					in = append(in, 5)
				} else {
					in = append(in, 6)
				}
				conn = !conn
			case p < 86:
				in = append(in, 7, int64(rng.Intn(2)))
			case p < 90 && style >= 3:
				in = append(in, 8)
				started, conn = false, false
				issued = nil
				class = "stopstart"
			case p < 94:
				// CompleteRequest for an id that is not the queue head (never used / queued further back)
				in = append(in, 16, 2000+int64(rng.Intn(3)))
			default:
				in = append(in, 2, int64(rng.Intn(int(nextID))+0), 0)
			}
		}
		emit(Case{Class: class, Input: in, Comment: "", Check: m1cMonitor(in)})
	}
}

// m1cFreshEval (C16, restart freshness): the part of the history after its last Stop-then-Start is run twice on the
// implementation -- on the restarted endpoint and on a fresh endpoint of the same kind, queue capacity, timeout and
// network condition -- and what the two show, event by event, is compared.  [2]: no restart in the history.
func m1cFreshEval(in []int64) []int64 {
	variant, capacity, timeout, labs := m1cDecode(in)
	cut := -1
	for i := 0; i+1 < len(labs); i++ {
		if labs[i][0] == 8 && labs[i+1][0] == 9 {
			cut = i + 2
		}
	}
	if cut < 0 {
		return []int64{2}
	}
	failw := int64(0)
	for _, l := range labs[:cut] {
		if l[0] == 7 {
			failw = l[1]
		}
	}
	run := func(pre, suf [][]int64) []int64 {
		r := newM1cRun(variant, capacity, timeout)
		for _, l := range pre {
			r.step(l)
		}
		mark := len(r.out)
		for _, l := range suf {
			r.step(l)
		}
		out := append([]int64(nil), r.finish()[mark:]...)
		if r.started && !r.hung {
			sched.Call(func() { r.ep.Stop() })
			sched.Settle()
		}
		return out
	}
	a := run(labs[:cut], labs[cut:])
	b := run([][]int64{{7, failw}, {9}}, labs[cut:])
	if len(a) != len(b) {
		return []int64{0}
	}
	for i := range a {
		if a[i] != b[i] {
			return []int64{0}
		}
	}
	return []int64{1}
}

func m1cFreshGen(cfg config, emit func(Case)) {
	m1cGen(cfg, func(c Case) {
		_, _, _, labs := m1cDecode(c.Input)
		for i := 0; i+1 < len(labs); i++ {
			if labs[i][0] == 8 && labs[i+1][0] == 9 {
				emit(Case{Class: "restart", Input: c.Input, Comment: c.Comment, Check: func(obs []int64) (string, string) {
					if len(obs) == 1 && obs[0] == 0 {
						return "C16-restart-not-fresh", "after Stop and Start the endpoint does not behave like a fresh one on the rest of this history"
					}
					if len(obs) == 1 && obs[0] == -7 {
						return "C16-panic", "a library goroutine panicked"
					}
					return "", ""
				}})
				return
			}
		}
	})
}

func init() {
	properties["m1c"] = []*Entry{{Name: "m1c", Eval: m1cEval, Gen: m1cGen, Isolated: true},
		{Name: "m1c_fresh", Eval: m1cFreshEval, Gen: m1cFreshGen, Isolated: true},
		// the same histories, asked of the model only: is the executed schedule in class S0 and does it end quiescent?
		{Name: "m1c_h", Eval: func(in []int64) []int64 { return []int64{1, 1} }, Gen: m1cGen}}
	_ = sort.Ints
}
