package main

// C05: messages are accepted exactly when they satisfy the field constraints.
//   c05v: [schema index; value] the real validator (Validate.Struct on Call / CallResult) vs M2/Validator.v: list of failing rule tags
//   c05e: [schema index; v2; value sent; value decoded] the real send API of the sending role and the real receive path of the
//         receiving role vs the model: send error / written / handler invoked or CALL_ERROR code
// Cases: for every request and response type a valid base payload and every single edit of every constrained leaf.

import (
	"math/rand"
	"encoding/json"
	"fmt"
	"reflect"
	"sort"
	"strconv"
	"strings"

	"github.com/lorenzodonini/ocpp-go/ocpp"
	"github.com/lorenzodonini/ocpp-go/ocppj"
	"gopkg.in/go-playground/validator.v9"

	"verif/tools/internal/cw"
	"verif/tools/internal/profiles"
	"verif/tools/internal/sched"
	"verif/tools/internal/stubs"
)

type msgType struct {
	idx     int64
	version string
	feature string
	isReq   bool
	t       reflect.Type
}

func allMsgTypes() []msgType {
	var out []msgType
	idx := int64(0)
	for vi, ps := range [][]*ocpp.Profile{profiles.V16(), profiles.V201()} {
		ver := "16"
		if vi == 1 {
			ver = "201"
		}
		for _, p := range ps {
			var fn []string
			for n := range p.Features {
				fn = append(fn, n)
			}
			sort.Strings(fn)
			for _, n := range fn {
				f := p.Features[n]
				out = append(out, msgType{idx, ver, n, true, f.GetRequestType()})
				out = append(out, msgType{idx + 1, ver, n, false, f.GetResponseType()})
				idx += 2
			}
		}
	}
	return out
}

func failTags(err error) []string {
	var tags []string
	if ve, ok := err.(validator.ValidationErrors); ok {
		for _, fe := range ve {
			tags = append(tags, fe.ActualTag())
		}
	} else if err != nil {
		tags = append(tags, "<"+err.Error()+">")
	}
	return tags
}

func encTags(tags []string) []int64 {
	out := []int64{int64(len(tags))}
	for _, t := range tags {
		out = append(out, cw.LP([]byte(t))...)
	}
	return out
}

func validateMsg(m msgType, v reflect.Value) error {
	if m.isReq {
		return ocppj.Validate.Struct(ocppj.Call{MessageTypeId: ocppj.CALL, UniqueId: "1", Action: m.feature, Payload: v.Interface().(ocpp.Request)})
	}
	return ocppj.Validate.Struct(ocppj.CallResult{MessageTypeId: ocppj.CALL_RESULT, UniqueId: "1", Payload: v.Interface().(ocpp.Response)})
}

func c05vGen(cfg config, emit func(Case)) {
	modes := []int{1, 0}
	seeds := []int64{cfg.seed}
	if cfg.thorough {
		modes = []int{1, 0, 2}
		seeds = []int64{cfg.seed, cfg.seed + 1, cfg.seed + 2}
	}
	for _, m := range allMsgTypes() {
		for _, seed := range seeds {
			for _, mode := range modes {
				for _, e := range stubs.EnumerateEdits(m.t, seed*131+m.idx, mode) {
					in := append([]int64{m.idx}, stubs.EncodeVal(e.Val.Elem())...)
					obs := encTags(failTags(validateMsg(m, e.Val)))
					emit(Case{Class: "validator/" + strings.SplitN(e.Edit, "=", 2)[0], Input: in, Obs: obs,
						Comment: fmt.Sprintf("%s/%s req=%v %s %s", m.version, m.feature, m.isReq, e.Path, e.Edit)})
				}
			}
		}
	}
}

// ---- endpoint level ----

func c05eRun(m msgType, v reflect.Value) (obs []int64, decoded reflect.Value, ok bool) {
	rolesInit()
	sendRole := int64(-1)
	req := v.Interface().(ocpp.Request)
	// which role sends this feature?
	lo, hi := int64(0), int64(1)
	if m.version == "201" {
		lo, hi = 2, 3
	}
	// the receiver is a role whose public handler interfaces have a method taking this request type
	pp := m.t.PkgPath()
	rel := pp[strings.Index(pp, "ocpp-go/")+8:]
	key := "p" + strings.NewReplacer("/", "_", ".", "").Replace(rel) + "." + m.t.Name()
	for r := lo; r <= hi; r++ {
		if _, ok := stubs.HandlerSetter(int(r))[key]; ok && sendRole < 0 {
			sendRole = r ^ 1
		}
	}
	if sendRole < 0 {
		return nil, reflect.Value{}, false
	}
	recvRole := sendRole ^ 1
	id := "e" + strconv.FormatInt(nextE, 10)
	nextE++
	// --- send side
	takeWritten := func(role int64) [][]byte {
		switch role {
		case 0:
			return roleFakeC16.TakeWritten()
		case 2:
			return roleFakeC201.TakeWritten()
		case 1:
			var o [][]byte
			for _, f := range roleFakeS16.TakeWritten() {
				o = append(o, f.Data)
			}
			return o
		}
		var o [][]byte
		for _, f := range roleFakeS201.TakeWritten() {
			o = append(o, f.Data)
		}
		return o
	}
	inject := func(role int64, b []byte) {
		switch role {
		case 0:
			_ = roleFakeC16.Inject(b)
		case 2:
			_ = roleFakeC201.Inject(b)
		case 1:
			_ = roleFakeS16.Inject("c1", b)
		default:
			_ = roleFakeS201.Inject("c1", b)
		}
	}
	takeWritten(sendRole)
	setNextID(id)
	var err error
	cb := func(ocpp.Response, error) {}
	switch sendRole {
	case 0:
		err = roleCP16.SendRequestAsync(req, cb)
	case 1:
		err = roleCS16.SendRequestAsync("c1", req, cb)
	case 2:
		err = roleCS201.SendRequestAsync(req, cb)
	default:
		err = roleCSMS201.SendRequestAsync("c1", req, cb)
	}
	setNextID("")
	sched.Settle()
	w := takeWritten(sendRole)
	obs = []int64{b2i(err != nil), b2i(len(w) > 0)}
	if err == nil {
		// conclude the outstanding request so that the sender is idle again
		inject(sendRole, []byte(fmt.Sprintf(`[4,"%s","InternalError","",{}]`, id)))
		sched.Settle()
		takeWritten(sendRole)
	}
	// --- receive side: the same payload arrives as a CALL at the opposite role
	payload, _ := json.Marshal(req)
	dec := reflect.New(m.t)
	if json.Unmarshal(payload, dec.Interface()) != nil {
		return nil, reflect.Value{}, false
	}
	roleRec.Take()
	takeWritten(recvRole)
	inject(recvRole, []byte(fmt.Sprintf(`[2,"%s","%s",%s]`, id+"r", m.feature, payload)))
	sched.Settle()
	frames := takeWritten(recvRole)
	calls := roleRec.Take()
	if len(frames) != 1 {
		obs = append(obs, -int64(len(frames)), 0)
	} else {
		var arr []json.RawMessage
		_ = json.Unmarshal(frames[0], &arr)
		var typ int64
		var rid, code string
		if len(arr) >= 3 {
			_ = json.Unmarshal(arr[0], &typ)
			_ = json.Unmarshal(arr[1], &rid)
			_ = json.Unmarshal(arr[2], &code)
		}
		if rid != id+"r" {
			typ = -typ
		}
		if typ == 3 {
			if len(calls) == 1 {
				obs = append(obs, 3, 0)
			} else {
				obs = append(obs, 3, int64(100+len(calls)))
			}
		} else {
			if len(calls) != 0 {
				obs = append(obs, -44)
			}
			obs = append(obs, typ)
			obs = append(obs, cw.LP([]byte(code))...)
		}
	}
	return obs, dec, true
}

var nextE int64

func c05eGen(cfg config, emit func(Case)) {
	for _, m := range allMsgTypes() {
		if !m.isReq {
			continue
		}
		modes := []int{1}
		if cfg.thorough {
			modes = []int{1, 0, 2}
		}
		for _, mode := range modes {
			for _, e := range stubs.EnumerateEdits(m.t, cfg.seed*77+m.idx, mode) {
				obs, dec, ok := c05eRun(m, e.Val)
				if !ok {
					continue
				}
				in := []int64{m.idx, b2i(m.version == "201")}
				in = append(in, stubs.EncodeVal(e.Val.Elem())...)
				in = append(in, stubs.EncodeVal(dec.Elem())...)
				valid := validateMsg(m, e.Val) == nil
				emit(Case{Class: "endpoint/" + strings.SplitN(e.Edit, "=", 2)[0], Input: in, Obs: obs,
					Comment: fmt.Sprintf("%s/%s %s %s", m.version, m.feature, e.Path, e.Edit), Check: c05eMonitor(valid)})
			}
		}
	}
}

// the property on the observation alone: a payload the validator rejects is never written by the send API
func c05eMonitor(valid bool) func(obs []int64) (string, string) {
	return func(obs []int64) (string, string) {
		if len(obs) < 2 {
			return "", ""
		}
		if obs[0] == 1 && obs[1] == 1 {
			return "C05-error-but-written", "the send API returned an error and still wrote the CALL"
		}
		if obs[0] == 0 && obs[1] == 0 {
			return "C05-accepted-not-written", "the send API accepted the request but nothing was written"
		}
		if !valid && obs[1] == 1 {
			return "C05-violating-payload-sent", "a payload the validator rejects was put on the wire"
		}
		for _, x := range obs {
			if x == -44 {
				return "C05-violating-call-reached-handler", "a CALL answered with CALL_ERROR also reached the application handler"
			}
		}
		return "", ""
	}
}

// the same cases against the committed constraint table: only acceptance is compared for the validator entry
func c05vsGen(cfg config, emit func(Case)) {
	c05vGen(cfg, func(c Case) {
		c.Obs = []int64{b2i(len(c.Obs) == 1 && c.Obs[0] == 0)}
		emit(c)
	})
}

var c05eCache []Case

func c05eGenCached(cfg config, emit func(Case)) {
	c05eCache = nil
	c05eGen(cfg, func(c Case) {
		c05eCache = append(c05eCache, c)
		emit(c)
	})
}

func c05esGen(cfg config, emit func(Case)) {
	for _, c := range c05eCache {
		c.Check = nil
		emit(c)
	}
}

// type-confused payloads on the receive path of the receiving role
func c05tGen(cfg config, emit func(Case)) {
	rolesInit()
	for _, m := range allMsgTypes() {
		if !m.isReq {
			continue
		}
		v, ok := stubs.ValidValueMode(m.t, rand.New(rand.NewSource(cfg.seed+m.idx)), 1)
		if !ok {
			continue
		}
		good, _ := json.Marshal(v.Interface())
		var obj map[string]json.RawMessage
		_ = json.Unmarshal(good, &obj)
		var keys []string
		for k := range obj {
			keys = append(keys, k)
		}
		sort.Strings(keys)
		payloads := []string{"42", `"text"`, "[1,2]"}
		anyField := map[string]bool{}
		for i := 0; i < m.t.NumField(); i++ {
			f := m.t.Field(i)
			if f.Type.Kind() == reflect.Interface {
				anyField[strings.Split(f.Tag.Get("json"), ",")[0]] = true
			}
		}
		for _, k := range keys {
			if anyField[k] {
				continue // interface{} fields accept every JSON type
			}
			raw := strings.TrimSpace(string(obj[k]))
			var repl string
			switch {
			case strings.HasPrefix(raw, `"`):
				repl = "12345"
			case strings.HasPrefix(raw, "{"), strings.HasPrefix(raw, "["):
				repl = `"confused"`
			case raw == "true" || raw == "false":
				repl = `"yes"`
			default:
				repl = `"7"`
			}
			o2 := map[string]json.RawMessage{}
			for kk, vv := range obj {
				o2[kk] = vv
			}
			o2[k] = json.RawMessage(repl)
			b, _ := json.Marshal(o2)
			payloads = append(payloads, string(b))
		}
		// receiver role
		pp := m.t.PkgPath()
		rel := pp[strings.Index(pp, "ocpp-go/")+8:]
		key := "p" + strings.NewReplacer("/", "_", ".", "").Replace(rel) + "." + m.t.Name()
		lo, hi := int64(0), int64(1)
		if m.version == "201" {
			lo, hi = 2, 3
		}
		recv := int64(-1)
		for r := lo; r <= hi; r++ {
			if _, ok := stubs.HandlerSetter(int(r))[key]; ok && recv < 0 {
				recv = r
			}
		}
		if recv < 0 {
			continue
		}
		for pi, pl := range payloads {
			id := "t" + strconv.FormatInt(nextE, 10)
			nextE++
			frames, calls := c05Inject(recv, fmt.Sprintf(`[2,"%s","%s",%s]`, id, m.feature, pl))
			obs := []int64{-int64(len(frames))}
			if len(frames) == 1 {
				var arr []json.RawMessage
				_ = json.Unmarshal(frames[0], &arr)
				var typ int64
				var rid, code string
				if len(arr) >= 3 {
					_ = json.Unmarshal(arr[0], &typ)
					_ = json.Unmarshal(arr[1], &rid)
					_ = json.Unmarshal(arr[2], &code)
				}
				if rid != id {
					typ = -typ
				}
				obs = append([]int64{typ}, cw.LP([]byte(code))...)
			}
			if calls != 0 {
				obs = append(obs, -44)
			}
			emit(Case{Class: "json-type", Input: []int64{b2i(m.version == "201"), m.idx, int64(pi)}, Obs: obs,
				Comment: fmt.Sprintf("%s/%s payload %s", m.version, m.feature, pl)})
		}
	}
}

// injectPanicked is set when the message handler panicked on the last injected frame.
var injectPanicked string

func c05Inject(role int64, frame string) (frames [][]byte, calls int) {
	injectPanicked = ""
	defer func() {
		if r := recover(); r != nil {
			injectPanicked = fmt.Sprint(r)
			frames, calls = nil, 0
		}
	}()
	return c05InjectRaw(role, frame)
}

func c05InjectRaw(role int64, frame string) ([][]byte, int) {
	take := func() [][]byte {
		switch role {
		case 0:
			return roleFakeC16.TakeWritten()
		case 2:
			return roleFakeC201.TakeWritten()
		case 1:
			var o [][]byte
			for _, f := range roleFakeS16.TakeWritten() {
				o = append(o, f.Data)
			}
			return o
		}
		var o [][]byte
		for _, f := range roleFakeS201.TakeWritten() {
			o = append(o, f.Data)
		}
		return o
	}
	take()
	roleRec.Take()
	switch role {
	case 0:
		_ = roleFakeC16.Inject([]byte(frame))
	case 2:
		_ = roleFakeC201.Inject([]byte(frame))
	case 1:
		_ = roleFakeS16.Inject("c1", []byte(frame))
	default:
		_ = roleFakeS201.Inject("c1", []byte(frame))
	}
	sched.Settle()
	return take(), len(roleRec.Take())
}

func init() {
	none := func(in []int64) []int64 { return []int64{-1} }
	properties["c05"] = []*Entry{
		{Name: "c05v", Eval: none, Gen: c05vGen},
		{Name: "c05vs", Eval: none, Gen: c05vsGen},
		{Name: "c05e", Eval: none, Gen: c05eGenCached},
		{Name: "c05es", Eval: none, Gen: c05esGen},
		{Name: "c05t", Eval: none, Gen: c05tGen},
	}
}
