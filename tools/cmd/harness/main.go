// harness drives the real lorenzodonini/ocpp-go implementation (built from the
// current /repo working tree through the module replace directive) on
// generated cases and writes, per property, the inputs (for the extracted Coq
// model), what the implementation did, and the failures of the property
// monitors that need no model.
package main

import (
	"encoding/json"
	"flag"
	"fmt"
	"os"
	"path/filepath"
	"strconv"
	"strings"

	"verif/tools/internal/cw"
	"verif/tools/internal/sched"
)

type config struct {
	prop     string
	seed     int64
	n        int
	outDir   string
	thorough bool
	replay   string
	slow     int
}

type monitor struct {
	f     *os.File
	path  string
	name  string
	dir   string
	fails int
}

func newMonitor(dir, name string) *monitor {
	_ = os.MkdirAll(dir, 0o755)
	p := filepath.Join(dir, name+".monitor.jsonl")
	f, err := os.Create(p)
	if err != nil {
		panic(err)
	}
	return &monitor{f: f, path: p, name: name, dir: dir}
}

// FailE records a property-monitor failure observed on the implementation.
func (m *monitor) FailE(entry, kind string, input, observed []int64, detail string) {
	m.fails++
	b, _ := json.Marshal(map[string]interface{}{"entry": entry, "kind": kind, "input": input, "observed": observed, "detail": detail})
	m.f.Write(append(b, '\n'))
}

// Info records a non-failure note (known-finding reproductions etc).
func (m *monitor) Info(kind string, detail interface{}) {
	b, _ := json.Marshal(map[string]interface{}{"kind": kind, "info": true, "detail": detail})
	m.f.Write(append(b, '\n'))
}

// Case is one generated input together with an optional by-construction
// check of what the implementation did (a property monitor that needs no model).
type Case struct {
	Class   string
	Input   []int64
	Comment string
	Obs     []int64                                 // when set, the implementation was already run by the generator
	Check   func(obs []int64) (kind, detail string) // kind == "" means fine
}

// Entry ties one model entry point (same name in ocaml/entries.ml) to the code
// that runs the same encoded input on the implementation.
type Entry struct {
	Name string
	Eval func(in []int64) []int64
	Gen  func(cfg config, emit func(Case))
	// Isolated entries are evaluated in worker sub-processes: a panic in a library
	// goroutine (which would take the whole process down) is then just the outcome [-7]
	// of that case, and cases run in parallel.
	Isolated bool
	Workers  int
}

var properties = map[string][]*Entry{}

func runEntries(cfg config, prop string, entries []*Entry) {
	mon := newMonitor(cfg.outDir, prop)
	total := 0
	hist := map[string]int{}
	for _, e := range entries {
		w := cw.New(cfg.outDir, e.Name)
		record := func(c Case, obs []int64) {
			w.Add(c.Class, c.Input, obs, c.Comment)
			if c.Check != nil {
				if kind, detail := c.Check(obs); kind != "" {
					mon.FailE(e.Name, kind, c.Input, obs, detail)
				}
			}
		}
		if e.Isolated {
			var cases []Case
			e.Gen(cfg, func(c Case) { cases = append(cases, c) })
			outs := evalIsolated(prop, e, cases, cfg)
			for i, c := range cases {
				record(c, outs[i])
			}
		} else {
			e.Gen(cfg, func(c Case) {
				obs := c.Obs
				if obs == nil {
					obs = e.Eval(c.Input)
				}
				record(c, obs)
			})
		}
		w.Close()
		total += w.N
		for k, v := range w.Hist {
			hist[e.Name+"/"+k] += v
		}
	}
	mon.f.Close()
	sum := map[string]interface{}{"monitor_failures": mon.fails, "cases": total, "distribution": hist}
	b, _ := json.MarshalIndent(sum, "", " ")
	_ = os.WriteFile(filepath.Join(cfg.outDir, prop+".summary.json"), b, 0o644)
}

// replayEntries re-runs the inputs of a cases file ("entry: ints # comment" per line).
func replayEntries(cfg config, entries []*Entry) {
	data, err := os.ReadFile(cfg.replay)
	if err != nil {
		fmt.Fprintln(os.Stderr, err)
		os.Exit(2)
	}
	for _, line := range strings.Split(string(data), "\n") {
		if i := strings.IndexByte(line, '#'); i >= 0 {
			line = line[:i]
		}
		line = strings.TrimSpace(line)
		if line == "" {
			continue
		}
		name := entries[0].Name
		if i := strings.IndexByte(line, ':'); i >= 0 {
			name, line = strings.TrimSpace(line[:i]), line[i+1:]
		}
		var in []int64
		for _, t := range strings.Fields(line) {
			v, _ := strconv.ParseInt(t, 10, 64)
			in = append(in, v)
		}
		for _, e := range entries {
			if e.Name == name {
				if e.Isolated {
					fmt.Println(intsToString(evalIsolated(cfg.prop, e, []Case{{Input: in}}, cfg)[0]))
				} else {
					fmt.Println(intsToString(e.Eval(in)))
				}
			}
		}
	}
}

func intsToString(xs []int64) string {
	parts := make([]string, len(xs))
	for i, x := range xs {
		parts[i] = strconv.FormatInt(x, 10)
	}
	return strings.Join(parts, " ")
}

func main() {
	if len(os.Args) < 2 {
		fmt.Fprintln(os.Stderr, "usage: harness <property> [-seed N] [-n N] [-out DIR] [-thorough] [-replay FILE]")
		os.Exit(2)
	}
	name := os.Args[1]
	// composite harnesses (built here: init order of the files is alphabetical)
	properties["m1"] = append(append([]*Entry{}, properties["m1c"]...), properties["m1s"]...) // shared by C01 C02 C07 C09 C10 C11 C16
	properties["c08"] = append(append([]*Entry{}, properties["c08rt"]...), properties["m1"]...)
	properties["c11"] = append(append([]*Entry{}, properties["c11rt"]...), properties["m1"]...)
	fs := flag.NewFlagSet(name, flag.ExitOnError)
	var cfg config
	fs.Int64Var(&cfg.seed, "seed", 1, "PRNG seed")
	fs.IntVar(&cfg.n, "n", 300, "number of generated cases per generator")
	fs.StringVar(&cfg.outDir, "out", "build/run", "output directory")
	fs.BoolVar(&cfg.thorough, "thorough", false, "thorough tier")
	fs.StringVar(&cfg.replay, "replay", "", "replay file")
	fs.IntVar(&cfg.slow, "slow", 1, "multiply every grace period (re-check of a disagreement)")
	_ = fs.Parse(os.Args[2:])
	sched.Slow = cfg.slow
	if name == "__worker" {
		workerMain(os.Args[2:])
		return
	}
	cfg.prop = name
	entries, ok := properties[name]
	if !ok {
		fmt.Fprintln(os.Stderr, "unknown property harness:", name)
		os.Exit(2)
	}
	if cfg.replay != "" {
		replayEntries(cfg, entries)
		return
	}
	runEntries(cfg, name, entries)
}
