package main

// C13: one live websocket per client id; lifecycle callbacks exactly once (entry c13).
// Real ws.NewServer() on loopback, raw gorilla clients; sequences of connect / duplicate connect / client close /
// abrupt TCP drop / StopConnection / write over three ids, compared with M3/Registry.v; plus concurrent bursts
// evaluated by a monitor (exactly one winner per id, callback counts, reported ids = live connections).

import (
	"fmt"
	"math/rand"
	"net"
	"sort"
	"strings"
	"sync"
	"time"

	"github.com/gorilla/websocket"
	"github.com/lorenzodonini/ocpp-go/ws"

	"verif/tools/internal/sched"
)

type c13Srv struct {
	srv   ws.Server
	port  int
	mu    sync.Mutex
	ev    [][]int64 // {1,id} connected {2,id} disconnected
	conns map[int64]*websocket.Conn
}

func idNum(s string) int64 {
	var n int64
	fmt.Sscanf(s, "id%d", &n)
	return n
}

func startC13() *c13Srv {
	s := &c13Srv{srv: ws.NewServer(), conns: map[int64]*websocket.Conn{}}
	s.srv.SetNewClientHandler(func(c ws.Channel) {
		s.mu.Lock()
		s.ev = append(s.ev, []int64{1, idNum(c.ID())})
		s.mu.Unlock()
	})
	s.srv.SetDisconnectedClientHandler(func(c ws.Channel) {
		s.mu.Lock()
		s.ev = append(s.ev, []int64{2, idNum(c.ID())})
		s.mu.Unlock()
	})
	s.srv.SetMessageHandler(func(c ws.Channel, data []byte) error { return nil })
	go s.srv.Start(0, "/ws/{id}")
	for i := 0; i < 4000 && s.srv.Addr() == nil; i++ {
		time.Sleep(250 * time.Microsecond)
	}
	if a := s.srv.Addr(); a != nil {
		s.port = a.Port
	}
	return s
}

func (s *c13Srv) settle() {
	for i := 0; i < 3; i++ {
		time.Sleep(time.Duration(sched.Slow) * 1500 * time.Microsecond)
		sched.Settle()
	}
}

// connect: 0 accepted, 4 refused with 1008, other codes otherwise
func (s *c13Srv) connect(id int64) (int64, *websocket.Conn) {
	d := websocket.Dialer{HandshakeTimeout: 3 * time.Second, Subprotocols: []string{"ocpp1.6"}}
	c, _, err := d.Dial(fmt.Sprintf("ws://127.0.0.1:%d/ws/id%d", s.port, id), nil)
	if err != nil {
		return 9, nil
	}
	_ = c.SetReadDeadline(time.Now().Add(time.Duration(sched.Slow) * 60 * time.Millisecond))
	_, _, rerr := c.ReadMessage()
	if ce, ok := rerr.(*websocket.CloseError); ok {
		_ = c.Close()
		if ce.Code == websocket.ClosePolicyViolation {
			return 4, nil
		}
		return 8, nil
	}
	_ = c.SetReadDeadline(time.Time{})
	return 0, c
}

func (s *c13Srv) take() [][]int64 {
	s.mu.Lock()
	defer s.mu.Unlock()
	e := s.ev
	s.ev = nil
	return e
}

func c13Run(labs [][]int64) []int64 {
	s := startC13()
	defer func() {
		for _, c := range s.conns {
			_ = c.Close()
		}
		s.srv.Stop()
	}()
	var out []int64
	stopped := false
	for _, l := range labs {
		var rows [][]int64
		switch l[0] {
		case 1: // connect
			if stopped {
				break
			}
			code, c := s.connect(l[1])
			if code == 0 {
				if old, ok := s.conns[l[1]]; ok {
					_ = old // cannot happen when the server refuses duplicates
				}
				s.conns[l[1]] = c
			} else if code == 4 {
				rows = append(rows, []int64{3, l[1]})
			} else {
				rows = append(rows, []int64{-9, code})
			}
		case 2: // client closes with a close frame
			if c, ok := s.conns[l[1]]; ok {
				_ = c.WriteControl(websocket.CloseMessage, websocket.FormatCloseMessage(websocket.CloseNormalClosure, ""), time.Now().Add(time.Second))
				time.Sleep(2 * time.Millisecond)
				_ = c.Close()
				delete(s.conns, l[1])
			}
		case 3: // abrupt TCP drop (RST)
			if c, ok := s.conns[l[1]]; ok {
				if tc, ok := c.UnderlyingConn().(*net.TCPConn); ok {
					_ = tc.SetLinger(0)
				}
				_ = c.Close()
				delete(s.conns, l[1])
			}
		case 4: // server-side StopConnection
			_ = s.srv.StopConnection(fmt.Sprintf("id%d", l[1]), websocket.CloseError{Code: websocket.CloseNormalClosure})
			if c, ok := s.conns[l[1]]; ok {
				_ = c.SetReadDeadline(time.Now().Add(200 * time.Millisecond))
				_, _, _ = c.ReadMessage()
				_ = c.Close()
				delete(s.conns, l[1])
			}
		case 5: // server write
			err := s.srv.Write(fmt.Sprintf("id%d", l[1]), []byte("ping"))
			rows = append(rows, []int64{4, l[1], b2i(err == nil)})
		case 6:
			if !stopped {
				s.srv.Stop()
				stopped = true
				for id, c := range s.conns {
					_ = c.SetReadDeadline(time.Now().Add(200 * time.Millisecond))
					_, _, _ = c.ReadMessage()
					_ = c.Close()
					delete(s.conns, id)
				}
			}
		}
		s.settle()
		rows = append(rows, s.take()...)
		sortRows(rows)
		out = append(out, -1)
		for _, r := range rows {
			out = append(out, r...)
		}
		for id := 1; id <= 3; id++ {
			_, ok := s.srv.GetChannel(fmt.Sprintf("id%d", id))
			out = append(out, b2i(ok))
		}
	}
	return append(out, -2)
}

func c13Decode(in []int64) [][]int64 {
	var labs [][]int64
	for len(in) > 0 {
		n := 2
		if in[0] == 6 {
			n = 1
		}
		if len(in) < n {
			break
		}
		labs = append(labs, in[:n])
		in = in[n:]
	}
	return labs
}

func c13Eval(in []int64) []int64 { return c13Run(c13Decode(in)) }

// burst: concurrent connects on few ids, then ends; monitor only
func c13Burst(seed int64) (string, string) {
	rng := rand.New(rand.NewSource(seed))
	s := startC13()
	defer s.srv.Stop()
	type res struct {
		id   int64
		code int64
		c    *websocket.Conn
	}
	var wg sync.WaitGroup
	results := make(chan res, 64)
	n := 4 + rng.Intn(8)
	for i := 0; i < n; i++ {
		id := int64(1 + rng.Intn(2))
		wg.Add(1)
		go func() {
			defer wg.Done()
			code, c := s.connect(id)
			results <- res{id, code, c}
		}()
	}
	wg.Wait()
	close(results)
	winners := map[int64]int{}
	var open []*websocket.Conn
	for r := range results {
		if r.code == 0 {
			winners[r.id]++
			open = append(open, r.c)
		} else if r.code != 4 {
			return "C13-burst-handshake", fmt.Sprintf("unexpected handshake outcome %d", r.code)
		}
	}
	s.settle()
	ev := s.take()
	connected := map[int64]int{}
	for _, e := range ev {
		if e[0] == 1 {
			connected[e[1]]++
		}
	}
	var ids []int64
	for id := range winners {
		ids = append(ids, id)
	}
	sort.Slice(ids, func(i, j int) bool { return ids[i] < ids[j] })
	for _, id := range ids {
		if winners[id] != 1 {
			return "C13-two-live-connections", fmt.Sprintf("%d concurrent connects with id %d were accepted", winners[id], id)
		}
		if connected[id] != 1 {
			return "C13-connected-callback-count", fmt.Sprintf("id %d: %d new-client callbacks for one accepted connection", id, connected[id])
		}
	}
	for _, c := range open {
		_ = c.Close()
	}
	s.settle()
	time.Sleep(5 * time.Millisecond)
	s.settle()
	disc := map[int64]int{}
	for _, e := range s.take() {
		if e[0] == 2 {
			disc[e[1]]++
		}
	}
	for _, id := range ids {
		if disc[id] != 1 {
			return "C13-disconnected-callback-count", fmt.Sprintf("id %d: %d disconnected callbacks after its connection ended", id, disc[id])
		}
		if _, ok := s.srv.GetChannel(fmt.Sprintf("id%d", id)); ok {
			return "C13-reported-but-dead", fmt.Sprintf("id %d still reported as connected after its connection ended", id)
		}
	}
	return "", ""
}

// synchronised burst: 12 handshakes presenting the same id reach the server at the same instant: each HTTP upgrade
// request is sent over its own open TCP connection except for its last two bytes, which are then written on all
// connections back to back, so that the server's per-connection routines wake up together.  Several rounds with a
// fresh id each: exactly one handshake is accepted and reported; monitor only.
func c13SyncBurst(rounds int) (string, string) {
	s := startC13()
	defer s.srv.Stop()
	for round := 0; round < rounds; round++ {
		id := int64(100 + round)
		const k = 12
		req := fmt.Sprintf("GET /ws/id%d HTTP/1.1\r\nHost: 127.0.0.1:%d\r\nUpgrade: websocket\r\nConnection: Upgrade\r\n"+
			"Sec-WebSocket-Key: dGhlIHNhbXBsZSBub25jZQ==\r\nSec-WebSocket-Version: 13\r\nSec-WebSocket-Protocol: ocpp1.6\r\n\r\n", id, s.port)
		ncs := make([]net.Conn, 0, k)
		for i := 0; i < k; i++ {
			nc, err := net.DialTimeout("tcp", fmt.Sprintf("127.0.0.1:%d", s.port), 2*time.Second)
			if err != nil {
				return "C13-burst-handshake", "tcp connect failed: " + err.Error()
			}
			if tc, ok := nc.(*net.TCPConn); ok {
				_ = tc.SetNoDelay(true)
			}
			if _, err := nc.Write([]byte(req[:len(req)-2])); err != nil {
				return "C13-burst-handshake", "write failed: " + err.Error()
			}
			ncs = append(ncs, nc)
		}
		time.Sleep(3 * time.Millisecond) // every server routine has parsed its headers and waits for the end of the request
		for _, nc := range ncs {
			_, _ = nc.Write([]byte("\r\n"))
		}
		// outcome per connection: 0 accepted (101 and then silence), 4 refused (101 and a close frame 1008), 9 otherwise
		codes := make(chan int64, k)
		for _, nc := range ncs {
			go func(nc net.Conn) {
				_ = nc.SetReadDeadline(time.Now().Add(time.Duration(sched.Slow) * 150 * time.Millisecond))
				buf := make([]byte, 0, 1024)
				tmp := make([]byte, 512)
				for {
					n, err := nc.Read(tmp)
					buf = append(buf, tmp[:n]...)
					if err != nil {
						break
					}
				}
				h := strings.Index(string(buf), "\r\n\r\n")
				if !strings.HasPrefix(string(buf), "HTTP/1.1 101") || h < 0 {
					codes <- 9
					return
				}
				rest := buf[h+4:]
				switch {
				case len(rest) == 0:
					codes <- 0
				case len(rest) >= 4 && rest[0] == 0x88 && int(rest[2])<<8|int(rest[3]) == websocket.ClosePolicyViolation:
					codes <- 4
				default:
					codes <- 8
				}
			}(nc)
		}
		accepted := 0
		var other int64 = -1
		for i := 0; i < k; i++ {
			switch c := <-codes; c {
			case 0:
				accepted++
			case 4:
			default:
				other = c
			}
		}
		s.settle()
		connected := 0
		for _, e := range s.take() {
			if e[0] == 1 && e[1] == id {
				connected++
			}
		}
		for _, nc := range ncs {
			_ = nc.Close()
		}
		if other >= 0 {
			return "C13-burst-handshake", fmt.Sprintf("round %d: unexpected handshake outcome %d", round, other)
		}
		if accepted != 1 {
			return "C13-two-live-connections", fmt.Sprintf("round %d: %d of 12 simultaneous handshakes with one id were accepted", round, accepted)
		}
		if connected != 1 {
			return "C13-connected-callback-count", fmt.Sprintf("round %d: %d new-client callbacks for one accepted connection", round, connected)
		}
	}
	return "", ""
}

func c13Gen(cfg config, emit func(Case)) {
	rng := rand.New(rand.NewSource(cfg.seed*7 + 13))
	corpus := [][]int64{
		{1, 1, 1, 1, 5, 1, 2, 1, 5, 1, 1, 1, 3, 1, 1, 1, 4, 1, 1, 1, 6},
		{1, 1, 1, 2, 1, 1, 1, 2, 3, 2, 1, 2, 4, 1, 5, 1, 5, 2, 5, 3},
	}
	for _, c := range corpus {
		emit(Case{Class: "corpus", Input: c, Comment: "corpus"})
	}
	n := 25
	if cfg.thorough {
		n = 400
	}
	for i := 0; i < n; i++ {
		var in []int64
		length := 4 + rng.Intn(14)
		for j := 0; j < length; j++ {
			id := int64(1 + rng.Intn(3))
			p := rng.Intn(100)
			switch {
			case p < 45:
				in = append(in, 1, id)
			case p < 58:
				in = append(in, 2, id)
			case p < 70:
				in = append(in, 3, id)
			case p < 82:
				in = append(in, 4, id)
			case p < 97:
				in = append(in, 5, id)
			default:
				in = append(in, 6)
			}
		}
		emit(Case{Class: "sequence", Input: in, Comment: ""})
	}
}

func c13bGen(cfg config, emit func(Case)) {
	n := 16
	if cfg.thorough {
		n = 120
	}
	for i := 0; i < n; i++ {
		k, d := c13Burst(cfg.seed*1000 + int64(i))
		emit(Case{Class: "burst", Input: []int64{6}, Obs: []int64{-1, 0, 0, 0, -2}, Comment: fmt.Sprintf("burst %d", i),
			Check: func([]int64) (string, string) { return k, d }})
	}
	m := 2
	if cfg.thorough {
		m = 12
	}
	for i := 0; i < m; i++ {
		k, d := c13SyncBurst(20)
		emit(Case{Class: "syncburst", Input: []int64{6}, Obs: []int64{-1, 0, 0, 0, -2}, Comment: fmt.Sprintf("synchronised burst %d", i),
			Check: func([]int64) (string, string) { return k, d }})
	}
}

func init() {
	properties["c13"] = []*Entry{{Name: "c13", Eval: c13Eval, Gen: c13Gen, Isolated: true, Workers: 4},
		{Name: "c13b", Eval: func(in []int64) []int64 { return nil }, Gen: c13bGen}}
}
