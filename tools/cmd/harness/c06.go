package main

// C06: arbitrary incoming bytes never crash, wedge or corrupt an endpoint (entry c06).
// Grammar-based mutations of valid frames (and raw garbage) are injected into the four real endpoint kinds, with and
// without a request outstanding; the reaction is compared with M2/Parse.v; afterwards the genuine reply to the
// outstanding request and a fresh valid CALL must still be processed normally (property monitor).

import (
	"encoding/json"
	"fmt"
	"math"
	"math/rand"
	"reflect"
	"strconv"
	"strings"

	"github.com/lorenzodonini/ocpp-go/ocpp"
	"github.com/lorenzodonini/ocpp-go/ocppj"

	"verif/tools/internal/cw"
	"verif/tools/internal/sched"
	"verif/tools/internal/stubs"
)

func c06Frames(rng *rand.Rand, role int64, pendID string) []string {
	action := "DataTransfer"
	good := `{"vendorId":"v1"}`
	other := "Heartbeat"
	var out []string
	add := func(s string) { out = append(out, s) }
	// raw garbage / not arrays
	for _, s := range []string{``, ` `, `{`, `[`, `]`, `nul`, `null`, `true`, `42`, `"str"`, `{}`, `{"a":[2,"x","y",{}]}`, `[2,"a1","DataTransfer",{"vendorId":"v"}`,
		`[2,"a2","DataTransfer",{"vendorId":"v"}] trailing`, "\xff\xfe[2]", `[2,"a3","DataTransfer",{"vendorId":"\xc3\x28"}]`, `[,]`, `[2,,]`, `[2 "x"]`} {
		add(s)
	}
	// arity 0..7
	elems := []string{`2`, `"i1"`, `"` + action + `"`, good, `{}`, `1`, `"x"`}
	for n := 0; n <= 7; n++ {
		add("[" + strings.Join(elems[:n], ",") + "]")
	}
	// every element replaced by every JSON kind
	kinds := []string{`null`, `true`, `0`, `2`, `2.5`, `-0`, `1e300`, `-7`, `"s"`, `""`, `[]`, `[1]`, `{}`, `{"k":1}`, `3`, `4`, `5`, `"2"`}
	base := []string{`2`, `"i2"`, `"` + action + `"`, good}
	for pos := 0; pos < 4; pos++ {
		for _, k := range kinds {
			b := append([]string(nil), base...)
			b[pos] = k
			add("[" + strings.Join(b, ",") + "]")
		}
	}
	// ids: long (36 / 37 / 300 chars), unicode, escaped
	for _, id := range []string{strings.Repeat("a", 36), strings.Repeat("b", 37), strings.Repeat("c", 300), "é中\U0001F600", `q\"uo\\te`, " ", "0"} {
		add(fmt.Sprintf(`[2,"%s","%s",%s]`, id, action, good))
		add(fmt.Sprintf(`[3,"%s",{}]`, id))
		add(fmt.Sprintf(`[9,"%s",{}]`, id))
	}
	// actions: unknown, of the other direction, wrong case, long
	for _, a := range []string{"NoSuchAction", other, "datatransfer", strings.Repeat("A", 40), ""} {
		add(fmt.Sprintf(`[2,"i3","%s",{}]`, a))
	}
	// payload type confusions / constraint violations on a known action
	for _, p := range []string{`{"vendorId":5}`, `{"vendorId":""}`, `{"vendorId":null}`, `{}`, `[]`, `"x"`, `7`, `null`, `{"vendorId":"v","messageId":"` + strings.Repeat("m", 51) + `"}`,
		`{"vendorId":"v","unknown":{"deep":[1,2,3]}}`, `{"vendorId":"` + strings.Repeat("z", 256) + `"}`, `{"VENDORID":"v"}`, `{"vendorId":"a","vendorId":"b"}`} {
		add(fmt.Sprintf(`[2,"i4","%s",%s]`, action, p))
	}
	// well-formed, correctly typed CALLs on real payload types that violate a numeric constraint (integer and float fields,
	// nested and in slices): the rejection itself has to be built without crashing
	switch role {
	case 0:
		add(`[2,"n1","SetChargingProfile",{"connectorId":1,"csChargingProfiles":{"chargingProfileId":1,"stackLevel":0,"chargingProfilePurpose":"TxDefaultProfile","chargingProfileKind":"Absolute","chargingSchedule":{"chargingRateUnit":"W","chargingSchedulePeriod":[{"startPeriod":0,"limit":-1.5}]}}}]`)
		add(`[2,"n2","SetChargingProfile",{"connectorId":1,"csChargingProfiles":{"chargingProfileId":1,"stackLevel":0,"chargingProfilePurpose":"TxDefaultProfile","chargingProfileKind":"Absolute","chargingSchedule":{"chargingRateUnit":"W","minChargingRate":-0.5,"chargingSchedulePeriod":[{"startPeriod":0,"limit":1}]}}}]`)
		add(`[2,"n3","GetCompositeSchedule",{"connectorId":-1,"duration":10}]`)
		add(`[2,"n4","ChangeAvailability",{"connectorId":-2,"type":"Operative"}]`)
	case 1:
		add(`[2,"n1","MeterValues",{"connectorId":-1,"meterValue":[{"timestamp":"2020-01-01T00:00:00Z","sampledValue":[{"value":"1"}]}]}]`)
		add(`[2,"n2","StopTransaction",{"meterStop":-5,"timestamp":"2020-01-01T00:00:00Z","transactionId":1}]`)
		add(`[2,"n3","StartTransaction",{"connectorId":0,"idTag":"t","meterStart":-1,"timestamp":"2020-01-01T00:00:00Z"}]`)
	case 2:
		add(`[2,"n1","CostUpdated",{"totalCost":-1.5,"transactionId":"t1"}]`)
		add(`[2,"n2","SetChargingProfile",{"evseId":-1,"chargingProfile":{"id":1,"stackLevel":0,"chargingProfilePurpose":"TxDefaultProfile","chargingProfileKind":"Absolute","chargingSchedule":[{"id":1,"chargingRateUnit":"W","chargingSchedulePeriod":[{"startPeriod":0,"limit":-2.5}]}]}}]`)
		add(`[2,"n3","GetCompositeSchedule",{"duration":-3,"evseId":1}]`)
	default:
		add(`[2,"n1","MeterValues",{"evseId":-1,"meterValue":[{"timestamp":"2020-01-01T00:00:00Z","sampledValue":[{"value":1.5}]}]}]`)
		add(`[2,"n2","NotifyEVChargingSchedule",{"timeBase":"2020-01-01T00:00:00Z","evseId":1,"chargingSchedule":{"id":1,"chargingRateUnit":"W","minChargingRate":-0.5,"chargingSchedulePeriod":[{"startPeriod":0,"limit":-1.5}]}}]`)
	}
	// replies: for the pending id, foreign ids, malformed
	for _, id := range []string{pendID, "foreign", "i2"} {
		for _, tail := range []string{`,{"status":"Accepted"}`, `,{"status":"Bogus"}`, `,{"status":5}`, `,{}`, `,null`, `,"x"`, `,[1]`, ``, `,{"status":"Accepted"},"extra"`} {
			add(fmt.Sprintf(`[3,"%s"%s]`, id, tail))
		}
		for _, tail := range []string{`,"NotSupported","d",{}`, `,"NotSupported","d"`, `,"NotSupported"`, ``, `,5,"d",{}`, `,"VendorSpecific","d",{}`, `,"NotSupported",7,{}`, `,"NotSupported","d",{},"x","y"`, `,"GenericError","",null`, `,null,null,null`} {
			add(fmt.Sprintf(`[4,"%s"%s]`, id, tail))
		}
	}
	// nesting and size
	add(`[2,"i5","DataTransfer",{"vendorId":"v","data":` + strings.Repeat("[", 3000) + strings.Repeat("]", 3000) + `}]`)
	add(strings.Repeat("[", 12000) + strings.Repeat("]", 12000))
	add(`[2,"i6","DataTransfer",{"vendorId":"v","data":"` + strings.Repeat("x", 300000) + `"}]`)
	add(`[2,"i7","DataTransfer",{"vendorId":"v","data":1e999}]`)
	add(`[2,"i8","DataTransfer",{"vendorId":"v","data":123456789012345678901234567890}]`)
	add(`[2.0,"i9","DataTransfer",{"vendorId":"v"}]`)
	add(`[2.25,"i10","DataTransfer",{"vendorId":"v"}]`)
	add(`[3.5,"` + pendID + `",{"status":"Accepted"}]`)
	// random splices
	for i := 0; i < 25; i++ {
		b := []byte(out[rng.Intn(len(out))])
		if len(b) > 2 && len(b) < 400 {
			k := rng.Intn(len(b))
			switch rng.Intn(3) {
			case 0:
				b = append(b[:k], b[k+1:]...)
			case 1:
				b[k] = byte(" \"[]{},:0a\\"[rng.Intn(11)])
			default:
				b = append(b[:k], append([]byte(`,"x"`), b[k:]...)...)
			}
			add(string(b))
		}
	}
	return out
}

func c06Tree(b []byte) ([]int64, bool) {
	var probe interface{}
	if json.Unmarshal(b, &probe) != nil {
		return []int64{4, 0}, false // not JSON: modelled as a non-array (dropped)
	}
	t, err := jsonTree(b)
	if err != nil {
		return []int64{4, 0}, false
	}
	return t, true
}

func c06Gen(cfg config, emit func(Case)) {
	rolesInit()
	rng := rand.New(rand.NewSource(cfg.seed + 606))
	for role := int64(0); role < 4; role++ {
		for _, withPending := range []bool{false, true} {
			pendID := ""
			if withPending {
				pendID = "pp"
			}
			for fi, frame := range c06Frames(rng, role, "pp") {
				obs, verdictKind, tags, usableKind, usableDetail := c06Run(role, withPending, []byte(frame))
				tree, _ := c06Tree([]byte(frame))
				in := []int64{role}
				in = append(in, cw.LP([]byte(pendID))...)
				in = append(in, verdictKind, int64(len(tags)))
				for _, t := range tags {
					in = append(in, cw.LP([]byte(t))...)
				}
				in = append(in, tree...)
				k, d := usableKind, usableDetail
				show := frame
				if len(show) > 120 {
					show = show[:120] + "..."
				}
				emit(Case{Class: fmt.Sprintf("role%d-pending%v", role, withPending), Input: in, Obs: obs,
					Comment: fmt.Sprintf("frame %d: %q", fi, show), Check: func([]int64) (string, string) { return k, d }})
			}
		}
	}
}

var c06N int64

// c06Run: (optionally) makes a request outstanding, injects the frame, observes, then checks that the endpoint is still usable.
func c06Run(role int64, withPending bool, frame []byte) (obs []int64, verdictKind int64, tags []string, monKind, monDetail string) {
	c06N++
	pend := "pp"
	var cbFired, cbGenuine bool
	cb := func(conf ocpp.Response, err error) {
		cbFired = true
		if conf != nil {
			cbGenuine = true
		}
	}
	f := stubs.FeatureByName(int(role), "DataTransfer")
	req := reflect.New(f.GetRequestType())
	req.Elem().FieldByNameFunc(func(n string) bool { return strings.EqualFold(n, "vendorid") }).SetString("vend")
	if withPending {
		setNextID(pend)
		var err error
		switch role {
		case 0:
			err = roleCP16.SendRequestAsync(req.Interface().(ocpp.Request), cb)
		case 1:
			err = roleCS16.SendRequestAsync("c1", req.Interface().(ocpp.Request), cb)
		case 2:
			err = roleCS201.SendRequestAsync(req.Interface().(ocpp.Request), cb)
		default:
			err = roleCSMS201.SendRequestAsync("c1", req.Interface().(ocpp.Request), cb)
		}
		setNextID("")
		if err != nil {
			return []int64{-2}, 0, nil, "C06-setup", "could not make a request outstanding: " + err.Error()
		}
		sched.Settle()
	}
	// verdict of the payload for the model (decode + validate, as C04 / C05 describe)
	verdictKind = 1
	var arr []json.RawMessage
	if json.Unmarshal(frame, &arr) == nil && len(arr) >= 3 {
		var typ float64
		var id, action string
		if json.Unmarshal(arr[0], &typ) == nil && json.Unmarshal(arr[1], &id) == nil {
			switch int64(typ) {
			case 2:
				if len(arr) == 4 && json.Unmarshal(arr[2], &action) == nil {
					if ff := stubs.FeatureByName(int(role), action); ff != nil {
						v := reflect.New(ff.GetRequestType())
						raw := arr[3]
						if string(raw) == "null" {
							raw = json.RawMessage("{}")
						}
						if json.Unmarshal(raw, v.Interface()) != nil {
							verdictKind = 0
						} else {
							tags = failTags(ocppj.Validate.Struct(ocppj.Call{MessageTypeId: 2, UniqueId: "x", Action: action, Payload: v.Interface().(ocpp.Request)}))
						}
					}
				}
			case 3:
				if withPending && id == pend {
					v := reflect.New(f.GetResponseType())
					raw := arr[2]
					if string(raw) == "null" {
						raw = json.RawMessage("{}")
					}
					if json.Unmarshal(raw, v.Interface()) != nil {
						verdictKind = 0
					} else {
						tags = failTags(ocppj.Validate.Struct(ocppj.CallResult{MessageTypeId: 3, UniqueId: "x", Payload: v.Interface().(ocpp.Response)}))
					}
				}
			}
		}
	}
	frames, calls := c05Inject(role, string(frame))
	if injectPanicked != "" {
		monKind, monDetail = "C06-panic", "the message handler panicked: "+injectPanicked
		c06Reset(role)
		return []int64{-7}, verdictKind, tags, monKind, monDetail
	}
	completed := cbFired
	// observation: [reply written; code; pending completed; request handler invoked]
	switch {
	case len(frames) == 0:
		obs = []int64{0, 0}
	case len(frames) == 1:
		var a2 []json.RawMessage
		_ = json.Unmarshal(frames[0], &a2)
		var typ int64
		var rid, code string
		if len(a2) >= 3 {
			_ = json.Unmarshal(a2[0], &typ)
			_ = json.Unmarshal(a2[1], &rid)
			_ = json.Unmarshal(a2[2], &code)
		}
		if typ == 4 {
			obs = append([]int64{1}, cw.LP([]byte(code))...)
			// the reply must carry the id of the frame
			var id string
			if len(arr) >= 2 && json.Unmarshal(arr[1], &id) == nil && id != rid {
				monKind, monDetail = "C06-reply-id", fmt.Sprintf("CALL_ERROR carries id %q, the frame had %q", rid, id)
			}
		} else if typ == 3 {
			obs = []int64{0, 0} // a CALL_RESULT: the CALL reached its handler and was answered
		} else {
			obs = []int64{-3, 0}
		}
	default:
		obs = []int64{-int64(len(frames)), 0}
	}
	obs = append(obs, b2i(completed), b2i(calls > 0))
	// a frame that announces a CALL and carries a usable id is answered, whatever else is wrong with it: exactly one
	// frame with that id goes back (a CALL_ERROR, or the CALL_RESULT of a handler that was reached)
	if monKind == "" && len(arr) >= 3 {
		var typ float64
		var id string
		var whole []interface{}
		// (a text that encoding/json cannot decode as a whole, e.g. a number out of range, is not a frame for the library; an
		// id longer than the 36 characters OCPP allows cannot be echoed in a legal CALL_ERROR)
		if json.Unmarshal(frame, &whole) == nil && json.Unmarshal(arr[0], &typ) == nil && typ == 2 && json.Unmarshal(arr[1], &id) == nil && id != "" && len([]rune(id)) <= 36 {
			n := 0
			for _, fr := range frames {
				var a2 []json.RawMessage
				var rid string
				if json.Unmarshal(fr, &a2) == nil && len(a2) >= 2 && json.Unmarshal(a2[1], &rid) == nil && rid == id {
					n++
				}
			}
			if n != 1 {
				monKind, monDetail = "C06-call-not-answered", fmt.Sprintf("a CALL frame with id %q got %d replies carrying that id (%d frames written)", id, n, len(frames))
			}
		}
	}
	// ---- afterwards: the endpoint must still be usable
	if withPending && !completed {
		cbFired = false
		_, _ = c05Inject(role, fmt.Sprintf(`[3,"%s",{"status":"Accepted"}]`, pend))
		if !cbFired || !cbGenuine {
			if monKind == "" {
				monKind, monDetail = "C06-outstanding-request-lost", "after the frame, the genuine reply to the outstanding request was not delivered"
			}
			// clean up with a timeout-free stop/start is not possible here: later cases on this role would be affected
			c06Reset(role)
		}
	}
	fr2, calls2 := c05Inject(role, fmt.Sprintf(`[2,"after-%d","DataTransfer",{"vendorId":"after"}]`, c06N))
	if (len(fr2) != 1 || calls2 != 1) && monKind == "" {
		monKind, monDetail = "C06-not-usable-afterwards", fmt.Sprintf("a valid CALL after the frame got %d replies and %d handler calls", len(fr2), calls2)
	}
	_ = math.Abs
	_ = strconv.Itoa
	return
}

// c06Reset concludes whatever is outstanding on a role by a CALL_ERROR for the pending id.
func c06Reset(role int64) {
	_, _ = c05Inject(role, `[4,"pp","InternalError","reset",{}]`)
}

func init() {
	none := func(in []int64) []int64 { return []int64{-1} }
	properties["c06"] = []*Entry{{Name: "c06", Eval: none, Gen: c06Gen}}
}
