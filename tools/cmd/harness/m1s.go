package main

// M1 server side: the real ocpp1.6 CentralSystem / ocpp2.0.1 CSMS (on ocppj.Server +
// DefaultServerDispatcher + FIFOQueueMap + serverState) on an in-process ws.Server,
// driven by quiescent histories; compared with M1/Server.v (entry m1s).
//
//   input : [variant; cap; drain; labels...]   labels as in Server.dec_slabs
//   output: per label -1, Ret, writes (in order), callbacks (sorted), connection handlers (sorted); final -2

import (
	"fmt"
	"math/rand"
	"sort"
	"strconv"
	"sync"
	"time"

	"github.com/lorenzodonini/ocpp-go/ocpp"
	ocpp16 "github.com/lorenzodonini/ocpp-go/ocpp1.6"
	core16 "github.com/lorenzodonini/ocpp-go/ocpp1.6/core"
	ocpp2 "github.com/lorenzodonini/ocpp-go/ocpp2.0.1"
	data2 "github.com/lorenzodonini/ocpp-go/ocpp2.0.1/data"
	"github.com/lorenzodonini/ocpp-go/ocppj"

	"verif/tools/internal/fakews"
	"verif/tools/internal/sched"
)

type serverSendAPI interface {
	SendRequestAsync(clientId string, request ocpp.Request, callback func(confirmation ocpp.Response, err error)) error
	Start(listenPort int, listenPath string)
	Stop()
}

type m1sRun struct {
	variant int64
	fake    *fakews.Server
	disp    *ocppj.DefaultServerDispatcher
	ep      serverSendAPI
	mu      sync.Mutex
	cbs     [][]int64
	conn    [][]int64
	out     []int64
	started bool
	hung    bool
}

func cname(c int64) string { return "c" + strconv.FormatInt(c, 10) }
func cnum(s string) int64 {
	n, _ := strconv.ParseInt(s[1:], 10, 64)
	return n
}

func newM1sRun(variant, capacity, drain int64) *m1sRun {
	installIDGen()
	r := &m1sRun{variant: variant, fake: fakews.NewServer()}
	r.disp = ocppj.NewDefaultServerDispatcher(ocppj.NewFIFOQueueMap(int(capacity)))
	r.disp.SetTimeout(time.Hour)
	onNew := func(id string) {
		r.mu.Lock()
		r.conn = append(r.conn, []int64{5, cnum(id)})
		r.mu.Unlock()
	}
	onGone := func(id string) {
		r.mu.Lock()
		r.conn = append(r.conn, []int64{6, cnum(id)})
		r.mu.Unlock()
	}
	if variant == 0 {
		srv := ocppj.NewServer(r.fake, r.disp, nil, core16.Profile)
		cs := ocpp16.NewCentralSystem(srv, r.fake)
		cs.SetNewChargePointHandler(func(cp ocpp16.ChargePointConnection) { onNew(cp.ID()) })
		if drain != 0 {
			cs.SetChargePointDisconnectedHandler(func(cp ocpp16.ChargePointConnection) { onGone(cp.ID()) })
		}
		r.ep = cs
	} else {
		srv := ocppj.NewServer(r.fake, r.disp, nil, data2.Profile)
		cs := ocpp2.NewCSMS(srv, r.fake)
		cs.SetNewChargingStationHandler(func(cp ocpp2.ChargingStationConnection) { onNew(cp.ID()) })
		if drain != 0 {
			cs.SetChargingStationDisconnectedHandler(func(cp ocpp2.ChargingStationConnection) { onGone(cp.ID()) })
		}
		r.ep = cs
	}
	return r
}

func (r *m1sRun) request(id int64, valid bool) ocpp.Request {
	vendor := "v" + strconv.FormatInt(id, 10)
	if !valid {
		vendor = ""
	}
	if r.variant == 0 {
		return core16.NewDataTransferRequest(vendor)
	}
	return data2.NewDataTransferRequest(vendor)
}

func sortRows(rows [][]int64) {
	sort.Slice(rows, func(i, j int) bool {
		a, b := rows[i], rows[j]
		for k := 0; k < len(a) && k < len(b); k++ {
			if a[k] != b[k] {
				return a[k] < b[k]
			}
		}
		return len(a) < len(b)
	})
}

func (r *m1sRun) flush(ret []int64) {
	r.out = append(r.out, -1)
	r.out = append(r.out, ret...)
	for _, w := range r.fake.TakeWritten() {
		r.out = append(r.out, 2, cnum(w.To), callID(w.Data))
	}
	r.mu.Lock()
	cbs, conn := r.cbs, r.conn
	r.cbs, r.conn = nil, nil
	r.mu.Unlock()
	sortRows(cbs)
	sortRows(conn)
	for _, c := range cbs {
		r.out = append(r.out, c...)
	}
	for _, c := range conn {
		r.out = append(r.out, c...)
	}
}

func (r *m1sRun) step(l []int64) {
	if r.hung {
		r.out = append(r.out, -1)
		return
	}
	var ret []int64
	returned := true
	switch l[0] {
	case 1: // SSend c r valid
		c, id, valid := l[1], l[2], l[3] != 0
		returned = sched.Call(func() {
			setNextID(strconv.FormatInt(id, 10))
			err := r.ep.SendRequestAsync(cname(c), r.request(id, valid), func(conf ocpp.Response, err error) {
				rr, k := conclusionOf(conf, err)
				r.mu.Lock()
				r.cbs = append(r.cbs, []int64{3, c, id, rr, k})
				r.mu.Unlock()
			})
			setNextID("")
			ret = []int64{1, c, id, b2i(err != nil)}
		})
	case 2: // SReply c r k
		id := strconv.FormatInt(l[2], 10)
		var frame string
		if l[3] == 0 {
			frame = fmt.Sprintf(`[3,"%s",{"status":"Accepted","data":"%s"}]`, id, id)
		} else {
			frame = fmt.Sprintf(`[4,"%s","NotSupported","peer error",{}]`, id)
		}
		returned = sched.Call(func() { _ = r.fake.Inject(cname(l[1]), []byte(frame)) })
	case 3: // TimerTok c
		if r.started {
			returned = sched.Call(func() { r.disp.VerifTimeoutToken(cname(l[1])) })
		}
	case 5:
		returned = sched.Call(func() { r.fake.Disconnect(cname(l[1])) })
	case 6:
		returned = sched.Call(func() { r.fake.Connect(cname(l[1])) })
	case 7:
		r.fake.SetFail(cname(l[1]), l[2] != 0)
	case 8:
		if r.started {
			returned = sched.Call(func() { r.ep.Stop() })
			r.started = false
		}
	case 9:
		if !r.started {
			go r.ep.Start(0, "/{ws}")
			r.started = true
		}
	}
	if !returned {
		r.hung = true
	}
	if !sched.Settle() {
		r.hung = true
	}
	r.flush(ret)
	if r.hung {
		r.out = append(r.out, 8)
	}
}

func m1sDecode(in []int64) (variant, capacity, drain int64, labs [][]int64) {
	if len(in) < 3 {
		return 0, 0, 0, nil
	}
	variant, capacity, drain = in[0], in[1], in[2]
	rest := in[3:]
	for len(rest) > 0 {
		n := 1
		switch rest[0] {
		case 1, 2:
			n = 4
		case 7:
			n = 3
		case 3, 5, 6:
			n = 2
		}
		if len(rest) < n {
			break
		}
		labs = append(labs, rest[:n])
		rest = rest[n:]
	}
	return
}

func m1sEval(in []int64) []int64 {
	variant, capacity, drain, labs := m1sDecode(in)
	r := newM1sRun(variant, capacity, drain)
	for _, l := range labs {
		r.step(l)
	}
	r.out = append(r.out, -2)
	if r.started && !r.hung {
		sched.Call(func() { r.ep.Stop() })
		sched.Settle()
	}
	return r.out
}

func m1sGen(cfg config, emit func(Case)) {
	rng := rand.New(rand.NewSource(cfg.seed*104729 + 5))
	corpus := [][]int64{
		{0, 0, 1, 9, 6, 1, 1, 1, 1, 1, 1, 1, 2, 1, 2, 1, 1, 0, 2, 1, 2, 0},
		{1, 0, 1, 9, 6, 1, 6, 2, 1, 1, 1, 1, 1, 2, 2, 1, 3, 1, 2, 2, 2, 0, 2, 1, 1, 0},
		{0, 0, 1, 9, 6, 1, 1, 1, 1, 1, 5, 1, 6, 1, 1, 1, 2, 1, 2, 1, 2, 0},
		{0, 0, 0, 9, 6, 1, 1, 1, 1, 1, 5, 1, 6, 1, 1, 1, 2, 1, 2, 1, 2, 0},
		{0, 2, 1, 9, 6, 1, 1, 1, 1, 1, 1, 1, 2, 1, 1, 1, 3, 1, 2, 1, 1, 0, 1, 1, 4, 1},
		{0, 0, 1, 9, 6, 1, 1, 1, 1, 1, 8, 9, 6, 1, 1, 1, 2, 1, 2, 1, 2, 0},
	}
	for _, c := range corpus {
		emit(Case{Class: "corpus", Input: c, Comment: "corpus", Check: m1sMonitor(c)})
	}
	// structured multi-client scenarios: a timeout / failed write / disconnect of one client placed
	// right after another client went idle or between two events of another client
	for i := 0; i < 12+cfg.n/10; i++ {
		variant := int64(rng.Intn(2))
		in := []int64{variant, 0, int64(rng.Intn(2)), 9, 6, 1, 6, 2, 6, 3}
		id := int64(1)
		a, b := int64(1+rng.Intn(3)), int64(1+rng.Intn(3))
		if a == b {
			b = a%3 + 1
		}
		nb := 1 + rng.Intn(3)
		var bids []int64
		// interleave: b gets nb requests, a gets one
		order := rng.Intn(2)
		if order == 0 {
			in = append(in, 1, a, id, 1)
		}
		aid := id
		id++
		for k := 0; k < nb; k++ {
			in = append(in, 1, b, id, 1)
			bids = append(bids, id)
			id++
		}
		if order == 1 {
			aid = id
			in = append(in, 1, a, id, 1)
			id++
		}
		if rng.Intn(4) != 0 {
			in = append(in, 2, a, aid, int64(rng.Intn(2))) // a completes its last request: a idle
		}
		switch rng.Intn(4) {
		case 0, 1:
			in = append(in, 3, b) // b's outstanding request times out
		case 2:
			in = append(in, 7, b, 1, 3, b, 7, b, 0) // times out, the next writes fail
		case 3:
			in = append(in, 5, b, 6, b)
			bids = nil
		}
		if rng.Intn(2) == 0 {
			in = append(in, 1, a, id, 1, 2, a, id, 0)
			id++
		}
		for _, x := range bids {
			in = append(in, 2, b, x, 0)
		}
		in = append(in, 1, b, id, 1, 2, b, id, 0, 3, a, 3, b)
		cc := append([]int64(nil), in...)
		emit(Case{Class: "neighbours", Input: cc, Comment: "", Check: m1sMonitor(cc)})
	}
	for i := 0; i < cfg.n; i++ {
		variant := int64(rng.Intn(2))
		capacity := []int64{0, 0, 1, 2, 3}[rng.Intn(5)]
		drain := int64(1)
		if rng.Intn(5) == 0 {
			drain = 0
		}
		in := []int64{variant, capacity, drain, 9}
		nclients := 1 + rng.Intn(3)
		length := 6 + rng.Intn(40)
		nextID := int64(1)
		started := true
		connected := map[int64]bool{}
		issued := map[int64][]int64{}
		class := "mixed"
		for j := 0; j < length; j++ {
			c := int64(1 + rng.Intn(nclients))
			if !started {
				in = append(in, 9)
				started = true
				continue
			}
			p := rng.Intn(100)
			switch {
			case p < 12 || (len(connected) == 0 && p < 50):
				if connected[c] {
					in = append(in, 5, c)
					delete(connected, c)
					issued[c] = nil
				} else {
					in = append(in, 6, c)
					connected[c] = true
				}
			case p < 45:
				valid := int64(1)
				if rng.Intn(12) == 0 {
					valid = 0
				}
				in = append(in, 1, c, nextID, valid)
				if connected[c] && valid == 1 {
					issued[c] = append(issued[c], nextID)
				}
				nextID++
			case p < 75:
				var id int64
				k := int64(rng.Intn(3) / 2)
				q := issued[c]
				switch {
				case len(q) == 0 || rng.Intn(10) == 0:
					id = int64(rng.Intn(int(nextID) + 2))
					if rng.Intn(2) == 0 {
						// an id pending on another client
						for c2, q2 := range issued {
							if c2 != c && len(q2) > 0 {
								id = q2[0]
							}
						}
					}
				default:
					id = q[0]
					if rng.Intn(6) == 0 {
						id = q[rng.Intn(len(q))]
					}
				}
				in = append(in, 2, c, id, k)
				if len(q) > 0 && id == q[0] {
					issued[c] = q[1:]
				}
			case p < 84:
				// timeout notification: for a client with an outstanding request (at most one client at a time)
				in = append(in, 3, c)
				if len(issued[c]) > 0 {
					issued[c] = issued[c][1:]
				}
			case p < 90:
				in = append(in, 7, c, int64(rng.Intn(2)))
			case p < 93:
				in = append(in, 8)
				started = false
				connected = map[int64]bool{}
				issued = map[int64][]int64{}
				class = "stopstart"
			default:
				in = append(in, 2, c, int64(rng.Intn(int(nextID)+1)), 0)
			}
		}
		cc := append([]int64(nil), in...)
		emit(Case{Class: class, Input: cc, Comment: "", Check: m1sMonitor(cc)})
	}
}

func init() {
	properties["m1s"] = []*Entry{{Name: "m1s", Eval: m1sEval, Gen: m1sGen, Isolated: true}}
}

// m1sMonitor: property conclusions evaluated on the implementation's observations alone.
func m1sMonitor(in []int64) func(obs []int64) (string, string) {
	return func(obs []int64) (string, string) {
		_, _, _, labs := m1sDecode(in)
		if len(obs) == 1 && obs[0] == -7 {
			return "C06-C07-panic", "a library goroutine panicked"
		}
		if len(obs) == 1 && obs[0] == -8 {
			return "C07-hang", "the history did not finish within the watchdog"
		}
		var segs [][]int64
		cur := []int64(nil)
		st := false
		for _, x := range obs {
			if x == -1 || x == -2 {
				if st {
					segs = append(segs, cur)
				}
				cur, st = nil, true
				if x == -2 {
					break
				}
				continue
			}
			cur = append(cur, x)
		}
		if len(segs) != len(labs) {
			return "", ""
		}
		type key struct{ c, r int64 }
		written := map[key]bool{}
		concluded := map[key]bool{}
		accepted := map[key]bool{}
		rejected := map[key]bool{}
		lastW := map[int64]int64{}
		outstanding := map[int64]int64{}
		connected := map[int64]bool{}
		stoppedNow := false
		for i, seg := range segs {
			l := labs[i]
			outBefore := int64(0)
			if l[0] == 2 {
				outBefore = outstanding[l[1]]
			}
			var ws, cbs [][]int64
			for j := 0; j < len(seg); {
				switch seg[j] {
				case 1:
					if seg[j+3] == 0 {
						accepted[key{seg[j+1], seg[j+2]}] = true
						if !connected[seg[j+1]] {
							return "C11-send-to-unconnected-accepted", fmt.Sprintf("event %d: request %d for client %d accepted although it is not connected", i, seg[j+2], seg[j+1])
						}
					} else {
						rejected[key{seg[j+1], seg[j+2]}] = true
					}
					j += 4
				case 2:
					ws = append(ws, seg[j:j+3])
					j += 3
				case 3:
					cbs = append(cbs, seg[j:j+5])
					j += 5
				case 4:
					j += 4
				case 5, 6:
					j += 2
				case 8:
					return "C07-hang", fmt.Sprintf("event %d: an API call or callback did not return", i)
				default:
					j++
				}
			}
			evc := int64(-1) // the client this event is about
			switch l[0] {
			case 1, 2, 3, 5, 6, 7:
				evc = l[1]
			}
			switch l[0] {
			case 6:
				connected[l[1]] = true
			case 5:
				delete(connected, l[1])
			case 8:
				connected = map[int64]bool{}
			}
			for _, w := range ws {
				k := key{w[1], w[2]}
				if evc >= 0 && w[1] != evc {
					return "C11-cross-client-write", fmt.Sprintf("event %d (client %d): CALL %d written to client %d", i, evc, w[2], w[1])
				}
				if written[k] {
					return "C02-written-twice", fmt.Sprintf("event %d: CALL %d written twice to client %d", i, w[2], w[1])
				}
				if !accepted[k] {
					return "C01-rejected-written", fmt.Sprintf("event %d: CALL %d to client %d written but never accepted", i, w[2], w[1])
				}
				if w[2] < lastW[w[1]] {
					return "C02-order", fmt.Sprintf("event %d: CALL %d written to client %d after %d", i, w[2], w[1], lastW[w[1]])
				}
				written[k], lastW[w[1]] = true, w[2]
			}
			nw, ncb := map[int64]int{}, map[int64]int{}
			for _, w := range ws {
				nw[w[1]]++
			}
			for _, c := range cbs {
				ncb[c[1]]++
			}
			for c, n := range nw {
				if n > ncb[c]+1 || (outstanding[c] != 0 && n > ncb[c]) {
					return "C02-two-outstanding", fmt.Sprintf("event %d: client %d: %d writes, %d conclusions, outstanding before %d", i, c, n, ncb[c], outstanding[c])
				}
			}
			for _, c := range cbs {
				k := key{c[1], c[2]}
				if evc >= 0 && c[1] != evc {
					return "C11-cross-client-conclusion", fmt.Sprintf("event %d (client %d): callback of client %d invoked", i, evc, c[1])
				}
				if c[4] == 5 {
					// disconnect drain: carries no id
				} else if c[2] != c[3] {
					return "C01-foreign-conclusion", fmt.Sprintf("event %d: client %d: callback of request %d received the conclusion of %d (kind %d)", i, c[1], c[2], c[3], c[4])
				}
				if concluded[k] {
					return "C01-concluded-twice", fmt.Sprintf("event %d: request %d of client %d concluded twice", i, c[2], c[1])
				}
				if rejected[k] {
					return "C01-rejected-concluded", fmt.Sprintf("event %d: callback of rejected request %d invoked", i, c[2])
				}
				concluded[k] = true
				if outstanding[c[1]] == c[2] {
					outstanding[c[1]] = 0
				}
			}
			for _, w := range ws {
				if !concluded[key{w[1], w[2]}] {
					outstanding[w[1]] = w[2]
				}
			}
			if l[0] == 5 || l[0] == 8 {
				// session over: with the drain installed everything accepted for that client must be concluded now
				for k := range accepted {
					if (l[0] == 8 || k.c == l[1]) && !concluded[k] {
						return "C11-not-concluded-at-disconnect", fmt.Sprintf("event %d: request %d of client %d still not concluded after its session ended", i, k.r, k.c)
					}
				}
				if l[0] == 5 {
					outstanding[l[1]] = 0
				} else {
					outstanding = map[int64]int64{}
				}
			}
			if l[0] == 8 {
				stoppedNow = true
			}
			if l[0] == 9 {
				stoppedNow = false
			}
			if l[0] == 2 && l[2] == outBefore && outBefore != 0 && !concluded[key{l[1], outBefore}] {
				return "C01-C09-C11-genuine-reply-dropped", fmt.Sprintf("event %d: client %d: the reply carrying the outstanding id %d was not delivered to its caller", i, l[1], outBefore)
			}
			if l[0] == 2 && l[2] != outBefore && len(ws)+len(cbs) > 0 {
				return "C09-foreign-reply-effect", fmt.Sprintf("event %d: reply with foreign id %d on client %d (outstanding %d) caused writes/callbacks", i, l[2], l[1], outBefore)
			}
		}
		if !stoppedNow {
			for c := range connected {
				pendingN := 0
				for k := range accepted {
					if k.c == c && !concluded[k] {
						pendingN++
					}
				}
				if pendingN > 0 && outstanding[c] == 0 {
					return "C01-C07-C11-stall", fmt.Sprintf("client %d: %d accepted request(s) neither concluded nor outstanding at the end of the history although the client is connected", c, pendingN)
				}
			}
		}
		return "", ""
	}
}
