package stubs

import (
	"fmt"
	"math"
	"reflect"
)

// EncodeVal encodes a Go payload value for the Coq model (M2/Validator.v, dec_val):
//   0 nil | 1 b | 2 int | 3 float-in-thousandths | 4 n codepoints... | 5 zero? (time) | 6 n elems... | 7 n fields...
func EncodeVal(v reflect.Value) []int64 {
	t := v.Type()
	if t == dt16 || t == dt2 {
		z := v.Interface().(interface{ IsZero() bool }).IsZero()
		if z {
			return []int64{5, 1}
		}
		return []int64{5, 0}
	}
	switch t.Kind() {
	case reflect.Ptr, reflect.Interface:
		if v.IsNil() {
			return []int64{0}
		}
		return EncodeVal(v.Elem())
	case reflect.Bool:
		if v.Bool() {
			return []int64{1, 1}
		}
		return []int64{1, 0}
	case reflect.Int, reflect.Int8, reflect.Int16, reflect.Int32, reflect.Int64:
		return []int64{2, v.Int()}
	case reflect.Float32, reflect.Float64:
		return []int64{3, int64(math.Round(v.Float() * 1000))}
	case reflect.String:
		rs := []rune(v.String())
		out := []int64{4, int64(len(rs))}
		for _, r := range rs {
			out = append(out, int64(r))
		}
		return out
	case reflect.Slice:
		if v.IsNil() {
			return []int64{0}
		}
		out := []int64{6, int64(v.Len())}
		for i := 0; i < v.Len(); i++ {
			out = append(out, EncodeVal(v.Index(i))...)
		}
		return out
	case reflect.Struct:
		var fields [][]int64
		for i := 0; i < t.NumField(); i++ {
			if t.Field(i).PkgPath != "" {
				continue
			}
			fields = append(fields, EncodeVal(v.Field(i)))
		}
		out := []int64{7, int64(len(fields))}
		for _, f := range fields {
			out = append(out, f...)
		}
		return out
	}
	panic(fmt.Sprintf("EncodeVal: unsupported kind %s", t.Kind()))
}

// EncodeValJ: as EncodeVal, but a timestamp is the string it marshals to (C04 treats its text as opaque).
func EncodeValJ(v reflect.Value) []int64 {
	t := v.Type()
	if t == dt16 || t == dt2 {
		b, err := v.Addr().Interface().(interface{ MarshalJSON() ([]byte, error) }).MarshalJSON()
		if err != nil || len(b) < 2 {
			return []int64{4, 0}
		}
		rs := []rune(string(b[1 : len(b)-1]))
		out := []int64{4, int64(len(rs))}
		for _, r := range rs {
			out = append(out, int64(r))
		}
		return out
	}
	switch t.Kind() {
	case reflect.Ptr, reflect.Interface:
		if v.IsNil() {
			return []int64{0}
		}
		if t.Kind() == reflect.Ptr {
			return EncodeValJ(v.Elem())
		}
		return EncodeValJ(v.Elem())
	case reflect.Slice:
		if v.IsNil() {
			return []int64{0}
		}
		out := []int64{6, int64(v.Len())}
		for i := 0; i < v.Len(); i++ {
			out = append(out, EncodeValJ(v.Index(i))...)
		}
		return out
	case reflect.Struct:
		var fields [][]int64
		for i := 0; i < t.NumField(); i++ {
			if t.Field(i).PkgPath != "" {
				continue
			}
			fields = append(fields, EncodeValJ(v.Field(i)))
		}
		out := []int64{7, int64(len(fields))}
		for _, f := range fields {
			out = append(out, f...)
		}
		return out
	}
	return EncodeVal(v)
}
