// Package stubs: recording handler stubs for the four endpoint roles (generated part: gen_stubs.go) and a
// schema-driven generator of valid payloads for every request / response type (by reflection over the
// struct tags, confirmed with the library's own validator).
package stubs

import (
	"encoding/json"
	"errors"
	"math/rand"
	"reflect"
	"strconv"
	"strings"
	"sync"
	"time"

	"github.com/lorenzodonini/ocpp-go/ocpp"
	types16 "github.com/lorenzodonini/ocpp-go/ocpp1.6/types"
	types2 "github.com/lorenzodonini/ocpp-go/ocpp2.0.1/types"
	"github.com/lorenzodonini/ocpp-go/ocppj"

	"verif/tools/internal/profiles"
)

type CallRec struct {
	Role    int
	Client  string
	Method  string
	ReqType string
	Payload []byte
}

// handler outcomes
const (
	OutValid = iota
	OutInvalid
	OutNil
	OutPlainErr
	OutOcppErrValid
	OutOcppErrBadCode
)

type Recorder struct {
	mu      sync.Mutex
	Calls   []CallRec
	Outcome int
	Seed    int64
	LastRespValid bool
}

func (r *Recorder) Take() []CallRec {
	r.mu.Lock()
	defer r.mu.Unlock()
	c := r.Calls
	r.Calls = nil
	return c
}

// FeatureByName finds a feature in the version of the role (0,1: 1.6; 2,3: 2.0.1).
func FeatureByName(role int, name string) ocpp.Feature {
	ps := profiles.V16()
	if role >= 2 {
		ps = profiles.V201()
	}
	for _, p := range ps {
		if f, ok := p.Features[name]; ok {
			return f
		}
	}
	return nil
}

func (r *Recorder) Handle(role int, client, method string, req interface{}) (ocpp.Response, error) {
	b, _ := json.Marshal(req)
	r.mu.Lock()
	r.Calls = append(r.Calls, CallRec{role, client, method, reflect.TypeOf(req).String(), b})
	out, seed := r.Outcome, r.Seed
	r.mu.Unlock()
	rq, _ := req.(ocpp.Request)
	var f ocpp.Feature
	if rq != nil && !reflect.ValueOf(req).IsNil() {
		f = FeatureByName(role, rq.GetFeatureName())
	}
	switch out {
	case OutNil:
		return nil, nil
	case OutPlainErr:
		return nil, errors.New("handler failed")
	case OutOcppErrValid:
		return nil, ocpp.NewHandlerError(ocppj.SecurityError, "handler says no")
	case OutOcppErrBadCode:
		return nil, ocpp.NewHandlerError("NoSuchCode", "handler says no")
	}
	if f == nil {
		return nil, errors.New("stub: unknown feature")
	}
	if out == OutInvalid {
		v := reflect.New(f.GetResponseType())
		return v.Interface().(ocpp.Response), nil
	}
	v, ok := ValidValue(f.GetResponseType(), rand.New(rand.NewSource(seed)))
	if !ok {
		return nil, errors.New("stub: no valid response found")
	}
	return v.Interface().(ocpp.Response), nil
}

// EnumTags returns the accepted value sets of the registered enum validators.
func EnumTags() map[string][]string { return enumTags }

// EnumDeclared returns every exported constant value of the enumeration types.
func EnumDeclared() []string { return enumDeclared }

var dt16 = reflect.TypeOf(types16.DateTime{})
var dt2 = reflect.TypeOf(types2.DateTime{})

type tagSet struct {
	required, omitempty, dive bool
	min, max, gte, lte, gt, lt, eq *float64
	enum                         string
	uri                          bool
	unique                       bool
}

func parseTags(v string) (ts tagSet, elem string) {
	if v == "" {
		return
	}
	parts := strings.Split(v, ",")
	for i, p := range parts {
		name, arg := p, ""
		if k := strings.IndexByte(p, '='); k >= 0 {
			name, arg = p[:k], p[k+1:]
		}
		num := func() *float64 { f, _ := strconv.ParseFloat(arg, 64); return &f }
		switch name {
		case "required":
			ts.required = true
		case "omitempty":
			ts.omitempty = true
		case "dive":
			ts.dive = true
			elem = strings.Join(parts[i+1:], ",")
			return
		case "min":
			ts.min = num()
		case "max":
			ts.max = num()
		case "gte":
			ts.gte = num()
		case "lte":
			ts.lte = num()
		case "gt":
			ts.gt = num()
		case "lt":
			ts.lt = num()
		case "eq":
			ts.eq = num()
		case "uri", "url":
			ts.uri = true
		case "unique":
			ts.unique = true
		case "-":
		default:
			if _, ok := enumTags[name]; ok {
				ts.enum = name
			}
		}
	}
	return
}

const letters = "abcdefghijklmnopqrstuvwxyzABCDEFGHIJKLMNOPQRSTUVWXYZ0123456789"

// StrGen, when set, produces the n-rune strings of generated payloads (C04 uses a UTF-8 pool).
var StrGen func(rng *rand.Rand, n int) string

func randString(rng *rand.Rand, n int) string {
	if StrGen != nil {
		return StrGen(rng, n)
	}
	b := make([]byte, n)
	for i := range b {
		b[i] = letters[rng.Intn(len(letters))]
	}
	return string(b)
}

func numRange(ts tagSet) (lo, hi float64) {
	lo, hi = 0, 1000
	if ts.min != nil {
		lo = *ts.min
	}
	if ts.gte != nil {
		lo = *ts.gte
	}
	if ts.gt != nil {
		lo = *ts.gt + 1
	}
	if ts.max != nil {
		hi = *ts.max
	}
	if ts.lte != nil {
		hi = *ts.lte
	}
	if ts.lt != nil {
		hi = *ts.lt - 1
	}
	if ts.required && lo <= 0 && hi >= 1 {
		lo = 1
	}
	if hi < lo {
		hi = lo
	}
	return
}

// fill sets v (addressable) to a value meant to satisfy the tag list; full = set every optional field too.
func fill(v reflect.Value, tag string, rng *rand.Rand, mode int, depth int) {
	ts, elemTag := parseTags(tag)
	t := v.Type()
	if t == dt16 || t == dt2 {
		now := time.Unix(1700000000+int64(rng.Intn(1000000)), 0).UTC()
		if t == dt16 {
			v.Set(reflect.ValueOf(types16.DateTime{Time: now}))
		} else {
			v.Set(reflect.ValueOf(types2.DateTime{Time: now}))
		}
		return
	}
	switch t.Kind() {
	case reflect.Ptr:
		optional := !ts.required
		if optional && (mode == 0 || (mode == 2 && rng.Intn(2) == 0) || depth > 4) {
			return // leave nil
		}
		nv := reflect.New(t.Elem())
		inner := tag
		fill(nv.Elem(), inner, rng, mode, depth+1)
		v.Set(nv)
	case reflect.String:
		if ts.enum != "" {
			vals := enumTags[ts.enum]
			if len(vals) > 0 {
				v.SetString(vals[rng.Intn(len(vals))])
			}
			return
		}
		optional := !ts.required
		if optional && (mode == 0 || (mode == 2 && rng.Intn(2) == 0)) {
			return
		}
		lo, hi := 1, 12
		if ts.min != nil {
			lo = int(*ts.min)
		}
		if ts.max != nil && int(*ts.max) < hi {
			hi = int(*ts.max)
		}
		if ts.max != nil && mode == 1 {
			hi = int(*ts.max) // boundary length
			lo = hi
		}
		if hi < lo {
			hi = lo
		}
		n := lo + rng.Intn(hi-lo+1)
		if ts.uri {
			s := "https://example.com/" + randString(rng, 4)
			v.SetString(s)
			return
		}
		v.SetString(randString(rng, n))
	case reflect.Int, reflect.Int64, reflect.Int32:
		optional := !ts.required
		if optional && mode == 0 {
			return
		}
		lo, hi := numRange(ts)
		if mode == 1 {
			if rng.Intn(2) == 0 {
				v.SetInt(int64(lo))
			} else {
				v.SetInt(int64(hi))
			}
			return
		}
		v.SetInt(int64(lo) + rng.Int63n(int64(hi-lo)+1))
	case reflect.Float64, reflect.Float32:
		if !ts.required && mode == 0 {
			return
		}
		lo, hi := numRange(ts)
		v.SetFloat(float64(int64(lo) + rng.Int63n(int64(hi-lo)+1)) + 0.5*float64(rng.Intn(2)))
		if v.Float() > hi {
			v.SetFloat(hi)
		}
	case reflect.Bool:
		v.SetBool(ts.required || rng.Intn(2) == 0)
	case reflect.Interface:
		if ts.required || mode != 0 {
			v.Set(reflect.ValueOf("x" + randString(rng, 3)))
		}
	case reflect.Slice:
		optional := !ts.required
		if optional && (mode == 0 || (mode == 2 && rng.Intn(2) == 0)) {
			return
		}
		lo, hi := 1, 2
		if ts.min != nil {
			lo = int(*ts.min)
		}
		if ts.max != nil && int(*ts.max) < hi {
			hi = int(*ts.max)
		}
		if hi < lo {
			hi = lo
		}
		n := lo + rng.Intn(hi-lo+1)
		if depth > 4 && lo == 0 {
			n = 0
		}
		sl := reflect.MakeSlice(t, n, n)
		for i := 0; i < n; i++ {
			et := elemTag
			if !ts.dive {
				et = ""
			}
			if t.Elem().Kind() == reflect.String && et == "" {
				et = "required"
			}
			fill(sl.Index(i), et, rng, mode, depth+1)
			if ts.unique && t.Elem().Kind() == reflect.String {
				sl.Index(i).SetString(sl.Index(i).String() + strconv.Itoa(i))
			}
		}
		v.Set(sl)
	case reflect.Struct:
		for i := 0; i < t.NumField(); i++ {
			f := t.Field(i)
			if f.PkgPath != "" {
				continue
			}
			fill(v.Field(i), f.Tag.Get("validate"), rng, mode, depth+1)
		}
	}
}

type wrap struct {
	P interface{} `validate:"required"`
}

// ValidValue builds a pointer to a value of struct type t that the library's validator accepts.
// mode: 0 only mandatory fields, 1 everything with boundary lengths, 2 random subsets.
func ValidValueMode(t reflect.Type, rng *rand.Rand, mode int) (reflect.Value, bool) {
	for try := 0; try < 12; try++ {
		v := reflect.New(t)
		fill(v.Elem(), "required", rng, mode, 0)
		if ocppj.Validate.Struct(wrap{v.Interface()}) == nil {
			return v, true
		}
		if mode == 1 && try > 5 {
			mode = 2
		}
	}
	return reflect.Value{}, false
}

func ValidValue(t reflect.Type, rng *rand.Rand) (reflect.Value, bool) {
	return ValidValueMode(t, rng, 2)
}
