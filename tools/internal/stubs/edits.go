package stubs

import (
	"fmt"
	"math/rand"
	"reflect"
	"strings"
)

// Edited is a payload that differs from a valid one by one constraint violation or boundary move.
type Edited struct {
	Val  reflect.Value // pointer to struct
	Path string
	Edit string
}

type leaf struct {
	v    reflect.Value
	tag  string
	path string
}

func collect(v reflect.Value, tag, path string, depth int, out *[]leaf) {
	t := v.Type()
	if t == dt16 || t == dt2 {
		return
	}
	switch t.Kind() {
	case reflect.Ptr:
		*out = append(*out, leaf{v, tag, path})
		if !v.IsNil() {
			if t.Elem().Kind() == reflect.Struct && t.Elem() != dt16 && t.Elem() != dt2 {
				collectStruct(v.Elem(), path, depth, out)
			}
		}
	case reflect.Struct:
		collectStruct(v, path, depth, out)
	case reflect.Slice:
		*out = append(*out, leaf{v, tag, path})
		_, elemTag := parseTags(tag)
		for i := 0; i < v.Len() && i < 2; i++ {
			collect(v.Index(i), elemTag, fmt.Sprintf("%s[%d]", path, i), depth+1, out)
		}
	default:
		*out = append(*out, leaf{v, tag, path})
	}
}

func collectStruct(v reflect.Value, path string, depth int, out *[]leaf) {
	t := v.Type()
	for i := 0; i < t.NumField(); i++ {
		f := t.Field(i)
		if f.PkgPath != "" {
			continue
		}
		collect(v.Field(i), f.Tag.Get("validate"), path+"."+f.Name, depth+1, out)
	}
}

// applyEdits returns the edits applicable to one leaf: functions that modify it in place.
func leafEdits(l leaf) []struct {
	name string
	do   func(v reflect.Value)
} {
	type ed = struct {
		name string
		do   func(v reflect.Value)
	}
	var eds []ed
	ts, _ := parseTags(l.tag)
	t := l.v.Type()
	bounds := func() []float64 {
		var b []float64
		for _, p := range []*float64{ts.min, ts.max, ts.gte, ts.lte, ts.gt, ts.lt, ts.eq} {
			if p != nil {
				b = append(b, *p-1, *p, *p+1)
			}
		}
		return b
	}
	switch t.Kind() {
	case reflect.Ptr:
		eds = append(eds, ed{"nil", func(v reflect.Value) { v.Set(reflect.Zero(v.Type())) }})
		if t.Elem().Kind() == reflect.Int || t.Elem().Kind() == reflect.Float64 || t.Elem().Kind() == reflect.String || t.Elem().Kind() == reflect.Bool {
			eds = append(eds, ed{"ptr-to-zero", func(v reflect.Value) { v.Set(reflect.New(v.Type().Elem())) }})
			for _, b := range bounds() {
				b := b
				eds = append(eds, ed{fmt.Sprintf("ptr-bound=%v", b), func(v reflect.Value) {
					nv := reflect.New(v.Type().Elem())
					switch nv.Elem().Kind() {
					case reflect.Int:
						nv.Elem().SetInt(int64(b))
					case reflect.Float64:
						nv.Elem().SetFloat(b)
					case reflect.String:
						if b >= 0 && b < 5000 {
							nv.Elem().SetString(strings.Repeat("x", int(b)))
						}
					}
					v.Set(nv)
				}})
			}
		}
	case reflect.String:
		eds = append(eds, ed{"empty", func(v reflect.Value) { v.SetString("") }})
		if ts.enum != "" {
			eds = append(eds, ed{"undeclared-enum", func(v reflect.Value) { v.SetString("Bogus" + v.String()) }})
			eds = append(eds, ed{"enum-case", func(v reflect.Value) { v.SetString(strings.ToLower(v.String())) }})
		}
		for _, b := range bounds() {
			b := b
			if b >= 0 && b < 5000 {
				eds = append(eds, ed{fmt.Sprintf("len=%v", b), func(v reflect.Value) { v.SetString(strings.Repeat("é", int(b))) }})
			}
		}
		if ts.uri {
			eds = append(eds, ed{"bad-uri", func(v reflect.Value) { v.SetString("no scheme") }})
		}
	case reflect.Int, reflect.Int64, reflect.Int32:
		eds = append(eds, ed{"zero", func(v reflect.Value) { v.SetInt(0) }})
		eds = append(eds, ed{"minus-one", func(v reflect.Value) { v.SetInt(-1) }})
		for _, b := range bounds() {
			b := b
			eds = append(eds, ed{fmt.Sprintf("int=%v", b), func(v reflect.Value) { v.SetInt(int64(b)) }})
		}
	case reflect.Float64:
		eds = append(eds, ed{"zero", func(v reflect.Value) { v.SetFloat(0) }})
		eds = append(eds, ed{"minus", func(v reflect.Value) { v.SetFloat(-0.5) }})
		for _, b := range bounds() {
			b := b
			eds = append(eds, ed{fmt.Sprintf("float=%v", b), func(v reflect.Value) { v.SetFloat(b) }})
		}
	case reflect.Bool:
		eds = append(eds, ed{"false", func(v reflect.Value) { v.SetBool(false) }})
		eds = append(eds, ed{"true", func(v reflect.Value) { v.SetBool(true) }})
	case reflect.Interface:
		eds = append(eds, ed{"nil", func(v reflect.Value) { v.Set(reflect.Zero(v.Type())) }})
	case reflect.Slice:
		eds = append(eds, ed{"nil-slice", func(v reflect.Value) { v.Set(reflect.Zero(v.Type())) }})
		eds = append(eds, ed{"empty-slice", func(v reflect.Value) { v.Set(reflect.MakeSlice(v.Type(), 0, 0)) }})
		for _, b := range bounds() {
			b := b
			if b >= 0 && b <= 1100 && l.v.Len() > 0 {
				eds = append(eds, ed{fmt.Sprintf("count=%v", b), func(v reflect.Value) {
					n := int(b)
					sl := reflect.MakeSlice(v.Type(), n, n)
					for i := 0; i < n; i++ {
						sl.Index(i).Set(v.Index(0))
					}
					v.Set(sl)
				}})
			}
		}
		if ts.unique && l.v.Len() > 0 {
			eds = append(eds, ed{"duplicate", func(v reflect.Value) {
				sl := reflect.MakeSlice(v.Type(), 2, 2)
				sl.Index(0).Set(v.Index(0))
				sl.Index(1).Set(v.Index(0))
				v.Set(sl)
			}})
		}
		if t.Elem().Kind() == reflect.Struct && l.v.Len() > 0 {
			eds = append(eds, ed{"zero-element", func(v reflect.Value) {
				sl := reflect.MakeSlice(v.Type(), 1, 1)
				v.Set(sl)
			}})
		}
	}
	return eds
}

// EnumerateEdits: the base value (generated from seed, mode) and every single edit of every leaf.
func EnumerateEdits(t reflect.Type, seed int64, mode int) []Edited {
	build := func() (reflect.Value, bool) { return ValidValueMode(t, rand.New(rand.NewSource(seed)), mode) }
	base, ok := build()
	if !ok {
		return nil
	}
	out := []Edited{{base, "", "valid"}}
	var leaves []leaf
	collectStruct(base.Elem(), "", 0, &leaves)
	for li := range leaves {
		n := len(leafEdits(leaves[li]))
		for ei := 0; ei < n; ei++ {
			v, ok := build()
			if !ok {
				continue
			}
			var ls []leaf
			collectStruct(v.Elem(), "", 0, &ls)
			if li >= len(ls) {
				continue
			}
			eds := leafEdits(ls[li])
			if ei >= len(eds) {
				continue
			}
			eds[ei].do(ls[li].v)
			out = append(out, Edited{v, ls[li].path, eds[ei].name})
		}
	}
	return out
}

// EnumVariants: a valid base payload with each enum-tagged leaf set, in turn, to every declared constant of its type.
func EnumVariants(t reflect.Type, seed int64) []Edited {
	build := func() (reflect.Value, bool) { return ValidValueMode(t, rand.New(rand.NewSource(seed)), 1) }
	base, ok := build()
	if !ok {
		return nil
	}
	var out []Edited
	var leaves []leaf
	collectStruct(base.Elem(), "", 0, &leaves)
	for li, l := range leaves {
		ts, _ := parseTags(l.tag)
		if ts.enum == "" || l.v.Kind() != reflect.String {
			continue
		}
		for _, val := range enumDeclaredByTag[ts.enum] {
			v, ok := build()
			if !ok {
				continue
			}
			var ls []leaf
			collectStruct(v.Elem(), "", 0, &ls)
			if li >= len(ls) || ls[li].v.Kind() != reflect.String {
				continue
			}
			ls[li].v.SetString(val)
			out = append(out, Edited{v, ls[li].path, "enum=" + val})
		}
	}
	return out
}
