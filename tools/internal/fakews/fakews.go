// Package fakews holds in-process implementations of ws.Client and ws.Server.
// They play the network for the OCPP-J layer: the harness decides what
// arrives, when the connection drops, and whether a write succeeds; every
// frame handed to Write is recorded.
package fakews

import (
	"crypto/tls"
	"errors"
	"net"
	"net/http"
	"sync"

	"github.com/gorilla/websocket"
	"github.com/lorenzodonini/ocpp-go/ws"
)

// ---------------------------------------------------------------- client

type Client struct {
	OnWrite   func(data []byte)
	mu        sync.Mutex
	connected bool
	FailWrite bool
	FailStart bool
	Written   [][]byte
	msgH      func(data []byte) error
	discH     func(err error)
	reconH    func()
	Starts    int
}

func NewClient() *Client { return &Client{} }

func (c *Client) Start(url string) error {
	c.mu.Lock()
	defer c.mu.Unlock()
	c.Starts++
	if c.FailStart {
		return errors.New("fakews: dial refused")
	}
	c.connected = true
	return nil
}
func (c *Client) StartWithRetries(url string) { _ = c.Start(url) }

// Stop closes the connection; like the real client the disconnected handler
// installed at that time is called (with a nil error) from another goroutine.
func (c *Client) Stop() {
	c.mu.Lock()
	was := c.connected
	c.connected = false
	h := c.discH
	c.mu.Unlock()
	if was && h != nil {
		go h(nil)
	}
}
func (c *Client) Errors() <-chan error                           { return nil }
func (c *Client) SetMessageHandler(h func(data []byte) error)    { c.mu.Lock(); c.msgH = h; c.mu.Unlock() }
func (c *Client) SetTimeoutConfig(config ws.ClientTimeoutConfig) {}
func (c *Client) SetDisconnectedHandler(h func(err error))       { c.mu.Lock(); c.discH = h; c.mu.Unlock() }
func (c *Client) SetReconnectedHandler(h func())                 { c.mu.Lock(); c.reconH = h; c.mu.Unlock() }
func (c *Client) IsConnected() bool                              { c.mu.Lock(); defer c.mu.Unlock(); return c.connected }
func (c *Client) AddOption(option interface{})                   {}
func (c *Client) SetRequestedSubProtocol(subProto string)        {}
func (c *Client) SetBasicAuth(username string, password string)  {}
func (c *Client) SetHeaderValue(key string, value string)        {}
func (c *Client) Write(data []byte) error {
	if c.OnWrite != nil {
		c.OnWrite(data)
	}
	c.mu.Lock()
	defer c.mu.Unlock()
	c.Written = append(c.Written, append([]byte(nil), data...))
	if !c.connected {
		return errors.New("fakews: client is currently not connected, cannot send data")
	}
	if c.FailWrite {
		return errors.New("fakews: write refused")
	}
	return nil
}

// Inject delivers one frame to the message handler (the caller plays the read pump).
func (c *Client) Inject(data []byte) error {
	c.mu.Lock()
	h := c.msgH
	c.mu.Unlock()
	if h == nil {
		return errors.New("no handler")
	}
	return h(data)
}

// Drop loses the connection: the disconnected handler runs in the caller.
func (c *Client) Drop() bool {
	c.mu.Lock()
	was := c.connected
	c.connected = false
	h := c.discH
	c.mu.Unlock()
	if was && h != nil {
		h(errors.New("fakews: connection lost"))
	}
	return was
}

// Reconnect re-establishes the connection: the reconnected handler runs in the caller.
func (c *Client) Reconnect() bool {
	c.mu.Lock()
	was := c.connected
	c.connected = true
	h := c.reconH
	c.mu.Unlock()
	if !was && h != nil {
		h()
	}
	return !was
}

// SetConnected changes what IsConnected / Write see without running any handler.
func (c *Client) SetConnected(b bool) { c.mu.Lock(); c.connected = b; c.mu.Unlock() }

// CountWritten reports how many recorded frames satisfy f, without consuming them.
func (c *Client) CountWritten(f func(data []byte) bool) int {
	c.mu.Lock()
	defer c.mu.Unlock()
	n := 0
	for _, w := range c.Written {
		if f(w) {
			n++
		}
	}
	return n
}

func (c *Client) TakeWritten() [][]byte {
	c.mu.Lock()
	defer c.mu.Unlock()
	w := c.Written
	c.Written = nil
	return w
}

// ---------------------------------------------------------------- server

type Channel struct {
	Id   string
	Live bool
}

func (c *Channel) ID() string                               { return c.Id }
func (c *Channel) RemoteAddr() net.Addr                     { return &net.TCPAddr{IP: net.IPv4(127, 0, 0, 1), Port: 1} }
func (c *Channel) TLSConnectionState() *tls.ConnectionState { return nil }
func (c *Channel) IsConnected() bool                        { return c.Live }

type Frame struct {
	To   string
	Data []byte
}

type Server struct {
	OnWrite   func(to string, data []byte)
	mu        sync.Mutex
	conns     map[string]*Channel
	FailWrite map[string]bool
	Written   []Frame
	msgH      ws.MessageHandler
	newH      ws.ConnectedHandler
	discH     func(ws.Channel)
	running   bool
	stopC     chan struct{}
}

func NewServer() *Server {
	return &Server{conns: map[string]*Channel{}, FailWrite: map[string]bool{}}
}

// Start blocks until Stop, like the real server.
func (s *Server) Start(port int, listenPath string) {
	s.mu.Lock()
	s.running = true
	s.stopC = make(chan struct{})
	c := s.stopC
	s.mu.Unlock()
	<-c
}
func (s *Server) Stop() {
	s.mu.Lock()
	if s.running {
		s.running = false
		close(s.stopC)
	}
	var chs []*Channel
	for id, ch := range s.conns {
		chs = append(chs, ch)
		delete(s.conns, id)
	}
	h := s.discH
	s.mu.Unlock()
	for _, ch := range chs {
		ch.Live = false
		if h != nil {
			h(ch)
		}
	}
}
func (s *Server) StopConnection(id string, closeError websocket.CloseError) error {
	s.Disconnect(id)
	return nil
}
func (s *Server) Errors() <-chan error                      { return nil }
func (s *Server) SetMessageHandler(h ws.MessageHandler)     { s.mu.Lock(); s.msgH = h; s.mu.Unlock() }
func (s *Server) SetNewClientHandler(h ws.ConnectedHandler) { s.mu.Lock(); s.newH = h; s.mu.Unlock() }
func (s *Server) SetDisconnectedClientHandler(h func(ws ws.Channel)) {
	s.mu.Lock()
	s.discH = h
	s.mu.Unlock()
}
func (s *Server) SetTimeoutConfig(config ws.ServerTimeoutConfig)                          {}
func (s *Server) AddSupportedSubprotocol(subProto string)                                 {}
func (s *Server) SetBasicAuthHandler(handler func(username string, password string) bool) {}
func (s *Server) SetCheckOriginHandler(handler func(r *http.Request) bool)                {}
func (s *Server) SetCheckClientHandler(handler ws.CheckClientHandler)                     {}
func (s *Server) Addr() *net.TCPAddr                                                      { return nil }
func (s *Server) GetChannel(id string) (ws.Channel, bool) {
	s.mu.Lock()
	defer s.mu.Unlock()
	c, ok := s.conns[id]
	if !ok {
		return nil, false
	}
	return c, true
}
func (s *Server) Write(id string, data []byte) error {
	if s.OnWrite != nil {
		s.OnWrite(id, data)
	}
	s.mu.Lock()
	defer s.mu.Unlock()
	s.Written = append(s.Written, Frame{id, append([]byte(nil), data...)})
	if _, ok := s.conns[id]; !ok {
		return errors.New("fakews: couldn't write to websocket. No socket with id " + id + " is open")
	}
	if s.FailWrite[id] {
		return errors.New("fakews: write refused")
	}
	return nil
}

// Connect registers a client and runs the new-client handler in the caller.
func (s *Server) Connect(id string) bool {
	s.mu.Lock()
	if _, ok := s.conns[id]; ok {
		s.mu.Unlock()
		return false
	}
	ch := &Channel{Id: id, Live: true}
	s.conns[id] = ch
	h := s.newH
	s.mu.Unlock()
	if h != nil {
		h(ch)
	}
	return true
}

// Disconnect removes a client and runs the disconnected handler in the caller.
func (s *Server) Disconnect(id string) bool {
	s.mu.Lock()
	ch, ok := s.conns[id]
	if ok {
		delete(s.conns, id)
	}
	h := s.discH
	s.mu.Unlock()
	if !ok {
		return false
	}
	ch.Live = false
	if h != nil {
		h(ch)
	}
	return true
}

// Inject delivers one frame from client id to the message handler (caller = that connection's read pump).
func (s *Server) Inject(id string, data []byte) error {
	s.mu.Lock()
	ch, ok := s.conns[id]
	h := s.msgH
	s.mu.Unlock()
	if !ok || h == nil {
		return errors.New("no such connection")
	}
	return h(ch, data)
}

// CountWritten reports how many recorded frames satisfy f, without consuming them.
func (s *Server) CountWritten(f func(to string, data []byte) bool) int {
	s.mu.Lock()
	defer s.mu.Unlock()
	n := 0
	for _, w := range s.Written {
		if f(w.To, w.Data) {
			n++
		}
	}
	return n
}

func (s *Server) TakeWritten() []Frame {
	s.mu.Lock()
	defer s.mu.Unlock()
	w := s.Written
	s.Written = nil
	return w
}

func (s *Server) SetFail(id string, fail bool) {
	s.mu.Lock()
	defer s.mu.Unlock()
	s.FailWrite[id] = fail
}

func (s *Server) Running() bool {
	s.mu.Lock()
	defer s.mu.Unlock()
	return s.running
}
