// Package sched gives the harness a notion of quiescence of the library under
// test without instrumenting it: the process is quiescent when every goroutine
// other than the caller is parked (channel operation, select, lock, sleep).
package sched

import (
	"bytes"
	"runtime"
	"time"
)

// Slow multiplies every grace period (used when a disagreement is re-checked).
var Slow = 1

var buf = make([]byte, 1<<20)

// parked reports whether all goroutines except the calling one are blocked,
// and how many there are.
func parked() (bool, int) {
	n := runtime.Stack(buf, true)
	data := buf[:n]
	first := true
	count := 0
	for len(data) > 0 {
		i := bytes.IndexByte(data, '\n')
		var line []byte
		if i < 0 {
			line, data = data, nil
		} else {
			line, data = data[:i], data[i+1:]
		}
		if !bytes.HasPrefix(line, []byte("goroutine ")) {
			continue
		}
		if first { // the caller itself
			first = false
			continue
		}
		count++
		j := bytes.IndexByte(line, '[')
		k := bytes.IndexByte(line, ']')
		if j < 0 || k < j {
			return false, count
		}
		st := line[j+1 : k]
		if c := bytes.IndexByte(st, ','); c >= 0 {
			st = st[:c]
		}
		switch string(st) {
		case "chan receive", "chan send", "select", "sleep", "semacquire", "sync.Mutex.Lock", "sync.RWMutex.RLock",
			"sync.RWMutex.Lock", "sync.Cond.Wait", "IO wait", "select (no cases)", "chan receive (nil chan)",
			"chan send (nil chan)", "sync.WaitGroup.Wait", "finalizer wait", "GC worker (idle)", "force gc (idle)",
			"GC sweep wait", "GC scavenge wait":
		default:
			return false, count
		}
	}
	return true, count
}

// Settle waits until the rest of the process has been parked for a few
// consecutive observations. It returns false when that does not happen within
// the watchdog period (something keeps running).
func Settle() bool {
	deadline := time.Now().Add(5 * time.Second)
	stable := 0
	need := 3 * Slow
	for time.Now().Before(deadline) {
		if ok, _ := parked(); ok {
			stable++
			if stable >= need {
				return true
			}
		} else {
			stable = 0
		}
		runtime.Gosched()
		if Slow > 1 {
			time.Sleep(200 * time.Microsecond)
		}
	}
	return false
}

// Grace lets asynchronous runtime events that no goroutine is waiting to
// produce (an expiring timer) happen before Settle is consulted.
func Grace() {
	for i := 0; i < 3; i++ {
		time.Sleep(time.Duration(Slow) * 700 * time.Microsecond)
		Settle()
	}
}

// Call runs f in its own goroutine and waits until it has returned or the
// whole process is parked with f still inside (f is blocked). It reports
// whether f returned.
func Call(f func()) bool {
	done := make(chan struct{})
	go func() {
		defer close(done)
		f()
	}()
	for i := 0; ; i++ {
		select {
		case <-done:
			return true
		default:
		}
		if !Settle() {
			continue
		}
		select {
		case <-done:
			return true
		default:
			return false
		}
	}
}
