// Package profiles lists the profiles of both protocol versions (the lists the four constructors use).
package profiles

import (
	"github.com/lorenzodonini/ocpp-go/ocpp"
	c16 "github.com/lorenzodonini/ocpp-go/ocpp1.6/certificates"
	core16 "github.com/lorenzodonini/ocpp-go/ocpp1.6/core"
	etm16 "github.com/lorenzodonini/ocpp-go/ocpp1.6/extendedtriggermessage"
	fw16 "github.com/lorenzodonini/ocpp-go/ocpp1.6/firmware"
	la16 "github.com/lorenzodonini/ocpp-go/ocpp1.6/localauth"
	log16 "github.com/lorenzodonini/ocpp-go/ocpp1.6/logging"
	rt16 "github.com/lorenzodonini/ocpp-go/ocpp1.6/remotetrigger"
	res16 "github.com/lorenzodonini/ocpp-go/ocpp1.6/reservation"
	sfw16 "github.com/lorenzodonini/ocpp-go/ocpp1.6/securefirmware"
	sec16 "github.com/lorenzodonini/ocpp-go/ocpp1.6/security"
	sc16 "github.com/lorenzodonini/ocpp-go/ocpp1.6/smartcharging"
	"github.com/lorenzodonini/ocpp-go/ocpp2.0.1/authorization"
	"github.com/lorenzodonini/ocpp-go/ocpp2.0.1/availability"
	"github.com/lorenzodonini/ocpp-go/ocpp2.0.1/data"
	"github.com/lorenzodonini/ocpp-go/ocpp2.0.1/diagnostics"
	"github.com/lorenzodonini/ocpp-go/ocpp2.0.1/display"
	"github.com/lorenzodonini/ocpp-go/ocpp2.0.1/firmware"
	"github.com/lorenzodonini/ocpp-go/ocpp2.0.1/iso15118"
	"github.com/lorenzodonini/ocpp-go/ocpp2.0.1/localauth"
	"github.com/lorenzodonini/ocpp-go/ocpp2.0.1/meter"
	"github.com/lorenzodonini/ocpp-go/ocpp2.0.1/provisioning"
	"github.com/lorenzodonini/ocpp-go/ocpp2.0.1/remotecontrol"
	"github.com/lorenzodonini/ocpp-go/ocpp2.0.1/reservation"
	"github.com/lorenzodonini/ocpp-go/ocpp2.0.1/security"
	"github.com/lorenzodonini/ocpp-go/ocpp2.0.1/smartcharging"
	"github.com/lorenzodonini/ocpp-go/ocpp2.0.1/tariffcost"
	"github.com/lorenzodonini/ocpp-go/ocpp2.0.1/transactions"
)

func V16() []*ocpp.Profile {
	return []*ocpp.Profile{core16.Profile, la16.Profile, fw16.Profile, res16.Profile, rt16.Profile, sc16.Profile, log16.Profile,
		sec16.Profile, etm16.Profile, c16.Profile, sfw16.Profile}
}

func V201() []*ocpp.Profile {
	return []*ocpp.Profile{authorization.Profile, availability.Profile, data.Profile, diagnostics.Profile, display.Profile,
		firmware.Profile, iso15118.Profile, localauth.Profile, meter.Profile, provisioning.Profile, remotecontrol.Profile,
		reservation.Profile, security.Profile, smartcharging.Profile, tariffcost.Profile, transactions.Profile}
}
