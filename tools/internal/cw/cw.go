// Package cw writes correspondence cases: one line of integers per case for
// the model (cases.in) and one line of integers with what the implementation
// did (impl.out).
package cw

import (
	"bufio"
	"fmt"
	"os"
	"path/filepath"
	"strconv"
	"strings"
)

type Writer struct {
	in, out *bufio.Writer
	fi, fo  *os.File
	N       int
	Hist    map[string]int // input distribution, by class label
}

func New(dir, name string) *Writer {
	_ = os.MkdirAll(dir, 0o755)
	fi, err := os.Create(filepath.Join(dir, name+".cases.in"))
	if err != nil {
		panic(err)
	}
	fo, err := os.Create(filepath.Join(dir, name+".impl.out"))
	if err != nil {
		panic(err)
	}
	return &Writer{in: bufio.NewWriterSize(fi, 1<<20), out: bufio.NewWriterSize(fo, 1<<20), fi: fi, fo: fo, Hist: map[string]int{}}
}

func ints(xs []int64) string {
	var sb strings.Builder
	for i, x := range xs {
		if i > 0 {
			sb.WriteByte(' ')
		}
		sb.WriteString(strconv.FormatInt(x, 10))
	}
	return sb.String()
}

// Add records one case. class is a short label for the input distribution;
// comment is a human readable rendering of the input.
func (w *Writer) Add(class string, input []int64, observed []int64, comment string) {
	w.N++
	w.Hist[class]++
	comment = strings.ReplaceAll(comment, "\n", "\\n")
	fmt.Fprintf(w.in, "%s # %s | %s\n", ints(input), class, comment)
	fmt.Fprintf(w.out, "%s\n", ints(observed))
}

func (w *Writer) Close() {
	w.in.Flush()
	w.out.Flush()
	w.fi.Close()
	w.fo.Close()
}

func Bytes(b []byte) []int64 {
	r := make([]int64, len(b))
	for i, c := range b {
		r[i] = int64(c)
	}
	return r
}

// LP = length-prefixed byte string
func LP(b []byte) []int64 {
	return append([]int64{int64(len(b))}, Bytes(b)...)
}
