module verif/tools

go 1.16

require (
	github.com/gorilla/websocket v1.5.3
	github.com/lorenzodonini/ocpp-go v0.0.0
	gopkg.in/go-playground/validator.v9 v9.30.0
)

replace github.com/lorenzodonini/ocpp-go => /repo
