(** Extraction of the executable models for the correspondence check.
    Directives used: those of ExtrOcamlBasic only (bool, option, unit, list,
    prod, sumbool, sumor); Z / positive / nat stay inductive; no Extract Constant. *)
From Coq Require Import Extraction ExtrOcamlBasic.
From Verif Require Import M2.DateTime M1.Containers M1.Client M1.Server M1.Timed M2.TableEntry M2.ValEntry M2.JsonEntry M3.Admission M3.Registry M3.Conn M3.Reconnect.
Extraction Language OCaml.
Extraction "model.ml" c20_entry c12_entry c12_lin_entry m1c_entry m1c_h_entry m1c_fresh_entry m1s_entry c08rt_entry c18_entry c18s_entry c03_entry c05v_entry c05e_entry c05vs_entry c05es_entry c05t_entry c04e_entry c04d_entry c04s_entry c06_entry c14_entry c13_entry c15_entry c17_entry.
