(** Extraction of the executable models for the correspondence check.
    Directives used: those of ExtrOcamlBasic only (bool, option, unit, list,
    prod, sumbool, sumor, comparison-free); Z / positive / nat stay inductive. *)
From Coq Require Import Extraction ExtrOcamlBasic.
From Verif Require Import M2.DateTime.
Extraction Language OCaml.
Extraction "model.ml" c20_entry.
