(** C17 -- Websocket client reconnects until stopped; dead peers are detected. *)
From Coq Require Import List Bool ZArith.
Import ListNotations.
From Verif Require Import Base.Prelude M3.Reconnect.

(** any number of consecutive failed retries: the loop goes on (it has no exit but success or the abort signal of Stop) *)
Theorem C17_retries_forever : forall n s k d rnds, ph s = Waiting k d -> token s = false -> length rnds = n ->
  exists d', ph (rcrun (map LDialFail rnds) s) = Waiting (k + Z.of_nat n) d' /\ token (rcrun (map LDialFail rnds) s) = false.
Proof. exact retries_forever_n. Qed.
Print Assumptions C17_retries_forever.

(** with back-off: doubled (plus at most the random range) for the first [repeat] attempts, constant afterwards *)
Theorem C17_backoff : forall s k d rnd, ph s = Waiting k d -> token s = false -> 0 <= wrange s ->
  exists d', ph (rcstep (LDialFail rnd) s) = Waiting (k + 1) d' /\
             (k < wrepeat s -> 2 * d <= d' <= 2 * d + wrange s) /\ (wrepeat s <= k -> d' = d).
Proof. exact backoff_step. Qed.
Print Assumptions C17_backoff.

(** including clients that were stopped and started again earlier: Start leaves no stale abort signal (repaired defect F7) *)
Theorem C17_restarted_client_reconnects : forall s, ph s = Idle ->
  ph (rcstep LStart s) = Up /\ token (rcstep LStart s) = false /\ ph (rcstep LLose (rcstep LStart s)) = Waiting 1 (wmin s).
Proof. exact start_is_fresh. Qed.
Print Assumptions C17_restarted_client_reconnects.

(** after Stop it never reconnects: once idle, only Start connects again; a Stop during the reconnection ends the loop
    when the dial in flight fails ... *)
Theorem C17_idle_stays_idle : forall s l, ph s = Idle -> l <> LStart -> ph (rcstep l s) = Idle.
Proof. exact idle_stays_idle. Qed.
Print Assumptions C17_idle_stays_idle.

Theorem C17_stop_while_dialing_then_fail : forall s k d rnd, ph s = Waiting k d -> token s = false ->
  ph (rcstep (LDialFail rnd) (rcstep LStop s)) = Idle.
Proof. exact stop_while_dialing_then_fail. Qed.
Print Assumptions C17_stop_while_dialing_then_fail.

(** ... and when it succeeds the fresh connection is dropped without any notification (since the repair of F26) *)
Theorem C17_stop_while_dialing_then_ok : forall s k d, ph s = Waiting k d ->
  ph (rcstep LDialOk (rcstep LStop s)) = Idle /\
  htr (rcstep LDialOk (rcstep LStop s)) = HDial k d :: htr s.
Proof. exact stop_while_dialing_then_ok. Qed.
Print Assumptions C17_stop_while_dialing_then_ok.

(** "after Stop it never reconnects", for every sequence of losses, failing and succeeding dials and further Stops: from a
    Stop on, until the next Start, the client is never connected *)
Theorem C17_never_connected_after_stop : forall ls s, ~ In LStart ls -> ph (rcrun ls (rcstep LStop s)) <> Up.
Proof. exact never_connected_after_stop. Qed.
Print Assumptions C17_never_connected_after_stop.

(** keep-alive bookkeeping: a peer silent for [wait] is disconnected by then; one that shows life more often never is *)
Theorem C17_dead_peer_detected : forall s dt, alive s = true -> wait s > 0 -> 0 <= tnow s -> deadline s = tnow s + wait s ->
  wait s <= dt -> alive (kastep (KTime dt) s) = false.
Proof. exact dead_peer_detected. Qed.
Print Assumptions C17_dead_peer_detected.

Theorem C17_healthy_stays_connected : forall s dt, alive s = true -> 0 <= tnow s -> deadline s = tnow s + wait s -> 0 <= dt < wait s ->
  alive (kastep KActivity (kastep (KTime dt) s)) = true /\
  deadline (kastep KActivity (kastep (KTime dt) s)) = tnow (kastep KActivity (kastep (KTime dt) s)) + wait s.
Proof. exact healthy_stays. Qed.
Print Assumptions C17_healthy_stays_connected.
