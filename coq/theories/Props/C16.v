(** C16 -- Stop terminates cleanly at any moment and a restart starts fresh. *)
From Verif Require Import Base.Prelude M1.Client M1.ClientProofs.

(** Client endpoint, class S0: after Stop has run to its end the endpoint holds no queued call, no
    outstanding request, no callback and no half-closed channel: a restart starts from the state of a
    fresh endpoint (the repaired defects F4, F4b and F11 were exactly violations of this). *)
Theorem C16_client_stopped_is_clean : forall c t ls, Forall wf_lab ls -> run_ok ls (init c t) = true ->
  let s := run ls (init c t) in
  started s = false -> stopSig s = false -> pend s = 0 /\ q s = [] /\ cbq s = [] /\ closing s = false.
Proof. exact stopped_is_clean_S0. Qed.
Print Assumptions C16_client_stopped_is_clean.

(** no callback and no panic after or because of Stop: every callback ever delivered got its own conclusion *)
Theorem C16_client_no_stray_callback : forall c t ls, Forall wf_lab ls -> run_ok ls (init c t) = true ->
  Forall own (tr (run ls (init c t))).
Proof. exact own_caller_S0. Qed.
Print Assumptions C16_client_no_stray_callback.

(** the pump goroutine is never left blocked *)
Theorem C16_client_pump_not_stuck : forall c t ls, Forall wf_lab ls -> run_ok ls (init c t) = true ->
  pumpStuck (run ls (init c t)) = false.
Proof. exact pump_never_stuck_S0. Qed.
Print Assumptions C16_client_pump_not_stuck.

(** Restart: for every S0 history that ends stopped, Start yields the state Start yields on a new endpoint of the same
    capacity and timeout, up to what the environment owns (history, clock, network condition): no stale outstanding
    request, queued call, callback, wake-up token or travelling conclusion (the last two since the repairs F31 / F32). *)
Theorem C16_client_restart_state_fresh : forall c t ls, Forall wf_lab ls -> run_ok ls (init c t) = true ->
  let s := run ls (init c t) in
  started s = false -> stopSig s = false ->
  same_modulo_env (step Start s) (step Start (init (cap s) (timeout s))).
Proof. exact restart_fresh_S0. Qed.
Print Assumptions C16_client_restart_state_fresh.

(** its premises are met by a concrete non-trivial stopped state *)
Example C16_restart_premises_met :
  let s := qrun [Start; Send 1 true; Send 2 true; Reply 1 0; Stop] (init 2 0) in
  started s = false /\ stopSig s = false /\ List.length (tr s) = 9%nat.
Proof. vm_compute. repeat split; reflexivity. Qed.
