(** C16 -- Stop terminates cleanly at any moment and a restart starts fresh. *)
From Verif Require Import Base.Prelude M1.Client M1.ClientProofs M1.ClientOwn.

(** Client endpoint, class S0: after Stop has run to its end the endpoint holds no queued call, no
    outstanding request, no callback and no half-closed channel: a restart starts from the state of a
    fresh endpoint (the repaired defects F4, F4b and F11 were exactly violations of this). *)
Theorem C16_client_stopped_is_clean : forall c t ls, Forall wf_lab ls -> run_ok ls (init c t) = true ->
  let s := run ls (init c t) in
  started s = false -> stopSig s = false -> pend s = 0 /\ q s = [] /\ cbq s = [] /\ closing s = false.
Proof. exact stopped_is_clean_S0. Qed.
Print Assumptions C16_client_stopped_is_clean.

(** no callback and no panic after or because of Stop: every callback ever delivered got its own conclusion *)
Theorem C16_client_no_stray_callback : forall c t ls, Forall wf_lab ls -> run_ok ls (init c t) = true ->
  Forall own (tr (run ls (init c t))).
Proof. exact own_caller_S0. Qed.
Print Assumptions C16_client_no_stray_callback.

(** the pump goroutine is never left blocked *)
Theorem C16_client_pump_not_stuck : forall c t ls, Forall wf_lab ls -> run_ok ls (init c t) = true ->
  pumpStuck (run ls (init c t)) = false.
Proof. exact pump_never_stuck_S0. Qed.
Print Assumptions C16_client_pump_not_stuck.

(** Restart: for every S0 history that ends stopped, Start yields the state Start yields on a new endpoint of the same
    capacity and timeout, up to what the environment owns (history, clock, network condition): no stale outstanding
    request, queued call, callback, wake-up token or travelling conclusion (the last two since the repairs F31 / F32). *)
Theorem C16_client_restart_state_fresh : forall c t ls, Forall wf_lab ls -> run_ok ls (init c t) = true ->
  let s := run ls (init c t) in
  started s = false -> stopSig s = false ->
  same_modulo_env (step Start s) (step Start (init (cap s) (timeout s))).
Proof. exact restart_fresh_S0. Qed.
Print Assumptions C16_client_restart_state_fresh.

(** its premises are met by a concrete non-trivial stopped state *)
Example C16_restart_premises_met :
  let s := qrun [Start; Send 1 true; Send 2 true; Reply 1 0; Stop] (init 2 0) in
  started s = false /\ stopSig s = false /\ List.length (tr s) = 9%nat.
Proof. vm_compute. repeat split; reflexivity. Qed.

(** EVERY schedule (not only S0): callbacks do not outlive their session, a stopped endpoint holds no queued request *)
Theorem C16_client_callbacks_die_with_their_session : forall c t ls, Forall wf_lab ls ->
  let s := run ls (init c t) in (started s = false \/ closing s = true -> cbq s = []) /\ (started s = false -> q s = []).
Proof. exact callbacks_die_with_their_session_S1. Qed.
Print Assumptions C16_client_callbacks_die_with_their_session.

(** EVERY schedule: a restart, at whatever moment after Stop it comes, begins with no callback, no travelling conclusion,
    no wake-up token and an empty queue (repairs F31, F32, F35) *)
Theorem C16_client_restart_begins_empty : forall c t ls, Forall wf_lab ls ->
  let s := run ls (init c t) in started s = false ->
  let s' := step Start s in
  cbq s' = [] /\ concC s' = [] /\ q s' = [] /\ readyC s' = 0 /\ reqC s' = 0 /\ stopSig s' = false /\ handlerOn s' = true.
Proof. exact restart_begins_empty_S1. Qed.
Print Assumptions C16_client_restart_begins_empty.

(** the callback routine of a stopped session leaves without touching anything the next session uses (repair F35) *)
Theorem C16_client_handler_exit_touches_nothing : forall s,
  let s' := step DeliverStop s in
  cbq s' = cbq s /\ concC s' = concC s /\ q s' = q s /\ pend s' = pend s /\ tr s' = tr s /\ started s' = started s.
Proof. exact handler_exit_touches_nothing. Qed.
Print Assumptions C16_client_handler_exit_touches_nothing.

(** EVERY schedule: no stray callback, no panic; the pump goroutine is never left blocked *)
Theorem C16_client_no_stray_callback_any_schedule : forall c t ls, Forall wf_lab ls -> Forall own (tr (run ls (init c t))).
Proof. exact own_caller_S1. Qed.
Print Assumptions C16_client_no_stray_callback_any_schedule.

Theorem C16_client_pump_not_stuck_any_schedule : forall c t ls, Forall wf_lab ls -> pumpStuck (run ls (init c t)) = false.
Proof. exact pump_never_stuck_S1. Qed.
Print Assumptions C16_client_pump_not_stuck_any_schedule.
