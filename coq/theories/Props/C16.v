(** C16 -- Stop terminates cleanly at any moment and a restart starts fresh. *)
From Verif Require Import Base.Prelude M1.Client M1.ClientProofs.

(** Client endpoint, class S0: after Stop has run to its end the endpoint holds no queued call, no
    outstanding request, no callback and no half-closed channel: a restart starts from the state of a
    fresh endpoint (the repaired defects F4, F4b and F11 were exactly violations of this). *)
Theorem C16_client_stopped_is_clean : forall c t ls, Forall wf_lab ls -> run_ok ls (init c t) = true ->
  let s := run ls (init c t) in
  started s = false -> stopSig s = false -> pend s = 0 /\ q s = [] /\ cbq s = [] /\ closing s = false.
Proof. exact stopped_is_clean_S0. Qed.
Print Assumptions C16_client_stopped_is_clean.

(** no callback and no panic after or because of Stop: every callback ever delivered got its own conclusion *)
Theorem C16_client_no_stray_callback : forall c t ls, Forall wf_lab ls -> run_ok ls (init c t) = true ->
  Forall own (tr (run ls (init c t))).
Proof. exact own_caller_S0. Qed.
Print Assumptions C16_client_no_stray_callback.

(** the pump goroutine is never left blocked *)
Theorem C16_client_pump_not_stuck : forall c t ls, Forall wf_lab ls -> run_ok ls (init c t) = true ->
  pumpStuck (run ls (init c t)) = false.
Proof. exact pump_never_stuck_S0. Qed.
Print Assumptions C16_client_pump_not_stuck.
