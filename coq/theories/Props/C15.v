(** C15 -- Open connections deliver messages intact and in order; closed ones fail safely. *)
From Coq Require Import List Bool ZArith.
Import ListNotations.
From Verif Require Import Base.Prelude M3.Conn.

(** every schedule of any number of writers, the write pump and a close: what the peer's handler receives is a prefix of
    the messages Write accepted, each exactly once, in acceptance order (messages are opaque: content identity) *)
Theorem C15_delivered_is_prefix_of_accepted : forall ls, exists rest,
  accepted (crun ls conn0) = delivered (crun ls conn0) ++ rest.
Proof. exact delivered_prefix. Qed.
Print Assumptions C15_delivered_is_prefix_of_accepted.

(** messages from the same writer arrive in the order written *)
Theorem C15_per_writer_order : forall ls w, exists rest,
  of_writer w (accepted (crun ls conn0)) = of_writer w (delivered (crun ls conn0)) ++ rest.
Proof. exact per_writer_order. Qed.
Print Assumptions C15_per_writer_order.

(** while the connection is open nothing is lost: accepted = delivered ++ still queued *)
Theorem C15_open_nothing_lost : forall ls, copen (crun ls conn0) = true ->
  accepted (crun ls conn0) = delivered (crun ls conn0) ++ outq (crun ls conn0).
Proof. exact open_nothing_lost. Qed.
Print Assumptions C15_open_nothing_lost.

(** writing to a closed connection returns an error and has no other effect *)
Theorem C15_write_closed_errors : forall s w m, copen s = false ->
  outq (cstep (CWrite w m) s) = outq s /\ accepted (cstep (CWrite w m) s) = accepted s /\
  refused (cstep (CWrite w m) s) = refused s ++ [(w, m)].
Proof. exact write_closed_errors. Qed.
Print Assumptions C15_write_closed_errors.

(** "Closed ones fail safely" rests on one piece of lock discipline, checked on the access table regenerated from the Go
    sources on every run: the output queue, the ping, close and force-close channels are only closed while the
    websocket's mutex is held exclusively, and every send on them holds it (shared) -- so a Write either sees the
    connection gone and returns an error, or completes its send before the channels are closed; it never sends on a
    closed channel. *)
From Coq Require Import String.
From Verif Require Import M4.Access M4.AccessCheck.
Theorem C15_queue_channels_closed_under_the_lock :
  forallb (fun g => existsb (fun h => let '(f, a, m) := g in let '(f', a', m') := h in
                                      String.eqb f f' && aspect_eqb a a' && String.eqb m m') the_guards)
    [("ws.webSocket.outQueue", Content, "ws.webSocket.mutex");
     ("ws.webSocket.pingC", Content, "ws.webSocket.mutex");
     ("ws.webSocket.closeC", Content, "ws.webSocket.mutex");
     ("ws.webSocket.forceCloseC", Content, "ws.webSocket.mutex")]%string = true.
Proof. vm_compute. reflexivity. Qed.
Print Assumptions C15_queue_channels_closed_under_the_lock.
