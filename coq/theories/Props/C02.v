(** C02 -- One outstanding CALL per connection, written in acceptance order. *)
From Verif Require Import Base.Prelude M1.Client M1.ClientProofs M1.Server M1.ServerInv.

(** Client endpoint, schedule class S0 (at most one wake-up token pending for the pump; API calls,
    frames and connection callbacks are handler-atomic): the CALLs written are exactly the concluded
    ones followed by the single outstanding one, and form a prefix of the accepted sequence --
    acceptance order, every CALL written at most once, never a second CALL before the first is concluded. *)
Theorem C02_client_one_outstanding_fifo_partial : forall c t ls, Forall wf_lab ls -> run_ok ls (init c t) = true ->
  let s := run ls (init c t) in
  wrs (tr s) = conc (tr s) ++ pendl s /\ exists rest, acc (tr s) = wrs (tr s) ++ rest.
Proof. exact one_outstanding_fifo_S0. Qed.
Print Assumptions C02_client_one_outstanding_fifo_partial.

(** The hypothesis is satisfiable by a non-trivial history, and the quiescent semantics that the Go
    harness reproduces produces schedules of this class. *)
Theorem C02_client_S0_nonvacuous :
  Forall wf_lab (expand demo_labs (init 2 0)) /\
  run_ok (expand demo_labs (init 2 0)) (init 2 0) = true /\
  run (expand demo_labs (init 2 0)) (init 2 0) = qrun demo_labs (init 2 0) /\
  conc (tr (qrun [Start; Send 1 true; Send 2 true; Reply 1 0; Expire] (init 2 0))) = [1; 2].
Proof. exact demo_in_S0. Qed.
Print Assumptions C02_client_S0_nonvacuous.

(** The schedule that refuted this for all schedules on the unrepaired code (finding F16: a reconnection racing a send
    wrote the same CALL twice) now writes the CALL once. *)
Theorem C02_client_F16_schedule_writes_once :
  wrs (tr (run [Start; Reconn; Drop; Reconn; Send 7 true; PumpReq; PumpReady] (init 0 0))) = [7].
Proof. exact F16_schedule_writes_once. Qed.
Print Assumptions C02_client_F16_schedule_writes_once.

(** every schedule: the outstanding request is the queue head (peek, not pop, while outstanding) *)
Theorem C02_client_outstanding_is_head : forall c t ls, Forall wf_lab ls ->
  let s := run ls (init c t) in pend s <> 0 -> exists rest, q s = pend s :: rest.
Proof. exact pending_is_head_S1. Qed.
Print Assumptions C02_client_outstanding_is_head.

(** Full strength at the model's granularity (one handler / one pump iteration), for EVERY schedule -- no quiescence
    hypothesis: what the client has handed to the network is exactly what has been concluded followed by the one
    outstanding request.  Hence at most one CALL is outstanding at any time and no CALL is ever written twice; and what
    has been written is a prefix of what was accepted, i.e. CALLs go out in acceptance order.  (Provable since the repair
    of F16: the pump dispatches only while nothing is outstanding.) *)
Theorem C02_client_written_is_concluded_plus_outstanding : forall c t ls, Forall wf_lab ls ->
  let s := run ls (init c t) in wrs (tr s) = conc (tr s) ++ pendl s.
Proof. exact written_is_concluded_plus_outstanding_S1. Qed.
Print Assumptions C02_client_written_is_concluded_plus_outstanding.

Theorem C02_client_written_prefix_of_accepted : forall c t ls, Forall wf_lab ls ->
  let s := run ls (init c t) in exists rest, acc (tr s) = wrs (tr s) ++ rest.
Proof. exact written_prefix_of_accepted_S1. Qed.
Print Assumptions C02_client_written_prefix_of_accepted.

(** Server endpoint (central system / CSMS), EVERY schedule -- any interleaving of sends, replies, timeout
    notifications, write failures, connects, disconnects, Stop / Start and the iterations of the message pump, for any
    number of clients: whenever a CALL is handed to the network for client [c], no CALL of [c] is outstanding
    ([outst] reads the trace older than that write; the session end [SDrop] is a ghost event of the model) ... *)
Theorem C02_server_write_only_when_idle : forall cap d ls c r newer older, Forall wf_slab ls ->
  str (srun ls (sinit cap d)) = newer ++ SWr c r :: older -> outst c older = Some 0.
Proof. exact s_write_only_when_idle_S1. Qed.
Print Assumptions C02_server_write_only_when_idle.

(** ... every conclusion by the OCPP-J layer (reply, timeout, failed write) concludes the CALL outstanding for that
    client at that moment -- never another one, never one twice ... *)
Theorem C02_server_conclusion_matches_outstanding : forall cap d ls c r k newer older, Forall wf_slab ls ->
  str (srun ls (sinit cap d)) = newer ++ SConc c r k :: older -> outst c older = Some r.
Proof. exact s_conclusion_matches_outstanding_S1. Qed.
Print Assumptions C02_server_conclusion_matches_outstanding.

(** ... and the outstanding CALL is the dispatcher's pending id, which is the head of that client's queue: CALLs are
    written in the order in which they were accepted. *)
Theorem C02_server_outstanding_is_pending_head : forall cap d ls c, Forall wf_slab ls ->
  let s := srun ls (sinit cap d) in
  outst c (str s) = Some (pendof s c) /\ (pendof s c <> 0 -> exists t, qof s c = Some (pendof s c :: t)).
Proof. exact s_outstanding_is_pending_head_S1. Qed.
Print Assumptions C02_server_outstanding_is_pending_head.

(** the server statements are exercised by a schedule with two clients, a reply, a timeout, a failed write and a
    disconnection with a request outstanding: six CALLs written, the monitor accepts *)
Theorem C02_server_nonvacuous :
  let ls := [SStart; Connect 1; Connect 2; SSend 1 11 true; SSend 1 12 true; SSend 2 21 true; SPumpReq; SPumpReq; SPumpReq;
             SReply 1 11 0; SPumpReady; TimerTok 1; SPumpTimer; SPumpReady; SNetFail 2 true; SSend 2 22 true; SReply 2 21 0; SPumpReq; SPumpReady;
             SPumpReady; SSend 1 13 true; SPumpReq; Disconnect 1; SPumpReq; Connect 1; SSend 1 14 true; SPumpReq] in
  let s := srun ls (sinit 0 true) in
  Forall wf_slab ls /\
  map (fun e => match e with SWr c r => r | _ => 0 end) (filter (fun e => match e with SWr _ _ => true | _ => false end) (rev (str s))) = [11; 21; 12; 22; 13; 14] /\
  outst 1 (str s) = Some 14 /\ outst 2 (str s) = Some 0.
Proof. exact s_S1_demo. Qed.
Print Assumptions C02_server_nonvacuous.
