(** C08 -- Unanswered requests time out once, never early, and unblock the queue. *)
From Verif Require Import Base.Prelude M1.Client M1.ClientProofs M1.Timed.

(** The timing clauses as decided on measured traces of the real timers (real-time lane of the harness):
    whenever the extracted monitor accepts a timed trace, every timeout in it comes at least [timeout]
    (minus the measurement tolerance) after the request was written -- for a client: after the later of
    the write and the last reconnection --, concerns a written request, and never follows a conclusion
    of that request. *)
Theorem C08_never_early : forall timeout tol l a r t b,
  timed_ok timeout tol l = true -> l = a ++ TTimeout r t :: b ->
  exists tw, write_time r a = Some tw /\
             (match last_resume a None with Some tr => Z.max tw tr | None => tw end) + timeout - tol <= t /\
             concluded_in r a = false.
Proof. exact timed_ok_never_early. Qed.
Print Assumptions C08_never_early.

(** ... and every request is concluded at most once (a timeout never follows a reply, nor a reply a timeout). *)
Theorem C08_once : forall timeout tol l a e b r,
  timed_ok timeout tol l = true -> l = a ++ e :: b ->
  (match e with TTimeout r' _ | TReply r' _ | TOther r' _ => r' = r | _ => False end) ->
  concluded_in r a = false.
Proof. exact timed_ok_once. Qed.
Print Assumptions C08_once.

Theorem C08_monitor_nonvacuous :
  timed_ok 100 5 [TWrite 1 0; TReply 1 40; TWrite 2 41; TTimeout 2 143; TWrite 3 144; TResume 200; TTimeout 3 301] = true /\
  timed_ok 100 5 [TWrite 1 0; TReply 1 40; TWrite 2 41; TTimeout 2 100] = false.
Proof. exact timed_ok_nonvacuous. Qed.
Print Assumptions C08_monitor_nonvacuous.

(** Client dispatcher model, every state: a dispatch arms the timer for the full timeout from now and drops
    an expiry left unread in the timer channel, so the timeout of an earlier request cannot cancel this one. *)
Theorem C08_client_dispatch_rearms_timer : forall s h t,
  pumpStuck s = false -> paused s = false -> rdy s = true -> q s = h :: t -> pend s = 0 -> h <> 0 ->
  readyC s = 0 -> (tmo s = TOff -> tok s = true) ->
  tmo (pump_tail s) = TShort (now s + timeout s) /\ (tmo s = TOff -> tok (pump_tail s) = false).
Proof. exact dispatch_rearms_timer. Qed.
Print Assumptions C08_client_dispatch_rearms_timer.

(** the clock produces an expiry only once the armed deadline is reached *)
Theorem C08_client_tick_never_early : forall s dt,
  tok (step (Tick dt) s) = true -> tok s = true \/ exists d, tmo s = TShort d /\ d <= now s + Z.max 0 dt.
Proof. exact tick_never_early. Qed.
Print Assumptions C08_client_tick_never_early.

(** pause parks the timer, resume re-arms a full timeout for the outstanding request *)
Theorem C08_client_reconnect_rearms : forall s,
  conn s = false -> started s = true -> closing s = false ->
  (pend s <> 0 -> tmo (step Reconn s) = TShort (now s + timeout s)) /\
  (pend s = 0 -> 0 <= readyC s -> 1 <= readyC (step Reconn s)).
Proof. exact reconnect_rearms. Qed.
Print Assumptions C08_client_reconnect_rearms.

Theorem C08_client_drop_parks_timer : forall s, conn s = true -> started s = true ->
  tmo (step Drop s) = TLong /\ tok (step Drop s) = (match tmo s with TOff => false | _ => tok s end) /\ pumpStuck (step Drop s) = pumpStuck s.
Proof. exact drop_parks_timer. Qed.
Print Assumptions C08_client_drop_parks_timer.

(** exactly once, and the queue is unblocked, in EVERY schedule: accepted = concluded ++ queued (a timed-out request leaves the
    queue, the next becomes head) and written = concluded ++ outstanding (the next one is written only after that) *)
Theorem C08_client_timeout_unblocks : forall c t ls, Forall wf_lab ls ->
  let s := run ls (init c t) in
  wrs (tr s) = conc (tr s) ++ pendl s /\ exists rest, acc (tr s) = wrs (tr s) ++ rest.
Proof. exact one_outstanding_fifo_S1. Qed.
Print Assumptions C08_client_timeout_unblocks.
