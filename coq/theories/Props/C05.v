(** C05 -- Messages are accepted exactly when they satisfy the OCPP constraints. *)
From Coq Require Import String Ascii List Bool ZArith.
Import ListNotations.
From Verif Require Import Base.Prelude M2.TableCheck M2.Validator M2.ValidatorProofs M2.Reply M2.ValEntry Spec.SchemasSpec.
From VerifGen Require Import Tables Schemas.
Open Scope string_scope.

(** the constraints every message type carries in the current source are exactly the committed constraint table
    (every required flag, length / numeric bound, enumeration rule, array cardinality, on every field of all 412
    request and response types) *)
Theorem C05_constraints_match_the_table : schemas = spec_schemas.
Proof. vm_compute. reflexivity. Qed.
Print Assumptions C05_constraints_match_the_table.

(** ... and the enumeration rules accept exactly the declared values (C18_enumerations); the custom rules used are all registered *)

(** the constraints of a type mean the same wherever it occurs: every array whose elements carry constraints is
    descended into (no constrained element type sits behind a slice without dive), at every depth of every message *)
Theorem C05_traversal_complete : forall name k, In (name, k) schemas -> complete 40 k = true.
Proof.
  intros name k Hin.
  assert (H : forallb (fun s => complete 40 (snd s)) schemas = true) by (vm_compute; reflexivity).
  rewrite forallb_forall in H. exact (H _ Hin).
Qed.
Print Assumptions C05_traversal_complete.

(** the classes of the violated constraint: required -> occurrence, length / numeric bounds -> property; anything else is generic *)
Theorem C05_error_classes : error_class_of_tag = spec_error_class.
Proof. vm_compute. reflexivity. Qed.
Print Assumptions C05_error_classes.

Theorem C05_class_codes : forall v2 rest,
  class_of_tags spec_error_class v2 ("required" :: rest) = occurrence_code v2 /\
  class_of_tags spec_error_class v2 ("max" :: rest) = "PropertyConstraintViolation" /\
  class_of_tags spec_error_class v2 ("gte" :: rest) = "PropertyConstraintViolation" /\
  occurrence_code false = "OccurenceConstraintViolation" /\ occurrence_code true = "OccurrenceConstraintViolation".
Proof. intros. repeat split; reflexivity. Qed.
Print Assumptions C05_class_codes.

(** what the rules mean, for every value *)
Theorem C05_rule_required : forall enums fp v, rule_ok enums fp ("required", "") v = has_value fp v.
Proof. exact rule_required. Qed.
Print Assumptions C05_rule_required.

Theorem C05_rule_max_counts_code_points : forall enums fp p l, rule_ok enums fp ("max", p) (VStr l) = (zlen l <=? param_z p)%Z.
Proof. exact rule_max_string. Qed.
Print Assumptions C05_rule_max_counts_code_points.

Theorem C05_rule_gte : forall enums fp p z, rule_ok enums fp ("gte", p) (VInt z) = (param_z p <=? z)%Z.
Proof. exact rule_gte_int. Qed.
Print Assumptions C05_rule_gte.

Theorem C05_missing_mandatory_pointer_is_reported : forall enums n k tags,
  vfield enums (S n) (KPtr k) tags VNil false =
    match tags with [] => [] | (t, _) :: _ => if String.eqb t "omitempty" then [] else [t] end.
Proof. exact nil_pointer_first_rule. Qed.
Print Assumptions C05_missing_mandatory_pointer_is_reported.

Theorem C05_optional_absent_is_accepted : forall enums n k rest v,
  has_value false v = false -> vtags enums (S n) k (("omitempty", "") :: rest) v false = [].
Proof. exact omitempty_skips_zero. Qed.
Print Assumptions C05_optional_absent_is_accepted.
