(** C19 -- Concurrent use of the thread-safe APIs is free of data races. *)
From Coq Require Import String List ZArith Bool.
Import ListNotations.
From Verif Require Import M2.TableCheck M4.LockDefs M4.LockTableCheck M4.Lockset M4.Access M4.AccessCheck Spec.Concurrency.
From VerifGen Require Import LockTable AccessTable.

(** Why a lock discipline is enough: with any number of threads and any interleaving of lock operations and
    (non-atomic) accesses, a location whose every access is made under its guard -- exclusively for writes, reader/writer
    mutex semantics as sync.RWMutex -- is never accessed by two threads at once with one of them writing. *)
Theorem C19_discipline_excludes_races : forall (guard : loc -> option mutex) s x m,
  reach guard s -> guard x = Some m -> ~ race s x.
Proof. exact discipline_no_race. Qed.
Print Assumptions C19_discipline_excludes_races.

(** The same for a location that one goroutine owns: all writes by the owner under the guard, everybody else under the
    guard, the owner free to read its own location unlocked (the exemption used for webSocket.connection). *)
Theorem C19_owner_discipline_excludes_races : forall (owner : loc -> option (tid * mutex)) s x t0 m,
  oreach owner s -> owner x = Some (t0, m) -> ~ race s x.
Proof. exact owner_discipline_no_race. Qed.
Print Assumptions C19_owner_discipline_excludes_races.

(** ... and for a location that is written only while its creating thread alone can reach it and never after it has been
    published (construction, and the documented configuration before Start): the "unwritten" verdict of the table. *)
Theorem C19_publication_discipline_excludes_races : forall (creator : loc -> option tid) s x t0,
  preach creator s -> creator x = Some t0 -> ~ race (base s) x.
Proof. exact publication_no_race. Qed.
Print Assumptions C19_publication_discipline_excludes_races.

(** The hypothesis is what excludes the race (without a guard two overlapping accesses are reachable) ... *)
Theorem C19_unguarded_race_reachable : exists s, reach (fun _ => None) s /\ race s "f"%string.
Proof. exact unguarded_race_reachable. Qed.
Print Assumptions C19_unguarded_race_reachable.

(** The code obeys the discipline: on the access table regenerated from the Go sources on every run (every access to
    every struct field of internal/callbackqueue, ws, ocppj, ocpp1.6, ocpp2.0.1 with the mutexes held there), every field
    is either not written after construction and documented configuration, or guarded by one mutex, or listed -- pinned
    to exactly its recorded accesses -- in Spec/Concurrency.v together with the reason. *)
Theorem C19_every_field_judged : forall f a,
  In f (fields live_table) -> the_judge f a <> Offender.
Proof. exact every_field_judged. Qed.
Print Assumptions C19_every_field_judged.

(** A guarded verdict means what it says, row by row. *)
Theorem C19_guarded_rows_hold_the_guard : forall f a m,
  the_judge f a = Guarded m ->
  forall r, In r access_table -> a_field r = f -> live config_extra r = true -> in_aspect a r = true ->
    (1 <= mode_of r m)%Z /\ (is_write a r = true -> mode_of r m = 2%Z).
Proof. exact table_discipline. Qed.
Print Assumptions C19_guarded_rows_hold_the_guard.

(** Both together, for the guards the table yields. *)
Theorem C19_guarded_fields_race_free : forall s x m,
  reach table_guard s -> table_guard x = Some m -> ~ race s x.
Proof. exact guarded_fields_race_free. Qed.
Print Assumptions C19_guarded_fields_race_free.

(** The fields the property's anchors name are in the table with the expected guards (the table is not empty or stale). *)
Theorem C19_expected_guards_present :
  forallb (fun g => existsb (fun h => let '(f, a, m) := g in let '(f', a', m') := h in
                                      String.eqb f f' && aspect_eqb a a' && String.eqb m m') the_guards)
    [("ws.webSocket.outQueue", Content, "ws.webSocket.mutex");
     ("ws.webSocket.pingC", Content, "ws.webSocket.mutex");
     ("ws.client.webSocket", Ptr, "ws.client.wsMutex");
     ("ws.server.connections", Content, "ws.server.connMutex");
     ("ocppj.FIFOClientQueue.elements", Ptr, "ocppj.FIFOClientQueue.mutex");
     ("ocppj.serverState.pendingRequestState", Content, "ocppj.serverState.mutex");
     ("ocppj.DefaultClientDispatcher.requestChannel", Ptr, "ocppj.DefaultClientDispatcher.mutex");
     ("internal/callbackqueue.CallbackQueue.callbacks", Content, "internal/callbackqueue.CallbackQueue.callbacksMutex")]%string = true.
Proof. vm_compute. reflexivity. Qed.
Print Assumptions C19_expected_guards_present.

(** The container methods (C12's table): each takes its structure's mutex before touching it, exclusively when it writes. *)
Theorem C19_container_methods_atomic : lock_offenders container_lock_table = [].
Proof. exact container_locks_ok. Qed.
Print Assumptions C19_container_methods_atomic.
