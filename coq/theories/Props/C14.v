(** C14 -- Websocket connections are admitted iff all configured checks pass. *)
From Coq Require Import List Bool ZArith.
Import ListNotations.
From Verif Require Import Base.Prelude M3.Admission.

(** for every server configuration and every handshake: admitted exactly when the credentials are accepted by the auth
    handler (if one is set), the check-client handler (if set) returns true, the origin check passes, a sub-protocol
    can be negotiated, and the id is not already connected *)
Theorem C14_admitted_iff_all_checks_pass : forall c h p,
  admission c h = Accepted p <->
  auth_ok c h = true /\ check_ok c h = true /\ origin_ok c h = true /\ negotiate (supported c) (requested h) = Some p /\ dup h = false.
Proof. exact admission_iff. Qed.
Print Assumptions C14_admitted_iff_all_checks_pass.

(** a refused client triggers no new-client (hence no message) callback: it gets HTTP 401 / 403 or a close frame 1002 / 1008 *)
Theorem C14_refused_no_callback : forall c h, (forall p, admission c h <> Accepted p) -> callbacks (admission c h) = 0%nat.
Proof. exact refused_no_callback. Qed.
Print Assumptions C14_refused_no_callback.

(** the negotiated sub-protocol is one the client requested and, if the server lists any, one the server supports ... *)
Theorem C14_negotiated_is_requested_and_supported : forall sup req p, negotiate sup req = Some p ->
  In p req /\ (sup = [] \/ In p sup).
Proof. exact negotiate_some. Qed.
Print Assumptions C14_negotiated_is_requested_and_supported.

(** ... none can be negotiated only when nothing was requested or nothing requested is supported ... *)
Theorem C14_negotiation_fails_only_without_match : forall sup req, negotiate sup req = None ->
  req = [] \/ (sup <> [] /\ forall p, In p req -> ~ In p sup).
Proof. exact negotiate_none. Qed.
Print Assumptions C14_negotiation_fails_only_without_match.

(** ... and it is the first requested protocol the server supports, wherever it stands in the client's list *)
Theorem C14_first_supported_wins : forall sup pre p post,
  sup <> [] -> In p sup -> (forall q, In q pre -> ~ In q sup) -> negotiate sup (pre ++ p :: post) = Some p.
Proof. exact negotiate_first. Qed.
Print Assumptions C14_first_supported_wins.
