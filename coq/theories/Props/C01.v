(** C01 -- Every sent request is concluded exactly once, at its own caller. *)
From Verif Require Import Base.Prelude M1.Client M1.ClientProofs M1.ClientOwn M1.ClientOnce.
From Verif Require M1.Server M1.ServerInv M1.ServerOwn.

(** Client endpoint (charge point / charging station), OCPP-J layer, every schedule:
    accepted = concluded ++ still queued, as sequences of request ids (per run of the dispatcher):
    no accepted request is lost, none is concluded twice, conclusions come in acceptance order. *)
Theorem C01_client_accepted_is_concluded_plus_queued : forall c t ls, Forall wf_lab ls ->
  let s := run ls (init c t) in acc (tr s) = conc (tr s) ++ q s.
Proof. exact nothing_lost_S1. Qed.
Print Assumptions C01_client_accepted_is_concluded_plus_queued.

(** Protocol layer, EVERY schedule (any interleaving of API calls, frames, connection events, timer expiries and the
    iterations of the pump and of the callback routine; possible since the repairs F31, F32, F35, F36): every callback
    receives the conclusion of the very request it was registered for; no conclusion finds the callback queue empty;
    no goroutine panics. *)
Theorem C01_client_own_caller : forall c t ls, Forall wf_lab ls -> Forall own (tr (run ls (init c t))).
Proof. exact own_caller_S1. Qed.
Print Assumptions C01_client_own_caller.

(** EVERY schedule, the WHOLE history (any number of sessions, disconnections, timeouts, failed writes): if the ids handed to
    the send API are pairwise distinct, no request is concluded twice by the OCPP-J layer *)
Theorem C01_client_concluded_at_most_once : forall c t ls, Forall wf_lab ls -> NoDup (send_ids ls) ->
  NoDup (conc_all (tr (run ls (init c t)))).
Proof. exact concluded_at_most_once_S1. Qed.
Print Assumptions C01_client_concluded_at_most_once.

Theorem C01_client_at_most_once_nonvacuous :
  let ls := [Start; Send 1 true; Send 2 true; PumpReq; PumpReq; Expire; PumpTimer; PumpReady; Reply 2 0; Stop; PumpStop; Start;
             Send 3 true; PumpReq; NetFail true; Send 4 true; Reply 3 0; PumpReq; PumpReady] in
  Forall wf_lab ls /\ NoDup (send_ids ls) /\ conc_all (tr (run ls (init 0 0))) = [4; 3; 2; 1].
Proof. exact once_demo. Qed.
Print Assumptions C01_client_at_most_once_nonvacuous.

(** once Stop has been called no conclusion is delivered until the next Start, whatever is waiting (repair F36) *)
Theorem C01_client_nothing_delivered_while_stopped : forall s, stopSig s = true -> step Deliver s = s.
Proof. exact nothing_delivered_while_stopped. Qed.
Print Assumptions C01_client_nothing_delivered_while_stopped.

(** the same for the schedule class S0 (kept: it is the statement the quiescent correspondence exercises directly) *)
Theorem C01_client_own_caller_partial : forall c t ls, Forall wf_lab ls -> run_ok ls (init c t) = true ->
  Forall own (tr (run ls (init c t))).
Proof. exact own_caller_S0. Qed.
Print Assumptions C01_client_own_caller_partial.

(** Once stopped (Stop run to its end) nothing is retained: no request, no pending id, no callback,
    hence nothing that could be concluded later. *)
Theorem C01_client_stopped_retains_nothing : forall c t ls, Forall wf_lab ls -> run_ok ls (init c t) = true ->
  let s := run ls (init c t) in
  started s = false -> stopSig s = false -> pend s = 0 /\ q s = [] /\ cbq s = [] /\ closing s = false.
Proof. exact stopped_is_clean_S0. Qed.
Print Assumptions C01_client_stopped_retains_nothing.

Theorem C01_client_S0_nonvacuous :
  Forall wf_lab (expand demo_labs (init 2 0)) /\
  run_ok (expand demo_labs (init 2 0)) (init 2 0) = true /\
  run (expand demo_labs (init 2 0)) (init 2 0) = qrun demo_labs (init 2 0) /\
  conc (tr (qrun [Start; Send 1 true; Send 2 true; Reply 1 0; Expire] (init 2 0))) = [1; 2].
Proof. exact demo_in_S0. Qed.
Print Assumptions C01_client_S0_nonvacuous.

(** a schedule outside S0 (Stop overtakes a conclusion; the old callback routine leaves only after the restart) on which
    the statement above is exercised: the new session's request is concluded at its own callback *)
Theorem C01_client_S1_nonvacuous :
  let ls := [Start; Send 1 true; PumpReq; Reply 1 0; Stop; PumpStop; Start; Send 2 true; DeliverStop; PumpReq; Reply 2 0; Deliver] in
  Forall wf_lab ls /\ run_ok ls (init 2 0) = false /\
  filter (fun e => match e with ECb _ _ _ => true | _ => false end) (tr (run ls (init 2 0))) = [ECb 2 2 0].
Proof. exact S1_restart_demo. Qed.
Print Assumptions C01_client_S1_nonvacuous.

(** Server endpoint (central system / CSMS), EVERY schedule, any number of clients: every callback that fires receives the
    conclusion of the very request it was registered for -- or, when its client's session ends, one "disconnected"
    conclusion; no conclusion ever finds the client's callback queue empty; no goroutine panics. *)
Theorem C01_server_own_caller : forall cap d ls, Forall ServerInv.wf_slab ls ->
  Forall ServerOwn.sown (Server.str (Server.srun ls (Server.sinit cap d))).
Proof. exact ServerOwn.s_own_caller_S1. Qed.
Print Assumptions C01_server_own_caller.

(** ... because, in every reachable state, the callbacks registered for a client are, in order, the requests in that
    client's queue (refused sends and ended sessions leave nothing behind) *)
Theorem C01_server_callbacks_are_the_queue : forall cap d ls c, Forall ServerInv.wf_slab ls ->
  let s := Server.srun ls (Server.sinit cap d) in Server.cbs_of s c = ServerOwn.qlist s c.
Proof. exact ServerOwn.s_callbacks_are_the_queue_S1. Qed.
Print Assumptions C01_server_callbacks_are_the_queue.

From Verif Require Import M4.Sections M4.SectionsCheck Spec.Concurrency.
From VerifGen Require Import AccessTable.
From Coq Require Import String.
Local Open Scope string_scope.

(** On the table regenerated from the source on every run: CallbackQueue.TryQueue registers the callback, attempts the send
    and rolls the registration back inside ONE critical section of the queue's lock (the model's Send step is atomic). *)
Theorem C01_callback_registration_atomic :
  exists a, a <> 0%Z /\
    (forall r, In r (sec_rows section_table "internal/callbackqueue.CallbackQueue.TryQueue" "internal/callbackqueue.CallbackQueue.callbacks") ->
               in_section "internal/callbackqueue.CallbackQueue.callbacksMutex" a r = true) /\
    (exists r, In r (sec_rows section_table "internal/callbackqueue.CallbackQueue.TryQueue" "internal/callbackqueue.CallbackQueue.callbacks") /\ is_read (kind_of r) = true) /\
    (exists r, In r (sec_rows section_table "internal/callbackqueue.CallbackQueue.TryQueue" "internal/callbackqueue.CallbackQueue.callbacks") /\ is_write (kind_of r) = true) /\
    unguarded access_table "internal/callbackqueue.CallbackQueue.TryQueue" "internal/callbackqueue.CallbackQueue.callbacks" "internal/callbackqueue.CallbackQueue.callbacksMutex" = [].
Proof. apply atomic_sections_meaning. vm_compute. right. left. reflexivity. Qed.
Print Assumptions C01_callback_registration_atomic.
