(** C06 -- Arbitrary incoming bytes never crash, wedge or corrupt an endpoint.
    Bytes that are not JSON, or JSON that is not an array, never reach this logic (encoding/json rejects them and the
    frame is dropped).  The theorems hold for every JSON array whatsoever: any length, any element types, any numbers. *)
From Coq Require Import String Ascii List Bool ZArith.
Import ListNotations.
From Verif Require Import Base.Prelude M2.TableCheck M2.Validator M2.Json M2.Reply M2.Parse M2.ParseProofs.

(** whatever arrives, at most one thing happens: a CALL_ERROR goes back, or the outstanding request is completed, or a
    CALL reaches the request handler; the model has no other outcome (every positional access of ParseMessage is
    guarded: the function is total without any default for a missing element) *)
Theorem C06_at_most_one_effect : forall v2 known pend verdict tagcls valid_code arr,
  let r := react v2 known pend verdict tagcls valid_code arr in
  (match r_reply r with Some _ => 1 | None => 0 end + (if r_completes r then 1 else 0) + (if r_request_handler r then 1 else 0) <= 1)%nat.
Proof. exact at_most_one_effect. Qed.
Print Assumptions C06_at_most_one_effect.

(** the outstanding request is left intact by everything except a well-formed reply carrying exactly its id *)
Theorem C06_outstanding_request_intact : forall v2 known pend verdict tagcls valid_code arr,
  r_completes (react v2 known pend verdict tagcls valid_code arr) = true ->
  pend <> [] /\ exists t rest, arr = t :: JStr pend :: rest.
Proof. exact completes_only_pending. Qed.
Print Assumptions C06_outstanding_request_intact.

(** a CALL_ERROR is sent only when a unique id could be extracted, and it carries that id *)
Theorem C06_reply_carries_extracted_id : forall v2 known pend verdict tagcls valid_code arr id code,
  r_reply (react v2 known pend verdict tagcls valid_code arr) = Some (id, code) ->
  id <> [] /\ exists t rest, arr = t :: JStr id :: rest.
Proof. exact reply_carries_extracted_id. Qed.
Print Assumptions C06_reply_carries_extracted_id.

(** stale / unsolicited replies cause nothing at all *)
Theorem C06_foreign_reply_no_effect : forall v2 known pend verdict tagcls valid_code m id rest ty,
  id <> [] -> Zeqb_list id pend = false -> ty = type_id m -> (ty = 3 \/ ty = 4)%Z -> rest <> [] ->
  react v2 known pend verdict tagcls valid_code (JNum m :: JStr id :: rest) = Build_reaction None false false.
Proof. exact foreign_reply_no_effect. Qed.
Print Assumptions C06_foreign_reply_no_effect.
