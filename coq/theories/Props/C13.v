(** C13 -- One live websocket per client id; lifecycle callbacks exactly once. *)
From Coq Require Import List Bool ZArith.
Import ListNotations.
From Verif Require Import Base.Prelude M1.Containers M3.Registry M3.RegistryProofs M4.Sections M4.SectionsCheck Spec.Concurrency.
From VerifGen Require Import AccessTable.
From Coq Require Import String.
Local Open Scope string_scope.

(** every sequence of events: at most one live connection per client id *)
Theorem C13_one_live_connection_per_id : forall ls id c1 c2, let s := rrun ls reg0 in
  In (id, c1) (live s) -> In (id, c2) (live s) -> c1 = c2.
Proof. exact one_live_per_id. Qed.
Print Assumptions C13_one_live_connection_per_id.

(** a second connection using an id that is still connected is refused (no callback) while the existing one is untouched *)
Theorem C13_duplicate_refused : forall s id c, halted s = false -> a_get (live s) id = Some c ->
  live (rstep (RConnect id) s) = live s /\ rtr (rstep (RConnect id) s) = RRefused id (next s) :: rtr s.
Proof. exact dup_refused. Qed.
Print Assumptions C13_duplicate_refused.

(** every sequence of events, every connection: the new-client callback fires exactly once for an accepted connection,
    the disconnected callback exactly once when it ends, in that order, with the same id; a refused one gets neither *)
Theorem C13_lifecycle : forall ls c, let s := rrun ls reg0 in
  (exists id, In (id, c) (live s) /\ h c s = [RConnected id c]) \/ ended c (h c s).
Proof. exact lifecycle. Qed.
Print Assumptions C13_lifecycle.

(** the ids the server reports as connected are exactly the live connections *)
Theorem C13_reported_iff_live : forall ls id c, let s := rrun ls reg0 in
  In (id, c) (live s) <-> h c s = [RConnected id c].
Proof. exact reported_iff_live. Qed.
Print Assumptions C13_reported_iff_live.

(** Write succeeds exactly for registered ids *)
Theorem C13_write_iff_registered : forall s id,
  rtr (rstep (RSend id) s) = RWrite id (match a_get (live s) id with Some _ => true | None => false end) :: rtr s /\
  live (rstep (RSend id) s) = live s.
Proof. exact write_iff_registered. Qed.
Print Assumptions C13_write_iff_registered.

(** On the table regenerated from the source on every run: in ws.server.wsHandler the look-up of the id (the duplicate
    check) and its registration are accesses of ONE critical section of the server's connection lock, held exclusively
    -- which is what allows the registry model above to take "connect" as one atomic step. *)
Theorem C13_duplicate_check_and_registration_atomic :
  exists a, a <> 0%Z /\
    (forall r, In r (sec_rows section_table "ws.server.wsHandler" "ws.server.connections") -> in_section "ws.server.connMutex" a r = true) /\
    (exists r, In r (sec_rows section_table "ws.server.wsHandler" "ws.server.connections") /\ is_read (kind_of r) = true) /\
    (exists r, In r (sec_rows section_table "ws.server.wsHandler" "ws.server.connections") /\ is_write (kind_of r) = true) /\
    unguarded access_table "ws.server.wsHandler" "ws.server.connections" "ws.server.connMutex" = [].
Proof. apply atomic_sections_meaning. vm_compute. left. reflexivity. Qed.
Print Assumptions C13_duplicate_check_and_registration_atomic.
