(** C12 -- Bounded queues apply back-pressure without side effects; the
    containers behave like sequential FIFO / map structures. *)
From Verif Require Import Base.Prelude M1.Containers M1.ContainersProofs M4.LockDefs M4.LockTableCheck M4.Linearize.
From VerifGen Require Import LockTable.
From Verif Require Import M4.Sections M4.SectionsCheck Spec.Concurrency.
From VerifGen Require Import AccessTable.

(** A bounded queue never holds more than its capacity, after any operation sequence. *)
Theorem C12_queue_bound : forall (cap : Z) (ops : list qop),
  0 < cap -> zlen (qels (fst (run_ops q_step (q_new cap) ops))) <= cap.
Proof. exact q_bound. Qed.
Print Assumptions C12_queue_bound.

(** When full, Push fails and has no other effect. *)
Theorem C12_push_full_noop : forall q x, q_full q = true -> q_push q x = (q, false).
Proof. exact push_full_noop. Qed.
Print Assumptions C12_push_full_noop.

(** It succeeds again as soon as a slot frees up; capacity 0 never refuses. *)
Theorem C12_push_after_pop : forall q x,
  (0 < qcap q -> zlen (qels q) <= qcap q) -> qels q <> [] -> snd (q_push (fst (q_pop q)) x) = true.
Proof. exact push_after_pop. Qed.
Print Assumptions C12_push_after_pop.

Theorem C12_push_unbounded : forall q x, qcap q = 0 -> snd (q_push q x) = true.
Proof. exact push_unbounded. Qed.
Print Assumptions C12_push_unbounded.

(** FIFO refinement: for every operation sequence, accepted pushes = pops ++ content, as sequences. *)
Theorem C12_queue_fifo : forall (cap : Z) (ops : list qop),
  let '(q, acc, pop) := fold_left h_step ops (q_new cap, [], []) in acc = pop ++ qels q.
Proof. exact q_fifo. Qed.
Print Assumptions C12_queue_fifo.

(** Callback queue: a failed send leaves no residue (roll-back is exact) ... *)
Theorem C12_callback_rollback_exact : forall m id cb,
  Forall (fun e => snd e <> []) m -> cb_try m id cb false = (m, false).
Proof. exact cb_try_fail_noop. Qed.
Print Assumptions C12_callback_rollback_exact.

(** ... its internal inconsistency panic is unreachable ... *)
Theorem C12_callback_no_panic : forall ops id,
  snd (cb_dequeue (fst (run_ops cb_step [] ops)) id) <> DPanic.
Proof. exact cb_no_panic. Qed.
Print Assumptions C12_callback_no_panic.

(** ... and per id, successfully queued callbacks = dequeued ++ still queued, in order. *)
Theorem C12_callback_fifo : forall id ops,
  let '(m, acc, pop) := fold_left (cbh_step id) ops ([], [], []) in acc = pop ++ cb_list m id.
Proof. exact cb_fifo. Qed.
Print Assumptions C12_callback_fifo.

(** Pending state: a second Add is ignored while one is set; Get answers exactly the stored id. *)
Theorem C12_state_add_ignored : forall s id, s <> 0 -> cs_add s id = s.
Proof. exact cs_add_ignored_when_set. Qed.
Print Assumptions C12_state_add_ignored.

Theorem C12_state_get_iff : forall s id, cs_get s id = true <-> s = id.
Proof. exact cs_get_iff. Qed.
Print Assumptions C12_state_get_iff.

(** Atomicity premise of "behave like sequential structures under concurrent use",
    on the lock table regenerated from the Go source: every container method takes
    the structure's mutex first, exclusively when it writes. *)
Theorem C12_container_methods_atomic :
  forall r, In r container_lock_table -> row_ok r = true.
Proof. exact (lock_offenders_nil_all _ container_locks_ok). Qed.
Print Assumptions C12_container_methods_atomic.

Theorem C12_container_methods_present : methods_present container_lock_table = true.
Proof. exact container_methods_present. Qed.
Print Assumptions C12_container_methods_present.

(** Why atomic bodies are enough for "behave like sequential structures": for any state type, operation type and
    sequential specification, any number of threads and any interleaving of invocations, lock-protected bodies and
    returns -- the operations ordered by their atomic steps form a legal sequential history, every returned result is
    the one of that history, and an operation that returned before another was invoked precedes it (linearizability). *)
Theorem C12_atomic_bodies_legal_history : forall (St Op Res : Type) (spec : St -> Op -> St * Res) (s0 : St) tr c,
  run St Op Res spec (cinit St Op Res s0) tr c -> legal St Op Res spec s0 (lin St Op Res c) (shared St Op Res c).
Proof. exact linearization_is_legal. Qed.
Print Assumptions C12_atomic_bodies_legal_history.

Theorem C12_atomic_bodies_results : forall (St Op Res : Type) (spec : St -> Op -> St * Res) (s0 : St) tr1 tr2 n r c1 c2 c3,
  run St Op Res spec (cinit St Op Res s0) tr1 c1 -> cstep St Op Res spec c1 (Ret Op Res n r) c2 -> run St Op Res spec c2 tr2 c3 ->
  exists o, In (n, o, r) (lin St Op Res c1).
Proof. exact returned_result_is_linearized. Qed.
Print Assumptions C12_atomic_bodies_results.

Theorem C12_atomic_bodies_real_time_order : forall (St Op Res : Type) (spec : St -> Op -> St * Res) (s0 : St) tr1 tr2 a ra b ob c1 c2 c3 c4,
  run St Op Res spec (cinit St Op Res s0) tr1 c1 -> cstep St Op Res spec c1 (Ret Op Res a ra) c2 ->
  run St Op Res spec c2 tr2 c3 -> cstep St Op Res spec c3 (Inv Op Res b ob) c4 ->
  exists oa pre post, lin St Op Res c4 = pre ++ (a, oa, ra) :: post /\ (forall o r, ~ In (b, o, r) (pre ++ [(a, oa, ra)])).
Proof. exact real_time_order. Qed.
Print Assumptions C12_atomic_bodies_real_time_order.

(** On the tables regenerated from the source on every run: each committed check-then-act sequence (bounded Push: capacity
    check and append; Pop: emptiness check and removal; GetOrCreate: look-up and creation; TryQueue; the websocket id
    check and registration) is ONE critical section of its lock, held exclusively. *)
Theorem C12_check_then_act_sequences_atomic : forall fn fld mu, In (fn, fld, mu) atomic_sections ->
  exists a, a <> 0%Z /\
    (forall r, In r (sec_rows section_table fn fld) -> in_section mu a r = true) /\
    (exists r, In r (sec_rows section_table fn fld) /\ is_read (kind_of r) = true) /\
    (exists r, In r (sec_rows section_table fn fld) /\ is_write (kind_of r) = true) /\
    unguarded access_table fn fld mu = [].
Proof. exact atomic_sections_meaning. Qed.
Print Assumptions C12_check_then_act_sequences_atomic.
