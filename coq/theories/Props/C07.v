(** C07 -- Request dispatchers never deadlock. *)
From Verif Require Import Base.Prelude M1.Client M1.ClientProofs M1.ClientOwn M1.ClientWake M1.Server M1.ServerInv M1.ServerWake.

(** Client dispatcher, EVERY schedule (possible since the repairs F9 / F18: a completion never waits for room in the ready
    channel, and F34: the timer is never waited for): the message pump never blocks for good and never panics,
    whatever the interleaving of sends, replies, timeouts, write failures, disconnects, restarts and its own iterations. *)
Theorem C07_client_pump_never_stuck : forall c t ls, Forall wf_lab ls -> Client.pumpStuck (run ls (init c t)) = false.
Proof. exact pump_never_stuck_S1. Qed.
Print Assumptions C07_client_pump_never_stuck.

(** Client dispatcher, schedule class S0 (kept: the statement the quiescent correspondence exercises directly): the message pump never blocks for good (neither on its own
    readyForDispatch channel nor on a timer drain), whatever the history of sends, replies, timeouts,
    write failures, disconnects and restarts. *)
Theorem C07_client_pump_never_stuck_partial : forall c t ls, Forall wf_lab ls -> run_ok ls (init c t) = true ->
  Client.pumpStuck (run ls (init c t)) = false.
Proof. exact pump_never_stuck_S0. Qed.
Print Assumptions C07_client_pump_never_stuck_partial.

Theorem C07_client_S0_nonvacuous :
  Forall wf_lab (expand demo_labs (init 2 0)) /\
  run_ok (expand demo_labs (init 2 0)) (init 2 0) = true /\
  run (expand demo_labs (init 2 0)) (init 2 0) = qrun demo_labs (init 2 0) /\
  conc (tr (qrun [Start; Send 1 true; Send 2 true; Reply 1 0; Expire] (init 2 0))) = [1; 2].
Proof. exact demo_in_S0. Qed.
Print Assumptions C07_client_S0_nonvacuous.

(** Server dispatcher, EVERY schedule: the message pump never dereferences an empty queue (no panic) and never blocks
    for good inside an iteration (since the repairs F3 / F18: neither posting a ready token nor a request token waits
    for the pump itself). *)
Theorem C07_server_pump_never_stuck : forall cap d ls, Forall wf_slab ls -> Server.pumpStuck (srun ls (sinit cap d)) = false.
Proof. exact s_pump_never_stuck_S1. Qed.
Print Assumptions C07_server_pump_never_stuck.

(** Client dispatcher, EVERY schedule: no lost wake-up.  Whenever the endpoint is running, connected (not paused), has
    queued requests and nothing outstanding, a wake-up token is pending for the message pump ... *)
Theorem C07_client_no_lost_wakeup : forall c t ls, Forall wf_lab ls ->
  let s := run ls (init c t) in
  started s = true -> closing s = false -> paused s = false -> q s <> [] -> pend s = 0 ->
  1 <= Client.reqC s \/ 1 <= Client.readyC s.
Proof. exact no_lost_wakeup_S1. Qed.
Print Assumptions C07_client_no_lost_wakeup.

(** ... which finds the pump ready to dispatch (or a ready token on its way) ... *)
Theorem C07_client_ready_or_token : forall c t ls, Forall wf_lab ls ->
  let s := run ls (init c t) in
  started s = true -> closing s = false -> pend s = 0 -> Client.rdy s = true \/ 1 <= Client.readyC s.
Proof. exact ready_or_token_S1. Qed.
Print Assumptions C07_client_ready_or_token.

(** ... so a quiescent state of a running, connected endpoint (no token left) has an empty queue or a request outstanding:
    nothing is accepted and then forgotten.  With [C07_client_pump_never_stuck] this is the dispatcher's freedom from
    deadlock up to the fairness of the Go scheduler. *)
Theorem C07_client_quiescent_means_served : forall c t ls, Forall wf_lab ls ->
  let s := run ls (init c t) in
  started s = true -> closing s = false -> paused s = false -> Client.reqC s = 0 -> Client.readyC s = 0 ->
  q s = [] \/ pend s <> 0.
Proof. exact quiescent_means_served_S1. Qed.
Print Assumptions C07_client_quiescent_means_served.

Theorem C07_client_wakeup_premises_met :
  let s1 := run [Start; Send 1 true] (init 0 0) in
  let s2 := run [Start; Send 1 true; Send 2 true; PumpReq; Reply 1 0] (init 0 0) in
  (started s1 = true /\ closing s1 = false /\ paused s1 = false /\ q s1 = [1] /\ pend s1 = 0 /\ Client.reqC s1 = 1) /\
  (q s2 = [2] /\ pend s2 = 0 /\ Client.rdy s2 = false /\ Client.readyC s2 = 1).
Proof. exact wake_premises_met. Qed.
Print Assumptions C07_client_wakeup_premises_met.

(** Server dispatcher, EVERY schedule, any number of clients: no lost wake-up.  A client with a queued request and nothing
    outstanding has a request or ready token pending at the message pump ... *)
Theorem C07_server_no_lost_wakeup : forall cap d ls c h t, Forall wf_slab ls ->
  let s := srun ls (sinit cap d) in
  qof s c = Some (h :: t) -> pendof s c = 0 -> In c (Server.reqC s) \/ In c (Server.readyC s).
Proof. exact s_no_lost_wakeup_S1. Qed.
Print Assumptions C07_server_no_lost_wakeup.

(** ... and that wake-up is not held back by a stale timeout context (the subject of the repairs F13, F18, F19) ... *)
Theorem C07_server_context_does_not_hold_back : forall cap d ls c, Forall wf_slab ls ->
  let s := srun ls (sinit cap d) in
  running s = true -> pendof s c = 0 ->
  ctx_active s c = false \/ In c (Server.readyC s) \/ (mem c (removed s) = true /\ In c (Server.reqC s)).
Proof. exact s_context_does_not_hold_back_S1. Qed.
Print Assumptions C07_server_context_does_not_hold_back.

(** ... so when no token is left for the pump, every client has an empty queue or a request outstanding. *)
Theorem C07_server_quiescent_means_served : forall cap d ls c, Forall wf_slab ls ->
  let s := srun ls (sinit cap d) in
  Server.reqC s = [] -> Server.readyC s = [] -> qof s c = None \/ qof s c = Some [] \/ pendof s c <> 0.
Proof. exact s_quiescent_means_served_S1. Qed.
Print Assumptions C07_server_quiescent_means_served.

Theorem C07_server_wakeup_premises_met :
  let s1 := srun [SStart; Connect 1; SSend 1 11 true; SPumpReq; Disconnect 1; Connect 1; SSend 1 12 true] (sinit 0 true) in
  let s2 := srun [SStart; Connect 1; SSend 1 11 true; SSend 1 12 true; SPumpReq; SPumpReq; SReply 1 11 0] (sinit 0 true) in
  (qof s1 1 = Some [12] /\ pendof s1 1 = 0 /\ ctx_active s1 1 = true /\ mem 1 (removed s1) = true /\ Server.reqC s1 = [1; 1]) /\
  (qof s2 1 = Some [12] /\ pendof s2 1 = 0 /\ ctx_active s2 1 = true /\ Server.readyC s2 = [1] /\ Server.reqC s2 = []).
Proof. exact s_wake_premises_met. Qed.
Print Assumptions C07_server_wakeup_premises_met.
