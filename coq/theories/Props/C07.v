(** C07 -- Request dispatchers never deadlock. *)
From Verif Require Import Base.Prelude M1.Client M1.ClientProofs M1.ClientOwn M1.Server M1.ServerInv.

(** Client dispatcher, EVERY schedule (possible since the repairs F9 / F18: a completion never waits for room in the ready
    channel, and F34: the timer is never waited for): the message pump never blocks for good and never panics,
    whatever the interleaving of sends, replies, timeouts, write failures, disconnects, restarts and its own iterations. *)
Theorem C07_client_pump_never_stuck : forall c t ls, Forall wf_lab ls -> Client.pumpStuck (run ls (init c t)) = false.
Proof. exact pump_never_stuck_S1. Qed.
Print Assumptions C07_client_pump_never_stuck.

(** Client dispatcher, schedule class S0 (kept: the statement the quiescent correspondence exercises directly): the message pump never blocks for good (neither on its own
    readyForDispatch channel nor on a timer drain), whatever the history of sends, replies, timeouts,
    write failures, disconnects and restarts. *)
Theorem C07_client_pump_never_stuck_partial : forall c t ls, Forall wf_lab ls -> run_ok ls (init c t) = true ->
  Client.pumpStuck (run ls (init c t)) = false.
Proof. exact pump_never_stuck_S0. Qed.
Print Assumptions C07_client_pump_never_stuck_partial.

Theorem C07_client_S0_nonvacuous :
  Forall wf_lab (expand demo_labs (init 2 0)) /\
  run_ok (expand demo_labs (init 2 0)) (init 2 0) = true /\
  run (expand demo_labs (init 2 0)) (init 2 0) = qrun demo_labs (init 2 0) /\
  conc (tr (qrun [Start; Send 1 true; Send 2 true; Reply 1 0; Expire] (init 2 0))) = [1; 2].
Proof. exact demo_in_S0. Qed.
Print Assumptions C07_client_S0_nonvacuous.

(** Server dispatcher, EVERY schedule: the message pump never dereferences an empty queue (no panic) and never blocks
    for good inside an iteration (since the repairs F3 / F18: neither posting a ready token nor a request token waits
    for the pump itself). *)
Theorem C07_server_pump_never_stuck : forall cap d ls, Forall wf_slab ls -> Server.pumpStuck (srun ls (sinit cap d)) = false.
Proof. exact s_pump_never_stuck_S1. Qed.
Print Assumptions C07_server_pump_never_stuck.
