(** C09 -- Replies that do not match the outstanding request are ignored. *)
From Verif Require Import Base.Prelude M1.Client M1.ClientProofs.

(** Client endpoint, every state of every schedule: a CALL_RESULT / CALL_ERROR whose id is not
    the pending id (never used, already concluded, queued, empty) changes nothing at all:
    no handler, pending request, queue, callbacks, timers, trace. *)
Theorem C09_client_foreign_reply_is_noop :
  forall s r k, pend s <> r \/ r = 0 -> step (Reply r k) s = s.
Proof. exact foreign_reply_noop. Qed.
Print Assumptions C09_client_foreign_reply_is_noop.

(** ... so it can be erased from any schedule: everything that follows, in particular the
    delivery of the genuine reply, is unchanged. *)
Theorem C09_client_foreign_reply_erasable :
  forall l1 l2 s r k, (pend (run l1 s) <> r \/ r = 0) -> run (l1 ++ Reply r k :: l2) s = run (l1 ++ l2) s.
Proof. exact foreign_reply_erasable. Qed.
Print Assumptions C09_client_foreign_reply_erasable.

(** The id a reply must carry is the head of the queue, in every reachable state. *)
Theorem C09_client_pending_is_queue_head : forall c t ls, Forall wf_lab ls ->
  let s := run ls (init c t) in pend s <> 0 -> exists rest, q s = pend s :: rest.
Proof. exact pending_is_head_S1. Qed.
Print Assumptions C09_client_pending_is_queue_head.

(** Server endpoint, every state: the lookup is per connection -- a reply whose id is not pending on
    that same connection (stale, duplicated, unsolicited, or pending on another client) changes nothing. *)
From Verif Require Import M1.Containers M1.Server M1.ServerProofs.
Theorem C09_server_foreign_reply_is_noop : forall s c r k,
  (pendof s c <> r \/ r = 0 \/ mem c (conns s) = false) -> sstep (SReply c r k) s = s.
Proof. exact s_foreign_reply_noop. Qed.
Print Assumptions C09_server_foreign_reply_is_noop.

Theorem C09_server_foreign_reply_erasable : forall l1 l2 s c r k,
  (pendof (srun l1 s) c <> r \/ r = 0 \/ mem c (conns (srun l1 s)) = false) ->
  srun (l1 ++ SReply c r k :: l2) s = srun (l1 ++ l2) s.
Proof. exact s_foreign_reply_erasable. Qed.
Print Assumptions C09_server_foreign_reply_erasable.
