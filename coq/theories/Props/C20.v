(** C20 -- Timestamps parse and print faithfully; non-timestamps are rejected.
    Only statements here; each is closed by [exact] of a lemma proved elsewhere. *)
From Verif Require Import Base.Prelude M2.Civil M2.CivilProofs M2.DateTime M2.DateTimeProofs.

(** JSON null, and only JSON null, is detected as null. *)
Theorem C20_null_exact : forall b : bytes, null b = true <-> b = null_lit.
Proof. exact null_exact. Qed.
Print Assumptions C20_null_exact.

(** "JSON null leaves the field unset", and nothing else does. *)
Theorem C20_unset_iff_null : forall b : bytes, unmarshal b = UUnset <-> b = null_lit.
Proof. intro b; split; [exact (unmarshal_unset_only_null b) | intros ->; exact unmarshal_null]. Qed.
Print Assumptions C20_unset_iff_null.

(** Every token that is not null and does not begin with a double quote (every
    JSON value that is not a string) is rejected with an error. *)
Theorem C20_non_string_rejected :
  forall b : bytes, b <> null_lit -> starts_with_quote b = false -> unmarshal b = UError.
Proof. exact unmarshal_non_string_rejected. Qed.
Print Assumptions C20_non_string_rejected.

(** A JSON string is accepted exactly when the ISO 8601 parser model accepts its
    content, and is then set to the parsed instant. *)
Theorem C20_string_iff_iso : forall body : bytes,
  unmarshal (quote :: body ++ [quote]) =
  match iso_parse body with POk s n => USet s n | PErr => UError | POutOfModel => UOutOfModel end.
Proof. exact unmarshal_string. Qed.
Print Assumptions C20_string_iff_iso.

(** No input of at least two bytes (any JSON string token) can make UnmarshalJSON panic. *)
Theorem C20_no_panic : forall b : bytes, 2 <= zlen b -> unmarshal b <> UPanic.
Proof. exact unmarshal_no_panic. Qed.
Print Assumptions C20_no_panic.

(** Calendar arithmetic behind printing and parsing is exact on all of Z. *)
Theorem C20_days_civil_days : forall z : Z,
  let '(y, m, d) := civil_from_days z in days_from_civil y m d = z.
Proof. exact days_civil_days. Qed.
Print Assumptions C20_days_civil_days.

Theorem C20_civil_days_civil : forall y m d : Z,
  valid_civil y m d = true -> civil_from_days (days_from_civil y m d) = (y, m, d).
Proof. exact civil_days_civil. Qed.
Print Assumptions C20_civil_days_civil.

(** The defect repaired by the "fix:" commit (F2): the former null test was not exact. *)
Theorem C20_refuted_F2_before_fix : exists b : bytes, null_prefix b = true /\ b <> null_lit.
Proof. exact null_prefix_refuted. Qed.
Print Assumptions C20_refuted_F2_before_fix.
