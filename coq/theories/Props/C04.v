(** C04 -- Wire round-trip fidelity for every OCPP message. *)
From Coq Require Import String Ascii List Bool ZArith.
Import ListNotations.
From Verif Require Import Base.Prelude M2.TableCheck M2.Validator M2.Json M2.JsonProofs.
From VerifGen Require Import JSchemas.

(** frames always have the shape [2,id,action,payload], [3,id,payload] or [4,id,code,description,details] ... *)
Theorem C04_frame_shape : forall fr,
  (exists id a p, frame_json fr = JArr [JNum 2000; JStr id; JStr a; p]) \/
  (exists id p, frame_json fr = JArr [JNum 3000; JStr id; p]) \/
  (exists id c d det, frame_json fr = JArr [JNum 4000; JStr id; JStr c; JStr d; det]).
Proof. exact frame_shape. Qed.
Print Assumptions C04_frame_shape.

(** ... and the peer reads back the same kind, unique id, action and payload tree *)
Theorem C04_frame_read_back : forall fr, parse_frame (frame_json fr) = Some fr.
Proof. exact parse_frame_json. Qed.
Print Assumptions C04_frame_read_back.

(** in every payload type of the current source the JSON keys of a struct are pairwise distinct even under the
    case folding the decoder applies, none is empty or "-": no field can shadow or drop another on the wire *)
Theorem C04_json_keys_well_formed : forall name k, In (name, k) jschemas -> wf_jkind 40 k = true.
Proof.
  intros name k Hin.
  assert (H : forallb (fun s => wf_jkind 40 (snd s)) jschemas = true) by (vm_compute; reflexivity).
  rewrite forallb_forall in H. exact (H _ Hin).
Qed.
Print Assumptions C04_json_keys_well_formed.

(** the payload survives the wire: for every kind whose keys are well formed (all regenerated schemas are, above) and
    every value of that shape, the receiver decodes exactly the value that was encoded -- all optional fields present
    or absent, nested arrays, any depth ... *)
Theorem C04_payload_roundtrip : forall f k v, wf_jkind f k = true -> typed f k v = true -> decode f k (encode f k v) = Ok v.
Proof. exact roundtrip. Qed.
Print Assumptions C04_payload_roundtrip.

(** ... and serialising the decoded message again yields the same JSON *)
Theorem C04_reserialisation_identical : forall f k v v', wf_jkind f k = true -> typed f k v = true ->
  decode f k (encode f k v) = Ok v' -> encode f k v' = encode f k v.
Proof. exact reencode_same. Qed.
Print Assumptions C04_reserialisation_identical.

(** the text of every string (any code points, HTML-sensitive characters, control characters, U+2028/9) is read back
    unchanged under both HTML-escaping settings *)
Theorem C04_string_text_roundtrip : forall esc s, Forall cp_ok s -> exists f, parse_str f (print_str esc s) = Some s.
Proof. exact parse_print_str. Qed.
Print Assumptions C04_string_text_roundtrip.

(** the hypotheses are satisfiable by a real message: BootNotification.req of 1.6 with every field present *)
Theorem C04_roundtrip_nonvacuous :
  exists k v, (nth_error jschemas 2 = Some ("16/BootNotification/req"%string, k)) /\ (wf_jkind 40 k = true) /\
              (typed 40 k v = true) /\ (decode 40 k (encode 40 k v) = Ok v) /\ (v <> VStruct []).
Proof.
  eexists. exists (VStruct [VStr [66]; VStr [67; 60]; VStr [68]; VStr []; VStr [8232]; VStr []; VStr [70]; VStr []; VStr [38]]).
  split; [reflexivity|]. repeat split; try (vm_compute; reflexivity). discriminate.
Qed.
Print Assumptions C04_roundtrip_nonvacuous.
