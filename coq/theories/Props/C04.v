(** C04 -- Wire round-trip fidelity for every OCPP message. *)
From Coq Require Import String Ascii List Bool ZArith.
Import ListNotations.
From Verif Require Import Base.Prelude M2.TableCheck M2.Validator M2.Json M2.JsonProofs.
From VerifGen Require Import JSchemas.

(** frames always have the shape [2,id,action,payload], [3,id,payload] or [4,id,code,description,details] ... *)
Theorem C04_frame_shape : forall fr,
  (exists id a p, frame_json fr = JArr [JNum 2000; JStr id; JStr a; p]) \/
  (exists id p, frame_json fr = JArr [JNum 3000; JStr id; p]) \/
  (exists id c d det, frame_json fr = JArr [JNum 4000; JStr id; JStr c; JStr d; det]).
Proof. exact frame_shape. Qed.
Print Assumptions C04_frame_shape.

(** ... and the peer reads back the same kind, unique id, action and payload tree *)
Theorem C04_frame_read_back : forall fr, parse_frame (frame_json fr) = Some fr.
Proof. exact parse_frame_json. Qed.
Print Assumptions C04_frame_read_back.

(** in every payload type of the current source the JSON keys of a struct are pairwise distinct even under the
    case folding the decoder applies, none is empty or "-": no field can shadow or drop another on the wire *)
Theorem C04_json_keys_well_formed : forall name k, In (name, k) jschemas -> wf_jkind 40 k = true.
Proof.
  intros name k Hin.
  assert (H : forallb (fun s => wf_jkind 40 (snd s)) jschemas = true) by (vm_compute; reflexivity).
  rewrite forallb_forall in H. exact (H _ Hin).
Qed.
Print Assumptions C04_json_keys_well_formed.
