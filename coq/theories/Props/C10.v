(** C10 -- A client loses nothing across a disconnect / reconnect. *)
From Verif Require Import Base.Prelude M1.Client M1.ClientProofs.

(** every schedule: no CALL is handed to the network between a disconnect and the next reconnect *)
Theorem C10_no_write_while_disconnected : forall c t ls,
  pscan (tr (run ls (init c t))) <> None.
Proof. exact no_write_while_disconnected_S1. Qed.
Print Assumptions C10_no_write_while_disconnected.

(** every state: the disconnect and the reconnect callbacks leave queue and outstanding request untouched *)
Theorem C10_drop_keeps_queue : forall s, q (step Drop s) = q s /\ pend (step Drop s) = pend s.
Proof. exact drop_keeps_queue. Qed.
Print Assumptions C10_drop_keeps_queue.

Theorem C10_reconnect_keeps_queue : forall s, q (step Reconn s) = q s /\ pend (step Reconn s) = pend s.
Proof. exact reconn_keeps_queue. Qed.
Print Assumptions C10_reconnect_keeps_queue.

(** every schedule, any number of drop / reconnect cycles: accepted = concluded ++ queued as sequences:
    nothing accepted is ever dropped silently or concluded twice, whatever was outstanding at the drop *)
Theorem C10_nothing_lost : forall c t ls, Forall wf_lab ls ->
  let s := run ls (init c t) in acc (tr s) = conc (tr s) ++ q s.
Proof. exact nothing_lost_S1. Qed.
Print Assumptions C10_nothing_lost.

(** EVERY schedule: dispatching resumes with the oldest unsent request: written is always a prefix of accepted, and
    nothing is written while a request is outstanding *)
Theorem C10_resume_oldest_first : forall c t ls, Forall wf_lab ls ->
  let s := run ls (init c t) in
  wrs (tr s) = conc (tr s) ++ pendl s /\ exists rest, acc (tr s) = wrs (tr s) ++ rest.
Proof. exact one_outstanding_fifo_S1. Qed.
Print Assumptions C10_resume_oldest_first.
