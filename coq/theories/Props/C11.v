(** C11 -- Server clients are isolated; a session leaves nothing behind. *)
From Verif Require Import Base.Prelude M1.Containers M1.Server M1.ServerProofs M1.ServerInv.

(** every state: when a client's session ends nothing of it stays in the endpoint's containers --
    no queue (hence no queued or outstanding call), no pending id, no callback: a later session of a
    client with the same id starts from what a never-seen id has *)
Theorem C11_disconnect_leaves_nothing : forall s c, mem c (conns s) = true ->
  let s' := sstep (Disconnect c) s in
  qof s' c = None /\ pendof s' c = 0 /\ cbs_of s' c = [].
Proof. exact s_disconnect_leaves_nothing. Qed.
Print Assumptions C11_disconnect_leaves_nothing.

(** every state: a request addressed to a client that is not connected is rejected immediately and
    has no effect: nothing queued for any client, no wake-up token, no callback retained *)
Theorem C11_unknown_client_rejected : forall s c r v, qof s c = None ->
  let s' := sstep (SSend c r v) s in
  qm s' = qm s /\ pendm s' = pendm s /\ reqC s' = reqC s /\ readyC s' = readyC s /\ timerC s' = timerC s /\
  cbs_of s' c = cbs_of s c /\ (forall c', c' <> c -> cbs_of s' c' = cbs_of s c') /\
  str s' = SRet c r 1 :: str s.
Proof. exact s_unknown_client_rejected. Qed.
Print Assumptions C11_unknown_client_rejected.

(** every state: a reply on one connection is matched against that connection's pending id only;
    an id pending on another client is foreign here and changes nothing *)
Theorem C11_reply_of_other_client_ignored : forall s c r k,
  (pendof s c <> r \/ r = 0 \/ mem c (conns s) = false) -> sstep (SReply c r k) s = s.
Proof. exact s_foreign_reply_noop. Qed.
Print Assumptions C11_reply_of_other_client_ignored.

(** Isolation: whatever the connect / disconnect / send / reply / timeout-token / network handlers do for other clients,
    in any number and order and from any state, the queue, the pending id and the callbacks of client [d] are the same
    afterwards.  (The pump labels are not covered: see finding F1.) *)
Theorem C11_handler_isolation : forall ls s d,
  Forall (fun l => exists c, concerns l c /\ c <> d) ls -> view (srun ls s) d = view s d.
Proof. exact s_handlers_isolation. Qed.
Print Assumptions C11_handler_isolation.

(** ... and everything such a handler makes observable -- results returned to the application, writes, conclusions,
    callbacks, connect / disconnect notifications -- is about its own client. *)
Theorem C11_handler_speaks_of_its_client : forall l s c, concerns l c ->
  exists new, str (sstep l s) = new ++ str s /\ Forall (fun e => ev_client e = Some c) new.
Proof. exact s_handler_speaks_of_its_client. Qed.
Print Assumptions C11_handler_speaks_of_its_client.

(** EVERY schedule: a request queue exists only for a connected client and only while the dispatcher runs; the pending id
    of a client is the head of its own queue -- per-client state never refers to another client or to an ended session *)
Theorem C11_queues_belong_to_sessions : forall cap d ls, Forall wf_slab ls ->
  let s := srun ls (sinit cap d) in
  (running s = false -> forall c, qof s c = None) /\ (forall c, qof s c <> None -> mem c (conns s) = true).
Proof. exact s_queues_belong_to_sessions_S1. Qed.
Print Assumptions C11_queues_belong_to_sessions.

(** the schedule of finding F13 in the model (the session-ended mark of the repair is part of it): a client whose session
    ended with a request outstanding reconnects BEFORE the pump has seen the disconnection; the request sent to the new
    session is written (before the repair the old session's timeout context held it back for good) *)
Example C11_reconnect_before_pump_notices :
  let ls := [SStart; Connect 1; SSend 1 11 true; SPumpReq; Disconnect 1; Connect 1; SSend 1 12 true; SPumpReq; SPumpReq] in
  map (fun e => match e with SWr c r => r | _ => 0 end) (filter (fun e => match e with SWr _ _ => true | _ => false end) (rev (str (srun ls (sinit 0 true))))) = [11; 12].
Proof. vm_compute. reflexivity. Qed.
