(** C18 -- Feature registry, role tables, validators and enumerations are coherent.
    All statements are about the tables regenerated from the current source on every run
    (coq/gen/Tables.v); the finite sets are enumerated completely. *)
From Coq Require Import String List Bool.
Import ListNotations.
From Verif Require Import M2.TableCheck Spec.Roles.
From VerifGen Require Import Tables.

(** every feature name belongs to exactly one profile, per version *)
Theorem C18_one_profile_per_feature :
  NoDup (all_features profiles16) /\ NoDup (all_features profiles201).
Proof. split; apply nodup_s_spec; vm_compute; reflexivity. Qed.
Print Assumptions C18_one_profile_per_feature.

(** request and response types report their feature's name; the registry key is the feature's own name *)
Theorem C18_types_report_feature_name :
  (forall r, In r (all_rows profiles16 ++ all_rows profiles201) -> f_reqname r = f_name r /\ f_respname r = f_name r) /\
  keys_agree (feature_keys16 ++ feature_keys201) = true.
Proof.
  split; [|vm_compute; reflexivity].
  intros r Hr. apply in_app_or in Hr as [Hr|Hr];
    [apply (types_report_name_spec profiles16)|apply (types_report_name_spec profiles201)]; try exact Hr; vm_compute; reflexivity.
Qed.
Print Assumptions C18_types_report_feature_name.

(** each role can send exactly the features the protocol assigns to it ... *)
Theorem C18_roles_send_their_assignment :
  (forall f, In f send_cp16 <-> In f spec_cp16) /\ (forall f, In f send_cs16 <-> In f spec_cs16) /\
  (forall f, In f send_cs201 <-> In f spec_cs201) /\ (forall f, In f send_csms201 <-> In f spec_csms201).
Proof. repeat split; apply same_set_spec; vm_compute; reflexivity. Qed.
Print Assumptions C18_roles_send_their_assignment.

(** ... and dispatches to handlers exactly the features the opposite role can send; both send lists together
    cover every feature; every switch arm calls On<Action> with that feature's request type asserted, on the handler
    the profile check guards; the translator understood all four role files *)
Theorem C18_roles_coherent_16 :
  (forall f, In f send_cp16 <-> In f (map h_action handle_cs16)) /\ (forall f, In f send_cs16 <-> In f (map h_action handle_cp16)) /\
  (forall f, In f (send_cp16 ++ send_cs16) <-> In f (all_features profiles16)) /\
  (forall r, In r handle_cp16 -> arm_ok profiles16 profcheck_cp16 r = true) /\
  (forall r, In r handle_cs16 -> arm_ok profiles16 profcheck_cs16 r = true).
Proof.
  apply (role_pair_ok_sends profiles16 send_cp16 handle_cp16 profcheck_cp16 default_arm_cp16 send_cs16 handle_cs16 profcheck_cs16 default_arm_cs16).
  vm_compute. reflexivity.
Qed.
Print Assumptions C18_roles_coherent_16.

Theorem C18_roles_coherent_201 :
  (forall f, In f send_cs201 <-> In f (map h_action handle_csms201)) /\ (forall f, In f send_csms201 <-> In f (map h_action handle_cs201)) /\
  (forall f, In f (send_cs201 ++ send_csms201) <-> In f (all_features profiles201)) /\
  (forall r, In r handle_cs201 -> arm_ok profiles201 profcheck_cs201 r = true) /\
  (forall r, In r handle_csms201 -> arm_ok profiles201 profcheck_csms201 r = true).
Proof.
  apply (role_pair_ok_sends profiles201 send_cs201 handle_cs201 profcheck_cs201 default_arm_cs201 send_csms201 handle_csms201 profcheck_csms201 default_arm_csms201).
  vm_compute. reflexivity.
Qed.
Print Assumptions C18_roles_coherent_201.

Theorem C18_translator_understood_role_files :
  role_ok_cp16 && role_ok_cs16 && role_ok_cs201 && role_ok_csms201 = true.
Proof. vm_compute. reflexivity. Qed.
Print Assumptions C18_translator_understood_role_files.

(** every validation rule referenced by a message field is built in or registered, and a rule name never stands
    for two different functions on the shared validator *)
Theorem C18_rules_registered :
  tags_known payload_fields builtin_tags registered_tags = true /\
  (forall t f1 f2, In (t, f1) registered_tags -> In (t, f2) registered_tags -> f1 = f2).
Proof. split; [vm_compute; reflexivity|apply regs_consistent_spec; vm_compute; reflexivity]. Qed.
Print Assumptions C18_rules_registered.

(** every exported enumeration value is accepted by its validator; where the type exports values, nothing else is *)
Theorem C18_enumerations :
  forall tag ty accepted declared, In (tag, ty, accepted, declared, true) enum_tables ->
  (forall v, In v declared -> In v accepted) /\ (declared <> [] -> forall v, In v accepted -> In v declared).
Proof. apply enums_ok_spec. vm_compute. reflexivity. Qed.
Print Assumptions C18_enumerations.

(** the same for the OCPP-J error codes *)
Theorem C18_error_codes :
  valid_error_codes_ok = true /\ (forall c, In c declared_error_codes <-> In c valid_error_codes).
Proof. split; [vm_compute; reflexivity|apply same_set_spec; vm_compute; reflexivity]. Qed.
Print Assumptions C18_error_codes.
