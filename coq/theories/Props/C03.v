(** C03 -- Every incoming CALL gets exactly one reply with the same id. *)
From Coq Require Import String List Bool ZArith Lia.
Import ListNotations.
From Verif Require Import Base.Prelude M2.TableCheck M2.Reply M2.TableEntry.
From VerifGen Require Import Tables.

(** exactly one reply, for every role table, handler subset, action (known or not) and handler outcome
    (valid response, invalid response, nil, plain error, ocpp.Error with valid or invalid code) *)
Theorem C03_exactly_one_reply : forall T present action o, exists r, fst (answer T present action o) = [r].
Proof. exact answer_exactly_one. Qed.
Print Assumptions C03_exactly_one_reply.

(** the handler that runs is the arm of the CALL's action ... *)
Theorem C03_handler_of_the_action : forall T present action o arm,
  snd (answer T present action o) = Some arm -> h_action arm = action /\ In arm (r_handle T).
Proof. exact answer_runs_own_arm. Qed.
Print Assumptions C03_handler_of_the_action.

(** ... and, on the four role tables regenerated from the current source, it asserts exactly the request
    type of that action's feature (the decoded payload has that type, so the assertion cannot panic) *)
Theorem C03_handler_gets_the_actions_payload_type : forall role present action o arm,
  (0 <= role <= 3)%Z ->
  snd (answer (role_table role) present action o) = Some arm ->
  reqtype_of (r_profiles (role_table role)) action = Some (h_type arm).
Proof.
  intros role present action o arm Hr. apply answer_arm_type.
  assert (Hc : (role = 0 \/ role = 1 \/ role = 2 \/ role = 3)%Z) by lia.
  destruct Hc as [Hc|[Hc|[Hc|Hc]]]; subst role; apply forallb_forall; vm_compute; reflexivity.
Qed.
Print Assumptions C03_handler_gets_the_actions_payload_type.

(** the reply is the handler's response when it validates, otherwise the error the property lists *)
Theorem C03_reply_kind : forall T present action o arm,
  snd (answer T present action o) = Some arm ->
  fst (answer T present action o) =
    match o with
    | OValid => [RResult]
    | OInvalid tags => [RError (class_of_tags (r_tagcls T) (r_v2 T) tags)]
    | ONil => [RError "GenericError"]
    | OPlain => [RError "InternalError"]
    | OErrValid c => [RError c]
    | OErrBad => [RError "GenericError"]
    end.
Proof. exact answer_kind. Qed.
Print Assumptions C03_reply_kind.

(** no handler for the feature's profile, no arm for this role, or unknown action: NotSupported (NotImplemented) *)
Theorem C03_no_handler_not_supported : forall T present action o,
  snd (answer T present action o) = None ->
  fst (answer T present action o) = [RError "NotSupported"] \/ fst (answer T present action o) = [RError "NotImplemented"].
Proof. exact answer_not_supported. Qed.
Print Assumptions C03_no_handler_not_supported.
