(** Common definitions: byte strings as lists of Z, the wire format of the
    correspondence entries ([list Z -> list Z]), small list helpers. *)
From Coq Require Export ZArith List Bool Lia.
Export ListNotations.
Open Scope Z_scope.

Definition bytes := list Z.

(** Every model entry point used by the correspondence check has this type:
    the Go harness encodes a case as a list of integers, the (extracted)
    model decodes it in Gallina, runs, and encodes the observables. *)
Definition entry := list Z -> list Z.

Definition zlen {A} (l : list A) : Z := Z.of_nat (length l).

Definition Zeqb_list (a b : list Z) : bool :=
  (fix go (a b : list Z) : bool :=
     match a, b with
     | [], [] => true
     | x :: a', y :: b' => (x =? y) && go a' b'
     | _, _ => false
     end) a b.

Lemma Zeqb_list_eq a b : Zeqb_list a b = true <-> a = b.
Proof.
  revert b; induction a as [|x a IH]; intros [|y b]; cbn; split; intro H;
    try discriminate; try reflexivity.
  - apply andb_true_iff in H as [H1 H2]. apply Z.eqb_eq in H1. apply IH in H2. congruence.
  - inversion H; subst. rewrite Z.eqb_refl. cbn. apply IH. reflexivity.
Qed.

(** [take_n n l] / [drop_n n l] with a Z count (used by decoders). *)
Definition take_n {A} (n : Z) (l : list A) : list A := firstn (Z.to_nat n) l.
Definition drop_n {A} (n : Z) (l : list A) : list A := skipn (Z.to_nat n) l.

(** Length-prefixed sub-list: [n; x1..xn; rest] *)
Definition get_lp (l : list Z) : list Z * list Z :=
  match l with
  | [] => ([], [])
  | n :: r => (take_n n r, drop_n n r)
  end.

Definition put_lp (b : list Z) : list Z := zlen b :: b.

Definition bool_z (b : bool) : Z := if b then 1 else 0.
Definition z_bool (z : Z) : bool := negb (z =? 0).

Fixpoint last_opt {A} (l : list A) : option A :=
  match l with
  | [] => None
  | [x] => Some x
  | _ :: r => last_opt r
  end.

Fixpoint remove_last {A} (l : list A) : list A :=
  match l with
  | [] => []
  | [x] => []
  | x :: r => x :: remove_last r
  end.

Lemma remove_last_app {A} (l : list A) x : remove_last (l ++ [x]) = l.
Proof.
  induction l as [|a l IH]; [reflexivity|]. change ((a :: l) ++ [x]) with (a :: (l ++ [x])). cbn [remove_last].
  destruct (l ++ [x]) eqn:E; [destruct l; discriminate|]. rewrite <- IH. reflexivity.
Qed.
