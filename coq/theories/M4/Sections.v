(** M4: check-then-act atomicity on the regenerated critical-section table.  For a (function, field, mutex) triple committed
    in Spec/Concurrency.v: every access of that function to that field is made holding that mutex exclusively, inside ONE
    critical section (the same Lock statement), and the function both reads and writes the field there -- e.g. the
    duplicate check and the registration of a websocket id, which the registry model of C13 takes as one atomic step. *)
From Coq Require Import String List ZArith Bool.
Import ListNotations.
Open Scope string_scope.

Definition sec_row := (string * string * Z * list (string * Z * Z))%type.

Definition sec_rows (tbl : list sec_row) (fn fld : string) : list sec_row :=
  filter (fun r => match r with (f, g, _, _) => String.eqb f fld && String.eqb g fn end) tbl.

Fixpoint lock_of (mu : string) (l : list (string * Z * Z)) : option (Z * Z) :=
  match l with
  | [] => None
  | (m, mode, a) :: r => if String.eqb m mu then Some (mode, a) else lock_of mu r
  end.

Definition in_section (mu : string) (a : Z) (r : sec_row) : bool :=
  match r with (_, _, _, l) => match lock_of mu l with Some (mode, b) => (mode =? 2)%Z && (b =? a)%Z | None => false end end.

Definition kind_of (r : sec_row) : Z := match r with (_, _, k, _) => k end.
Definition is_read (k : Z) : bool := ((k =? 0) || (k =? 5) || (k =? 3))%Z.
Definition is_write (k : Z) : bool := ((k =? 1) || (k =? 6) || (k =? 2) || (k =? 4))%Z.

(** the accesses of [fn] to [fld] in the access table that are NOT made under [mu] held exclusively *)
Definition acc_row := (string * string * Z * list (string * Z) * bool * string)%type.
Fixpoint mode_of (mu : string) (l : list (string * Z)) : Z :=
  match l with [] => 0%Z | (m, mode) :: r => if String.eqb m mu then mode else mode_of mu r end.
Definition unguarded (tbl : list acc_row) (fn fld mu : string) : list acc_row :=
  filter (fun r => match r with (f, g, _, l, _, _) => String.eqb f fld && String.eqb g fn && negb (mode_of mu l =? 2)%Z end) tbl.

Definition one_section (stbl : list sec_row) (atbl : list acc_row) (t : string * string * string) : bool :=
  match t with (fn, fld, mu) =>
    match sec_rows stbl fn fld with
    | [] => false
    | ((_, _, _, l0) :: _) as rows =>
        match lock_of mu l0 with
        | Some (_, a) => negb (a =? 0)%Z && forallb (in_section mu a) rows &&
                         existsb (fun r => is_read (kind_of r)) rows && existsb (fun r => is_write (kind_of r)) rows &&
                         match unguarded atbl fn fld mu with [] => true | _ => false end
        | None => false
        end
    end
  end.

(** what the boolean means *)
Lemma one_section_sound stbl atbl fn fld mu : one_section stbl atbl (fn, fld, mu) = true ->
  exists a, a <> 0%Z /\
    (forall r, In r (sec_rows stbl fn fld) -> in_section mu a r = true) /\
    (exists r, In r (sec_rows stbl fn fld) /\ is_read (kind_of r) = true) /\
    (exists r, In r (sec_rows stbl fn fld) /\ is_write (kind_of r) = true) /\
    unguarded atbl fn fld mu = [].
Proof.
  unfold one_section. destruct (sec_rows stbl fn fld) as [|[[[f g] k] l0] rows'] eqn:E; [discriminate|].
  destruct (lock_of mu l0) as [[mode a]|]; [|discriminate].
  intros H. apply andb_true_iff in H as [H H5]. apply andb_true_iff in H as [H H4]. apply andb_true_iff in H as [H H3].
  apply andb_true_iff in H as [H1 H2]. exists a. repeat split.
  - apply negb_true_iff, Z.eqb_neq in H1. exact H1.
  - intros r Hr. apply (proj1 (forallb_forall _ _) H2 r Hr).
  - apply existsb_exists in H3. exact H3.
  - apply existsb_exists in H4. exact H4.
  - destruct (unguarded atbl fn fld mu); [reflexivity|discriminate].
Qed.
