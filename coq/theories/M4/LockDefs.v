(** Lock discipline of the five container types, definitions of the check that is
    decided on the table the translator regenerates from the Go AST (gen/LockTable.v). *)
From Coq Require Import String List ZArith Bool.
Import ListNotations.
Open Scope Z_scope.

Definition lock_row := (string * string * Z * Z * bool * bool)%type.

(** a method is atomic w.r.t. its structure when it is an unexported helper
    (runs under its caller's lock) or takes the structure's mutex before touching
    the receiver, releases it by a deferred unlock, and holds it exclusively if
    it writes *)
Definition row_ok (r : lock_row) : bool :=
  let '(_, _, kind, mode, writes, deferred) := r in
  (kind =? 1) || ((kind =? 0) && deferred && (1 <=? mode) && (negb writes || (mode =? 2))).

Definition lock_offenders (t : list lock_row) : list lock_row := filter (fun r => negb (row_ok r)) t.

Definition methods_of (t : list lock_row) (ty : string) : list string :=
  map (fun r => let '(_, m, _, _, _, _) := r in m) (filter (fun r => let '(ty', _, _, _, _, _) := r in String.eqb ty ty') t).

Lemma lock_offenders_nil_all t : lock_offenders t = [] -> forall r, In r t -> row_ok r = true.
Proof.
  unfold lock_offenders. intros H r Hin.
  destruct (row_ok r) eqn:E; [reflexivity|].
  assert (Hf : In r (filter (fun r => negb (row_ok r)) t)) by (apply filter_In; split; [exact Hin|rewrite E; reflexivity]).
  rewrite H in Hf. destruct Hf.
Qed.

(** every operation the sequential models describe is present in the table *)
Definition expected_methods : list (string * list string) := [
  ("FIFOClientQueue"%string, ["Init"; "IsEmpty"; "IsFull"; "Peek"; "Pop"; "Push"; "Size"]%string);
  ("FIFOQueueMap"%string, ["Add"; "Get"; "GetOrCreate"; "Init"; "Remove"]%string);
  ("clientState"%string, ["AddPendingRequest"; "ClearPendingRequests"; "DeletePendingRequest"; "GetPendingRequest"; "HasPendingRequest"]%string);
  ("CallbackQueue"%string, ["Dequeue"; "TryQueue"]%string)
].

Definition methods_present (t : list lock_row) : bool :=
  forallb (fun '(ty, ms) => forallb (fun m => existsb (String.eqb m) (methods_of t ty)) ms) expected_methods.

