(** M4: the lock discipline decided on the access table the translator regenerates from the Go sources
    (gen/AccessTable.v): for every struct field of the concurrent core, every access with the mutexes held there.
    Two aspects of a field are guarded separately: the field itself (assignments against every other access) and
    what it refers to (close / element writes against sends and element reads; a channel receive never conflicts).
    A field is fine when nothing writes it after construction and documented configuration, or when one mutex is
    held by every access (exclusively by the writes).  Everything else must be listed, with the reason, in
    Spec/Concurrency.v -- and is then pinned to exactly the accesses listed there. *)
From Coq Require Import String Ascii List Bool ZArith.
Import ListNotations.
From Verif Require Import M2.TableCheck.
Open Scope string_scope.

Definition arow := (string * string * Z * list (string * Z) * bool * string)%type.
Definition a_field (r : arow) : string := let '(f, _, _, _, _, _) := r in f.
Definition a_fn (r : arow) : string := let '(_, g, _, _, _, _) := r in g.
Definition a_kind (r : arow) : Z := let '(_, _, k, _, _, _) := r in k.
Definition a_locks (r : arow) : list (string * Z) := let '(_, _, _, l, _, _) := r in l.
Definition a_init (r : arow) : bool := let '(_, _, _, _, i, _) := r in i.
Definition a_pos (r : arow) : string := let '(_, _, _, _, _, p) := r in p.

(** "ws.client.SetMessageHandler$lit1" -> "SetMessageHandler": drop the closure suffix, keep the last segment *)
Fixpoint upto_dollar (s : string) : string :=
  match s with
  | EmptyString => EmptyString
  | String c r => if Ascii.eqb c "$"%char then EmptyString else String c (upto_dollar r)
  end.
Fixpoint last_segment (s acc : string) : string :=
  match s with
  | EmptyString => acc
  | String c r => if Ascii.eqb c "."%char then last_segment r EmptyString else last_segment r (acc ++ String c EmptyString)
  end.
Definition method_name (fn : string) : string := last_segment (upto_dollar fn) EmptyString.

(** documented configuration calls (made before Start): Set*, With* options, and the listed extras *)
Definition is_config (extra : list string) (fn : string) : bool :=
  let m := method_name fn in
  String.prefix "Set" m || String.prefix "With" m || mem_s m extra.

Inductive aspect := Ptr | Content.
Definition aspect_eqb (a b : aspect) : bool := match a, b with Ptr, Ptr | Content, Content => true | _, _ => false end.

Definition in_aspect (a : aspect) (r : arow) : bool :=
  match a with
  | Ptr => true
  | Content => let k := a_kind r in (k =? 2)%Z || (k =? 4)%Z || (k =? 5)%Z || (k =? 6)%Z
  end.
Definition is_write (a : aspect) (r : arow) : bool :=
  match a with
  | Ptr => (a_kind r =? 1)%Z
  | Content => (a_kind r =? 4)%Z || (a_kind r =? 6)%Z
  end.

Definition mode_of (r : arow) (m : string) : Z :=
  match find (fun lk => String.eqb (fst lk) m) (a_locks r) with Some lk => snd lk | None => 0%Z end.

Definition live (extra_config : list string) (r : arow) : bool := negb (a_init r) && negb (is_config extra_config (a_fn r)).

Section Table.
(** the live part of the access table: accesses after construction, outside configuration calls *)
Variable tbl : list arow.

Definition rows_of (f : string) (a : aspect) : list arow :=
  filter (fun r => String.eqb (a_field r) f && in_aspect a r) tbl.

Definition written (f : string) (a : aspect) : bool := existsb (is_write a) (rows_of f a).

(** every access holds m, the writes exclusively *)
Definition row_guarded (a : aspect) (m : string) (r : arow) : bool :=
  (1 <=? mode_of r m)%Z && (negb (is_write a r) || (mode_of r m =? 2)%Z).
Definition guarded_by (f : string) (a : aspect) (m : string) : bool := forallb (row_guarded a m) (rows_of f a).

Definition candidates (f : string) (a : aspect) : list string :=
  match rows_of f a with [] => [] | r :: _ => map fst (a_locks r) end.

Definition guard_of (f : string) (a : aspect) : option string := find (guarded_by f a) (candidates f a).

(* ---- listed exceptions ---- *)
Inductive exemption :=
| Owner (m : string) (fns : list string)
    (* all writes are made by one goroutine, which runs exactly the functions [fns], under m held exclusively;
       that goroutine may read without the lock; every other function holds m *)
| Pinned (why : string) (rows : list (string * Z * list (string * Z))).
    (* not guarded by a mutex; safe (or a recorded finding) for the stated reason; the accesses are exactly these *)

Variable edges : list (string * string).
Variable roots : list string.
Variable escaping : list string.

(** [fns] run on one goroutine: exactly one of them is started with `go`; none is used as a value, and every
    synchronous call of a member comes from a member ([edges] holds the synchronous calls only) *)
Definition confined (fns : list string) : bool :=
  (Z.of_nat (List.length (filter (fun f => mem_s f roots) fns)) =? 1)%Z &&
  forallb (fun f =>
    negb (mem_s f escaping) && forallb (fun e => negb (String.eqb (snd e) f) || mem_s (fst e) fns) edges) fns.

Definition triple_eqb (x y : string * Z * list (string * Z)) : bool :=
  let '(f, k, l) := x in let '(f', k', l') := y in
  String.eqb f f' && (k =? k')%Z &&
  (Z.of_nat (List.length l) =? Z.of_nat (List.length l'))%Z &&
  forallb (fun a => existsb (fun b => String.eqb (fst a) (fst b) && (snd a =? snd b)%Z) l') l.

Definition exemption_ok (f : string) (a : aspect) (e : exemption) : bool :=
  match e with
  | Owner m fns =>
      confined fns &&
      forallb (fun r => if mem_s (a_fn r) fns then negb (is_write a r) || (mode_of r m =? 2)%Z
                        else row_guarded a m r && negb (is_write a r)) (rows_of f a)
  | Pinned _ rows =>
      forallb (fun r => existsb (triple_eqb (a_fn r, a_kind r, a_locks r)) rows) (rows_of f a)
  end.

Variable exemptions : list (string * aspect * exemption).

Definition exemption_for (f : string) (a : aspect) : option exemption :=
  match find (fun x => String.eqb (fst (fst x)) f && aspect_eqb (snd (fst x)) a) exemptions with
  | Some x => Some (snd x) | None => None
  end.

Inductive verdict := Unwritten | Guarded (m : string) | Exempt | Offender.

Definition judge (f : string) (a : aspect) : verdict :=
  if negb (written f a) then Unwritten
  else match guard_of f a with
       | Some m => Guarded m
       | None => match exemption_for f a with
                 | Some e => if exemption_ok f a e then Exempt else Offender
                 | None => Offender
                 end
       end.

Fixpoint dedup (l : list string) : list string :=
  match l with [] => [] | x :: r => if mem_s x r then dedup r else x :: dedup r end.
Definition fields : list string := dedup (map a_field tbl).

Definition is_offender (v : verdict) : bool := match v with Offender => true | _ => false end.

Definition offenders : list (string * aspect) :=
  filter (fun fa => is_offender (judge (fst fa) (snd fa)))
         (flat_map (fun f => [(f, Ptr); (f, Content)]) fields).

Definition guards : list (string * aspect * string) :=
  flat_map (fun f => flat_map (fun a => match judge f a with Guarded m => [(f, a, m)] | _ => [] end) [Ptr; Content]) fields.

Definition count_verdicts : Z * Z * Z * Z :=
  fold_left (fun acc fa =>
    let '(u, g, e, o) := acc in
    match judge (fst fa) (snd fa) with
    | Unwritten => (u + 1, g, e, o) | Guarded _ => (u, g + 1, e, o) | Exempt => (u, g, e + 1, o) | Offender => (u, g, e, o + 1)
    end)%Z (flat_map (fun f => [(f, Ptr); (f, Content)]) fields) (0, 0, 0, 0)%Z.

(* ---- what the verdicts mean ---- *)

Lemma guarded_sound f a m :
  judge f a = Guarded m ->
  forall r, In r tbl -> a_field r = f -> in_aspect a r = true ->
    (1 <= mode_of r m)%Z /\ (is_write a r = true -> mode_of r m = 2%Z).
Proof.
  unfold judge. destruct (negb (written f a)); [discriminate|].
  destruct (guard_of f a) as [m'|] eqn:G.
  - intros E. inversion E. subst m'. clear E.
    unfold guard_of in G. apply find_some in G. destruct G as [_ G].
    unfold guarded_by in G. rewrite forallb_forall in G.
    intros r Hin Hf Ha.
    assert (Hr : In r (rows_of f a)).
    { unfold rows_of. apply filter_In. split; [exact Hin|]. rewrite Hf, String.eqb_refl, Ha. reflexivity. }
    specialize (G r Hr). unfold row_guarded in G. apply andb_prop in G. destruct G as [G1 G2].
    split.
    + apply Z.leb_le. exact G1.
    + intros W. rewrite W in G2. cbn in G2. apply Z.eqb_eq. exact G2.
  - destruct (exemption_for f a) as [e|]; [destruct (exemption_ok f a e)|]; discriminate.
Qed.

Lemma unwritten_sound f a :
  judge f a = Unwritten ->
  forall r, In r tbl -> a_field r = f -> in_aspect a r = true -> is_write a r = false.
Proof.
  unfold judge. destruct (negb (written f a)) eqn:W; [|destruct (guard_of f a); [discriminate|destruct (exemption_for f a) as [e|]; [destruct (exemption_ok f a e)|]; discriminate]].
  intros _ r Hin Hf Ha.
  apply negb_true_iff in W. unfold written in W.
  destruct (is_write a r) eqn:E; [|reflexivity].
  assert (Hr : In r (rows_of f a)).
  { unfold rows_of. apply filter_In. split; [exact Hin|]. rewrite Hf, String.eqb_refl, Ha. reflexivity. }
  assert (X : existsb (is_write a) (rows_of f a) = true) by (apply existsb_exists; exists r; split; assumption).
  congruence.
Qed.

Lemma no_offenders_all_judged :
  offenders = [] -> forall f a, In f fields -> judge f a <> Offender.
Proof.
  unfold offenders. intros H f a Hf E.
  assert (X : In (f, a) (filter (fun fa => is_offender (judge (fst fa) (snd fa))) (flat_map (fun f => [(f, Ptr); (f, Content)]) fields))).
  { apply filter_In. split.
    - apply in_flat_map. exists f. split; [exact Hf|]. destruct a; cbn; tauto.
    - cbn [fst snd]. rewrite E. reflexivity. }
  rewrite H in X. destruct X.
Qed.

End Table.
