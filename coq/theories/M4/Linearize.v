(** M4: why "every method body runs under the structure's exclusive lock" makes a container behave like its
    sequential specification under concurrent use (the step from the lock table to C12's "behave like sequential
    structures").  An operation is invoked, takes effect at one atomic step (the body under the lock: state and result
    are those of the sequential specification applied to the current state), and returns later.  For every
    interleaving of any number of threads: the operations, ordered by their atomic steps, form a legal sequential
    history with the same results, and that order respects real time (an operation that returned before another was
    invoked comes first).  That is linearizability, with the lock-protected body as linearization point. *)
From Coq Require Import List Arith Lia Bool.
Import ListNotations.

Section Lin.
Variables St Op Res : Type.
Variable spec : St -> Op -> St * Res.
Variable s0 : St.

(** operation instances are numbered by the harness / the trace, not by the library *)
Inductive ev :=
| Inv (n : nat) (o : Op)        (* operation n is invoked *)
| Lp (n : nat)                  (* its body runs, atomically, under the lock *)
| Ret (n : nat) (r : Res).      (* it returns r *)

Inductive status := Invoked (o : Op) | Done (o : Op) (r : Res) | Returned (o : Op) (r : Res).

Record cst := { shared : St;
                ops : list (nat * status);          (* every operation seen so far *)
                lin : list (nat * Op * Res) }.      (* operations in the order of their atomic steps, oldest first *)

Definition cinit : cst := {| shared := s0; ops := []; lin := [] |}.

Fixpoint lookup (n : nat) (l : list (nat * status)) : option status :=
  match l with [] => None | (m, s) :: r => if Nat.eqb m n then Some s else lookup n r end.
Fixpoint update (n : nat) (s : status) (l : list (nat * status)) : list (nat * status) :=
  match l with [] => [] | (m, x) :: r => if Nat.eqb m n then (m, s) :: r else (m, x) :: update n s r end.

Inductive cstep : cst -> ev -> cst -> Prop :=
| CInv c n o : lookup n (ops c) = None ->
    cstep c (Inv n o) {| shared := shared c; ops := (n, Invoked o) :: ops c; lin := lin c |}
| CLp c n o : lookup n (ops c) = Some (Invoked o) ->
    cstep c (Lp n) {| shared := fst (spec (shared c) o);
                      ops := update n (Done o (snd (spec (shared c) o))) (ops c);
                      lin := lin c ++ [(n, o, snd (spec (shared c) o))] |}
| CRet c n o r : lookup n (ops c) = Some (Done o r) ->
    cstep c (Ret n r) {| shared := shared c; ops := update n (Returned o r) (ops c); lin := lin c |}.

Inductive run : cst -> list ev -> cst -> Prop :=
| RNil c : run c [] c
| RCons c e c' tr c'' : cstep c e c' -> run c' tr c'' -> run c (e :: tr) c''.

(** legality as a proposition: replaying the operations in this order from [s] yields exactly the recorded results and
    ends in state [s'] *)
Inductive legal : St -> list (nat * Op * Res) -> St -> Prop :=
| LNil s : legal s [] s
| LCons s n o rest s' : legal (fst (spec s o)) rest s' -> legal s ((n, o, snd (spec s o)) :: rest) s'.

Lemma legal_snoc s l s' n o : legal s l s' -> legal s (l ++ [(n, o, snd (spec s' o))]) (fst (spec s' o)).
Proof.
  induction 1 as [s|s m o' rest s' H IH]; cbn.
  - apply LCons. apply LNil.
  - apply LCons. exact IH.
Qed.

Lemma lookup_update_same n s l x : lookup n l = Some x -> lookup n (update n s l) = Some s.
Proof.
  induction l as [|[m y] r IH]; cbn; [discriminate|].
  destruct (Nat.eqb m n) eqn:E; cbn; rewrite E; [reflexivity|exact IH].
Qed.

Lemma lookup_update_other n m s l : n <> m -> lookup m (update n s l) = lookup m l.
Proof.
  intros H. induction l as [|[k y] r IH]; cbn; [reflexivity|].
  destruct (Nat.eqb k n) eqn:E; cbn.
  - apply Nat.eqb_eq in E. subst k. destruct (Nat.eqb n m) eqn:E2; [apply Nat.eqb_eq in E2; congruence|reflexivity].
  - destruct (Nat.eqb k m); [reflexivity|exact IH].
Qed.

(** invariant: the linearization so far is a legal sequential history ending in the shared state; an operation is in it
    exactly when its body has run, with the result it will return *)
Definition inv (c : cst) : Prop :=
  legal s0 (lin c) (shared c) /\
  (forall n o r, In (n, o, r) (lin c) <-> (lookup n (ops c) = Some (Done o r) \/ lookup n (ops c) = Some (Returned o r))).

Lemma inv_init : inv cinit.
Proof. split; [apply LNil|]. intros n o r. cbn. split; [tauto|intros [H|H]; discriminate]. Qed.

Lemma step_inv c e c' : inv c -> cstep c e c' -> inv c'.
Proof.
  intros [L M] H. destruct H as [c n o Hn|c n o Hl|c n o r Hl]; cbn.
  - split; [exact L|]. intros m o' r'. rewrite (M m o' r'). cbn.
    destruct (Nat.eqb n m) eqn:E.
    + apply Nat.eqb_eq in E. subst m. rewrite Hn. split; intros [H|H]; congruence.
    + tauto.
  - split; [apply legal_snoc; exact L|]. intros m o' r'. cbn. rewrite in_app_iff. cbn [In].
    destruct (Nat.eq_dec n m) as [->|Hne].
    + rewrite (lookup_update_same m _ _ _ Hl). rewrite (M m o' r'), Hl.
      split.
      * intros [[H|H]|[H|[]]]; try discriminate. inversion H; subst. left. reflexivity.
      * intros [H|H]; [|discriminate]. inversion H; subst. right. left. reflexivity.
    + rewrite (lookup_update_other n m _ _ Hne). rewrite (M m o' r').
      split; [intros [H|[H|[]]]; [exact H|inversion H; congruence]|intros H; left; exact H].
  - split; [exact L|]. intros m o' r'. cbn. rewrite (M m o' r').
    destruct (Nat.eq_dec n m) as [->|Hne].
    + rewrite (lookup_update_same m _ _ _ Hl), Hl.
      split; intros [H|H]; try discriminate; inversion H; subst; [right|left]; reflexivity.
    + rewrite (lookup_update_other n m _ _ Hne). tauto.
Qed.

Lemma run_inv c tr c' : inv c -> run c tr c' -> inv c'.
Proof. intros I R. induction R as [c|c e c1 tr c2 Hs R IH]; [exact I|]. apply IH. eapply step_inv; eassumption. Qed.

(** 1. the order of the atomic steps is a legal sequential history, and what an operation returns is its result there *)
Theorem linearization_is_legal tr c : run cinit tr c -> legal s0 (lin c) (shared c).
Proof. intros R. exact (proj1 (run_inv _ _ _ inv_init R)). Qed.

Lemma ret_is_done c n r c' : cstep c (Ret n r) c' -> exists o, lookup n (ops c) = Some (Done o r).
Proof. intros H. inversion H; subst. eexists; eassumption. Qed.

Theorem returned_result_is_linearized tr1 tr2 n r c1 c2 c3 :
  run cinit tr1 c1 -> cstep c1 (Ret n r) c2 -> run c2 tr2 c3 ->
  exists o, In (n, o, r) (lin c1).
Proof.
  intros R1 S _. destruct (ret_is_done _ _ _ _ S) as [o Ho]. exists o.
  destruct (run_inv _ _ _ inv_init R1) as [_ M]. apply M. left. exact Ho.
Qed.

(** 2. real-time order: [lin] only grows at the end, an operation enters it at its atomic step, which lies between its
    invocation and its return.  So an operation that has returned is in [lin] before any operation invoked later. *)
Lemma step_lin_prefix c e c' : cstep c e c' -> exists ext, lin c' = lin c ++ ext.
Proof. intros H. destruct H; cbn; [exists []; rewrite app_nil_r; reflexivity|eexists; reflexivity|exists []; rewrite app_nil_r; reflexivity]. Qed.

Lemma run_lin_prefix c tr c' : run c tr c' -> exists ext, lin c' = lin c ++ ext.
Proof.
  induction 1 as [c|c e c1 tr c2 Hs R [ext2 E2]]; [exists []; rewrite app_nil_r; reflexivity|].
  destruct (step_lin_prefix _ _ _ Hs) as [ext1 E1]. exists (ext1 ++ ext2). rewrite E2, E1, app_assoc. reflexivity.
Qed.

Theorem real_time_order tr1 tr2 a ra b ob c1 c2 c3 c4 :
  run cinit tr1 c1 -> cstep c1 (Ret a ra) c2 ->          (* a returns ... *)
  run c2 tr2 c3 -> cstep c3 (Inv b ob) c4 ->             (* ... before b is invoked *)
  exists oa pre post, lin c4 = pre ++ (a, oa, ra) :: post /\ (forall o r, ~ In (b, o, r) (pre ++ [(a, oa, ra)])).
Proof.
  intros R1 S1 R2 S2.
  destruct (returned_result_is_linearized tr1 [] a ra c1 c2 c2 R1 S1 (RNil c2)) as [oa Hin].
  apply in_split in Hin. destruct Hin as [pre [post1 E1]].
  destruct (step_lin_prefix _ _ _ S1) as [x1 X1]. destruct (run_lin_prefix _ _ _ R2) as [x2 X2].
  destruct (step_lin_prefix _ _ _ S2) as [x3 X3].
  exists oa, pre, (post1 ++ x1 ++ x2 ++ x3). split.
  - rewrite X3, X2, X1, E1. rewrite <- !app_assoc. cbn. reflexivity.
  - (* b is not yet known before its invocation, so it is nowhere in lin c3, of which pre ++ [a] is a part *)
    intros o r Hb.
    assert (I3 : inv c3).
    { eapply run_inv; [|exact R2]. eapply step_inv; [|exact S1]. eapply run_inv; [exact inv_init|exact R1]. }
    destruct I3 as [_ M3]. inversion S2; subst.
    assert (Hin3 : In (b, o, r) (lin c3)).
    { rewrite X2, X1, E1. rewrite <- !app_assoc. apply in_app_iff in Hb. destruct Hb as [Hb|[Hb|[]]].
      - apply in_app_iff. left. exact Hb.
      - apply in_app_iff. right. left. exact Hb. }
    apply M3 in Hin3. match goal with H : lookup b (ops c3) = None |- _ => rewrite H in Hin3 end.
    destruct Hin3; discriminate.
Qed.

End Lin.
