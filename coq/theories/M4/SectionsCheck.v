(** The check-then-act obligations evaluated on the regenerated tables. *)
From Coq Require Import String List ZArith Bool.
Import ListNotations.
From Verif Require Import M4.Sections Spec.Concurrency.
From VerifGen Require Import AccessTable.
Open Scope string_scope.

Lemma atomic_sections_hold : forallb (one_section section_table access_table) atomic_sections = true.
Proof. vm_compute. reflexivity. Qed.

(** every committed triple: all accesses of the function to the field are in one critical section of the mutex, held
    exclusively, and both a read and a write of the field happen there *)
Theorem atomic_sections_meaning : forall fn fld mu, In (fn, fld, mu) atomic_sections ->
  exists a, a <> 0%Z /\
    (forall r, In r (sec_rows section_table fn fld) -> in_section mu a r = true) /\
    (exists r, In r (sec_rows section_table fn fld) /\ is_read (kind_of r) = true) /\
    (exists r, In r (sec_rows section_table fn fld) /\ is_write (kind_of r) = true) /\
    unguarded access_table fn fld mu = [].
Proof.
  intros fn fld mu H. apply one_section_sound.
  exact (proj1 (forallb_forall _ _) atomic_sections_hold _ H).
Qed.

(** the check tells a split critical section from a single one *)
Example split_section_detected :
  one_section [("f", "g", 5%Z, [("m", 2%Z, 10%Z)]); ("f", "g", 6%Z, [("m", 2%Z, 14%Z)])] [] ("g", "f", "m") = false /\
  one_section [("f", "g", 5%Z, [("m", 1%Z, 10%Z)]); ("f", "g", 6%Z, [("m", 2%Z, 10%Z)])] [] ("g", "f", "m") = false /\
  one_section [("f", "g", 5%Z, [("m", 2%Z, 10%Z)]); ("f", "g", 6%Z, [("m", 2%Z, 10%Z)])] [] ("g", "f", "m") = true.
Proof. vm_compute. repeat split; reflexivity. Qed.
