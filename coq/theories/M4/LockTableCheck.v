(** The lock discipline check evaluated on the regenerated table. *)
From Coq Require Import String List ZArith Bool.
From Verif Require Import M4.LockDefs.
From VerifGen Require Import LockTable.
Import ListNotations.

Lemma container_locks_ok : lock_offenders container_lock_table = [].
Proof. vm_compute. reflexivity. Qed.

Lemma container_methods_present : methods_present container_lock_table = true.
Proof. vm_compute. reflexivity. Qed.
