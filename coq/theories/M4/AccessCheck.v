(** The lock discipline evaluated on the regenerated access table. *)
From Coq Require Import String List ZArith Bool.
Import ListNotations.
From Verif Require Import M4.Access M4.Lockset Spec.Concurrency.
From VerifGen Require Import AccessTable.
Open Scope string_scope.

(** accesses after construction and outside the documented configuration calls, computed once *)
Definition live_table : list arow := filter (live config_extra) access_table.

Notation the_offenders := (offenders live_table call_edges goroutine_roots escaping_functions exemptions).
Definition the_guards := Eval vm_compute in guards live_table call_edges goroutine_roots escaping_functions exemptions.
Notation the_judge := (judge live_table call_edges goroutine_roots escaping_functions exemptions).
Lemma the_guards_is : the_guards = guards live_table call_edges goroutine_roots escaping_functions exemptions.
Proof. vm_compute. reflexivity. Qed.

Lemma no_offenders : the_offenders = [].
Proof. vm_compute. reflexivity. Qed.

(** the table is not trivial: it contains the fields the anchors name, with the guards one expects *)
Lemma expected_guards :
  forallb (fun g => existsb (fun h => let '(f, a, m) := g in let '(f', a', m') := h in
                                      String.eqb f f' && aspect_eqb a a' && String.eqb m m') the_guards)
    [("ws.webSocket.outQueue", Content, "ws.webSocket.mutex");
     ("ws.webSocket.pingC", Content, "ws.webSocket.mutex");
     ("ws.webSocket.closeC", Content, "ws.webSocket.mutex");
     ("ws.webSocket.forceCloseC", Content, "ws.webSocket.mutex");
     ("ws.client.webSocket", Ptr, "ws.client.wsMutex");
     ("ws.client.errC", Content, "ws.client.errMutex");
     ("ws.server.errC", Content, "ws.server.errMutex");
     ("ocpp1.6.chargePoint.errC", Content, "ocpp1.6.chargePoint.errMutex");
     ("ws.server.addr", Ptr, "ws.server.addrMutex");
     ("ws.server.connections", Ptr, "ws.server.connMutex");
     ("ws.server.connections", Content, "ws.server.connMutex");
     ("ocppj.FIFOClientQueue.elements", Ptr, "ocppj.FIFOClientQueue.mutex");
     ("ocppj.FIFOQueueMap.data", Content, "ocppj.FIFOQueueMap.mutex");
     ("ocppj.clientState.pendingRequest", Ptr, "ocppj.clientState.mutex");
     ("ocppj.clientState.requestID", Ptr, "ocppj.clientState.mutex");
     ("ocppj.serverState.pendingRequestState", Content, "ocppj.serverState.mutex");
     ("ocppj.DefaultClientDispatcher.paused", Ptr, "ocppj.DefaultClientDispatcher.mutex");
     ("ocppj.DefaultClientDispatcher.requestChannel", Ptr, "ocppj.DefaultClientDispatcher.mutex");
     ("ocppj.DefaultServerDispatcher.requestChannel", Ptr, "ocppj.DefaultServerDispatcher.mutex");
     ("ocppj.DefaultServerDispatcher.running", Ptr, "ocppj.DefaultServerDispatcher.mutex");
     ("internal/callbackqueue.CallbackQueue.callbacks", Content, "internal/callbackqueue.CallbackQueue.callbacksMutex")] = true.
Proof. vm_compute. reflexivity. Qed.

(** every access the table records to a guarded field holds the guard, the writes exclusively *)
Theorem table_discipline f a m :
  the_judge f a = Guarded m ->
  forall r, In r access_table -> a_field r = f -> live config_extra r = true -> in_aspect a r = true ->
    (1 <= mode_of r m)%Z /\ (is_write a r = true -> mode_of r m = 2%Z).
Proof.
  intros J r Hin Hf Hl Ha. eapply guarded_sound; [exact J| |exact Hf|exact Ha].
  unfold live_table. apply filter_In. split; assumption.
Qed.

(** every field is judged: unwritten after construction and configuration, guarded, or listed in Spec/Concurrency.v
    with exactly its recorded accesses *)
Theorem every_field_judged f a :
  In f (fields live_table) -> the_judge f a <> Offender.
Proof. apply no_offenders_all_judged. exact no_offenders. Qed.

(** ... and a discipline of that shape excludes races in every interleaving (M4/Lockset.v): instantiate the guard
    function with the table's verdicts *)
Definition table_guard (x : loc) : option mutex :=
  match find (fun g => String.eqb (fst (fst g) ++ match snd (fst g) with Ptr => "" | Content => "^" end) x) the_guards with
  | Some g => Some (snd g) | None => None
  end.

Theorem guarded_fields_race_free s x m :
  reach table_guard s -> table_guard x = Some m -> ~ race s x.
Proof. apply discipline_no_race. Qed.
