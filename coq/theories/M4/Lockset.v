(** M4: why a lock discipline excludes data races.  Threads acquire and release reader/writer mutexes and
    perform accesses to shared locations; an access occupies the interval between its begin and end events
    (a field access is one expression: no lock operation of the same thread falls inside it).  A data race is
    a reachable state in which two threads are inside accesses to the same location, one of them a write.
    Theorem [discipline_no_race]: if every access to a location is made while holding that location's guard
    (exclusively for a write), no execution of any number of threads, in any interleaving, reaches a race on
    a guarded location. *)
From Coq Require Import List Bool Arith String Lia.
Import ListNotations.

Definition tid := nat.
Definition mutex := string.
Definition loc := string.

Inductive ev :=
| Acq (t : tid) (m : mutex) (excl : bool)
| Rel (t : tid) (m : mutex) (excl : bool)
| Beg (t : tid) (x : loc) (w : bool)
| End (t : tid) (x : loc) (w : bool).

Record st := { holders : list (tid * mutex * bool);      (* who holds which mutex, exclusively? *)
               active : list (tid * loc * bool) }.        (* who is inside an access to which location, writing? *)

Definition init : st := {| holders := []; active := [] |}.

Definition eq3 (a b : tid * string * bool) : bool :=
  let '(t, m, e) := a in let '(t', m', e') := b in Nat.eqb t t' && String.eqb m m' && Bool.eqb e e'.

Fixpoint remove1 (a : tid * string * bool) (l : list (tid * string * bool)) : list (tid * string * bool) :=
  match l with [] => [] | b :: r => if eq3 a b then r else b :: remove1 a r end.

Definition holds (s : st) (t : tid) (m : mutex) (excl : bool) : Prop := In (t, m, excl) (holders s).
Definition holds_some (s : st) (t : tid) (m : mutex) : Prop := exists e, holds s t m e.

(** sync.RWMutex: Lock waits until nobody holds the mutex, RLock until no writer does *)
Definition can_acquire (s : st) (m : mutex) (excl : bool) : Prop :=
  if excl then forall t e, ~ In (t, m, e) (holders s) else forall t, ~ In (t, m, true) (holders s).

(** invariant 1: an exclusive holder is the only holder of its mutex *)
Definition excl_alone (s : st) : Prop :=
  forall t m, In (t, m, true) (holders s) ->
    forall u e, In (u, m, e) (holders s) -> u = t /\ e = true.

Lemma eq3_true a b : eq3 a b = true <-> a = b.
Proof.
  destruct a as [[t m] e], b as [[t' m'] e']. unfold eq3. split.
  - intros H. apply andb_prop in H. destruct H as [H He]. apply andb_prop in H. destruct H as [Ht Hm].
    apply Nat.eqb_eq in Ht. apply String.eqb_eq in Hm. apply Bool.eqb_prop in He. subst. reflexivity.
  - intros H. inversion H. subst. rewrite Nat.eqb_refl, String.eqb_refl, Bool.eqb_reflx. reflexivity.
Qed.

Lemma in_remove1 a b l : In a (remove1 b l) -> In a l.
Proof.
  induction l as [|c r IH]; cbn [remove1]; [tauto|].
  destruct (eq3 b c); intros H; [right; exact H|].
  destruct H as [H|H]; [left; exact H|right; apply IH; exact H].
Qed.

Lemma in_remove1_other a b l : In a l -> a <> b -> In a (remove1 b l).
Proof.
  induction l as [|c r IH]; cbn [remove1]; [tauto|].
  intros [H|H] Hne.
  - subst c. destruct (eq3 b a) eqn:E; [apply eq3_true in E; congruence|left; reflexivity].
  - destruct (eq3 b c); [exact H|right; apply IH; assumption].
Qed.

Lemma init_excl_alone : excl_alone init.
Proof. intros t m H. destruct H. Qed.

Section Discipline.
(** the guard of a location, if it has one *)
Variable guard : loc -> option mutex.

(** the discipline the access table is checked for: a guarded location is only accessed while its guard is
    held, exclusively when the access writes *)
Definition access_allowed (s : st) (t : tid) (x : loc) (w : bool) : Prop :=
  match guard x with
  | None => True
  | Some m => if w then holds s t m true else holds_some s t m
  end.

Inductive step : st -> ev -> st -> Prop :=
| SAcq s t m e : can_acquire s m e ->
    step s (Acq t m e) {| holders := (t, m, e) :: holders s; active := active s |}
| SRel s t m e : holds s t m e -> (forall x w, ~ In (t, x, w) (active s)) ->
    step s (Rel t m e) {| holders := remove1 (t, m, e) (holders s); active := active s |}
| SBeg s t x w : access_allowed s t x w ->
    step s (Beg t x w) {| holders := holders s; active := (t, x, w) :: active s |}
| SEnd s t x w : In (t, x, w) (active s) ->
    step s (End t x w) {| holders := holders s; active := remove1 (t, x, w) (active s) |}.

Inductive reach : st -> Prop :=
| RInit : reach init
| RStep s e s' : reach s -> step s e s' -> reach s'.

Definition race (s : st) (x : loc) : Prop :=
  exists t u w w', t <> u /\ In (t, x, w) (active s) /\ In (u, x, w') (active s) /\ (w = true \/ w' = true).


(** invariant 2: whoever is inside an access to a guarded location holds its guard in the required mode *)
Definition active_guarded (s : st) : Prop :=
  forall t x w, In (t, x, w) (active s) -> access_allowed s t x w.



Lemma init_active_guarded : active_guarded init.
Proof. intros t x w H. destruct H. Qed.

Lemma step_excl_alone s e s' : excl_alone s -> step s e s' -> excl_alone s'.
Proof.
  intros I H. destruct H as [s t m ex Hc|s t m ex Hh Hna|s t x w Ha|s t x w Hin]; unfold excl_alone in *; cbn [holders].
  - intros t0 m0 [H0|H0] u e0 [H1|H1].
    + inversion H0; inversion H1; subst. split; reflexivity.
    + inversion H0; subst. unfold can_acquire in Hc. exfalso. exact (Hc u e0 H1).
    + inversion H1; subst. exfalso. unfold can_acquire in Hc. destruct e0.
      * exact (Hc t0 true H0).
      * exact (Hc t0 H0).
    + exact (I t0 m0 H0 u e0 H1).
  - intros t0 m0 H0 u e0 H1. apply in_remove1 in H0. apply in_remove1 in H1. exact (I t0 m0 H0 u e0 H1).
  - exact I.
  - exact I.
Qed.

Lemma allowed_mono s s' t x w :
  (forall m e, In (t, m, e) (holders s) -> In (t, m, e) (holders s')) -> access_allowed s t x w -> access_allowed s' t x w.
Proof.
  intros Hsub. unfold access_allowed, holds_some, holds. destruct (guard x) as [m|]; [|tauto].
  destruct w.
  - apply Hsub.
  - intros [e He]. exists e. apply Hsub. exact He.
Qed.

Lemma step_active_guarded s e s' : active_guarded s -> step s e s' -> active_guarded s'.
Proof.
  intros I H. destruct H as [s t m ex Hc|s t m ex Hh Hna|s t x w Ha|s t x w Hin]; unfold active_guarded in *; cbn [active].
  - intros t0 x w H0. eapply allowed_mono; [|exact (I t0 x w H0)]. cbn [holders]. intros m0 e0 Hin. right. exact Hin.
  - intros t0 x w H0. assert (Hne : t0 <> t) by (intros ->; exact (Hna x w H0)).
    eapply allowed_mono; [|exact (I t0 x w H0)]. cbn [holders]. intros m0 e0 Hin.
    apply in_remove1_other; [exact Hin|]. intros E. inversion E. congruence.
  - intros t0 x0 w0 [H0|H0].
    + inversion H0; subst. eapply allowed_mono; [|exact Ha]. cbn [holders]. tauto.
    + eapply allowed_mono; [|exact (I t0 x0 w0 H0)]. cbn [holders]. tauto.
  - intros t0 x0 w0 H0. apply in_remove1 in H0. eapply allowed_mono; [|exact (I t0 x0 w0 H0)]. cbn [holders]. tauto.
Qed.

Lemma reach_invariants s : reach s -> excl_alone s /\ active_guarded s.
Proof.
  induction 1 as [|s e s' Hr [I1 I2] Hs].
  - split; [exact init_excl_alone|exact init_active_guarded].
  - split; [eapply step_excl_alone; eassumption|eapply step_active_guarded; eassumption].
Qed.

(** no interleaving of any number of threads reaches a race on a guarded location *)
Theorem discipline_no_race s x m : reach s -> guard x = Some m -> ~ race s x.
Proof.
  intros Hr Hg [t [u [w [w' [Hne [Ht [Hu Hw]]]]]]].
  destruct (reach_invariants s Hr) as [I1 I2].
  pose proof (I2 t x w Ht) as At. pose proof (I2 u x w' Hu) as Au.
  unfold access_allowed in At, Au. rewrite Hg in At, Au.
  destruct Hw as [-> | ->].
  - (* t writes: it holds m exclusively, so u cannot hold it in any mode *)
    assert (Hu' : exists e, In (u, m, e) (holders s)) by (destruct w'; [exists true; exact Au|exact Au]).
    destruct Hu' as [e He]. destruct (I1 t m At u e He) as [E _]. congruence.
  - assert (Ht' : exists e, In (t, m, e) (holders s)) by (destruct w; [exists true; exact At|exact At]).
    destruct Ht' as [e He]. destruct (I1 u m Au t e He) as [E _]. congruence.
Qed.

End Discipline.

(** Second discipline (the "Owner" exemption of the access table): all writes to a location are made by one thread,
    its owner, under the guard held exclusively; every other thread accesses it under the guard; the owner may read its
    own location without the lock.  Still no race: a race needs a write, hence the owner inside a write holding the
    guard exclusively, which excludes the other thread's access. *)
Section Owner.
Variable owner : loc -> option (tid * mutex).

Definition owner_allowed (s : st) (t : tid) (x : loc) (w : bool) : Prop :=
  match owner x with
  | None => True
  | Some (t0, m) =>
      if w then t = t0 /\ holds s t m true
      else t = t0 \/ holds_some s t m
  end.

Inductive ostep : st -> ev -> st -> Prop :=
| OAcq s t m e : can_acquire s m e ->
    ostep s (Acq t m e) {| holders := (t, m, e) :: holders s; active := active s |}
| ORel s t m e : holds s t m e -> (forall x w, ~ In (t, x, w) (active s)) ->
    ostep s (Rel t m e) {| holders := remove1 (t, m, e) (holders s); active := active s |}
| OBeg s t x w : owner_allowed s t x w ->
    ostep s (Beg t x w) {| holders := holders s; active := (t, x, w) :: active s |}
| OEnd s t x w : In (t, x, w) (active s) ->
    ostep s (End t x w) {| holders := holders s; active := remove1 (t, x, w) (active s) |}.

Inductive oreach : st -> Prop :=
| ORInit : oreach init
| ORStep s e s' : oreach s -> ostep s e s' -> oreach s'.

Definition oactive_ok (s : st) : Prop := forall t x w, In (t, x, w) (active s) -> owner_allowed s t x w.

Lemma oallowed_mono s s' t x w :
  (forall m e, In (t, m, e) (holders s) -> In (t, m, e) (holders s')) -> owner_allowed s t x w -> owner_allowed s' t x w.
Proof.
  intros Hsub. unfold owner_allowed, holds_some, holds. destruct (owner x) as [[t0 m]|]; [|tauto].
  destruct w.
  - intros [E H]. split; [exact E|apply Hsub; exact H].
  - intros [E|[e He]]; [left; exact E|right; exists e; apply Hsub; exact He].
Qed.

Lemma ostep_excl_alone s e s' : excl_alone s -> ostep s e s' -> excl_alone s'.
Proof.
  intros I H. destruct H as [s t m ex Hc|s t m ex Hh Hna|s t x w Ha|s t x w Hin]; unfold excl_alone in *; cbn [holders].
  - intros t0 m0 [H0|H0] u e0 [H1|H1].
    + inversion H0; inversion H1; subst. split; reflexivity.
    + inversion H0; subst. unfold can_acquire in Hc. exfalso. exact (Hc u e0 H1).
    + inversion H1; subst. exfalso. unfold can_acquire in Hc. destruct e0.
      * exact (Hc t0 true H0).
      * exact (Hc t0 H0).
    + exact (I t0 m0 H0 u e0 H1).
  - intros t0 m0 H0 u e0 H1. apply in_remove1 in H0. apply in_remove1 in H1. exact (I t0 m0 H0 u e0 H1).
  - exact I.
  - exact I.
Qed.

Lemma ostep_active_ok s e s' : oactive_ok s -> ostep s e s' -> oactive_ok s'.
Proof.
  intros I H. destruct H as [s t m ex Hc|s t m ex Hh Hna|s t x w Ha|s t x w Hin]; unfold oactive_ok in *; cbn [active].
  - intros t0 x w H0. eapply oallowed_mono; [|exact (I t0 x w H0)]. cbn [holders]. intros m0 e0 Hin. right. exact Hin.
  - intros t0 x w H0. assert (Hne : t0 <> t) by (intros ->; exact (Hna x w H0)).
    eapply oallowed_mono; [|exact (I t0 x w H0)]. cbn [holders]. intros m0 e0 Hin.
    apply in_remove1_other; [exact Hin|]. intros E. inversion E. congruence.
  - intros t0 x0 w0 [H0|H0].
    + inversion H0; subst. eapply oallowed_mono; [|exact Ha]. cbn [holders]. tauto.
    + eapply oallowed_mono; [|exact (I t0 x0 w0 H0)]. cbn [holders]. tauto.
  - intros t0 x0 w0 H0. apply in_remove1 in H0. eapply oallowed_mono; [|exact (I t0 x0 w0 H0)]. cbn [holders]. tauto.
Qed.

Lemma oreach_invariants s : oreach s -> excl_alone s /\ oactive_ok s.
Proof.
  induction 1 as [|s e s' Hr [I1 I2] Hs].
  - split; [exact init_excl_alone|intros t x w H; destruct H].
  - split; [eapply ostep_excl_alone; eassumption|eapply ostep_active_ok; eassumption].
Qed.

Theorem owner_discipline_no_race s x t0 m : oreach s -> owner x = Some (t0, m) -> ~ race s x.
Proof.
  intros Hr Ho [t [u [w [w' [Hne [Ht [Hu Hw]]]]]]].
  destruct (oreach_invariants s Hr) as [I1 I2].
  pose proof (I2 t x w Ht) as At. pose proof (I2 u x w' Hu) as Au.
  unfold owner_allowed in At, Au. rewrite Ho in At, Au.
  destruct Hw as [-> | ->].
  - (* t writes: t is the owner and holds m exclusively; u is not the owner, so it holds m in some mode *)
    destruct At as [Et Hm]. subst t.
    assert (Hu' : exists e, In (u, m, e) (holders s)).
    { destruct w'; [destruct Au as [E _]; congruence|destruct Au as [E|[e He]]; [congruence|exists e; exact He]]. }
    destruct Hu' as [e He]. destruct (I1 t0 m Hm u e He) as [E _]. congruence.
  - destruct Au as [Eu Hm]. subst u.
    assert (Ht' : exists e, In (t, m, e) (holders s)).
    { destruct w; [destruct At as [E _]; congruence|destruct At as [E|[e He]]; [congruence|exists e; exact He]]. }
    destruct Ht' as [e He]. destruct (I1 t0 m Hm t e He) as [E _]. congruence.
Qed.

End Owner.

(** Third discipline (the "unwritten" verdict of the access table, and construction before publication): a location is
    written only while a single thread -- its creator -- can reach it; once it has been published (any other thread may
    access it) nobody writes it any more.  [published x] is part of the state: it is set by the creator's Pub event and
    never reset. *)
Section Publication.
Variable creator : loc -> option tid.     (* the locations under this discipline, with the thread that creates them *)

Record pst := { base : st; published : list loc }.

Definition is_pub (s : pst) (x : loc) : bool := existsb (String.eqb x) (published s).

Definition pub_allowed (s : pst) (t : tid) (x : loc) (w : bool) : Prop :=
  match creator x with
  | None => True
  | Some t0 => if is_pub s x then w = false else t = t0
  end.

Inductive pev := PBeg (t : tid) (x : loc) (w : bool) | PEnd (t : tid) (x : loc) (w : bool) | Pub (t : tid) (x : loc).

Inductive pstep : pst -> pev -> pst -> Prop :=
| PSBeg s t x w : pub_allowed s t x w ->
    pstep s (PBeg t x w) {| base := {| holders := holders (base s); active := (t, x, w) :: active (base s) |}; published := published s |}
| PSEnd s t x w : In (t, x, w) (active (base s)) ->
    pstep s (PEnd t x w) {| base := {| holders := holders (base s); active := remove1 (t, x, w) (active (base s)) |}; published := published s |}
| PSPub s t x : creator x = Some t -> (forall w, ~ In (t, x, w) (active (base s))) ->
    (* the creator publishes the location when it is not in the middle of an access to it *)
    pstep s (Pub t x) {| base := base s; published := x :: published s |}.

Inductive preach : pst -> Prop :=
| PRInit : preach {| base := init; published := [] |}
| PRStep s e s' : preach s -> pstep s e s' -> preach s'.

(** invariant: before publication only the creator is inside accesses; after it only reads are in progress *)
Definition pub_inv (s : pst) : Prop :=
  forall t x w, In (t, x, w) (active (base s)) ->
    match creator x with
    | None => True
    | Some t0 => if is_pub s x then w = false else t = t0
    end.

Lemma is_pub_cons s x y : is_pub {| base := base s; published := y :: published s |} x = (String.eqb x y || is_pub s x)%bool.
Proof. reflexivity. Qed.

Lemma pstep_inv s e s' : pub_inv s -> pstep s e s' -> pub_inv s'.
Proof.
  intros I H. destruct H as [s t x w Ha|s t x w Hin|s t x Hc Hna]; unfold pub_inv in *; cbn [base active].
  - intros t0 x0 w0 [H0|H0].
    + inversion H0; subst. exact Ha.
    + exact (I t0 x0 w0 H0).
  - intros t0 x0 w0 H0. apply in_remove1 in H0. exact (I t0 x0 w0 H0).
  - intros t0 x0 w0 H0. specialize (I t0 x0 w0 H0). destruct (creator x0) as [c|] eqn:Ec; [|exact I].
    rewrite is_pub_cons. destruct (String.eqb x0 x) eqn:E.
    + (* the location being published: nobody but the creator was inside, and the creator is not *)
      apply String.eqb_eq in E. subst x0. cbn [orb].
      destruct (is_pub s x); [exact I|]. subst t0. rewrite Hc in Ec. inversion Ec. subst c.
      exfalso. exact (Hna w0 H0).
    + cbn [orb]. exact I.
Qed.

Lemma preach_inv s : preach s -> pub_inv s.
Proof.
  induction 1 as [|s e s' Hr I Hs]; [intros t x w H; destruct H|eapply pstep_inv; eassumption].
Qed.

Theorem publication_no_race s x t0 : preach s -> creator x = Some t0 -> ~ race (base s) x.
Proof.
  intros Hr Hc [t [u [w [w' [Hne [Ht [Hu Hw]]]]]]].
  pose proof (preach_inv s Hr) as I.
  pose proof (I t x w Ht) as At. pose proof (I u x w' Hu) as Au. rewrite Hc in At, Au.
  destruct (is_pub s x).
  - destruct Hw; congruence.
  - congruence.
Qed.

End Publication.

Open Scope string_scope.

(** the discipline is not vacuous: two threads that both take the guard can each access, one after the other *)
Example two_threads_serialised :
  let g := fun x : loc => if String.eqb x "f" then Some "mu"%string else None in
  reach g {| holders := [(2, "mu"%string, true)]; active := [(2, "f"%string, true)] |}.
Proof.
  intros g.
  assert (R1 : reach g {| holders := [(1, "mu"%string, true)]; active := [] |}).
  { eapply RStep with (e := Acq 1 "mu" true); [apply RInit|].
    apply (SAcq g init 1 "mu"%string true). cbn. intros t e H. exact H. }
  assert (R2 : reach g {| holders := [(1, "mu"%string, true)]; active := [(1, "f"%string, true)] |}).
  { eapply RStep with (e := Beg 1 "f" true); [exact R1|].
    apply (SBeg g {| holders := [(1, "mu"%string, true)]; active := [] |} 1 "f"%string true). cbn. left. reflexivity. }
  assert (R3 : reach g {| holders := [(1, "mu"%string, true)]; active := [] |}).
  { eapply RStep with (e := End 1 "f" true); [exact R2|].
    apply (SEnd g {| holders := [(1, "mu"%string, true)]; active := [(1, "f"%string, true)] |} 1 "f"%string true). left. reflexivity. }
  assert (R4 : reach g {| holders := []; active := [] |}).
  { eapply RStep with (e := Rel 1 "mu" true); [exact R3|].
    apply (SRel g {| holders := [(1, "mu"%string, true)]; active := [] |} 1 "mu"%string true); [left; reflexivity|]. intros x w H. exact H. }
  assert (R5 : reach g {| holders := [(2, "mu"%string, true)]; active := [] |}).
  { eapply RStep with (e := Acq 2 "mu" true); [exact R4|].
    apply (SAcq g {| holders := []; active := [] |} 2 "mu"%string true). cbn. intros t e H. exact H. }
  eapply RStep with (e := Beg 2 "f" true); [exact R5|].
  apply (SBeg g {| holders := [(2, "mu"%string, true)]; active := [] |} 2 "f"%string true). cbn. left. reflexivity.
Qed.

(** and without the discipline the race is reachable: the theorem's hypothesis is what excludes it *)
Example unguarded_race_reachable :
  let g := fun _ : loc => @None mutex in
  exists s, reach g s /\ race s "f"%string.
Proof.
  intros g. exists {| holders := []; active := [(2, "f"%string, false); (1, "f"%string, true)] |}. split.
  - eapply RStep with (e := Beg 2 "f" false).
    + eapply RStep with (e := Beg 1 "f" true); [apply RInit|].
      apply (SBeg g init 1 "f"%string true). exact I.
    + apply (SBeg g {| holders := []; active := [(1, "f"%string, true)] |} 2 "f"%string false). exact I.
  - exists 1, 2, true, false. repeat split; [discriminate|right; left; reflexivity|left; reflexivity|left; reflexivity].
Qed.
