(** Calendar arithmetic: the two conversions are inverse on all of Z.
    Proved by a periodicity lemma (400 years = 146097 days) plus an exhaustive
    [vm_compute] sweep of one period, lifted by the lemma -- the finite domain
    is complete, the theorem is about every integer. *)
From Verif Require Import Base.Prelude M2.Civil.
From Coq Require Import ZifyBool.

Ltac Zify.zify_post_hook ::= Z.div_mod_to_equations.

(** [forall_range n f a] : f holds on a, a+1, ..., a+n-1 *)
Fixpoint forall_range (n : nat) (f : Z -> bool) (a : Z) : bool :=
  match n with
  | O => true
  | S n' => f a && forall_range n' f (a + 1)
  end.

Lemma forall_range_spec n f a :
  forall_range n f a = true -> forall z, a <= z < a + Z.of_nat n -> f z = true.
Proof.
  revert a; induction n as [|n IH]; intros a H z Hz; [lia|].
  cbn [forall_range] in H. apply andb_true_iff in H as [H1 H2].
  destruct (Z.eq_dec z a) as [->|Hne]; [exact H1|].
  apply (IH (a + 1)); [exact H2|lia].
Qed.

(* ---------------------------------------------------------------- *)
(** days -> civil -> days *)

Definition dcd_ok (z : Z) : bool :=
  let '(y, m, d) := civil_from_days z in days_from_civil y m d =? z.

Definition cfd_valid (z : Z) : bool :=
  let '(y, m, d) := civil_from_days z in valid_civil y m d.

Lemma period_sweep : forall_range (Z.to_nat 146097) (fun z => dcd_ok z && cfd_valid z) (-719468) = true.
Proof. vm_compute. reflexivity. Qed.

Lemma dcd_period_sweep z : -719468 <= z < -719468 + Z.of_nat (Z.to_nat 146097) -> dcd_ok z = true.
Proof. intros H. pose proof (forall_range_spec _ _ _ period_sweep z H) as Hs. cbv beta in Hs. apply andb_true_iff in Hs. tauto. Qed.

Lemma cfd_valid_sweep z : -719468 <= z < -719468 + Z.of_nat (Z.to_nat 146097) -> cfd_valid z = true.
Proof. intros H. pose proof (forall_range_spec _ _ _ period_sweep z H) as Hs. cbv beta in Hs. apply andb_true_iff in Hs. tauto. Qed.

Lemma civil_from_days_shift z k :
  civil_from_days (z + 146097 * k) =
  let '(y, m, d) := civil_from_days z in (y + 400 * k, m, d).
Proof.
  unfold civil_from_days.
  replace (z + 146097 * k + 719468) with ((z + 719468) + k * 146097) by lia.
  rewrite Z.div_add by lia.
  set (era := (z + 719468) / 146097).
  replace (z + 719468 + k * 146097 - (era + k) * 146097) with (z + 719468 - era * 146097) by lia.
  set (doe := z + 719468 - era * 146097).
  set (yoe := (doe - doe / 1460 + doe / 36524 - doe / 146096) / 365).
  cbv zeta.
  set (mp := (5 * (doe - (365 * yoe + yoe / 4 - yoe / 100)) + 2) / 153).
  destruct (mp <? 10); destruct (_ <=? 2); f_equal; f_equal; lia.
Qed.

Lemma days_from_civil_shift y m d k :
  days_from_civil (y + 400 * k) m d = days_from_civil y m d + 146097 * k.
Proof.
  unfold days_from_civil.
  destruct (m <=? 2).
  - replace (y + 400 * k - 1) with ((y - 1) + k * 400) by lia.
    rewrite Z.div_add by lia. cbv zeta.
    replace (y - 1 + k * 400 - ((y - 1) / 400 + k) * 400) with (y - 1 - (y - 1) / 400 * 400) by lia. lia.
  - replace (y + 400 * k) with (y + k * 400) by lia.
    rewrite Z.div_add by lia. cbv zeta.
    replace (y + k * 400 - (y / 400 + k) * 400) with (y - y / 400 * 400) by lia. lia.
Qed.

Theorem days_civil_days z :
  let '(y, m, d) := civil_from_days z in days_from_civil y m d = z.
Proof.
  set (k := (z + 719468) / 146097).
  set (r := z - 146097 * k).
  assert (Hr : -719468 <= r < -719468 + Z.of_nat (Z.to_nat 146097)) by (subst r k; lia).
  pose proof (dcd_period_sweep r Hr) as Hs.
  replace z with (r + 146097 * k) by (subst r; lia).
  rewrite civil_from_days_shift. unfold dcd_ok in Hs.
  destruct (civil_from_days r) as [[y m] d].
  rewrite days_from_civil_shift. apply Z.eqb_eq in Hs. lia.
Qed.

(* ---------------------------------------------------------------- *)
(** Range facts of [civil_from_days] (month 1..12, day valid for the month). *)


Lemma is_leap_shift y k : is_leap (y + 400 * k) = is_leap y.
Proof.
  unfold is_leap.
  replace ((y + 400 * k) mod 4) with (y mod 4) by (rewrite <- (Z.mod_add y (100 * k) 4) by lia; f_equal; lia).
  replace ((y + 400 * k) mod 100) with (y mod 100) by (rewrite <- (Z.mod_add y (4 * k) 100) by lia; f_equal; lia).
  replace ((y + 400 * k) mod 400) with (y mod 400) by (rewrite <- (Z.mod_add y k 400) by lia; f_equal; lia).
  reflexivity.
Qed.

Theorem civil_from_days_valid z :
  let '(y, m, d) := civil_from_days z in valid_civil y m d = true.
Proof.
  set (k := (z + 719468) / 146097).
  set (r := z - 146097 * k).
  assert (Hr : -719468 <= r < -719468 + Z.of_nat (Z.to_nat 146097)) by (subst r k; lia).
  pose proof (cfd_valid_sweep r Hr) as Hs.
  replace z with (r + 146097 * k) by (subst r; lia).
  rewrite civil_from_days_shift. unfold cfd_valid in Hs.
  destruct (civil_from_days r) as [[y m] d].
  unfold valid_civil, days_in in *. rewrite is_leap_shift. exact Hs.
Qed.

(* ---------------------------------------------------------------- *)
(** civil -> days -> civil, for valid dates.  One period of valid dates is
    covered by the sweep above through injectivity: if (y,m,d) is valid then
    z := days_from_civil y m d satisfies civil_from_days z = (y,m,d). We prove it
    by enumerating, for one 400-year block, every valid (y,m,d). *)

Definition cdc_ok_day (y m d : Z) : bool :=
  let z := days_from_civil y m d in
  let '(y', m', d') := civil_from_days z in (y' =? y) && (m' =? m) && (d' =? d).

Definition cdc_ok_month (y m : Z) : bool :=
  forall_range (Z.to_nat (days_in m y)) (cdc_ok_day y m) 1.

Definition cdc_ok_year (y : Z) : bool := forall_range 12 (cdc_ok_month y) 1.

Lemma cdc_period_sweep : forall_range (Z.to_nat 400) cdc_ok_year 0 = true.
Proof. vm_compute. reflexivity. Qed.

Theorem civil_days_civil y m d :
  valid_civil y m d = true -> civil_from_days (days_from_civil y m d) = (y, m, d).
Proof.
  intros Hv.
  set (k := y / 400). set (y0 := y - 400 * k).
  assert (Hy0 : 0 <= y0 < 0 + Z.of_nat (Z.to_nat 400)) by (subst y0 k; lia).
  pose proof (forall_range_spec _ _ _ cdc_period_sweep y0 Hy0) as Hyr.
  unfold valid_civil in Hv.
  assert (Hm : 1 <= m < 1 + Z.of_nat 12) by lia.
  pose proof (forall_range_spec _ _ _ Hyr m Hm) as Hmo.
  assert (Hleap : is_leap y = is_leap y0).
  { replace y with (y0 + 400 * k) by (subst y0; lia). apply is_leap_shift. }
  assert (Hdi : days_in m y = days_in m y0) by (unfold days_in; rewrite Hleap; reflexivity).
  assert (Hd : 1 <= d < 1 + Z.of_nat (Z.to_nat (days_in m y0))) by (rewrite <- Hdi; lia).
  pose proof (forall_range_spec _ _ _ Hmo d Hd) as Hday.
  unfold cdc_ok_day in Hday.
  replace y with (y0 + 400 * k) by (subst y0; lia).
  rewrite days_from_civil_shift, civil_from_days_shift.
  destruct (civil_from_days (days_from_civil y0 m d)) as [[y' m'] d'].
  apply andb_true_iff in Hday as [Hday H3]. apply andb_true_iff in Hday as [H1 H2].
  apply Z.eqb_eq in H1, H2, H3. subst. reflexivity.
Qed.
