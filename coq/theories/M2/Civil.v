(** Proleptic Gregorian calendar on Z (Hinnant's algorithms), the arithmetic
    behind Go's time.Date / Time.Date for the instants the model covers. *)
From Verif Require Import Base.Prelude.

Definition days_from_civil (y m d : Z) : Z :=
  let y' := if m <=? 2 then y - 1 else y in
  let era := y' / 400 in
  let yoe := y' - era * 400 in
  let mp := (m + 9) mod 12 in
  let doy := (153 * mp + 2) / 5 + d - 1 in
  let doe := yoe * 365 + yoe / 4 - yoe / 100 + doy in
  era * 146097 + doe - 719468.

Definition civil_from_days (z0 : Z) : Z * Z * Z :=
  let z := z0 + 719468 in
  let era := z / 146097 in
  let doe := z - era * 146097 in
  let yoe := (doe - doe / 1460 + doe / 36524 - doe / 146096) / 365 in
  let y := yoe + era * 400 in
  let doy := doe - (365 * yoe + yoe / 4 - yoe / 100) in
  let mp := (5 * doy + 2) / 153 in
  let d := doy - (153 * mp + 2) / 5 + 1 in
  let m := if mp <? 10 then mp + 3 else mp - 9 in
  ((if m <=? 2 then y + 1 else y), m, d).

Definition is_leap (y : Z) : bool :=
  (y mod 4 =? 0) && (negb (y mod 100 =? 0) || (y mod 400 =? 0)).

Definition days_in (m y : Z) : Z :=
  if (m =? 2) && is_leap y then 29
  else nth (Z.to_nat m) [0; 31; 28; 31; 30; 31; 30; 31; 31; 30; 31; 30; 31] 0.

Definition valid_civil (y m d : Z) : bool :=
  (1 <=? m) && (m <=? 12) && (1 <=? d) && (d <=? days_in m y).
