(** Facts about the validator model (M2/Validator.v) and the completeness checker for schemas. *)
From Coq Require Import String Ascii List Bool ZArith Lia.
Import ListNotations.
From Verif Require Import Base.Prelude M2.TableCheck M2.Validator.
Open Scope string_scope.

(** does a kind carry any constraint below it (a tag list that can fail)? *)
Fixpoint constrained (fuel : nat) (k : kind) : bool :=
  match fuel with
  | O => true
  | S f =>
      match k with
      | KPtr k' | KSlice k' => constrained f k'
      | KStruct name fields =>
          existsb (fun fd => let '(_, tags, fk) := fd in
                             negb (match tags with [] => true | _ => false end) || constrained f fk) fields
          || String.eqb name "types.IdToken" || String.eqb name "types.GroupIdToken"
      | _ => false
      end
  end.

Definition has_tag (n : string) (tags : list tag) : bool := existsb (fun t => String.eqb (fst t) n) tags.

(** every slice field whose elements carry constraints is traversed (dive), at every depth *)
Fixpoint complete (fuel : nat) (k : kind) : bool :=
  match fuel with
  | O => false
  | S f =>
      match k with
      | KPtr k' | KSlice k' => complete f k'
      | KStruct _ fields =>
          forallb (fun fd => let '(_, tags, fk) := fd in
                             complete f fk &&
                             match strip_ptr fk with
                             | KSlice ek => negb (constrained 40 ek) || has_tag "dive" tags
                             | _ => true
                             end) fields
      | _ => true
      end
  end.

(** the offending fields, for reporting *)
Fixpoint incomplete_fields (fuel : nat) (k : kind) : list string :=
  match fuel with
  | O => []
  | S f =>
      match k with
      | KPtr k' | KSlice k' => incomplete_fields f k'
      | KStruct name fields =>
          concat (map (fun fd => let '(fname, tags, fk) := fd in
                                 List.app (match strip_ptr fk with
                                           | KSlice ek => if negb (constrained 40 ek) || has_tag "dive" tags then [] else [name ++ "." ++ fname]
                                           | _ => []
                                           end) (incomplete_fields f fk)) fields)
      | _ => []
      end
  end.

(* ------------------------------------------------------------------ *)
(** * rules *)

Lemma rule_required enums fp v : rule_ok enums fp ("required", "") v = has_value fp v.
Proof. reflexivity. Qed.

(** a length bound counts code points *)
Lemma rule_max_string enums fp p l : rule_ok enums fp ("max", p) (VStr l) = (zlen l <=? param_z p)%Z.
Proof.
  unfold rule_ok. cbn. destruct (zlen l <=? param_z p)%Z eqn:E.
  - apply Z.leb_le. apply Z.leb_le in E. lia.
  - apply Z.leb_gt. apply Z.leb_gt in E. lia.
Qed.

Lemma rule_gte_int enums fp p z : rule_ok enums fp ("gte", p) (VInt z) = (param_z p <=? z)%Z.
Proof.
  unfold rule_ok. cbn. rewrite Z.geb_leb. destruct (param_z p <=? z)%Z eqn:E.
  - apply Z.leb_le. apply Z.leb_le in E. lia.
  - apply Z.leb_gt. apply Z.leb_gt in E. lia.
Qed.

(** a nil pointer (or interface) fails exactly its first rule unless that is omitempty *)
Lemma nil_pointer_first_rule enums n k tags :
  vfield enums (S n) (KPtr k) tags VNil false =
    match tags with [] => [] | (t, _) :: _ => if String.eqb t "omitempty" then [] else [t] end.
Proof. reflexivity. Qed.

(** a struct-valued field ignores its own tags: only the fields inside (and the struct-level rule) are evaluated *)
Lemma struct_value_ignores_tags enums n name fields tags1 tags2 fs :
  vfield enums (S n) (KStruct name fields) tags1 (VStruct fs) false = vfield enums (S n) (KStruct name fields) tags2 (VStruct fs) false.
Proof. reflexivity. Qed.

(** omitempty stops a zero non-pointer value *)
Lemma omitempty_skips_zero enums n k rest v :
  has_value false v = false -> vtags enums (S n) k (("omitempty", "") :: rest) v false = [].
Proof. intros H. cbn. rewrite H. reflexivity. Qed.

