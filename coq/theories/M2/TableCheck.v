(** Boolean checkers over the generated tables (coq/gen/Tables.v) with their meaning as
    propositions: the theorems of C18 (and the table part of C03 / C05) are the Prop-level
    statements, decided by [vm_compute] of the checker plus the soundness lemmas below. *)
From Coq Require Import String List Bool Arith.
Import ListNotations.
Open Scope string_scope.

Definition mem_s (x : string) (l : list string) : bool := existsb (String.eqb x) l.

Lemma mem_s_In x l : mem_s x l = true <-> In x l.
Proof.
  unfold mem_s. rewrite existsb_exists. split.
  - intros (y & Hy & E). apply String.eqb_eq in E. subst. exact Hy.
  - intros H. exists x. split; [exact H|apply String.eqb_refl].
Qed.

Definition subset_s (a b : list string) : bool := forallb (fun x => mem_s x b) a.
Lemma subset_s_spec a b : subset_s a b = true <-> (forall x, In x a -> In x b).
Proof.
  unfold subset_s. rewrite forallb_forall. split; intros H x Hx; [apply mem_s_In|apply mem_s_In]; auto.
Qed.

Definition same_set (a b : list string) : bool := subset_s a b && subset_s b a.
Lemma same_set_spec a b : same_set a b = true <-> (forall x, In x a <-> In x b).
Proof.
  unfold same_set. rewrite andb_true_iff, !subset_s_spec. split.
  - intros [H1 H2] x. split; auto.
  - intros H. split; intros x Hx; apply H; exact Hx.
Qed.

Fixpoint nodup_s (l : list string) : bool :=
  match l with [] => true | x :: r => negb (mem_s x r) && nodup_s r end.
Lemma nodup_s_spec l : nodup_s l = true <-> NoDup l.
Proof.
  induction l as [|x r IH]; cbn; [split; [constructor|reflexivity]|].
  rewrite andb_true_iff, negb_true_iff, IH. split.
  - intros [H1 H2]. constructor; [|exact H2]. intros Hin. apply mem_s_In in Hin. congruence.
  - intros H. inversion H; subst. split; [|assumption].
    destruct (mem_s x r) eqn:E; [apply mem_s_In in E; contradiction|reflexivity].
Qed.

(* ---- profiles ---- *)
Definition frow := (string * string * string * string * string)%type.
Definition f_name (r : frow) := let '(n, _, _, _, _) := r in n.
Definition f_reqname (r : frow) := let '(_, _, _, rq, _) := r in rq.
Definition f_respname (r : frow) := let '(_, _, _, _, rs) := r in rs.

Definition all_features (ps : list (string * list frow)) : list string := concat (map (fun p => map f_name (snd p)) ps).
Definition all_rows (ps : list (string * list frow)) : list frow := concat (map snd ps).

(** every feature name occurs in exactly one profile: the concatenation of the profiles' feature lists has no duplicate *)
Definition one_profile_per_feature (ps : list (string * list frow)) : bool := nodup_s (all_features ps).
(** request and response types report the feature's name *)
Definition types_report_name (ps : list (string * list frow)) : bool :=
  forallb (fun r => String.eqb (f_name r) (f_reqname r) && String.eqb (f_name r) (f_respname r)) (all_rows ps).
Definition keys_agree (ks : list (string * string)) : bool := forallb (fun k => String.eqb (fst k) (snd k)) ks.

Lemma types_report_name_spec ps : types_report_name ps = true ->
  forall r, In r (all_rows ps) -> f_reqname r = f_name r /\ f_respname r = f_name r.
Proof.
  unfold types_report_name. rewrite forallb_forall. intros H r Hr. specialize (H r Hr).
  apply andb_true_iff in H as [H1 H2]. apply String.eqb_eq in H1, H2. auto.
Qed.

(* ---- roles ---- *)
Definition hrow := (string * string * string * string)%type.
Definition h_action (r : hrow) := let '(a, _, _, _) := r in a.
Definition h_field (r : hrow) := let '(_, f, _, _) := r in f.
Definition h_method (r : hrow) := let '(_, _, m, _) := r in m.
Definition h_type (r : hrow) := let '(_, _, _, t) := r in t.

Definition profile_of (ps : list (string * list frow)) (feat : string) : option string :=
  match find (fun p => mem_s feat (map f_name (snd p))) ps with Some p => Some (fst p) | None => None end.
Definition reqtype_of (ps : list (string * list frow)) (feat : string) : option string :=
  match find (fun r => String.eqb (f_name r) feat) (all_rows ps) with Some (_, rq, _, _, _) => Some rq | None => None end.

Definition opt_eqb (a b : option string) : bool :=
  match a, b with Some x, Some y => String.eqb x y | None, None => true | _, _ => false end.

(** a role pair is coherent: what A may send is exactly what B dispatches to handlers and vice versa, the two send lists
    cover every feature, each switch arm calls "On<Action>" with the request type of that feature asserted, on the handler
    field that the profile check guards for that feature's profile, every arm is distinct, and a default arm answers NotSupported *)
Definition arm_ok (ps : list (string * list frow)) (pc : list (string * string)) (r : hrow) : bool :=
  negb (String.eqb (h_method r) "") &&
  opt_eqb (reqtype_of ps (h_action r)) (Some (h_type r)) &&
  match profile_of ps (h_action r) with
  | Some p => match find (fun x => String.eqb (fst x) p) pc with Some (_, f) => String.eqb f (h_field r) | None => false end
  | None => false
  end.

Definition role_pair_ok (ps : list (string * list frow))
    (sendA : list string) (handleA : list hrow) (pcA : list (string * string)) (defA : bool)
    (sendB : list string) (handleB : list hrow) (pcB : list (string * string)) (defB : bool) : bool :=
  same_set sendA (map h_action handleB) && same_set sendB (map h_action handleA) &&
  nodup_s sendA && nodup_s sendB && nodup_s (map h_action handleA) && nodup_s (map h_action handleB) &&
  same_set (sendA ++ sendB) (all_features ps) &&
  forallb (arm_ok ps pcA) handleA && forallb (arm_ok ps pcB) handleB && defA && defB &&
  nodup_s (map fst pcA) && nodup_s (map fst pcB).

Lemma role_pair_ok_sends ps sA hA pA dA sB hB pB dB :
  role_pair_ok ps sA hA pA dA sB hB pB dB = true ->
  (forall f, In f sA <-> In f (map h_action hB)) /\ (forall f, In f sB <-> In f (map h_action hA)) /\
  (forall f, In f (sA ++ sB) <-> In f (all_features ps)) /\
  (forall r, In r hA -> arm_ok ps pA r = true) /\ (forall r, In r hB -> arm_ok ps pB r = true).
Proof.
  unfold role_pair_ok. rewrite !andb_true_iff.
  intros [[[[[[[[[[[[H1 H2] _] _] _] _] H7] H8] H9] _] _] _] _].
  pose proof (proj1 (same_set_spec _ _) H1) as A1. pose proof (proj1 (same_set_spec _ _) H2) as A2.
  pose proof (proj1 (same_set_spec _ _) H7) as A7.
  split; [exact A1|]. split; [exact A2|]. split; [exact A7|].
  split; apply forallb_forall; assumption.
Qed.

(* ---- validators ---- *)
Definition tag_name (t : string) : string :=
  match index 0 "=" t with Some i => substring 0 i t | None => t end.

(** every tag used on a payload field is built in or registered *)
Definition tags_known (fields : list (string * string * string * bool * list string)) (builtin : list string) (regs : list (string * string)) : bool :=
  forallb (fun f => let '(_, _, _, _, tags) := f in
                    forallb (fun t => mem_s (tag_name t) builtin || mem_s (tag_name t) (map fst regs)) tags) fields.

(** a tag name is registered once, or repeatedly with the same function (the validator object is shared by all
    packages of both protocol versions: a second registration under the same name silently replaces the first) *)
Fixpoint regs_consistent (regs : list (string * string)) : bool :=
  match regs with
  | [] => true
  | (t, f) :: r => forallb (fun x => negb (String.eqb (fst x) t) || String.eqb (snd x) f) r && regs_consistent r
  end.

Lemma regs_consistent_spec regs : regs_consistent regs = true ->
  forall t f1 f2, In (t, f1) regs -> In (t, f2) regs -> f1 = f2.
Proof.
  induction regs as [|[t0 f0] r IH]; cbn; [contradiction|].
  rewrite andb_true_iff, forallb_forall. intros [H1 H2] t f1 f2 [E1|I1] [E2|I2].
  - congruence.
  - inversion E1; subst. specialize (H1 _ I2). cbn in H1. rewrite String.eqb_refl in H1. cbn in H1. apply String.eqb_eq in H1. congruence.
  - inversion E2; subst. specialize (H1 _ I1). cbn in H1. rewrite String.eqb_refl in H1. cbn in H1. apply String.eqb_eq in H1. congruence.
  - eapply IH; eauto.
Qed.

(** enumerations: every declared (exported) value is accepted; when the type declares values, nothing else is *)
Definition enum_row_ok (r : string * string * list string * list string * bool) : bool :=
  let '(_, _, accepted, declared, understood) := r in
  negb understood || (subset_s declared accepted && (match declared with [] => true | _ => subset_s accepted declared end)).

Definition enums_ok (rows : list (string * string * list string * list string * bool)) : bool := forallb enum_row_ok rows.

Lemma enums_ok_spec rows : enums_ok rows = true ->
  forall tag ty accepted declared, In (tag, ty, accepted, declared, true) rows ->
  (forall v, In v declared -> In v accepted) /\ (declared <> [] -> forall v, In v accepted -> In v declared).
Proof.
  unfold enums_ok. rewrite forallb_forall. intros H tag ty a d Hin. specialize (H _ Hin). cbn in H.
  apply andb_true_iff in H as [H1 H2]. split; [apply subset_s_spec; exact H1|].
  intros Hne. destruct d; [congruence|]. apply subset_s_spec. exact H2.
Qed.

Definition count_understood (rows : list (string * string * list string * list string * bool)) : nat :=
  length (filter (fun r => let '(_, _, _, _, u) := r in u) rows).
