(** M2: what an endpoint does with an arbitrary incoming frame: Endpoint.ParseMessage (the guards before each
    positional access, in the order of the Go code) and ocppMessageHandler (reply with a CALL_ERROR when a unique id
    could be extracted; complete the pending request only for a well-formed reply carrying its id).
    Bytes -> JSON is encoding/json (trusted, validated by correspondence): text that is not JSON is dropped. *)
From Coq Require Import String Ascii List Bool ZArith Lia.
Import ListNotations.
From Verif Require Import Base.Prelude M2.TableCheck M2.Validator M2.Json M2.Reply.
Open Scope string_scope.

Section Parse.
Variable v2 : bool.                         (* dialect of the endpoint (must be set: the four constructors do) *)
Variable known : list Z -> bool.            (* GetProfileForFeature(action) succeeds *)
Variable pend : list Z.                     (* unique id of the outstanding request of this connection, [] = none *)
(** decoding + validating a payload against the action's request type / the pending request's response type:
    None = does not decode (wrong JSON type), Some tags = failing rule tags of the payload ([] = valid) -- C04 / C05 *)
Variable verdict : jv -> option (list string).
Variable tagcls : list (string * string).
Variable valid_code : list Z -> bool.       (* IsErrorCodeValid *)

Inductive pm :=
| PCall (id action : list Z)
| PResult (id : list Z)
| PCallError (id : list Z)
| PIgnore                                   (* (nil, nil): reply that matches nothing *)
| PErr (code : string) (id : list Z).       (* *ocpp.Error with MessageId id *)

Definition fmt : string := if v2 then "FormatViolation" else "FormationViolation".
Definition is_str (j : jv) : option (list Z) := match j with JStr l => Some l | _ => None end.

(** float64 -> MessageType: truncation towards zero; out of range values become a number that is no message type *)
Definition type_id (m : Z) : Z := if (Z.abs m <? 9000000000000000000000)%Z then Z.quot m 1000 else (-1)%Z.

(** validation of the Call / CallResult / CallError wrapper: unique id required,max=36; action max=36 *)
Definition wrap_tags (id : list Z) (payload_tags : list string) : list string :=
  List.app (if (36 <? zlen id)%Z then ["max"] else []) payload_tags.

Definition parse_message (arr : list jv) : pm :=
  match arr with
  | t :: i :: rest =>
      match rest with
      | [] => PErr fmt []                                         (* len(arr) < 3 *)
      | _ =>
          match t with
          | JNum m =>
              match is_str i with
              | None => PErr fmt []
              | Some id =>
                  match id with
                  | [] => PErr fmt []
                  | _ =>
                      let ty := type_id m in
                      if (ty =? 2)%Z then
                        match rest with
                        | [a; p] =>
                            match is_str a with
                            | None => PErr fmt id
                            | Some action =>
                                if negb (known action) then PErr "NotSupported" id
                                else match verdict p with
                                     | None => PErr fmt id
                                     | Some tags =>
                                         match wrap_tags id tags with
                                         | [] => PCall id action
                                         | ts => PErr (class_of_tags tagcls v2 ts) id
                                         end
                                     end
                            end
                        | _ => PErr fmt id                          (* len(arr) != 4 *)
                        end
                      else if (ty =? 3)%Z then
                        if negb (Zeqb_list id pend) then PIgnore
                        else match rest with
                             | p :: _ =>
                                 match verdict p with
                                 | None => PErr fmt id
                                 | Some tags => match wrap_tags id tags with
                                                | [] => PResult id
                                                | ts => PErr (class_of_tags tagcls v2 ts) id
                                                end
                                 end
                             | [] => PErr fmt id
                             end
                      else if (ty =? 4)%Z then
                        if negb (Zeqb_list id pend) then PIgnore
                        else match rest with
                             | c :: _ :: _ =>
                                 match is_str c with
                                 | None => PErr fmt []               (* the Go code puts the (empty) code where the id belongs *)
                                 | Some code =>
                                     if valid_code code then PCallError id else PErr "GenericError" id
                                 end
                             | _ => PErr fmt id                      (* len(arr) < 4 *)
                             end
                      else PErr "MessageTypeNotSupported" id
                  end
              end
          | _ => PErr fmt []
          end
      end
  | _ => PErr fmt []
  end.

(** the message handler's reaction *)
Record reaction := { r_reply : option (list Z * string);      (* CALL_ERROR written: id, code *)
                     r_completes : bool;                       (* the pending request is completed (reply accepted) *)
                     r_request_handler : bool }.               (* the CALL is handed to the request handler *)

Definition react (arr : list jv) : reaction :=
  match parse_message arr with
  | PCall _ _ => Build_reaction None false true
  | PResult _ | PCallError _ => Build_reaction None true false
  | PIgnore => Build_reaction None false false
  | PErr code id =>
      match id with
      | [] => Build_reaction None false false
      | _ => if (36 <? zlen id)%Z then Build_reaction None false false        (* SendError itself fails validation *)
             else Build_reaction (Some (id, code)) false false
      end
  end.

End Parse.
