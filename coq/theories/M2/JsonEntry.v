(** Correspondence entries of the JSON model over the regenerated JSON schemas. *)
From Coq Require Import String Ascii List Bool ZArith.
Import ListNotations.
From Verif Require Import Base.Prelude M2.TableCheck M2.Validator M2.Json M2.TableEntry M2.ValEntry.
From VerifGen Require Import JSchemas.

Fixpoint enc_jv (fuel : nat) (j : jv) : list Z :=
  match fuel with
  | O => [(-9)%Z]
  | S f =>
      match j with
      | JNull => [0%Z]
      | JBool b => [1%Z; bool_z b]
      | JNum m => [3%Z; m]
      | JStr l => 4%Z :: zlen l :: l
      | JArr l => 6%Z :: zlen l :: concat (map (enc_jv f) l)
      | JObj l => 7%Z :: zlen l :: concat (map (fun kv => List.app (put_lp (z_of_str (fst kv))) (enc_jv f (snd kv))) l)
      end
  end.

Fixpoint dec_jv (fuel : nat) (l : list Z) : jv * list Z :=
  match fuel with
  | O => (JNull, [])
  | S f =>
      match l with
      | 0%Z :: r => (JNull, r)
      | 1%Z :: b :: r => (JBool (z_bool b), r)
      | 3%Z :: m :: r => (JNum m, r)
      | 4%Z :: n :: r => (JStr (take_n n r), drop_n n r)
      | 6%Z :: n :: r =>
          let '(vs, r') := (fix go (k : nat) (l : list Z) : list jv * list Z :=
                              match k with
                              | O => ([], l)
                              | S k' => let '(v, l1) := dec_jv f l in let '(vs, l2) := go k' l1 in (v :: vs, l2)
                              end) (Z.to_nat n) r in
          (JArr vs, r')
      | 7%Z :: n :: r =>
          let '(vs, r') := (fix go (k : nat) (l : list Z) : list (string * jv) * list Z :=
                              match k with
                              | O => ([], l)
                              | S k' => let '(key, l0) := get_lp l in
                                        let '(v, l1) := dec_jv f l0 in let '(vs, l2) := go k' l1 in ((str_of key, v) :: vs, l2)
                              end) (Z.to_nat n) r in
          (JObj vs, r')
      | _ => (JNull, [])
      end
  end.

Fixpoint enc_val (fuel : nat) (v : val) : list Z :=
  match fuel with
  | O => [(-9)%Z]
  | S f =>
      match v with
      | VNil => [0%Z]
      | VBool b => [1%Z; bool_z b]
      | VInt z => [2%Z; z]
      | VFloat m => [3%Z; m]
      | VStr l => 4%Z :: zlen l :: l
      | VTime z => [5%Z; bool_z z]
      | VSlice l => 6%Z :: zlen l :: concat (map (enc_val f) l)
      | VStruct l => 7%Z :: zlen l :: concat (map (enc_val f) l)
      end
  end.

Definition jschema_at (i : Z) : option (string * jkind) := nth_error jschemas (Z.to_nat i).

(** [schema index; value] -> the JSON tree json.Marshal produces for the payload *)
Definition c04e_entry : entry := fun inp =>
  match inp with
  | i :: r =>
      match jschema_at i with
      | Some (_, k) => let '(v, _) := dec_val 200 r in enc_jv 200 (encode 100 k v)
      | None => [(-1)%Z]
      end
  | _ => [(-1)%Z]
  end.

(** [schema index; JSON tree] -> the payload value the receiver decodes (-5 = rejected) *)
Definition c04d_entry : entry := fun inp =>
  match inp with
  | i :: r =>
      match jschema_at i with
      | Some (_, k) => let '(j, _) := dec_jv 200 r in
                       match decode 100 k j with Ok v => enc_val 200 v | Err => [(-5)%Z] end
      | None => [(-1)%Z]
      end
  | _ => [(-1)%Z]
  end.

(** [esc; code points] -> the bytes (as code units) of the string's JSON text, without the quotes *)
Definition c04s_entry : entry := fun inp =>
  match inp with
  | esc :: r => print_str (z_bool esc) r
  | _ => [(-1)%Z]
  end.

(* ------------------------------------------------------------------ *)
(** C06 entry: the reaction of an endpoint to an arbitrary JSON frame *)
From Verif Require Import M2.Reply M2.Parse.
From VerifGen Require Import Tables.

(** [role; pending id (LP); verdict kind (0 undecodable, 1 tags follow); ntags; tags...; frame tree]
    -> [reply written (0/1); code (LP); pending completed; request handler invoked] *)
Definition c06_entry : entry := fun inp =>
  match inp with
  | role :: r0 =>
      let '(pend, r1) := get_lp r0 in
      match r1 with
      | vk :: nt :: r2 =>
          let '(tags, r3) := get_lps (Z.to_nat nt) r2 in
          let '(j, _) := dec_jv 400 r3 in
          let v2 := (2 <=? role)%Z in
          let known := fun a => match profile_of (role_profiles role) (str_of a) with Some _ => true | None => false end in
          let verdict := fun (_ : jv) => if (vk =? 0)%Z then None else Some tags in
          let vc := fun c => mem_s (str_of c) valid_error_codes in
          match j with
          | JArr arr =>
              let r := react v2 known pend verdict error_class_of_tag vc arr in
              match parse_message v2 known pend verdict error_class_of_tag vc arr with
              | PCall _ action =>
                  (* the protocol layer's dispatch (C03): all handlers are installed, the handler returns a valid response *)
                  match answer (role_table role) (fun _ => true) (str_of action) OValid with
                  | (_, Some _) => [0%Z; 0%Z; 0%Z; 1%Z]
                  | (RError code :: _, None) => List.app (1%Z :: put_lp (z_of_str code)) [0%Z; 0%Z]
                  | _ => [(-2)%Z]
                  end
              | _ =>
                  List.app (match r_reply r with Some (_, code) => 1%Z :: put_lp (z_of_str code) | None => [0%Z; 0%Z] end)
                           [bool_z (r_completes r); bool_z (r_request_handler r)]
              end
          | JNull => [0%Z; 0%Z; 0%Z; 0%Z]      (* "null" unmarshals into an empty slice: len < 3, no id *)
          | _ => [0%Z; 0%Z; 0%Z; 0%Z]          (* not an array: json.Unmarshal fails, the frame is dropped *)
          end
      | _ => [(-1)%Z]
      end
  | _ => [(-1)%Z]
  end.
