(** Model of types.DateTime (ocpp1.6/types/datetime.go, ocpp2.0.1/types/datetime.go;
    the two files are identical) together with the third-party code it calls:
    relvacode/iso8601 v1.6.0 ParseInLocation / ParseISOZone and the part of
    time.Date / Time.Format the property talks about.

    Everything here is executable; no proofs in this file. *)
From Verif Require Import Base.Prelude M2.Civil.

(* ------------------------------------------------------------------ *)
(** * Go integer conversions *)

Definition two64 : Z := 18446744073709551616.
Definition two63 : Z := 9223372036854775808.
Definition wrap (x : Z) : Z := x mod two64.                  (* uint arithmetic *)
Definition to_int (x : Z) : Z := if x <? two63 then x else x - two64.   (* int(uint) *)

(* ------------------------------------------------------------------ *)
(** * datetime.go: null, the quote test *)

(** [null] exactly as the Go function (after the fix: the four comparisons are
    joined by "or"). *)
Definition null (b : bytes) : bool :=
  if negb (zlen b =? 4) then false
  else if negb (nth 0 b 0 =? 110) || negb (nth 1 b 0 =? 117)
          || negb (nth 2 b 0 =? 108) || negb (nth 3 b 0 =? 108) then false
  else true.

(** The same function as it stood before the fix (the comparisons joined by
    "and"): kept to state the refutation witness F2. *)
Definition null_prefix (b : bytes) : bool :=
  if negb (zlen b =? 4) then false
  else if negb (nth 0 b 0 =? 110) && negb (nth 1 b 0 =? 117)
          && negb (nth 2 b 0 =? 108) && negb (nth 3 b 0 =? 108) then false
  else true.

Definition quote : Z := 34.

(** [input[0] == '"' && input[len-1] == '"'] with [len > 0]. *)
Definition quoted (b : bytes) : bool :=
  match b with
  | [] => false
  | c :: _ => (c =? quote) && (match last_opt b with Some l => l =? quote | None => false end)
  end.

(** [input[1:len-1]]: Go panics when [len = 1] (slice bounds 1 > 0). *)
Definition strip (b : bytes) : option bytes :=
  match b with
  | [] => None
  | [_] => None
  | _ :: r => Some (remove_last r)
  end.

(* ------------------------------------------------------------------ *)
(** * iso8601.ParseISOZone *)

Inductive zone := ZUTC | ZOff (secs : Z) | ZErr.

Definition is_digit (c : Z) : bool := (48 <=? c) && (c <=? 57).

(** The loop [for i := 1; i < len(inp); i++]; [i] is the index of [c]. *)
Fixpoint zone_loop (l : bytes) (i offset z mult : Z) : option (Z * Z * Z) :=
  match l with
  | [] => Some (offset, z, mult)
  | c :: r =>
      let '(offset, z, mult) :=
        if i =? 3 then (to_int (wrap (z * mult)), 0, 60) else (offset, wrap (z * 10), mult) in
      if is_digit c then zone_loop r (i + 1) offset (wrap (z + (c - 48))) mult
      else if c =? 58 then (if i =? 3 then zone_loop r (i + 1) offset z mult else None)
      else None
  end.

Definition parse_zone (inp : bytes) : zone :=
  let n := zlen inp in
  if negb (n =? 1) && ((n <? 3) || (6 <? n)) then ZErr
  else match inp with
       | [] => ZErr   (* Go would index out of range; unreachable: the caller passes inp[i:] with i < len *)
       | c0 :: r =>
           if (c0 =? 90) || (c0 =? 122) then ZUTC
           else if (c0 =? 43) || (c0 =? 45) then
             let neg := c0 =? 45 in
             match zone_loop r 1 0 0 3600 with
             | None => ZErr
             | Some (offset, z, mult) =>
                 let offset := offset + to_int (wrap (z * mult)) in
                 let offset := if neg then - offset else offset in
                 if neg && (offset =? 0) then ZErr else ZOff offset
             end
           else ZErr
       end.

(* ------------------------------------------------------------------ *)
(** * iso8601.ParseInLocation *)

Record pst := mk_pst { pY : Z; pM : Z; pD : Z; ph : Z; pm : Z; ps : Z;
                       pc : Z; pp : Z; pfrac : Z; pnfrac : Z }.

Definition pst0 : pst := mk_pst 0 0 0 0 0 0 0 0 0 1.

Inductive scan_res :=
| SEnd (st : pst)                 (* input exhausted, no zone seen *)
| SZone (st : pst) (z : zone)     (* zone designator parsed, loop left *)
| SErr.

Definition set_c (st : pst) (c : Z) : pst :=
  mk_pst (pY st) (pM st) (pD st) (ph st) (pm st) (ps st) c (pp st) (pfrac st) (pnfrac st).

(** One iteration of the [parse:] loop on character [ch] at a position that
    is ([first = true]) or is not the first of the input; [rest] is the input
    from this character on (needed for the zone). *)
Definition scan_step (first : bool) (ch : Z) (rest : bytes) (st : pst) : pst + scan_res :=
  let 'mk_pst Y M D h m s c p fr nf := st in
  let zone_case :=
      if first then inl st
      else
        let upd :=
            if p =? 3 then Some (mk_pst Y M D c m s 0 p fr nf)
            else if p =? 4 then Some (mk_pst Y M D h c s 0 p fr nf)
            else if p =? 5 then Some (mk_pst Y M D h m c 0 p fr nf)
            else if p =? 6 then Some (mk_pst Y M D h m s 0 p (to_int c) nf)
            else None in
        match upd with
        | None => inr SErr
        | Some st' => match parse_zone rest with
                      | ZErr => inr SErr
                      | z => inr (SZone st' z)
                      end
        end in
  if is_digit ch then
    inl (mk_pst Y M D h m s (wrap (wrap (c * 10) + (ch - 48))) p fr (if p =? 6 then nf + 1 else nf))
  else if ch =? 45 then                                   (* '-' *)
    if p <? 3 then
      if p =? 0 then inl (mk_pst c M D h m s 0 (p + 1) fr nf)
      else if p =? 1 then inl (mk_pst Y c D h m s 0 (p + 1) fr nf)
      else inr SErr
    else zone_case
  else if (ch =? 43) || (ch =? 90) then zone_case         (* '+', 'Z' *)
  else if ch =? 84 then                                   (* 'T' *)
    if p =? 2 then inl (mk_pst Y M c h m s 0 (p + 1) fr nf) else inr SErr
  else if ch =? 58 then                                   (* ':' *)
    if p =? 3 then inl (mk_pst Y M D c m s 0 (p + 1) fr nf)
    else if p =? 4 then inl (mk_pst Y M D h c s 0 (p + 1) fr nf)
    else if p =? 5 then inl (mk_pst Y M D h c s 0 (p + 1) fr nf)   (* sic: the library assigns m *)
    else inr SErr
  else if ch =? 46 then                                   (* '.' *)
    if p =? 5 then inl (mk_pst Y M D h m c 0 (p + 1) fr nf) else inr SErr
  else inr SErr.

Fixpoint scan (first : bool) (l : bytes) (st : pst) : scan_res :=
  match l with
  | [] => SEnd st
  | ch :: r =>
      match scan_step first ch l st with
      | inl st' => scan false r st'
      | inr res => res
      end
  end.

(** "Capture remaining data" *)
Definition capture (st : pst) : pst :=
  let 'mk_pst Y M D h m s c p fr nf := st in
  if 0 <? c then
    if p =? 0 then mk_pst c 1 1 h m s c p fr nf
    else if p =? 1 then mk_pst Y c 1 h m s c p fr nf
    else if p =? 2 then mk_pst Y M c h m s c p fr nf
    else if p =? 3 then mk_pst Y M D c m s c p fr nf
    else if p =? 4 then mk_pst Y M D h c s c p fr nf
    else if p =? 5 then mk_pst Y M D h m c c p fr nf
    else if p =? 6 then mk_pst Y M D h m s c p (to_int c) nf
    else st
  else st.

Inductive parsed :=
| POk (sec nanos : Z)        (* Unix seconds and nanoseconds of the resulting time.Time *)
| PErr
| POutOfModel.               (* year / day magnitudes for which time.Date's own wrap-around is not modelled *)

Definition model_year_bound : Z := 1000000.

Definition finish (st : pst) (off : Z) : parsed :=
  let 'mk_pst Y M D h m s _ _ fr nf := st in
  if (fr <? 0) || (1000000000 <=? fr) then PErr
  else
    let scale := 10 - nf in
    let nanos := fr * 10 ^ (Z.max scale 0) in
    if (M <? 1) || (12 <? M) then PErr
    else if model_year_bound <? Y then POutOfModel
    else if (D <? 1) || (days_in M (to_int Y) <? to_int D) then PErr
    else if 23 <? h then PErr
    else if 59 <? m then PErr
    else if 59 <? s then PErr
    else if to_int D <? - model_year_bound then POutOfModel
    else
      let days := days_from_civil (to_int Y) M 1 + (to_int D - 1) in
      POk (days * 86400 + h * 3600 + m * 60 + s - off) nanos.

Definition iso_parse (inp : bytes) : parsed :=
  match scan true inp pst0 with
  | SErr => PErr
  | SEnd st => finish (capture st) 0
  | SZone st ZUTC => finish st 0
  | SZone st (ZOff o) => finish st o
  | SZone _ ZErr => PErr
  end.

(* ------------------------------------------------------------------ *)
(** * DateTime.UnmarshalJSON *)

Inductive unm :=
| UUnset                       (* nil error, receiver untouched *)
| USet (sec nanos : Z)         (* nil error, receiver := that instant *)
| UError
| UPanic
| UOutOfModel.

Definition unmarshal_with (nullf : bytes -> bool) (input : bytes) : unm :=
  if nullf input then UUnset
  else if quoted input then
    match strip input with
    | None => UPanic
    | Some body =>
        match iso_parse body with
        | POk s n => USet s n
        | PErr => UError
        | POutOfModel => UOutOfModel
        end
    end
  else UError.

Definition unmarshal := unmarshal_with null.

(* ------------------------------------------------------------------ *)
(** * DateTime.MarshalJSON for the RFC 3339 family of layouts *)

Inductive layout :=
| LSeconds          (* time.RFC3339 "2006-01-02T15:04:05Z07:00" -- the default *)
| LFixed (n : Z)    (* "2006-01-02T15:04:05.000Z07:00" with n zeros, 1 <= n <= 9 *)
| LNano             (* time.RFC3339Nano: trailing zeros (and an all-zero fraction) dropped *)
| LEmpty.           (* DateTimeFormat == "": json.Marshal(time.Time) = RFC3339Nano *)

Definition digit (d : Z) : Z := 48 + d.

(** [w] decimal digits of [n], most significant first (n mod 10^w). *)
Fixpoint digits (w : nat) (n : Z) : bytes :=
  match w with
  | O => []
  | S w' => digits w' (n / 10) ++ [digit (n mod 10)]
  end.

Fixpoint trim_zeros_rev (l : bytes) : bytes :=   (* on the reversed list *)
  match l with
  | 48 :: r => trim_zeros_rev r
  | _ => l
  end.
Definition trim_zeros (l : bytes) : bytes := rev (trim_zeros_rev (rev l)).

Definition frac_bytes (ly : layout) (nanos : Z) : bytes :=
  match ly with
  | LSeconds => []
  | LFixed n => 46 :: firstn (Z.to_nat n) (digits 9 nanos)
  | LNano | LEmpty =>
      match trim_zeros (digits 9 nanos) with
      | [] => []
      | ds => 46 :: ds
      end
  end.

(** The JSON string (with its quotes) written for the instant [(sec, nanos)];
    defined for years 0..9999 (checked by the caller). *)
Definition marshal (ly : layout) (sec nanos : Z) : bytes :=
  let days := sec / 86400 in
  let rem := sec mod 86400 in
  let '(y, mo, d) := civil_from_days days in
  [quote] ++ digits 4 y ++ [45] ++ digits 2 mo ++ [45] ++ digits 2 d ++ [84]
    ++ digits 2 (rem / 3600) ++ [58] ++ digits 2 ((rem mod 3600) / 60) ++ [58] ++ digits 2 (rem mod 60)
    ++ frac_bytes ly nanos ++ [90; quote].

Definition year_of (sec : Z) : Z := let '(y, _, _) := civil_from_days (sec / 86400) in y.

(** Truncation of an instant to the precision of a layout. *)
Definition trunc_nanos (ly : layout) (nanos : Z) : Z :=
  match ly with
  | LSeconds => 0
  | LFixed n => let k := 10 ^ (9 - n) in (nanos / k) * k
  | LNano | LEmpty => nanos
  end.

(* ------------------------------------------------------------------ *)
(** * Correspondence entry *)

Definition enc_unm (u : unm) : list Z :=
  match u with
  | UUnset => [0]
  | USet s n => [1; s; n]
  | UError => [2]
  | UPanic => [3]
  | UOutOfModel => [-99]
  end.

Definition dec_layout (k : Z) : layout :=
  if k =? 0 then LSeconds else if k =? 10 then LNano else if k =? 11 then LEmpty else LFixed k.

(** [ver; 0; bytes..]  -> DateTime.UnmarshalJSON(bytes)   (ver = 16 | 201: both packages share the model)
    [ver; 3; bytes..]  -> json.Unmarshal(bytes) of a valid JSON value: same function
    [ver; 1; layout; sec; nanos] -> MarshalJSON output bytes
    [ver; 2; layout; sec; nanos] -> marshal, then unmarshal the result
    Output [-99] = input outside the modelled domain (skipped by the comparison). *)
Definition c20_entry : entry := fun inp =>
  match inp with
  | _ :: 0 :: b => enc_unm (unmarshal b)
  | _ :: 3 :: b => enc_unm (unmarshal b)
  | [_; 1; k; sec; nanos] => marshal (dec_layout k) sec nanos
  | [_; 2; k; sec; nanos] => enc_unm (unmarshal (marshal (dec_layout k) sec nanos))
  | _ => [-1]
  end.
