(** Proofs about the DateTime model (C20). *)
From Verif Require Import Base.Prelude M2.Civil M2.CivilProofs M2.DateTime.
From Coq Require Import ZifyBool.

Definition null_lit : bytes := [110; 117; 108; 108].     (* "null" *)

(* ---------------------------------------------------------------- *)
(** * null *)

Lemma null_exact b : null b = true <-> b = null_lit.
Proof.
  unfold null, null_lit, zlen.
  destruct b as [|b0 [|b1 [|b2 [|b3 [|b4 r]]]]]; cbn [length nth];
    try (split; intro H; [discriminate H | discriminate H]).
  - change (Z.of_nat 4 =? 4) with true. cbn [negb].
    split.
    + intro H.
      destruct (b0 =? 110) eqn:E0; cbn in H; try discriminate.
      destruct (b1 =? 117) eqn:E1; cbn in H; try discriminate.
      destruct (b2 =? 108) eqn:E2; cbn in H; try discriminate.
      destruct (b3 =? 108) eqn:E3; cbn in H; try discriminate.
      apply Z.eqb_eq in E0, E1, E2, E3. subst. reflexivity.
    + intro H. inversion H; subst. reflexivity.
  - split; intro H; [|discriminate H].
    assert (Hl : (Z.of_nat (S (S (S (S (S (length r))))))) =? 4 = false) by lia.
    rewrite Hl in H. discriminate H.
Qed.

(** F2: the function as it stood before the fix is not exact. *)
Lemma null_prefix_refuted : exists b, null_prefix b = true /\ b <> null_lit.
Proof. exists [34; 117; 108; 34]. split; [vm_compute; reflexivity | discriminate]. Qed.

(* ---------------------------------------------------------------- *)
(** * UnmarshalJSON: null, non-strings *)

Lemma unmarshal_null : unmarshal null_lit = UUnset.
Proof. reflexivity. Qed.

Lemma unmarshal_unset_only_null b : unmarshal b = UUnset -> b = null_lit.
Proof.
  unfold unmarshal, unmarshal_with. destruct (null b) eqn:E.
  - intros _. apply null_exact. exact E.
  - destruct (quoted b); [|discriminate].
    destruct (strip b); [|discriminate].
    destruct (iso_parse _); discriminate.
Qed.

(** A JSON value that is not a string does not start with a double quote. *)
Definition starts_with_quote (b : bytes) : bool :=
  match b with c :: _ => c =? quote | [] => false end.

Lemma quoted_starts b : quoted b = true -> starts_with_quote b = true.
Proof. destruct b as [|c r]; cbn; [discriminate|]. intro H. apply andb_true_iff in H. tauto. Qed.

Lemma unmarshal_non_string_rejected b :
  b <> null_lit -> starts_with_quote b = false -> unmarshal b = UError.
Proof.
  intros Hn Hq. unfold unmarshal, unmarshal_with.
  destruct (null b) eqn:E; [apply null_exact in E; contradiction|].
  destruct (quoted b) eqn:Q; [apply quoted_starts in Q; congruence|reflexivity].
Qed.

(** No panic for anything encoding/json can hand over: a JSON string token has
    at least its two quotes. *)
Lemma unmarshal_no_panic b : (2 <= zlen b) -> unmarshal b <> UPanic.
Proof.
  unfold unmarshal, unmarshal_with, zlen. intros Hl.
  destruct (null b); [discriminate|].
  destruct (quoted b); [|discriminate].
  destruct b as [|c [|c' r]]; cbn [length] in Hl; try lia.
  cbn [strip]. destruct (iso_parse _); discriminate.
Qed.

(** A string is accepted exactly when the iso8601 model accepts its content. *)
Lemma unmarshal_string body :
  unmarshal (quote :: body ++ [quote]) =
  match iso_parse body with POk s n => USet s n | PErr => UError | POutOfModel => UOutOfModel end.
Proof.
  unfold unmarshal, unmarshal_with.
  assert (Hn : null (quote :: body ++ [quote]) = false).
  { destruct (null _) eqn:E; [|reflexivity]. apply null_exact in E. inversion E. }
  rewrite Hn.
  assert (Hlast : forall l : bytes, last_opt (l ++ [quote]) = Some quote).
  { induction l as [|x l IH]; [reflexivity|]. cbn [app last_opt]. destruct (l ++ [quote]) eqn:El; [destruct l; discriminate|]. exact IH. }
  assert (Hrl : forall l : bytes, remove_last (l ++ [quote]) = l).
  { induction l as [|x l IH]; [reflexivity|]. cbn [app remove_last]. destruct (l ++ [quote]) eqn:El; [destruct l; discriminate|]. rewrite IH. reflexivity. }
  assert (Hq : quoted (quote :: body ++ [quote]) = true).
  { unfold quoted. rewrite Z.eqb_refl. change (quote :: body ++ [quote]) with ((quote :: body) ++ [quote]). rewrite Hlast. rewrite Z.eqb_refl. reflexivity. }
  rewrite Hq.
  assert (Hs : strip (quote :: body ++ [quote]) = Some body).
  { cbn [strip]. destruct (body ++ [quote]) eqn:El; [destruct body; discriminate|]. rewrite <- El, Hrl. reflexivity. }
  rewrite Hs. reflexivity.
Qed.
