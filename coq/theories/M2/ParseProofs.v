(** Proofs about the frame handling model (M2/Parse.v): for every JSON array whatsoever. *)
From Coq Require Import String Ascii List Bool ZArith Lia.
Import ListNotations.
From Verif Require Import Base.Prelude M2.TableCheck M2.Validator M2.Json M2.Reply M2.Parse.
Open Scope string_scope.

Section P.
Variable v2 : bool.
Variable known : list Z -> bool.
Variable pend : list Z.
Variable verdict : jv -> option (list string).
Variable tagcls : list (string * string).
Variable valid_code : list Z -> bool.

Notation pmsg := (parse_message v2 known pend verdict tagcls valid_code).
Notation rct := (react v2 known pend verdict tagcls valid_code).

(** the id of whatever ParseMessage returns is the string at position 1 of the frame (or empty) *)
Definition pm_id (r : pm) : list Z :=
  match r with PCall id _ | PResult id | PCallError id | PErr _ id => id | PIgnore => [] end.

Lemma parse_id arr : pm_id (pmsg arr) = [] \/ exists t rest, arr = t :: JStr (pm_id (pmsg arr)) :: rest.
Proof.
  unfold parse_message.
  destruct arr as [|t [|i rest]]; [left; reflexivity|left; reflexivity|].
  destruct rest as [|r0 rest]; [left; reflexivity|].
  destruct t; try (left; reflexivity).
  destruct i; cbn [is_str]; try (left; reflexivity).
  destruct cps as [|c cps]; [left; reflexivity|].
  set (id := c :: cps).
  assert (R : forall r : pm, pm_id r = id \/ pm_id r = [] -> pm_id r = [] \/ exists t rest0, JNum milli :: JStr id :: r0 :: rest = t :: JStr (pm_id r) :: rest0).
  { intros r [E|E]; [right; rewrite E; eexists; eexists; reflexivity|left; exact E]. }
  apply R.
  destruct (type_id milli =? 2)%Z.
  { destruct rest as [|p [|x rest]]; try (left; reflexivity).
    destruct (is_str r0); [|left; reflexivity].
    destruct (negb (known l)); [left; reflexivity|].
    destruct (verdict p); [|left; reflexivity].
    destruct (wrap_tags id l0); left; reflexivity. }
  destruct (type_id milli =? 3)%Z.
  { destruct (negb (Zeqb_list id pend)); [right; reflexivity|].
    destruct (verdict r0); [|left; reflexivity]. destruct (wrap_tags id l); left; reflexivity. }
  destruct (type_id milli =? 4)%Z.
  { destruct (negb (Zeqb_list id pend)); [right; reflexivity|].
    destruct rest as [|x rest]; [left; reflexivity|].
    destruct (is_str r0); [|right; reflexivity]. destruct (valid_code l); left; reflexivity. }
  left. reflexivity.
Qed.

(** a CALL_ERROR is written only with an id that was extracted from the frame, and that id is not empty *)
Theorem reply_carries_extracted_id : forall arr id code,
  r_reply (rct arr) = Some (id, code) -> id <> [] /\ exists t rest, arr = t :: JStr id :: rest.
Proof.
  intros arr id code H. unfold react in H. destruct (pmsg arr) eqn:P; cbn in H; try discriminate.
  destruct id0 as [|c l]; [discriminate|]. destruct (36 <? zlen (c :: l))%Z; [discriminate|].
  inversion H; subst. split; [discriminate|].
  destruct (parse_id arr) as [E|(t & rest & E)]; rewrite P in E; cbn in E; [discriminate|eauto].
Qed.

(** the pending request is completed only by a reply carrying exactly its id (and only when one is pending) *)
Theorem completes_only_pending : forall arr,
  r_completes (rct arr) = true -> pend <> [] /\ exists t rest, arr = t :: JStr pend :: rest.
Proof.
  intros arr. unfold react.
  assert (K : forall id, pmsg arr = PResult id \/ pmsg arr = PCallError id -> id = pend /\ id <> []).
  { intros id H. unfold parse_message in H.
    destruct arr as [|t [|i rest]]; [destruct H; discriminate|destruct H; discriminate|].
    destruct rest as [|r0 rest]; [destruct H; discriminate|].
    destruct t; try (destruct H; discriminate).
    destruct i; cbn [is_str] in H; try (destruct H; discriminate).
    destruct cps as [|c cps]; [destruct H; discriminate|].
    destruct (type_id milli =? 2)%Z.
    { destruct rest as [|p [|x rest]]; try (destruct H; discriminate).
      destruct (is_str r0); [|destruct H; discriminate]. destruct (negb (known l)); [destruct H; discriminate|].
      destruct (verdict p); [|destruct H; discriminate]. destruct (wrap_tags (c :: cps) l0); destruct H; discriminate. }
    destruct (type_id milli =? 3)%Z.
    { destruct (Zeqb_list (c :: cps) pend) eqn:E; cbn [negb] in H; [|destruct H; discriminate].
      apply Zeqb_list_eq in E.
      destruct (verdict r0); [|destruct H; discriminate].
      destruct (wrap_tags (c :: cps) l); destruct H as [H|H]; try discriminate; inversion H; subst; split; [reflexivity|discriminate]. }
    destruct (type_id milli =? 4)%Z.
    { destruct (Zeqb_list (c :: cps) pend) eqn:E; cbn [negb] in H; [|destruct H; discriminate].
      apply Zeqb_list_eq in E.
      destruct rest as [|x rest]; [destruct H; discriminate|].
      destruct (is_str r0); [|destruct H; discriminate].
      destruct (valid_code l); destruct H as [H|H]; try discriminate; inversion H; subst; split; [reflexivity|discriminate]. }
    destruct H; discriminate. }
  destruct (pmsg arr) eqn:P; cbn; try discriminate.
  - intros _. destruct (K id (or_introl eq_refl)) as [E N]. subst id. split; [exact N|].
    destruct (parse_id arr) as [E2|(t & rest & E2)]; rewrite P in E2; cbn in E2; [congruence|eauto].
  - intros _. destruct (K id (or_intror eq_refl)) as [E N]. subst id. split; [exact N|].
    destruct (parse_id arr) as [E2|(t & rest & E2)]; rewrite P in E2; cbn in E2; [congruence|eauto].
  - destruct id as [|c l]; [discriminate|]. destruct (36 <? zlen (c :: l))%Z; discriminate.
Qed.

(** whatever arrives, at most one thing happens: a CALL_ERROR reply, or the completion of the pending request,
    or the delivery of a CALL to the request handler -- never two of them *)
Theorem at_most_one_effect : forall arr,
  let r := rct arr in
  (match r_reply r with Some _ => 1 | None => 0 end + (if r_completes r then 1 else 0) + (if r_request_handler r then 1 else 0) <= 1)%nat.
Proof.
  intros arr r. subst r. unfold react. destruct (pmsg arr); cbn [r_reply r_completes r_request_handler]; try lia.
  destruct id as [|c l]; cbn [r_reply r_completes r_request_handler]; [lia|].
  destruct (36 <? zlen (c :: l))%Z; cbn [r_reply r_completes r_request_handler]; lia.
Qed.

(** a reply (type 3 or 4) whose id is not the pending one causes nothing at all *)
Theorem foreign_reply_no_effect : forall m id rest ty,
  id <> [] -> Zeqb_list id pend = false -> ty = type_id m -> (ty = 3 \/ ty = 4)%Z -> rest <> [] ->
  rct (JNum m :: JStr id :: rest) = Build_reaction None false false.
Proof.
  intros m id rest ty Hid Hp -> Hty Hr. unfold react, parse_message. cbn [is_str].
  destruct rest as [|r0 rest]; [congruence|]. destruct id as [|c l]; [congruence|].
  assert (N2 : (2 =? 3 = false)%Z /\ (2 =? 4 = false)%Z) by (split; reflexivity).
  destruct Hty as [E|E]; rewrite E.
  - change (3 =? 2)%Z with false. change (3 =? 3)%Z with true. cbv iota. rewrite Hp. reflexivity.
  - change (4 =? 2)%Z with false. change (4 =? 3)%Z with false. change (4 =? 4)%Z with true. cbv iota. rewrite Hp. reflexivity.
Qed.
End P.
