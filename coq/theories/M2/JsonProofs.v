(** Proofs about the JSON model (M2/Json.v). *)
From Coq Require Import String Ascii List Bool ZArith Lia.
Import ListNotations.
From Verif Require Import Base.Prelude M2.TableCheck M2.Validator M2.Json.
Open Scope string_scope.

(** frames have the OCPP-J shape and are read back as what was written *)
Lemma frame_shape fr :
  (exists id a p, frame_json fr = JArr [JNum 2000; JStr id; JStr a; p]) \/
  (exists id p, frame_json fr = JArr [JNum 3000; JStr id; p]) \/
  (exists id c d det, frame_json fr = JArr [JNum 4000; JStr id; JStr c; JStr d; det]).
Proof. destruct fr; [left|right; left|right; right]; repeat eexists. Qed.

Lemma parse_frame_json fr : parse_frame (frame_json fr) = Some fr.
Proof. destruct fr; reflexivity. Qed.

(* ------------------------------------------------------------------ *)
(** * the text layer of strings *)

(** code points Go can hold in a string after decoding valid UTF-8: the escapes need 16 bits only for the
    characters that are escaped (all below U+2030) *)
Definition cp_ok (c : Z) : Prop := (0 <= c)%Z.

Lemma unhex_hexd d : (0 <= d < 16)%Z -> unhex (hexd d) = Some d.
Proof.
  intros H. unfold hexd, unhex. destruct (d <? 10)%Z eqn:E.
  - apply Z.ltb_lt in E.
    replace ((48 <=? 48 + d) && (48 + d <=? 57))%Z with true by (symmetry; apply andb_true_iff; split; apply Z.leb_le; lia).
    f_equal. lia.
  - apply Z.ltb_ge in E.
    replace ((48 <=? 87 + d) && (87 + d <=? 57))%Z with false by (symmetry; apply andb_false_iff; right; apply Z.leb_gt; lia).
    replace ((97 <=? 87 + d) && (87 + d <=? 102))%Z with true by (symmetry; apply andb_true_iff; split; apply Z.leb_le; lia).
    f_equal. lia.
Qed.

Lemma hex4 c : (0 <= c < 65536)%Z ->
  (c / 4096 mod 16 * 4096 + c / 256 mod 16 * 256 + c / 16 mod 16 * 16 + c mod 16 = c)%Z.
Proof.
  intros H.
  pose proof (Z.div_mod c 16 ltac:(lia)). pose proof (Z.div_mod (c / 16) 16 ltac:(lia)).
  pose proof (Z.div_mod (c / 16 / 16) 16 ltac:(lia)).
  replace (c / 256)%Z with (c / 16 / 16)%Z by (rewrite Z.div_div by lia; reflexivity).
  replace (c / 4096)%Z with (c / 16 / 16 / 16)%Z by (rewrite !Z.div_div by lia; reflexivity).
  assert (c / 16 / 16 / 16 < 16)%Z by (rewrite !Z.div_div by lia; apply Z.div_lt_upper_bound; lia).
  assert (0 <= c / 16 / 16 / 16)%Z by (apply Z.div_pos; [apply Z.div_pos; [apply Z.div_pos|]|]; lia).
  rewrite (Z.mod_small (c / 16 / 16 / 16) 16) by lia. lia.
Qed.

Lemma parse_u_escape f c rest r : (0 <= c < 65536)%Z -> parse_str f rest = Some r ->
  parse_str (S f) (u_escape c ++ rest) = Some (c :: r).
Proof.
  intros Hc Hr. unfold u_escape. cbn [app parse_str].
  change (92 =? 92)%Z with true. change (117 =? 117)%Z with true. cbv iota.
  assert (B : forall x, (0 <= x mod 16 < 16)%Z) by (intros; apply Z.mod_pos_bound; lia).
  rewrite !unhex_hexd by apply B. rewrite Hr. rewrite hex4 by exact Hc. reflexivity.
Qed.

Lemma parse_str_mono f : forall l r, parse_str f l = Some r -> parse_str (S f) l = Some r.
Proof.
  induction f as [|f IH]; intros l r H; [discriminate|].
  cbn [parse_str] in *. destruct l as [|c l]; [exact H|].
  destruct (c =? 92)%Z.
  - destruct l as [|e l1]; [discriminate|]. destruct (e =? 117)%Z.
    + destruct l1 as [|a [|b [|c' [|d r2]]]]; try discriminate.
      destruct (unhex a), (unhex b), (unhex c'), (unhex d); try discriminate.
      destruct (parse_str f r2) eqn:E; [|discriminate]. rewrite (IH _ _ E). exact H.
    + destruct (parse_str f l1) eqn:E; [|discriminate]. rewrite (IH _ _ E). exact H.
  - destruct ((c =? 34)%Z || (c <? 32)%Z); [discriminate|].
    destruct (parse_str f l) eqn:E; [|discriminate]. rewrite (IH _ _ E). exact H.
Qed.

Lemma parse_print_cp esc f c rest r : (0 <= c)%Z -> parse_str f rest = Some r ->
  parse_str (S f) (print_cp esc c ++ rest) = Some (c :: r).
Proof.
  intros Hc Hr. unfold print_cp.
  destruct (c =? 34)%Z eqn:E34; [apply Z.eqb_eq in E34; subst; cbn; rewrite Hr; reflexivity|].
  destruct (c =? 92)%Z eqn:E92; [apply Z.eqb_eq in E92; subst; cbn; rewrite Hr; reflexivity|].
  destruct (c =? 10)%Z eqn:E10; [apply Z.eqb_eq in E10; subst; cbn; rewrite Hr; reflexivity|].
  destruct (c =? 13)%Z eqn:E13; [apply Z.eqb_eq in E13; subst; cbn; rewrite Hr; reflexivity|].
  destruct (c =? 9)%Z eqn:E9; [apply Z.eqb_eq in E9; subst; cbn; rewrite Hr; reflexivity|].
  destruct (c <? 32)%Z eqn:E32; [apply Z.ltb_lt in E32; apply parse_u_escape; [lia|exact Hr]|].
  destruct (esc && ((c =? 60)%Z || (c =? 62)%Z || (c =? 38)%Z)) eqn:Eh.
  { apply andb_true_iff in Eh as [_ Eh]. apply parse_u_escape; [|exact Hr].
    apply orb_true_iff in Eh as [Eh|Eh]; [apply orb_true_iff in Eh as [Eh|Eh]|]; apply Z.eqb_eq in Eh; lia. }
  destruct ((c =? 8232)%Z || (c =? 8233)%Z) eqn:El.
  { apply parse_u_escape; [|exact Hr]. apply orb_true_iff in El as [El|El]; apply Z.eqb_eq in El; lia. }
  cbn [app parse_str]. rewrite E92, E34, E32. cbn [orb]. rewrite Hr. reflexivity.
Qed.

(** every string survives printing and parsing, under both escaping settings *)
Theorem parse_print_str : forall esc s, Forall cp_ok s ->
  exists f, parse_str f (print_str esc s) = Some s.
Proof.
  intros esc s H. induction H as [|c s Hc Hs [f IH]].
  - exists 1%nat. reflexivity.
  - exists (S f). unfold print_str. cbn [map concat]. apply parse_print_cp; assumption.
Qed.

(* ------------------------------------------------------------------ *)
(** * the structural round trip *)

Definition is_empty_slice (v : val) : bool := match v with VSlice [] => true | _ => false end.

(** [typed k v]: v is a Go value of the shape k, in canonical form (an empty slice in an omitempty field is written nil:
    the two are indistinguishable on the wire) *)
Fixpoint typed (fuel : nat) (k : jkind) (v : val) : bool :=
  match fuel with
  | O => false
  | S f =>
      match k with
      | JKPtr k' => match v with VNil => true | _ => typed f k' v end
      | JKAny => match v with VNil | VStr _ | VBool _ | VFloat _ => true | _ => false end
      | JKString | JKTime => match v with VStr _ => true | _ => false end
      | JKInt => match v with VInt _ => true | _ => false end
      | JKFloat => match v with VFloat _ => true | _ => false end
      | JKBool => match v with VBool _ => true | _ => false end
      | JKSlice ek => match v with VNil => true | VSlice l => forallb (typed f ek) l | _ => false end
      | JKStruct fields =>
          match v with
          | VStruct vs =>
              (fix go (fields : list (string * bool * jkind)) (vs : list val) : bool :=
                 match fields, vs with
                 | [], [] => true
                 | (_, omit, fk) :: fr, x :: xr => typed f fk x && negb (omit && is_empty_slice x) && go fr xr
                 | _, _ => false
                 end) fields vs
          | _ => false
          end
      end
  end.

Lemma encode_not_null : forall f k v, typed f k v = true -> v <> VNil -> encode f k v <> JNull.
Proof.
  induction f as [|f IH]; intros k v Ht Hv; [discriminate|].
  cbn [typed] in Ht. cbn [encode].
  destruct k; destruct v; try discriminate; try congruence; try (apply IH; [exact Ht|discriminate]).
Qed.

(* ---- struct fields ---- *)
Fixpoint enc_fields (f : nat) (fields : list (string * bool * jkind)) (vs : list val) : list (string * jv) :=
  match fields, vs with
  | (key, omit, fk) :: fr, x :: xr =>
      if omit && json_empty fk x then enc_fields f fr xr else (key, encode f fk x) :: enc_fields f fr xr
  | _, _ => []
  end.

Lemma encode_struct f fields vs : encode (S f) (JKStruct fields) (VStruct vs) = JObj (enc_fields f fields vs).
Proof.
  cbn [encode]. f_equal. revert vs. induction fields as [|[[key omit] fk] fr IH]; intros vs; [reflexivity|].
  destruct vs as [|x xr]; [reflexivity|]. cbn [enc_fields]. rewrite <- IH. reflexivity.
Qed.

Fixpoint dec_fields (f : nat) (obj : list (string * jv)) (fields : list (string * bool * jkind)) : res :=
  match fields with
  | [] => Ok (VStruct [])
  | (key, _, fk) :: fr =>
      let fv := match lookup_key key obj with None => Ok (zero_val f fk) | Some x => decode f fk x end in
      match fv, dec_fields f obj fr with
      | Ok v, Ok (VStruct vs) => Ok (VStruct (v :: vs))
      | _, _ => Err
      end
  end.

Lemma decode_struct f fields obj : decode (S f) (JKStruct fields) (JObj obj) = dec_fields f obj fields.
Proof.
  cbn [decode]. induction fields as [|[[key omit] fk] fr IH]; [reflexivity|].
  cbn [dec_fields]. rewrite <- IH. reflexivity.
Qed.

Fixpoint typed_fields (f : nat) (fields : list (string * bool * jkind)) (vs : list val) : bool :=
  match fields, vs with
  | [], [] => true
  | (_, omit, fk) :: fr, x :: xr => typed f fk x && negb (omit && is_empty_slice x) && typed_fields f fr xr
  | _, _ => false
  end.

Lemma typed_struct f fields vs : typed (S f) (JKStruct fields) (VStruct vs) = typed_fields f fields vs.
Proof.
  cbn [typed]. revert vs. induction fields as [|[[key omit] fk] fr IH]; intros vs; destruct vs as [|x xr]; try reflexivity.
  cbn [typed_fields]. rewrite <- IH. reflexivity.
Qed.

Definition keys (fields : list (string * bool * jkind)) : list string := map (fun fd => fst (fst fd)) fields.

Lemma enc_fields_app f pre vpre post vpost : length pre = length vpre ->
  enc_fields f (pre ++ post) (vpre ++ vpost) = (enc_fields f pre vpre ++ enc_fields f post vpost)%list.
Proof.
  revert vpre. induction pre as [|[[key omit] fk] pre IH]; intros vpre H; destruct vpre as [|x vpre]; try discriminate; [reflexivity|].
  cbn [app enc_fields]. inversion H as [H']. rewrite (IH _ H'). destruct (omit && json_empty fk x); reflexivity.
Qed.

Lemma enc_fields_keys f fields vs kv : In kv (enc_fields f fields vs) -> In (fst kv) (keys fields).
Proof.
  revert vs. induction fields as [|[[key omit] fk] fr IH]; intros vs H; [destruct vs; contradiction|].
  destruct vs as [|x xr]; [contradiction|]. cbn [enc_fields] in H. cbn.
  destruct (omit && json_empty fk x); [right; eapply IH; exact H|].
  destruct H as [H|H]; [left; subst; reflexivity|right; eapply IH; exact H].
Qed.

Lemma find_none_all {A} (p : A -> bool) l : (forall x, In x l -> p x = false) -> find p l = None.
Proof. induction l as [|a l IH]; intros H; [reflexivity|]. cbn. rewrite (H a (or_introl eq_refl)). apply IH. intros x Hx. apply H. right. exact Hx. Qed.

Lemma find_app_none {A} (p : A -> bool) l1 l2 : find p l1 = None -> find p (l1 ++ l2) = find p l2.
Proof. induction l1 as [|a l1 IH]; intros H; [reflexivity|]. cbn in *. destruct (p a); [discriminate|apply IH; exact H]. Qed.

Lemma find_app_some {A} (p : A -> bool) l1 l2 x : find p l1 = Some x -> find p (l1 ++ l2) = Some x.
Proof. induction l1 as [|a l1 IH]; intros H; [discriminate|]. cbn in *. destruct (p a); [exact H|apply IH; exact H]. Qed.

Lemma lower_in l key : In key l -> In (lower_s key) (map lower_s l).
Proof. apply in_map. Qed.

(** looking a key up in an object whose other keys differ from it even case-insensitively *)
Lemma lookup_unique key A M B :
  (forall kv, In kv A -> String.eqb (lower_s (fst kv)) (lower_s key) = false) ->
  (forall kv, In kv B -> String.eqb (lower_s (fst kv)) (lower_s key) = false) ->
  (M = [] \/ exists j, M = [(key, j)]) ->
  lookup_key key (A ++ M ++ B) = match M with [] => None | (_, j) :: _ => Some j end.
Proof.
  intros HA HB HM. unfold lookup_key.
  assert (EA : forall kv, In kv A -> String.eqb (fst kv) key = false).
  { intros kv Hin. destruct (String.eqb (fst kv) key) eqn:E; [|reflexivity]. apply String.eqb_eq in E.
    specialize (HA _ Hin). rewrite E, String.eqb_refl in HA. discriminate. }
  assert (EB : forall kv, In kv B -> String.eqb (fst kv) key = false).
  { intros kv Hin. destruct (String.eqb (fst kv) key) eqn:E; [|reflexivity]. apply String.eqb_eq in E.
    specialize (HB _ Hin). rewrite E, String.eqb_refl in HB. discriminate. }
  rewrite !rev_app_distr.
  destruct HM as [->|[j ->]].
  - cbn [rev app]. rewrite app_nil_r.
    rewrite (find_none_all (fun kv => String.eqb (fst kv) key)).
    2:{ intros x Hx. apply in_app_or in Hx as [Hx|Hx]; apply in_rev in Hx; auto. }
    rewrite (find_none_all (fun kv => String.eqb (lower_s (fst kv)) (lower_s key))); [reflexivity|].
    intros x Hx. apply in_app_or in Hx as [Hx|Hx]; apply in_rev in Hx; auto.
  - cbn [rev app]. rewrite <- app_assoc.
    rewrite find_app_none by (apply find_none_all; intros x Hx; apply in_rev in Hx; auto).
    cbn [app find fst]. rewrite String.eqb_refl. reflexivity.
Qed.

Lemma nodup_ci_app_mid pre key post : nodup_ci (pre ++ key :: post) = true ->
  (forall k, In k pre -> String.eqb (lower_s k) (lower_s key) = false) /\
  (forall k, In k post -> String.eqb (lower_s k) (lower_s key) = false).
Proof.
  induction pre as [|a pre IH]; cbn [app nodup_ci]; intros H.
  - apply andb_true_iff in H as [H1 _]. apply negb_true_iff in H1. split; [contradiction|].
    intros k Hk. destruct (String.eqb (lower_s k) (lower_s key)) eqn:E; [|reflexivity].
    apply String.eqb_eq in E. exfalso.
    assert (X : mem_s (lower_s key) (map lower_s post) = true) by (apply mem_s_In; rewrite <- E; apply in_map; exact Hk).
    congruence.
  - apply andb_true_iff in H as [H1 H2]. apply negb_true_iff in H1. destruct (IH H2) as [I1 I2]. split; [|exact I2].
    intros k [<-|Hk]; [|apply I1; exact Hk].
    destruct (String.eqb (lower_s a) (lower_s key)) eqn:E; [|reflexivity]. apply String.eqb_eq in E. exfalso.
    assert (X : mem_s (lower_s a) (map lower_s (pre ++ key :: post)) = true).
    { apply mem_s_In. rewrite E. apply in_map. apply in_or_app. right. left. reflexivity. }
    congruence.
Qed.

Lemma zero_is_omitted f fk x : typed (S f) fk x = true -> json_empty fk x = true -> is_empty_slice x = false -> zero_val (S f) fk = x.
Proof.
  intros Ht He Hs. destruct fk; cbn [typed] in Ht; cbn [json_empty] in He; cbn [zero_val];
    destruct x; try discriminate; try reflexivity.
  - f_equal. destruct cps; [reflexivity|discriminate].
  - f_equal. apply Z.eqb_eq in He. congruence.
  - f_equal. apply Z.eqb_eq in He. congruence.
  - destruct b; [discriminate|reflexivity].
  - destruct l; discriminate.
Qed.

(** the lookup of each field's key in the encoded object *)
Lemma lookup_field f pre vpre key omit fk x post vpost :
  length pre = length vpre ->
  nodup_ci (keys (pre ++ (key, omit, fk) :: post)) = true ->
  lookup_key key (enc_fields f (pre ++ (key, omit, fk) :: post) (vpre ++ x :: vpost)) =
    if omit && json_empty fk x then None else Some (encode f fk x).
Proof.
  intros Hl Hn. rewrite enc_fields_app by exact Hl. cbn [enc_fields].
  unfold keys in Hn. rewrite map_app in Hn. cbn [map fst] in Hn.
  destruct (nodup_ci_app_mid _ _ _ Hn) as [N1 N2].
  assert (HA : forall kv, In kv (enc_fields f pre vpre) -> String.eqb (lower_s (fst kv)) (lower_s key) = false).
  { intros kv Hin. apply N1. exact (enc_fields_keys _ _ _ _ Hin). }
  assert (HB : forall kv, In kv (enc_fields f post vpost) -> String.eqb (lower_s (fst kv)) (lower_s key) = false).
  { intros kv Hin. apply N2. exact (enc_fields_keys _ _ _ _ Hin). }
  destruct (omit && json_empty fk x).
  - change (enc_fields f pre vpre ++ enc_fields f post vpost)%list with (enc_fields f pre vpre ++ [] ++ enc_fields f post vpost)%list.
    rewrite (lookup_unique key _ [] _ HA HB (or_introl eq_refl)). reflexivity.
  - change ((key, encode f fk x) :: enc_fields f post vpost) with ([(key, encode f fk x)] ++ enc_fields f post vpost)%list.
    rewrite (lookup_unique key _ [(key, encode f fk x)] _ HA HB); [reflexivity|right; eexists; reflexivity].
Qed.

Section RT.
Variable f : nat.
Hypothesis IH : forall k v, wf_jkind f k = true -> typed f k v = true -> decode f k (encode f k v) = Ok v.

Lemma dec_fields_suffix : forall post vpost pre vpre,
  length pre = length vpre -> typed_fields f post vpost = true -> nodup_ci (keys (pre ++ post)) = true ->
  (forall fd, In fd post -> wf_jkind f (snd fd) = true) ->
  dec_fields f (enc_fields f (pre ++ post) (vpre ++ vpost)) post = Ok (VStruct vpost).
Proof.
  induction post as [|[[key omit] fk] post IHp]; intros vpost pre vpre Hl Ht Hn Hwf.
  - destruct vpost; [reflexivity|discriminate].
  - destruct vpost as [|x vpost]; [discriminate|]. cbn [typed_fields] in Ht.
    apply andb_true_iff in Ht as [Ht Ht3]. apply andb_true_iff in Ht as [Ht1 Ht2]. apply negb_true_iff in Ht2.
    cbn [dec_fields]. rewrite (lookup_field f pre vpre key omit fk x post vpost Hl Hn).
    assert (Hrest : dec_fields f (enc_fields f (pre ++ (key, omit, fk) :: post) (vpre ++ x :: vpost)) post = Ok (VStruct vpost)).
    { replace (pre ++ (key, omit, fk) :: post)%list with ((pre ++ [(key, omit, fk)]) ++ post)%list by (rewrite <- app_assoc; reflexivity).
      replace (vpre ++ x :: vpost)%list with ((vpre ++ [x]) ++ vpost)%list by (rewrite <- app_assoc; reflexivity).
      apply IHp; [rewrite !app_length; cbn; lia|exact Ht3|rewrite <- app_assoc; exact Hn|intros fd Hfd; apply Hwf; right; exact Hfd]. }
    rewrite Hrest.
    destruct (omit && json_empty fk x) eqn:E.
    + apply andb_true_iff in E as [Eo Ee]. rewrite Eo in Ht2. cbn in Ht2.
      destruct f as [|f']; [discriminate|]. rewrite (zero_is_omitted f' fk x Ht1 Ee Ht2). reflexivity.
    + rewrite (IH fk x (Hwf _ (or_introl eq_refl)) Ht1). reflexivity.
Qed.
End RT.

(** decoding what was encoded gives the value back, for every kind whose structs have keys distinct under case folding *)
Theorem roundtrip : forall f k v, wf_jkind f k = true -> typed f k v = true -> decode f k (encode f k v) = Ok v.
Proof.
  induction f as [|f IH]; intros k v Hw Ht; [discriminate|].
  destruct k.
  - (* string *) cbn in Ht. destruct v; try discriminate. reflexivity.
  - cbn in Ht. destruct v; try discriminate. cbn. rewrite Z.mod_mul by lia. cbn. rewrite Z.div_mul by lia. reflexivity.
  - cbn in Ht. destruct v; try discriminate. reflexivity.
  - cbn in Ht. destruct v; try discriminate. reflexivity.
  - cbn in Ht. destruct v; try discriminate; reflexivity.
  - cbn in Ht. destruct v; try discriminate. reflexivity.
  - (* ptr *)
    cbn [wf_jkind] in Hw. cbn [typed] in Ht.
    destruct v eqn:Ev; [reflexivity|..];
      (assert (Hne : encode f k v <> JNull) by (subst v; apply encode_not_null; [exact Ht|discriminate]);
       cbn [encode decode]; rewrite <- Ev in *;
       destruct (encode f k v) eqn:Ee; [congruence|..]; rewrite <- Ee; subst v; apply IH; assumption).
  - (* slice *)
    cbn [wf_jkind] in Hw. cbn [typed] in Ht. destruct v; try discriminate; [cbn; destruct f; reflexivity|].
    cbn [encode decode]. induction l as [|a l IHl]; [reflexivity|].
    cbn [forallb] in Ht. apply andb_true_iff in Ht as [Ha Hl]. cbn [map].
    rewrite (IH k a Hw Ha). rewrite (IHl Hl). reflexivity.
  - (* struct *)
    destruct v; try discriminate. rewrite typed_struct in Ht. rewrite encode_struct, decode_struct.
    cbn [wf_jkind] in Hw. apply andb_true_iff in Hw as [Hn Hf].
    assert (Hwf : forall fd, In fd fields -> wf_jkind f (snd fd) = true).
    { intros fd Hin. rewrite forallb_forall in Hf. specialize (Hf _ Hin). apply andb_true_iff in Hf as [_ Hf]. exact Hf. }
    exact (dec_fields_suffix f IH fields l [] [] eq_refl Ht Hn Hwf).
Qed.

(** ... hence serialising the decoded message again yields the same JSON *)
Corollary reencode_same : forall f k v v', wf_jkind f k = true -> typed f k v = true ->
  decode f k (encode f k v) = Ok v' -> encode f k v' = encode f k v.
Proof. intros f k v v' Hw Ht H. rewrite (roundtrip f k v Hw Ht) in H. inversion H. reflexivity. Qed.

(** nil and empty slices are the same on the wire in an omitempty field (both are left out) *)
Lemma nil_empty_same_json ek : json_empty (JKSlice ek) (VSlice []) = json_empty (JKSlice ek) VNil.
Proof. reflexivity. Qed.
