(** Proofs about the JSON model (M2/Json.v). *)
From Coq Require Import String Ascii List Bool ZArith Lia.
Import ListNotations.
From Verif Require Import Base.Prelude M2.TableCheck M2.Validator M2.Json.
Open Scope string_scope.

(** frames have the OCPP-J shape and are read back as what was written *)
Lemma frame_shape fr :
  (exists id a p, frame_json fr = JArr [JNum 2000; JStr id; JStr a; p]) \/
  (exists id p, frame_json fr = JArr [JNum 3000; JStr id; p]) \/
  (exists id c d det, frame_json fr = JArr [JNum 4000; JStr id; JStr c; JStr d; det]).
Proof. destruct fr; [left|right; left|right; right]; repeat eexists. Qed.

Lemma parse_frame_json fr : parse_frame (frame_json fr) = Some fr.
Proof. destruct fr; reflexivity. Qed.
