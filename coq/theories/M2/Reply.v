(** C03: what an endpoint answers to a well-formed incoming CALL -- handleIncomingRequest (profile / handler
    presence check, action switch), sendResponse, HandleFailedResponseError and errorFromValidation, over the
    role tables and the tag-class table regenerated from the source. *)
From Coq Require Import String List Bool ZArith.
Import ListNotations.
From Verif Require Import Base.Prelude M2.TableCheck.
Open Scope string_scope.

Inductive outcome :=
| OValid                          (* handler returns a response that validates *)
| OInvalid (tags : list string)   (* a response that does not validate: failing rule tags in validator order *)
| ONil                            (* (nil, nil) *)
| OPlain                          (* a plain Go error *)
| OErrValid (code : string)       (* *ocpp.Error with a code of the OCPP-J list *)
| OErrBad.                        (* *ocpp.Error whose code is not in the list *)

Inductive reply := RResult | RError (code : string).

Definition occurrence_code (v2 : bool) : string := if v2 then "OccurrenceConstraintViolation" else "OccurenceConstraintViolation".

(** errorFromValidation: the first failing tag found in the switch decides; otherwise GenericError *)
Fixpoint class_of_tags (tbl : list (string * string)) (v2 : bool) (tags : list string) : string :=
  match tags with
  | [] => "GenericError"
  | t :: r =>
      match find (fun x => String.eqb (fst x) t) tbl with
      | Some (_, cls) => if String.eqb cls "occurrence" then occurrence_code v2
                         else if String.eqb cls "property" then "PropertyConstraintViolation" else class_of_tags tbl v2 r
      | None => class_of_tags tbl v2 r
      end
  end.

Record role_tbl := { r_profiles : list (string * list frow); r_handle : list hrow; r_profcheck : list (string * string);
                     r_default : bool; r_v2 : bool; r_tagcls : list (string * string) }.

(** which arm of the action switch runs *)
Definition arm_of (T : role_tbl) (action : string) : option hrow := find (fun r => String.eqb (h_action r) action) (r_handle T).

(** handleIncomingRequest + sendResponse: the replies written, and the handler method invoked (if any) *)
Definition handle_call (T : role_tbl) (present : string -> bool) (action : string) (o : outcome) : list reply * option hrow :=
  match profile_of (r_profiles T) action with
  | None => ([RError "NotImplemented"], None)                          (* unreachable behind ParseMessage *)
  | Some p =>
      let guarded := match find (fun x => String.eqb (fst x) p) (r_profcheck T) with Some (_, f) => negb (present f) | None => false end in
      if guarded then ([RError "NotSupported"], None)
      else match arm_of T action with
           | None => ([RError "NotSupported"], None)                   (* default arm *)
           | Some arm =>
               (match o with
                | OValid => [RResult]
                | OInvalid tags => [RError (class_of_tags (r_tagcls T) (r_v2 T) tags)]
                | ONil => [RError "GenericError"]
                | OPlain => [RError "InternalError"]
                | OErrValid c => [RError c]
                | OErrBad => [RError "GenericError"]                   (* SendError fails on the code; fallback *)
                end, Some arm)
           end
  end.

(** behind ParseMessage: an action that no profile of the endpoint knows is answered NotSupported without reaching the handler *)
Definition answer (T : role_tbl) (present : string -> bool) (action : string) (o : outcome) : list reply * option hrow :=
  match profile_of (r_profiles T) action with
  | None => ([RError "NotSupported"], None)
  | Some _ => handle_call T present action o
  end.

(* ------------------------------------------------------------------ *)

(** exactly one reply, whatever the role table, handler set, action and handler outcome *)
Theorem answer_exactly_one : forall T present action o, exists r, fst (answer T present action o) = [r].
Proof.
  intros T present action o. unfold answer, handle_call.
  destruct (profile_of (r_profiles T) action); [|eexists; reflexivity].
  match goal with |- context [if ?c then _ else _] => destruct c end; [eexists; reflexivity|].
  destruct (arm_of T action); [|eexists; reflexivity].
  destruct o; eexists; reflexivity.
Qed.

(** the handler that runs is the arm of the CALL's action *)
Theorem answer_runs_own_arm : forall T present action o arm,
  snd (answer T present action o) = Some arm -> h_action arm = action /\ In arm (r_handle T).
Proof.
  intros T present action o arm. unfold answer, handle_call.
  destruct (profile_of (r_profiles T) action); [|discriminate].
  match goal with |- context [if ?c then _ else _] => destruct c end; [discriminate|].
  destruct (arm_of T action) as [a|] eqn:E; [|discriminate].
  intros H. assert (a = arm) by (destruct o; cbn in H; congruence). subst a.
  unfold arm_of in E. apply find_some in E as [E1 E2]. apply String.eqb_eq in E2. auto.
Qed.

(** ... and, when the role table passed the C18 check, it asserts exactly the request type of that action's feature *)
Theorem answer_arm_type : forall T present action o arm,
  (forall r, In r (r_handle T) -> arm_ok (r_profiles T) (r_profcheck T) r = true) ->
  snd (answer T present action o) = Some arm ->
  reqtype_of (r_profiles T) action = Some (h_type arm).
Proof.
  intros T present action o arm Hok H. destruct (answer_runs_own_arm _ _ _ _ _ H) as [E Hin].
  specialize (Hok _ Hin). unfold arm_ok in Hok. apply andb_true_iff in Hok as [Hok _]. apply andb_true_iff in Hok as [_ Hok].
  rewrite E in Hok. unfold opt_eqb in Hok. destruct (reqtype_of (r_profiles T) action); [|discriminate].
  apply String.eqb_eq in Hok. congruence.
Qed.

(** the reply is the one the property lists *)
Theorem answer_kind : forall T present action o arm,
  snd (answer T present action o) = Some arm ->
  fst (answer T present action o) =
    match o with
    | OValid => [RResult]
    | OInvalid tags => [RError (class_of_tags (r_tagcls T) (r_v2 T) tags)]
    | ONil => [RError "GenericError"]
    | OPlain => [RError "InternalError"]
    | OErrValid c => [RError c]
    | OErrBad => [RError "GenericError"]
    end.
Proof.
  intros T present action o arm. unfold answer, handle_call.
  destruct (profile_of (r_profiles T) action); [|discriminate].
  match goal with |- context [if ?c then _ else _] => destruct c end; [discriminate|].
  destruct (arm_of T action); [|discriminate]. destruct o; reflexivity.
Qed.

Theorem answer_not_supported : forall T present action o,
  snd (answer T present action o) = None ->
  fst (answer T present action o) = [RError "NotSupported"] \/ fst (answer T present action o) = [RError "NotImplemented"].
Proof.
  intros T present action o. unfold answer, handle_call.
  destruct (profile_of (r_profiles T) action); [|left; reflexivity].
  match goal with |- context [if ?c then _ else _] => destruct c end; [left; reflexivity|].
  destruct (arm_of T action); [destruct o; discriminate|left; reflexivity].
Qed.
