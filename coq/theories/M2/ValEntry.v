(** Correspondence entries of the validator model over the regenerated schemas. *)
From Coq Require Import String Ascii List Bool ZArith.
Import ListNotations.
From Verif Require Import Base.Prelude M2.TableCheck M2.Validator M2.Reply M2.TableEntry.
From VerifGen Require Import Tables Schemas.

(** decoder of the harness's value encoding *)
Fixpoint dec_val (fuel : nat) (l : list Z) : val * list Z :=
  match fuel with
  | O => (VNil, [])
  | S f =>
      match l with
      | 0%Z :: r => (VNil, r)
      | 1%Z :: b :: r => (VBool (z_bool b), r)
      | 2%Z :: z :: r => (VInt z, r)
      | 3%Z :: m :: r => (VFloat m, r)
      | 4%Z :: n :: r => (VStr (take_n n r), drop_n n r)
      | 5%Z :: z :: r => (VTime (z_bool z), r)
      | 6%Z :: n :: r =>
          let '(vs, r') := (fix go (k : nat) (l : list Z) : list val * list Z :=
                              match k with
                              | O => ([], l)
                              | S k' => let '(v, l1) := dec_val f l in let '(vs, l2) := go k' l1 in (v :: vs, l2)
                              end) (Z.to_nat n) r in
          (VSlice vs, r')
      | 7%Z :: n :: r =>
          let '(vs, r') := (fix go (k : nat) (l : list Z) : list val * list Z :=
                              match k with
                              | O => ([], l)
                              | S k' => let '(v, l1) := dec_val f l in let '(vs, l2) := go k' l1 in (v :: vs, l2)
                              end) (Z.to_nat n) r in
          (VStruct vs, r')
      | _ => (VNil, [])
      end
  end.

Definition schema_at (i : Z) : option (string * kind) := nth_error schemas (Z.to_nat i).

Definition enc_tags (ts : list string) : list Z := zlen ts :: concat (map (fun t => put_lp (z_of_str t)) ts).

(** [schema index; value] -> the failing rule tags in validator order *)
Definition c05v_entry : entry := fun inp =>
  match inp with
  | i :: r =>
      match schema_at i with
      | Some (_, k) => let '(v, _) := dec_val 200 r in enc_tags (validate_payload enum_sets k v)
      | None => [(-1)%Z]
      end
  | _ => [(-1)%Z]
  end.

(** the code of the CALL_ERROR that answers a violating CALL (errorFromValidation over the regenerated tag table) *)
Definition code_of (v2 : bool) (fails : list string) : string := class_of_tags error_class_of_tag v2 fails.

(** [schema index; v2; value as sent; value as decoded by the receiver]
    -> [send API returns an error; something was written; receiver: 3 handler invoked | 4 code...] *)
Definition c05e_entry : entry := fun inp =>
  match inp with
  | i :: v2 :: r =>
      match schema_at i with
      | Some (_, k) =>
          let '(vs, r1) := dec_val 200 r in
          let '(vd, _) := dec_val 200 r1 in
          let fs := validate_payload enum_sets k vs in
          let fd := validate_payload enum_sets k vd in
          let sent := match fs with [] => true | _ => false end in
          List.app [bool_z (negb sent); bool_z sent]
            (match fd with
             | [] => [3%Z; 0%Z]
             | _ => 4%Z :: put_lp (z_of_str (code_of (z_bool v2) fd))
             end)
      | None => [(-1)%Z]
      end
  | _ => [(-1)%Z]
  end.

(* ---- the same entries over the committed constraint table (the property's reference) ---- *)
From Verif Require Import Spec.SchemasSpec.

Definition spec_schema_at (i : Z) : option (string * kind) := nth_error spec_schemas (Z.to_nat i).

Definition spec_error_class : list (string * string) :=
  [("required", "occurrence"); ("max", "property"); ("min", "property"); ("gte", "property"); ("gt", "property");
   ("lte", "property"); ("lt", "property")].

Definition c05vs_entry : entry := fun inp =>
  match inp with
  | i :: r =>
      match spec_schema_at i with
      | Some (_, k) => let '(v, _) := dec_val 200 r in
                       [bool_z (match validate_payload enum_sets k v with [] => true | _ => false end)]
      | None => [(-1)%Z]
      end
  | _ => [(-1)%Z]
  end.

Definition c05es_entry : entry := fun inp =>
  match inp with
  | i :: v2 :: r =>
      match spec_schema_at i with
      | Some (_, k) =>
          let '(vs, r1) := dec_val 200 r in
          let '(vd, _) := dec_val 200 r1 in
          let fs := validate_payload enum_sets k vs in
          let fd := validate_payload enum_sets k vd in
          let sent := match fs with [] => true | _ => false end in
          List.app [bool_z (negb sent); bool_z sent]
            (match fd with
             | [] => [3%Z; 0%Z]
             | _ => 4%Z :: put_lp (z_of_str (class_of_tags spec_error_class (z_bool v2) fd))
             end)
      | None => [(-1)%Z]
      end
  | _ => [(-1)%Z]
  end.

(** a CALL whose payload does not decode into the action's request type (wrong JSON type) is answered with the
    formation / format violation code of the connection's dialect: [v2] -> [4; code] *)
Definition format_code (v2 : bool) : string := if v2 then "FormatViolation" else "FormationViolation".
Definition c05t_entry : entry := fun inp =>
  match inp with
  | v2 :: _ => 4%Z :: put_lp (z_of_str (format_code (z_bool v2)))
  | _ => [(-1)%Z]
  end.
