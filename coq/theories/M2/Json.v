(** M2: how a payload value becomes JSON and back (encoding/json's struct rules as the repository uses them):
    keys from the json tags in field order, omitempty, pointers, nil / empty slices, numbers through float64 on the
    receiver (the frame is first decoded into []interface{} and the payload re-marshalled), interface{} payloads,
    timestamps as opaque strings (their text is C20's subject), unknown keys ignored, case-insensitive key match,
    last duplicate wins.  The text layer (bytes) is covered separately by [print_str] / [parse_str].  No proofs here. *)
From Coq Require Import String Ascii List Bool ZArith.
Import ListNotations.
From Verif Require Import Base.Prelude M2.TableCheck M2.Validator.
Open Scope string_scope.

Inductive jkind :=
| JKString | JKInt | JKFloat | JKBool | JKAny | JKTime
| JKPtr (k : jkind) | JKSlice (k : jkind)
| JKStruct (fields : list (string * bool * jkind)).     (* JSON key, omitempty, kind -- in Go field order *)

(** JSON values; numbers in thousandths (integers are multiples of 1000) *)
Inductive jv :=
| JNull | JBool (b : bool) | JNum (milli : Z) | JStr (cps : list Z)
| JArr (l : list jv) | JObj (l : list (string * jv)).

(** omitempty: false, 0, nil pointer / interface, empty string / slice -- never a struct or a timestamp *)
Definition json_empty (k : jkind) (v : val) : bool :=
  match k with
  | JKPtr _ | JKAny => match v with VNil => true | _ => false end     (* a pointer is empty only when nil *)
  | JKTime => false
  | _ =>
      match v with
      | VNil => true | VBool b => negb b | VInt z => (z =? 0)%Z | VFloat z => (z =? 0)%Z
      | VStr l => match l with [] => true | _ => false end
      | VSlice l => match l with [] => true | _ => false end
      | VTime _ => false | VStruct _ => false
      end
  end.

Fixpoint encode (fuel : nat) (k : jkind) (v : val) : jv :=
  match fuel with
  | O => JNull
  | S f =>
      match k with
      | JKPtr k' => match v with VNil => JNull | _ => encode f k' v end
      | JKAny => match v with
                 | VStr l => JStr l | VBool b => JBool b | VInt z => JNum (z * 1000) | VFloat m => JNum m
                 | _ => JNull
                 end
      | JKString | JKTime => match v with VStr l => JStr l | _ => JNull end
      | JKInt => match v with VInt z => JNum (z * 1000) | _ => JNull end
      | JKFloat => match v with VFloat m => JNum m | VInt z => JNum (z * 1000) | _ => JNull end
      | JKBool => match v with VBool b => JBool b | _ => JNull end
      | JKSlice ek => match v with VSlice l => JArr (map (encode f ek) l) | _ => JNull end
      | JKStruct fields =>
          match v with
          | VStruct vs =>
              JObj ((fix go (fields : list (string * bool * jkind)) (vs : list val) : list (string * jv) :=
                       match fields, vs with
                       | (key, omit, fk) :: fr, x :: xr =>
                           if omit && json_empty fk x then go fr xr else (key, encode f fk x) :: go fr xr
                       | _, _ => []
                       end) fields vs)
          | _ => JNull
          end
      end
  end.

(* ---- decoding ---- *)

Definition lower (a : ascii) : ascii :=
  let n := nat_of_ascii a in if (65 <=? n)%nat && (n <=? 90)%nat then ascii_of_nat (n + 32) else a.
Fixpoint lower_s (s : string) : string := match s with EmptyString => EmptyString | String a r => String (lower a) (lower_s r) end.

(** encoding/json's key match: an exact match is preferred, else a case-insensitive one; among duplicates the last wins *)
Definition lookup_key (key : string) (obj : list (string * jv)) : option jv :=
  match find (fun kv => String.eqb (fst kv) key) (rev obj) with
  | Some kv => Some (snd kv)
  | None => match find (fun kv => String.eqb (lower_s (fst kv)) (lower_s key)) (rev obj) with
            | Some kv => Some (snd kv)
            | None => None
            end
  end.

Fixpoint zero_val (fuel : nat) (k : jkind) : val :=
  match k with
  | JKString => VStr [] | JKInt => VInt 0 | JKFloat => VFloat 0 | JKBool => VBool false
  | JKAny => VNil | JKTime => VStr [] | JKPtr _ => VNil | JKSlice _ => VNil
  | JKStruct fields => match fuel with
                       | O => VStruct []
                       | S f => VStruct (map (fun fd => zero_val f (snd fd)) fields)
                       end
  end.

(** through float64: integers of magnitude up to 2^53 are exact *)
Definition fits53 (z : Z) : bool := (Z.abs z <=? 9007199254740992)%Z.

Inductive res := Ok (v : val) | Err.

Fixpoint decode (fuel : nat) (k : jkind) (j : jv) : res :=
  match fuel with
  | O => Err
  | S f =>
      match k, j with
      | JKPtr _, JNull => Ok VNil
      | JKPtr k', _ => decode f k' j
      | JKAny, JNull => Ok VNil
      | JKAny, JStr l => Ok (VStr l)
      | JKAny, JBool b => Ok (VBool b)
      | JKAny, JNum m => Ok (VFloat m)
      | JKAny, _ => Err                         (* structured interface{} payloads are outside the model *)
      | _, JNull => Ok (zero_val f k)
      | JKString, JStr l => Ok (VStr l)
      | JKTime, JStr l => Ok (VStr l)
      | JKBool, JBool b => Ok (VBool b)
      | JKInt, JNum m => if (m mod 1000 =? 0)%Z then Ok (VInt (m / 1000)) else Err
      | JKFloat, JNum m => Ok (VFloat m)
      | JKSlice ek, JArr l =>
          (fix go (l : list jv) : res :=
             match l with
             | [] => Ok (VSlice [])
             | x :: r => match decode f ek x, go r with
                         | Ok v, Ok (VSlice vs) => Ok (VSlice (v :: vs))
                         | _, _ => Err
                         end
             end) l
      | JKStruct fields, JObj obj =>
          (fix go (fields : list (string * bool * jkind)) : res :=
             match fields with
             | [] => Ok (VStruct [])
             | (key, _, fk) :: fr =>
                 let fv := match lookup_key key obj with
                           | None => Ok (zero_val f fk)
                           | Some x => decode f fk x
                           end in
                 match fv, go fr with
                 | Ok v, Ok (VStruct vs) => Ok (VStruct (v :: vs))
                 | _, _ => Err
                 end
             end) fields
      | _, _ => Err
      end
  end.

(* ---- well-formed schemas ---- *)

Fixpoint nodup_ci (l : list string) : bool :=
  match l with [] => true | x :: r => negb (mem_s (lower_s x) (map lower_s r)) && nodup_ci r end.

(** JSON keys of one struct pairwise distinct even under case folding, none empty or "-", at every depth *)
Fixpoint wf_jkind (fuel : nat) (k : jkind) : bool :=
  match fuel with
  | O => false
  | S f =>
      match k with
      | JKPtr k' | JKSlice k' => wf_jkind f k'
      | JKStruct fields =>
          nodup_ci (map (fun fd => fst (fst fd)) fields) &&
          forallb (fun fd => negb (String.eqb (fst (fst fd)) "") && negb (String.eqb (fst (fst fd)) "-") && wf_jkind f (snd fd)) fields
      | _ => true
      end
  end.

(* ---- frames ---- *)
Inductive frame :=
| FCall (id action : list Z) (payload : jv)
| FResult (id : list Z) (payload : jv)
| FError (id code desc : list Z) (details : jv).

Definition frame_json (fr : frame) : jv :=
  match fr with
  | FCall id a p => JArr [JNum 2000; JStr id; JStr a; p]
  | FResult id p => JArr [JNum 3000; JStr id; p]
  | FError id c d det => JArr [JNum 4000; JStr id; JStr c; JStr d; det]
  end.

(** ParseMessage's view of the positional array (type id, unique id, rest) *)
Definition parse_frame (j : jv) : option frame :=
  match j with
  | JArr [JNum 2000; JStr id; JStr a; p] => Some (FCall id a p)
  | JArr [JNum 3000; JStr id; p] => Some (FResult id p)
  | JArr (JNum 4000 :: JStr id :: JStr c :: JStr d :: det :: _) => Some (FError id c d det)
  | JArr [JNum 4000; JStr id; JStr c; JStr d] => Some (FError id c d JNull)
  | _ => None
  end.

(* ---- the text layer of strings: Go's encoder escapes, any JSON parser undoes them ---- *)

Definition hexd (n : Z) : Z := if (n <? 10)%Z then 48 + n else 87 + n.     (* lower-case hex digit *)
Definition u_escape (c : Z) : list Z := [92; 117; hexd (c / 4096 mod 16); hexd (c / 256 mod 16); hexd (c / 16 mod 16); hexd (c mod 16)].

(** one code point as Go's encodeState.string writes it ([esc] = EscapeHTML) *)
Definition print_cp (esc : bool) (c : Z) : list Z :=
  if (c =? 34)%Z then [92; 34] else if (c =? 92)%Z then [92; 92]
  else if (c =? 10)%Z then [92; 110] else if (c =? 13)%Z then [92; 114] else if (c =? 9)%Z then [92; 116]
  else if (c <? 32)%Z then u_escape c
  else if esc && ((c =? 60)%Z || (c =? 62)%Z || (c =? 38)%Z) then u_escape c
  else if (c =? 8232)%Z || (c =? 8233)%Z then u_escape c
  else [c].

Definition print_str (esc : bool) (s : list Z) : list Z := concat (map (print_cp esc) s).

Definition unhex (d : Z) : option Z :=
  if (48 <=? d)%Z && (d <=? 57)%Z then Some (d - 48) else if (97 <=? d)%Z && (d <=? 102)%Z then Some (d - 87)
  else if (65 <=? d)%Z && (d <=? 70)%Z then Some (d - 55) else None.

(** unescaping (no surrogate pairs: Go never emits them for valid input) *)
Fixpoint parse_str (fuel : nat) (l : list Z) : option (list Z) :=
  match fuel with
  | O => None
  | S f =>
      match l with
      | [] => Some []
      | c :: r =>
          if (c =? 92)%Z then
            match r with
            | [] => None
            | e :: r1 =>
                if (e =? 117)%Z then
                  match r1 with
                  | a :: b :: c' :: d :: r2 =>
                      match unhex a, unhex b, unhex c', unhex d, parse_str f r2 with
                      | Some x, Some y, Some z, Some w, Some rest => Some ((x * 4096 + y * 256 + z * 16 + w)%Z :: rest)
                      | _, _, _, _, _ => None
                      end
                  | _ => None
                  end
                else
                  match parse_str f r1 with
                  | Some rest =>
                      if (e =? 34)%Z then Some (34%Z :: rest) else if (e =? 92)%Z then Some (92%Z :: rest)
                      else if (e =? 110)%Z then Some (10%Z :: rest) else if (e =? 114)%Z then Some (13%Z :: rest)
                      else if (e =? 116)%Z then Some (9%Z :: rest) else if (e =? 47)%Z then Some (47%Z :: rest)
                      else if (e =? 98)%Z then Some (8%Z :: rest) else if (e =? 102)%Z then Some (12%Z :: rest) else None
                  | None => None
                  end
            end
          else if (c =? 34)%Z || (c <? 32)%Z then None
          else match parse_str f r with Some rest => Some (c :: rest) | None => None end
      end
  end.
