(** Correspondence entries over the generated tables: the same facts the theorems of C18 / C03 use,
    probed dynamically on the implementation. *)
From Coq Require Import String List Bool Ascii ZArith.
Import ListNotations.
From Verif Require Import Base.Prelude M2.TableCheck Spec.Roles.
From VerifGen Require Import Tables.

Fixpoint str_of (l : list Z) : string :=
  match l with [] => EmptyString | c :: r => String (ascii_of_nat (Z.to_nat c)) (str_of r) end.

Definition accepted_of_tag (tag : string) : option (list string) :=
  match find (fun r => let '(t, _, _, _, _) := r in String.eqb t tag) enum_tables with
  | Some (_, _, acc, _, true) => Some acc
  | _ => None
  end.

Definition send_list (role : Z) : list string :=
  if (role =? 0)%Z then send_cp16 else if (role =? 1)%Z then send_cs16 else if (role =? 2)%Z then send_cs201 else send_csms201.
Definition handle_list (role : Z) : list hrow :=
  if (role =? 0)%Z then handle_cp16 else if (role =? 1)%Z then handle_cs16 else if (role =? 2)%Z then handle_cs201 else handle_csms201.
Definition role_profiles (role : Z) := if (role <? 2)%Z then profiles16 else profiles201.

(** [1; tag; value] -> is the value accepted by the validator registered under tag (per the isValid switch)?
    [2; role; feature] -> may the role send the feature (allow-list)?
    [3; role; feature] -> which handler method does the role dispatch the feature to (index in the handle table + 1, 0 = none)? *)
Definition c18_entry : entry := fun inp =>
  match inp with
  | 1%Z :: r =>
      let '(tag, r1) := get_lp r in let '(v, _) := get_lp r1 in
      match accepted_of_tag (str_of tag) with
      | Some acc => [bool_z (mem_s (str_of v) acc)]
      | None => [(-99)%Z]
      end
  | 2%Z :: role :: r =>
      let '(f, _) := get_lp r in [bool_z (mem_s (str_of f) (send_list role))]
  | 3%Z :: role :: r =>
      let '(f, _) := get_lp r in
      [bool_z (mem_s (str_of f) (map h_action (handle_list role)))]
  | _ => [(-1)%Z]
  end.

Definition spec_send_list (role : Z) : list string :=
  if (role =? 0)%Z then spec_cp16 else if (role =? 1)%Z then spec_cs16 else if (role =? 2)%Z then spec_cs201 else spec_csms201.

(** all (tag, declared values) rows of a tag: the same tag may validate one declared type only *)
Definition declared_of_tag (tag : string) : option (list string) :=
  match find (fun r => let '(t, _, _, _, _) := r in String.eqb t tag) enum_tables with
  | Some (_, _, _, dec, true) => match dec with [] => None | _ => Some dec end
  | _ => None
  end.

(** the property's own reading (reference answers):
    [4; role; feature] -> the protocol assigns the feature to the role (committed Spec.Roles)
    [5; tag; value]    -> the value is an exported constant of the enumeration validated under tag: must be accepted;
                          any other value must be rejected *)
Definition c18s_entry : entry := fun inp =>
  match inp with
  | 4%Z :: role :: r =>
      let '(f, _) := get_lp r in [bool_z (mem_s (str_of f) (spec_send_list role))]
  | 5%Z :: r =>
      let '(tag, r1) := get_lp r in let '(v, _) := get_lp r1 in
      match declared_of_tag (str_of tag) with
      | Some dec => [bool_z (mem_s (str_of v) dec)]
      | None => [(-99)%Z]
      end
  | _ => [(-1)%Z]
  end.
