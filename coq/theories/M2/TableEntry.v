(** Correspondence entries over the generated tables: the same facts the theorems of C18 / C03 use,
    probed dynamically on the implementation. *)
From Coq Require Import String List Bool Ascii ZArith.
Import ListNotations.
From Verif Require Import Base.Prelude M2.TableCheck Spec.Roles.
From VerifGen Require Import Tables.

Fixpoint str_of (l : list Z) : string :=
  match l with [] => EmptyString | c :: r => String (ascii_of_nat (Z.to_nat c)) (str_of r) end.

Definition accepted_of_tag (tag : string) : option (list string) :=
  match find (fun r => let '(t, _, _, _, _) := r in String.eqb t tag) enum_tables with
  | Some (_, _, acc, _, true) => Some acc
  | _ => None
  end.

Definition send_list (role : Z) : list string :=
  if (role =? 0)%Z then send_cp16 else if (role =? 1)%Z then send_cs16 else if (role =? 2)%Z then send_cs201 else send_csms201.
Definition handle_list (role : Z) : list hrow :=
  if (role =? 0)%Z then handle_cp16 else if (role =? 1)%Z then handle_cs16 else if (role =? 2)%Z then handle_cs201 else handle_csms201.
Definition role_profiles (role : Z) := if (role <? 2)%Z then profiles16 else profiles201.

(** [1; tag; value] -> is the value accepted by the validator registered under tag (per the isValid switch)?
    [2; role; feature] -> may the role send the feature (allow-list)?
    [3; role; feature] -> which handler method does the role dispatch the feature to (index in the handle table + 1, 0 = none)? *)
Definition c18_entry : entry := fun inp =>
  match inp with
  | 1%Z :: r =>
      let '(tag, r1) := get_lp r in let '(v, _) := get_lp r1 in
      match accepted_of_tag (str_of tag) with
      | Some acc => [bool_z (mem_s (str_of v) acc)]
      | None => [(-99)%Z]
      end
  | 2%Z :: role :: r =>
      let '(f, _) := get_lp r in [bool_z (mem_s (str_of f) (send_list role))]
  | 3%Z :: role :: r =>
      let '(f, _) := get_lp r in
      [bool_z (mem_s (str_of f) (map h_action (handle_list role)))]
  | _ => [(-1)%Z]
  end.

Definition spec_send_list (role : Z) : list string :=
  if (role =? 0)%Z then spec_cp16 else if (role =? 1)%Z then spec_cs16 else if (role =? 2)%Z then spec_cs201 else spec_csms201.

(** all (tag, declared values) rows of a tag: the same tag may validate one declared type only *)
Definition declared_of_tag (tag : string) : option (list string) :=
  match find (fun r => let '(t, _, _, _, _) := r in String.eqb t tag) enum_tables with
  | Some (_, _, _, dec, true) => match dec with [] => None | _ => Some dec end
  | _ => None
  end.

(** the property's own reading (reference answers):
    [4; role; feature] -> the protocol assigns the feature to the role (committed Spec.Roles)
    [5; tag; value]    -> the value is an exported constant of the enumeration validated under tag: must be accepted;
                          any other value must be rejected *)
Definition c18s_entry : entry := fun inp =>
  match inp with
  | 4%Z :: role :: r =>
      let '(f, _) := get_lp r in [bool_z (mem_s (str_of f) (spec_send_list role))]
  | 5%Z :: r =>
      let '(tag, r1) := get_lp r in let '(v, _) := get_lp r1 in
      match declared_of_tag (str_of tag) with
      | Some dec => [bool_z (mem_s (str_of v) dec)]
      | None => [(-99)%Z]
      end
  | _ => [(-1)%Z]
  end.

(* ------------------------------------------------------------------ *)
(** C03 entry *)
From Verif Require Import M2.Reply.

Definition role_table (role : Z) : role_tbl :=
  if (role =? 0)%Z then Build_role_tbl profiles16 handle_cp16 profcheck_cp16 default_arm_cp16 false error_class_of_tag
  else if (role =? 1)%Z then Build_role_tbl profiles16 handle_cs16 profcheck_cs16 default_arm_cs16 false error_class_of_tag
  else if (role =? 2)%Z then Build_role_tbl profiles201 handle_cs201 profcheck_cs201 default_arm_cs201 true error_class_of_tag
  else Build_role_tbl profiles201 handle_csms201 profcheck_csms201 default_arm_csms201 true error_class_of_tag.

Definition role_setters (role : Z) : list (string * string) :=
  if (role =? 0)%Z then setters_cp16 else if (role =? 1)%Z then setters_cs16 else if (role =? 2)%Z then setters_cs201 else setters_csms201.

Fixpoint get_lps (n : nat) (l : list Z) : list string * list Z :=
  match n with
  | O => ([], l)
  | S k => let '(x, r) := get_lp l in let '(xs, r') := get_lps k r in (str_of x :: xs, r')
  end.

Fixpoint z_of_str (s : string) : list Z :=
  match s with EmptyString => [] | String a r => Z.of_nat (nat_of_ascii a) :: z_of_str r end.

Definition enc_reply (r : reply) : list Z :=
  match r with RResult => [3%Z; 0%Z] | RError c => 4%Z :: put_lp (z_of_str c) end.

(** [role; outcome; ntags; tags...; action; nskipped; skipped setters...]: outcome 0 valid, 1 invalid, 2 nil, 3 plain error,
    4 ocpp.Error SecurityError, 5 ocpp.Error with a bad code.
    -> [number of replies; replies...; handler invoked; method name] *)
Definition c03_entry : entry := fun inp =>
  match inp with
  | role :: oc :: ntags :: r =>
      let '(tags, r1) := get_lps (Z.to_nat ntags) r in
      let '(action, r2) := get_lp r1 in
      match r2 with
      | nsk :: r3 =>
          let '(skipped, _) := get_lps (Z.to_nat nsk) r3 in
          let T := role_table role in
          let skipped_fields := map snd (filter (fun sf => mem_s (fst sf) skipped) (role_setters role)) in
          let present := fun f => negb (mem_s f skipped_fields) in
          let o := if (oc =? 0)%Z then OValid else if (oc =? 1)%Z then OInvalid tags else if (oc =? 2)%Z then ONil
                   else if (oc =? 3)%Z then OPlain else if (oc =? 4)%Z then OErrValid "SecurityError" else OErrBad in
          let '(reps, arm) := answer T present (str_of action) o in
          List.app (zlen reps :: concat (map enc_reply reps))
            (match arm with Some a => 1%Z :: put_lp (z_of_str (h_method a)) | None => [0%Z; 0%Z] end)
      | _ => [(-1)%Z]
      end
  | _ => [(-1)%Z]
  end.
