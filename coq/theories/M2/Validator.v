(** M2: the struct validator the OCPP-J layer runs on every message (go-playground/validator v9.30 as the
    repository uses it): traversal of a value along its schema, the built-in rules that occur in the
    repository, custom enumeration rules as finite accepted sets, struct-level rules, first failure per
    field, and the classification of the result by errorFromValidation.  No proofs in this file. *)
From Coq Require Import String Ascii List Bool ZArith.
Import ListNotations.
From Verif Require Import Base.Prelude M2.TableCheck.
Open Scope string_scope.

Inductive kind :=
| KString | KInt | KFloat | KBool | KAny | KTime
| KPtr (k : kind) | KSlice (k : kind)
| KStruct (name : string) (fields : list (string * list (string * string) * kind)).   (* Go field name, validate tags (name, parameter), kind *)

(** values as Go holds them after decoding; floats in thousandths; strings as code points (the rules count runes) *)
Inductive val :=
| VNil
| VBool (b : bool) | VInt (z : Z) | VFloat (milli : Z) | VStr (cps : list Z)
| VTime (zero : bool)
| VSlice (l : list val)
| VStruct (l : list val).

Definition tag := (string * string)%type.

(** decimal parameter of a rule ("max=20") *)
Fixpoint digits (s : string) (acc : Z) : Z :=
  match s with
  | EmptyString => acc
  | String a r => let d := Z.of_nat (Ascii.nat_of_ascii a) - 48 in
                  if (0 <=? d)%Z && (d <=? 9)%Z then digits r (acc * 10 + d) else digits r acc
  end.
Definition param_z (p : string) : Z :=
  match p with String "-"%char r => (- digits r 0)%Z | _ => digits p 0 end.

Definition is_zero (v : val) : bool :=
  match v with
  | VNil => true | VBool b => negb b | VInt z => (z =? 0)%Z | VFloat z => (z =? 0)%Z
  | VStr l => match l with [] => true | _ => false end
  | VTime z => z | VSlice _ => false | VStruct _ => false
  end.

(** hasValue of validator.v9 for a non-pointer field: slices non-nil, everything else non-zero *)
Definition has_value (from_ptr : bool) (v : val) : bool :=
  match v with
  | VNil => false
  | VSlice _ => true
  | _ => from_ptr || negb (is_zero v)
  end.

Definition measure (v : val) : option Z :=    (* what min / max / gte ... compare, in the rule's own unit *)
  match v with
  | VStr l => Some (zlen l * 1000)%Z
  | VSlice l => Some (zlen l * 1000)%Z
  | VInt z => Some (z * 1000)%Z
  | VFloat m => Some m
  | VNil => Some 0%Z           (* a nil slice has length 0 *)
  | _ => None
  end.

Fixpoint distinct_strs (l : list val) : bool :=
  match l with
  | [] => true
  | x :: r => negb (existsb (fun y => match x, y with VStr a, VStr b => Zeqb_list a b | _, _ => false end) r) && distinct_strs r
  end.

Fixpoint str_of_cps (l : list Z) : string :=
  match l with [] => EmptyString | c :: r => String (Ascii.ascii_of_nat (Z.to_nat c)) (str_of_cps r) end.

(** uri / url are delegated to net/url by the library; the model knows them on the two shapes the harness uses:
    "scheme://..." accepted, anything without ':' rejected *)
Definition uri_ok (l : list Z) : bool :=
  match l with
  | [] => false
  | c :: _ => ((97 <=? c)%Z && (c <=? 122)%Z || (65 <=? c)%Z && (c <=? 90)%Z) && existsb (Z.eqb 58) l
  end.

(** one rule on one (non-nil, non-struct) value; [enums]: accepted sets of the registered custom rules *)
Definition rule_ok (enums : list (string * list string)) (from_ptr : bool) (t : tag) (v : val) : bool :=
  let '(name, p) := t in
  let cmp (f : Z -> Z -> bool) := match measure v with Some m => f m (param_z p * 1000)%Z | None => true end in
  if String.eqb name "required" then has_value from_ptr v
  else if String.eqb name "max" then cmp Z.leb
  else if String.eqb name "lte" then cmp Z.leb
  else if String.eqb name "min" then cmp Z.geb
  else if String.eqb name "gte" then cmp Z.geb
  else if String.eqb name "gt" then cmp Z.gtb
  else if String.eqb name "lt" then cmp Z.ltb
  else if String.eqb name "eq" then cmp Z.eqb
  else if String.eqb name "unique" then match v with VSlice l => distinct_strs l | _ => true end
  else if String.eqb name "uri" || String.eqb name "url" then match v with VStr l => uri_ok l | _ => false end
  else match find (fun e => String.eqb (fst e) name) enums with
       | Some (_, acc) => match v with VStr l => mem_s (str_of_cps l) acc | _ => false end
       | None => true                      (* "-" and rules with no effect here *)
       end.

(** struct-level rules registered in the repository *)
Definition struct_level (name : string) (fields : list val) : list string :=
  if String.eqb name "core.HeartbeatConfirmation" || String.eqb name "availability.HeartbeatResponse" then
    match fields with VTime true :: _ => ["required"] | _ => [] end
  else if String.eqb name "types.IdToken" || String.eqb name "types.GroupIdToken" then
    match fields with
    | VStr tok :: VStr ty :: _ =>
        if (match tok with [] => true | _ => false end) && negb (String.eqb (str_of_cps ty) "NoAuthorization")
           && mem_s (str_of_cps ty) ["Central"; "eMAID"; "ISO14443"; "ISO15693"; "KeyCode"; "Local"; "MacAddress"]
        then ["required"] else []
    | _ => []
    end
  else [].

Definition is_ptrlike (k : kind) : bool := match k with KPtr _ | KAny => true | _ => false end.
Fixpoint strip_ptr (k : kind) : kind := match k with KPtr k' => strip_ptr k' | _ => k end.

Section Validate.
Variable enums : list (string * list string).

(** the tags of a field on a non-struct value: stop at the first failure; omitempty stops a zero non-pointer value;
    dive applies the rest to each element.  Returns the failing rule names (at most one per leaf). *)
Fixpoint vfield (fuel : nat) (k : kind) (tags : list tag) (v : val) (from_ptr : bool) {struct fuel} : list string :=
  match fuel with
  | O => ["<fuel>"]
  | S f =>
      match v with
      | VNil =>
          if is_ptrlike k then
            match tags with
            | [] => []
            | (n, _) :: _ => if String.eqb n "omitempty" then [] else [n]
            end
          else match k with
               | KSlice _ => vtags f k tags v from_ptr
               | _ => []
               end
      | VTime _ => []                    (* DateTime is a struct to the validator: its tags are skipped *)
      | VStruct fs =>
          match strip_ptr k with
          | KStruct name fields => vstruct f name fields fs
          | KAny => []
          | _ => ["<shape>"]
          end
      | _ => vtags f (strip_ptr k) tags v (from_ptr || match k with KPtr _ => true | _ => false end)
      end
  end
with vtags (fuel : nat) (k : kind) (tags : list tag) (v : val) (from_ptr : bool) {struct fuel} : list string :=
  match fuel with
  | O => ["<fuel>"]
  | S f =>
      match tags with
      | [] => []
      | (n, p) :: rest =>
          if String.eqb n "omitempty" then
            (if negb from_ptr && negb (has_value false v) then [] else vtags f k rest v from_ptr)
          else if String.eqb n "dive" then
            match v, k with
            | VSlice l, KSlice ek => concat (map (fun e => vfield f ek rest e false) l)
            | VNil, _ => []
            | _, _ => ["<dive>"]
            end
          else if rule_ok enums from_ptr (n, p) v then vtags f k rest v from_ptr else [n]
      end
  end
with vstruct (fuel : nat) (name : string) (fields : list (string * list tag * kind)) (fs : list val) {struct fuel} : list string :=
  match fuel with
  | O => ["<fuel>"]
  | S f =>
      ((fix go (fields : list (string * list tag * kind)) (vs : list val) : list string :=
         match fields, vs with
         | (_, tags, k) :: fr, v :: vr => List.app (vfield f k tags v false) (go fr vr)
         | _, _ => []
         end) fields fs ++ struct_level name fs)%list
  end.

End Validate.

(** a value nested n deep needs fuel 3n; payloads of the repository are less than 12 deep *)
Definition FUEL : nat := 60.

(** Validate.Struct on Call / CallResult with this payload: the payload field is `required` and of struct kind *)
Definition validate_payload (enums : list (string * list string)) (k : kind) (v : val) : list string :=
  vfield enums FUEL (KPtr k) [("required", "")] v false.
