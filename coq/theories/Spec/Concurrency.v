(** Committed by hand: which configuration calls are made before Start, and the fields of the concurrent core that
    are not protected by a mutex, each with the reason why that is (or is not) safe.  A field listed here is pinned:
    the check fails as soon as the generated access table shows an access to it that is not listed, or a listed
    access under different locks.  Every other field must be unwritten after construction / configuration or
    guarded by one mutex on every access (M4/Access.v). *)
From Coq Require Import String List ZArith.
Import ListNotations.
From Verif Require Import M4.Access.
Open Scope string_scope.

(** documented as "call before Start": Set* / With* (by name), the registration calls below, and Errors(), which creates
    the error channel lazily *)
Definition config_extra : list string := ["Errors"; "AddProfile"; "AddOption"; "AddSupportedSubprotocol"; "AddHttpHandler"].

Definition LIFECYCLE : string :=
  "written only by Start / Stop style calls, which the API does not allow to overlap with each other or with a live session of the same endpoint (schedule class S0 of the endpoint model: a call is issued only when the previous Stop has run to its end); the goroutines that read it are started after the write".
Definition PUBLISHED : string :=
  "created by the handshake handler before the websocket is registered and before its routines are started (which are the only readers); closed exactly once, by that handler".
Definition SINGLE : string := "closed exactly once, by the cleanup of the write routine; every other access is a receive".

Definition mu_cd := "ocppj.DefaultClientDispatcher.mutex".
Definition mu_sd := "ocppj.DefaultServerDispatcher.mutex".
Definition mu_ws := "ws.webSocket.mutex".

Definition exemptions : list (string * aspect * exemption) := [
  (* the connection pointer is cleared by cleanup, which only the write routine runs; that routine reads its own field unlocked *)
  ("ws.webSocket.connection", Ptr, Owner mu_ws ["ws.webSocket.writePump"; "ws.webSocket.writePump$local1"; "ws.webSocket.cleanup"]);
  ("ws.webSocket.doneC", Content, Pinned SINGLE [("ws.webSocket.cleanup", 4%Z, [])]);
  ("ws.webSocket.announcedC", Ptr, Pinned PUBLISHED [
      ("ws.server.wsHandler", 1%Z, [("ws.server.connMutex", 2%Z)]); ("ws.server.wsHandler", 4%Z, []);
      ("ws.server.handleDisconnect", 0%Z, []); ("ws.server.handleDisconnect", 3%Z, [])]);
  ("ws.webSocket.announcedC", Content, Pinned PUBLISHED [("ws.server.wsHandler", 4%Z, []); ("ws.server.handleDisconnect", 3%Z, [])]);


  (* stopC is only touched by the application's own lifecycle calls since the repair F33: the callback routine gets
     the channel of its session as an argument *)
  ("ocpp1.6.chargePoint.stopC", Ptr, Pinned LIFECYCLE [
      ("ocpp1.6.chargePoint.SendRequest", 3%Z, []); ("ocpp1.6.chargePoint.Start", 1%Z, []); ("ocpp1.6.chargePoint.Start", 0%Z, []);
      ("ocpp1.6.chargePoint.Stop", 4%Z, [])]);
  ("ocpp1.6.chargePoint.stopC", Content, Pinned LIFECYCLE [("ocpp1.6.chargePoint.Stop", 4%Z, [])]);
  ("ocpp2.0.1.chargingStation.stopC", Ptr, Pinned LIFECYCLE [
      ("ocpp2.0.1.chargingStation.SendRequest", 3%Z, []); ("ocpp2.0.1.chargingStation.Start", 1%Z, []); ("ocpp2.0.1.chargingStation.Start", 0%Z, []);
      ("ocpp2.0.1.chargingStation.StartWithRetries", 1%Z, []); ("ocpp2.0.1.chargingStation.StartWithRetries", 0%Z, []);
      ("ocpp2.0.1.chargingStation.Stop", 4%Z, [])]);
  ("ocpp2.0.1.chargingStation.stopC", Content, Pinned LIFECYCLE [("ocpp2.0.1.chargingStation.Stop", 4%Z, [])]);
  ("ocppj.DefaultClientDispatcher.timer", Ptr, Pinned LIFECYCLE [
      ("ocppj.DefaultClientDispatcher.Pause", 0%Z, [(mu_cd, 2%Z)]); ("ocppj.DefaultClientDispatcher.stopTimer", 0%Z, []);
      ("ocppj.DefaultClientDispatcher.Resume", 0%Z, []);
      ("ocppj.DefaultClientDispatcher.Start", 1%Z, [(mu_cd, 2%Z)]); ("ocppj.DefaultClientDispatcher.VerifFireTimer", 0%Z, [(mu_cd, 1%Z)]);
      ("ocppj.DefaultClientDispatcher.messagePump", 0%Z, [])]);
  (* reconnectC is created by NewClient; connect() only replaces a nil channel, which a constructed client never has *)
  ("ws.client.reconnectC", Ptr, Pinned LIFECYCLE [
      ("ws.client.Start", 0%Z, []); ("ws.client.Start", 3%Z, []); ("ws.client.Stop", 3%Z, []); ("ws.client.Stop", 2%Z, []);
      ("ws.client.connect", 0%Z, []); ("ws.client.connect", 1%Z, []); ("ws.client.handleReconnection", 3%Z, [])]);
  (* url: written by connect(), i.e. by Start or by the reconnection goroutine, which is also its only reader *)
  ("ws.client.url", Ptr, Pinned LIFECYCLE [("ws.client.connect", 1%Z, []); ("ws.client.handleReconnection", 0%Z, [])]);
  ("ws.server.httpServer", Ptr, Pinned LIFECYCLE [("ws.server.Start", 0%Z, []); ("ws.server.Start", 1%Z, []); ("ws.server.Stop", 0%Z, [])])
].

(** check-then-act sequences that must be one critical section (function, field, mutex); M4/Sections.v *)
Definition atomic_sections : list (string * string * string) := [
  (* C13: the duplicate check and the registration of a websocket id *)
  ("ws.server.wsHandler", "ws.server.connections", "ws.server.connMutex");
  (* C01: registration of a callback, the send attempt and the rollback when it is refused *)
  ("internal/callbackqueue.CallbackQueue.TryQueue", "internal/callbackqueue.CallbackQueue.callbacks", "internal/callbackqueue.CallbackQueue.callbacksMutex");
  (* C11: look-up and creation of a client's queue *)
  ("ocppj.FIFOQueueMap.GetOrCreate", "ocppj.FIFOQueueMap.data", "ocppj.FIFOQueueMap.mutex");
  (* C12: bounded push (capacity check and append), pop (emptiness check and removal) *)
  ("ocppj.FIFOClientQueue.Push", "ocppj.FIFOClientQueue.elements", "ocppj.FIFOClientQueue.mutex");
  ("ocppj.FIFOClientQueue.Pop", "ocppj.FIFOClientQueue.elements", "ocppj.FIFOClientQueue.mutex")
].
