(** The field constraints of every OCPP 1.6 / 2.0.1 message as this verification reads them: a committed snapshot of the
    schema trees of the pinned tree (after the repairs F20, F25), reviewed for the anomalies listed in DESIGN.md.
    It stands in for the OCPP documents, which are not available offline; coq/gen/Schemas.v (regenerated from the current
    source on every run) is compared with it. *)
From Coq Require Import String List.
Import ListNotations.
From Verif Require Import M2.Validator.
Open Scope string_scope.

Definition sschema_0 : kind := (KStruct "core.AuthorizeRequest" [("IdTag", [("required", ""); ("max", "20")], KString)]).
Definition sschema_1 : kind := (KStruct "core.AuthorizeConfirmation" [("IdTagInfo", [("required", "")], (KPtr (KStruct "types.IdTagInfo" [("ExpiryDate", [("omitempty", "")], (KPtr KTime));
      ("ParentIdTag", [("omitempty", ""); ("max", "20")], KString);
      ("Status", [("required", ""); ("authorizationStatus16", "")], KString)])))]).
Definition sschema_2 : kind := (KStruct "core.BootNotificationRequest" [("ChargeBoxSerialNumber", [("max", "25")], KString);
      ("ChargePointModel", [("required", ""); ("max", "20")], KString);
      ("ChargePointSerialNumber", [("max", "25")], KString);
      ("ChargePointVendor", [("required", ""); ("max", "20")], KString);
      ("FirmwareVersion", [("max", "50")], KString);
      ("Iccid", [("max", "20")], KString);
      ("Imsi", [("max", "20")], KString);
      ("MeterSerialNumber", [("max", "25")], KString);
      ("MeterType", [("max", "25")], KString)]).
Definition sschema_3 : kind := (KStruct "core.BootNotificationConfirmation" [("CurrentTime", [("required", "")], (KPtr KTime));
      ("Interval", [("gte", "0")], KInt);
      ("Status", [("required", ""); ("registrationStatus16", "")], KString)]).
Definition sschema_4 : kind := (KStruct "core.ChangeAvailabilityRequest" [("ConnectorId", [("gte", "0")], KInt);
      ("Type", [("required", ""); ("availabilityType", "")], KString)]).
Definition sschema_5 : kind := (KStruct "core.ChangeAvailabilityConfirmation" [("Status", [("required", ""); ("availabilityStatus", "")], KString)]).
Definition sschema_6 : kind := (KStruct "core.ChangeConfigurationRequest" [("Key", [("required", ""); ("max", "50")], KString);
      ("Value", [("required", ""); ("max", "500")], KString)]).
Definition sschema_7 : kind := (KStruct "core.ChangeConfigurationConfirmation" [("Status", [("required", ""); ("configurationStatus", "")], KString)]).
Definition sschema_8 : kind := (KStruct "core.ClearCacheRequest" []).
Definition sschema_9 : kind := (KStruct "core.ClearCacheConfirmation" [("Status", [("required", ""); ("cacheStatus16", "")], KString)]).
Definition sschema_10 : kind := (KStruct "core.DataTransferRequest" [("VendorId", [("required", ""); ("max", "255")], KString);
      ("MessageId", [("max", "50")], KString);
      ("Data", [], KAny)]).
Definition sschema_11 : kind := (KStruct "core.DataTransferConfirmation" [("Status", [("required", ""); ("dataTransferStatus16", "")], KString);
      ("Data", [], KAny)]).
Definition sschema_12 : kind := (KStruct "core.GetConfigurationRequest" [("Key", [("omitempty", ""); ("unique", ""); ("dive", ""); ("max", "50")], (KSlice KString))]).
Definition sschema_13 : kind := (KStruct "core.GetConfigurationConfirmation" [("ConfigurationKey", [("omitempty", ""); ("dive", "")], (KSlice (KStruct "core.ConfigurationKey" [("Key", [("required", ""); ("max", "50")], KString);
      ("Readonly", [], KBool);
      ("Value", [("omitempty", ""); ("max", "500")], (KPtr KString))])));
      ("UnknownKey", [("omitempty", ""); ("dive", ""); ("max", "50")], (KSlice KString))]).
Definition sschema_14 : kind := (KStruct "core.HeartbeatRequest" []).
Definition sschema_15 : kind := (KStruct "core.HeartbeatConfirmation" [("CurrentTime", [("required", "")], (KPtr KTime))]).
Definition sschema_16 : kind := (KStruct "core.MeterValuesRequest" [("ConnectorId", [("gte", "0")], KInt);
      ("TransactionId", [], (KPtr KInt));
      ("MeterValue", [("required", ""); ("min", "1"); ("dive", "")], (KSlice (KStruct "types.MeterValue" [("Timestamp", [("required", "")], (KPtr KTime));
      ("SampledValue", [("required", ""); ("min", "1"); ("dive", "")], (KSlice (KStruct "types.SampledValue" [("Value", [("required", "")], KString);
      ("Context", [("omitempty", ""); ("readingContext16", "")], KString);
      ("Format", [("omitempty", ""); ("valueFormat", "")], KString);
      ("Measurand", [("omitempty", ""); ("measurand16", "")], KString);
      ("Phase", [("omitempty", ""); ("phase16", "")], KString);
      ("Location", [("omitempty", ""); ("location16", "")], KString);
      ("Unit", [("omitempty", ""); ("unitOfMeasure", "")], KString)])))])))]).
Definition sschema_17 : kind := (KStruct "core.MeterValuesConfirmation" []).
Definition sschema_18 : kind := (KStruct "core.RemoteStartTransactionRequest" [("ConnectorId", [("omitempty", ""); ("gt", "0")], (KPtr KInt));
      ("IdTag", [("required", ""); ("max", "20")], KString);
      ("ChargingProfile", [], (KPtr (KStruct "types.ChargingProfile" [("ChargingProfileId", [], KInt);
      ("TransactionId", [], KInt);
      ("StackLevel", [("gte", "0")], KInt);
      ("ChargingProfilePurpose", [("required", ""); ("chargingProfilePurpose16", "")], KString);
      ("ChargingProfileKind", [("required", ""); ("chargingProfileKind16", "")], KString);
      ("RecurrencyKind", [("omitempty", ""); ("recurrencyKind16", "")], KString);
      ("ValidFrom", [], (KPtr KTime));
      ("ValidTo", [], (KPtr KTime));
      ("ChargingSchedule", [("required", "")], (KPtr (KStruct "types.ChargingSchedule" [("Duration", [("omitempty", ""); ("gte", "0")], (KPtr KInt));
      ("StartSchedule", [], (KPtr KTime));
      ("ChargingRateUnit", [("required", ""); ("chargingRateUnit16", "")], KString);
      ("ChargingSchedulePeriod", [("required", ""); ("min", "1"); ("dive", "")], (KSlice (KStruct "types.ChargingSchedulePeriod" [("StartPeriod", [("gte", "0")], KInt);
      ("Limit", [("gte", "0")], KFloat);
      ("NumberPhases", [("omitempty", ""); ("gte", "0")], (KPtr KInt))])));
      ("MinChargingRate", [("omitempty", ""); ("gte", "0")], (KPtr KFloat))])))])))]).
Definition sschema_19 : kind := (KStruct "core.RemoteStartTransactionConfirmation" [("Status", [("required", ""); ("remoteStartStopStatus16", "")], KString)]).
Definition sschema_20 : kind := (KStruct "core.RemoteStopTransactionRequest" [("TransactionId", [], KInt)]).
Definition sschema_21 : kind := (KStruct "core.RemoteStopTransactionConfirmation" [("Status", [("required", ""); ("remoteStartStopStatus16", "")], KString)]).
Definition sschema_22 : kind := (KStruct "core.ResetRequest" [("Type", [("required", ""); ("resetType16", "")], KString)]).
Definition sschema_23 : kind := (KStruct "core.ResetConfirmation" [("Status", [("required", ""); ("resetStatus16", "")], KString)]).
Definition sschema_24 : kind := (KStruct "core.StartTransactionRequest" [("ConnectorId", [("gt", "0")], KInt);
      ("IdTag", [("required", ""); ("max", "20")], KString);
      ("MeterStart", [("gte", "0")], KInt);
      ("ReservationId", [("omitempty", "")], (KPtr KInt));
      ("Timestamp", [("required", "")], (KPtr KTime))]).
Definition sschema_25 : kind := (KStruct "core.StartTransactionConfirmation" [("IdTagInfo", [("required", "")], (KPtr (KStruct "types.IdTagInfo" [("ExpiryDate", [("omitempty", "")], (KPtr KTime));
      ("ParentIdTag", [("omitempty", ""); ("max", "20")], KString);
      ("Status", [("required", ""); ("authorizationStatus16", "")], KString)])));
      ("TransactionId", [], KInt)]).
Definition sschema_26 : kind := (KStruct "core.StatusNotificationRequest" [("ConnectorId", [("gte", "0")], KInt);
      ("ErrorCode", [("required", ""); ("chargePointErrorCode", "")], KString);
      ("Info", [("max", "50")], KString);
      ("Status", [("required", ""); ("chargePointStatus", "")], KString);
      ("Timestamp", [("omitempty", "")], (KPtr KTime));
      ("VendorId", [("max", "255")], KString);
      ("VendorErrorCode", [("max", "50")], KString)]).
Definition sschema_27 : kind := (KStruct "core.StatusNotificationConfirmation" []).
Definition sschema_28 : kind := (KStruct "core.StopTransactionRequest" [("IdTag", [("max", "20")], KString);
      ("MeterStop", [], KInt);
      ("Timestamp", [("required", "")], (KPtr KTime));
      ("TransactionId", [], KInt);
      ("Reason", [("omitempty", ""); ("reason", "")], KString);
      ("TransactionData", [("omitempty", ""); ("dive", "")], (KSlice (KStruct "types.MeterValue" [("Timestamp", [("required", "")], (KPtr KTime));
      ("SampledValue", [("required", ""); ("min", "1"); ("dive", "")], (KSlice (KStruct "types.SampledValue" [("Value", [("required", "")], KString);
      ("Context", [("omitempty", ""); ("readingContext16", "")], KString);
      ("Format", [("omitempty", ""); ("valueFormat", "")], KString);
      ("Measurand", [("omitempty", ""); ("measurand16", "")], KString);
      ("Phase", [("omitempty", ""); ("phase16", "")], KString);
      ("Location", [("omitempty", ""); ("location16", "")], KString);
      ("Unit", [("omitempty", ""); ("unitOfMeasure", "")], KString)])))])))]).
Definition sschema_29 : kind := (KStruct "core.StopTransactionConfirmation" [("IdTagInfo", [("omitempty", "")], (KPtr (KStruct "types.IdTagInfo" [("ExpiryDate", [("omitempty", "")], (KPtr KTime));
      ("ParentIdTag", [("omitempty", ""); ("max", "20")], KString);
      ("Status", [("required", ""); ("authorizationStatus16", "")], KString)])))]).
Definition sschema_30 : kind := (KStruct "core.UnlockConnectorRequest" [("ConnectorId", [("gt", "0")], KInt)]).
Definition sschema_31 : kind := (KStruct "core.UnlockConnectorConfirmation" [("Status", [("required", ""); ("unlockStatus16", "")], KString)]).
Definition sschema_32 : kind := (KStruct "localauth.GetLocalListVersionRequest" []).
Definition sschema_33 : kind := (KStruct "localauth.GetLocalListVersionConfirmation" [("ListVersion", [("gte", "-1")], KInt)]).
Definition sschema_34 : kind := (KStruct "localauth.SendLocalListRequest" [("ListVersion", [("gte", "0")], KInt);
      ("LocalAuthorizationList", [("omitempty", ""); ("dive", "")], (KSlice (KStruct "localauth.AuthorizationData" [("IdTag", [("required", ""); ("max", "20")], KString);
      ("IdTagInfo", [], (KPtr (KStruct "types.IdTagInfo" [("ExpiryDate", [("omitempty", "")], (KPtr KTime));
      ("ParentIdTag", [("omitempty", ""); ("max", "20")], KString);
      ("Status", [("required", ""); ("authorizationStatus16", "")], KString)])))])));
      ("UpdateType", [("required", ""); ("updateType16", "")], KString)]).
Definition sschema_35 : kind := (KStruct "localauth.SendLocalListConfirmation" [("Status", [("required", ""); ("updateStatus", "")], KString)]).
Definition sschema_36 : kind := (KStruct "firmware.DiagnosticsStatusNotificationRequest" [("Status", [("required", ""); ("diagnosticsStatus", "")], KString)]).
Definition sschema_37 : kind := (KStruct "firmware.DiagnosticsStatusNotificationConfirmation" []).
Definition sschema_38 : kind := (KStruct "firmware.FirmwareStatusNotificationRequest" [("Status", [("required", ""); ("firmwareStatus16", "")], KString)]).
Definition sschema_39 : kind := (KStruct "firmware.FirmwareStatusNotificationConfirmation" []).
Definition sschema_40 : kind := (KStruct "firmware.GetDiagnosticsRequest" [("Location", [("required", ""); ("uri", "")], KString);
      ("Retries", [("omitempty", ""); ("gte", "0")], (KPtr KInt));
      ("RetryInterval", [("omitempty", ""); ("gte", "0")], (KPtr KInt));
      ("StartTime", [], (KPtr KTime));
      ("StopTime", [], (KPtr KTime))]).
Definition sschema_41 : kind := (KStruct "firmware.GetDiagnosticsConfirmation" [("FileName", [("max", "255")], KString)]).
Definition sschema_42 : kind := (KStruct "firmware.UpdateFirmwareRequest" [("Location", [("required", ""); ("uri", "")], KString);
      ("Retries", [("omitempty", ""); ("gte", "0")], (KPtr KInt));
      ("RetrieveDate", [("required", "")], (KPtr KTime));
      ("RetryInterval", [("omitempty", ""); ("gte", "0")], (KPtr KInt))]).
Definition sschema_43 : kind := (KStruct "firmware.UpdateFirmwareConfirmation" []).
Definition sschema_44 : kind := (KStruct "reservation.CancelReservationRequest" [("ReservationId", [], KInt)]).
Definition sschema_45 : kind := (KStruct "reservation.CancelReservationConfirmation" [("Status", [("required", ""); ("cancelReservationStatus16", "")], KString)]).
Definition sschema_46 : kind := (KStruct "reservation.ReserveNowRequest" [("ConnectorId", [("gte", "0")], KInt);
      ("ExpiryDate", [("required", "")], (KPtr KTime));
      ("IdTag", [("required", ""); ("max", "20")], KString);
      ("ParentIdTag", [("max", "20")], KString);
      ("ReservationId", [], KInt)]).
Definition sschema_47 : kind := (KStruct "reservation.ReserveNowConfirmation" [("Status", [("required", ""); ("reservationStatus", "")], KString)]).
Definition sschema_48 : kind := (KStruct "remotetrigger.TriggerMessageRequest" [("RequestedMessage", [("required", ""); ("messageTrigger16", "")], KString);
      ("ConnectorId", [("omitempty", ""); ("gte", "0")], (KPtr KInt))]).
Definition sschema_49 : kind := (KStruct "remotetrigger.TriggerMessageConfirmation" [("Status", [("required", ""); ("triggerMessageStatus16", "")], KString)]).
Definition sschema_50 : kind := (KStruct "smartcharging.ClearChargingProfileRequest" [("Id", [("omitempty", "")], (KPtr KInt));
      ("ConnectorId", [("omitempty", ""); ("gte", "0")], (KPtr KInt));
      ("ChargingProfilePurpose", [("omitempty", ""); ("chargingProfilePurpose16", "")], KString);
      ("StackLevel", [("omitempty", ""); ("gte", "0")], (KPtr KInt))]).
Definition sschema_51 : kind := (KStruct "smartcharging.ClearChargingProfileConfirmation" [("Status", [("required", ""); ("clearChargingProfileStatus16", "")], KString)]).
Definition sschema_52 : kind := (KStruct "smartcharging.GetCompositeScheduleRequest" [("ConnectorId", [("gte", "0")], KInt);
      ("Duration", [("gte", "0")], KInt);
      ("ChargingRateUnit", [("omitempty", ""); ("chargingRateUnit16", "")], KString)]).
Definition sschema_53 : kind := (KStruct "smartcharging.GetCompositeScheduleConfirmation" [("Status", [("required", ""); ("compositeScheduleStatus", "")], KString);
      ("ConnectorId", [("omitempty", ""); ("gte", "0")], (KPtr KInt));
      ("ScheduleStart", [], (KPtr KTime));
      ("ChargingSchedule", [("omitempty", "")], (KPtr (KStruct "types.ChargingSchedule" [("Duration", [("omitempty", ""); ("gte", "0")], (KPtr KInt));
      ("StartSchedule", [], (KPtr KTime));
      ("ChargingRateUnit", [("required", ""); ("chargingRateUnit16", "")], KString);
      ("ChargingSchedulePeriod", [("required", ""); ("min", "1"); ("dive", "")], (KSlice (KStruct "types.ChargingSchedulePeriod" [("StartPeriod", [("gte", "0")], KInt);
      ("Limit", [("gte", "0")], KFloat);
      ("NumberPhases", [("omitempty", ""); ("gte", "0")], (KPtr KInt))])));
      ("MinChargingRate", [("omitempty", ""); ("gte", "0")], (KPtr KFloat))])))]).
Definition sschema_54 : kind := (KStruct "smartcharging.SetChargingProfileRequest" [("ConnectorId", [("gte", "0")], KInt);
      ("ChargingProfile", [("required", "")], (KPtr (KStruct "types.ChargingProfile" [("ChargingProfileId", [], KInt);
      ("TransactionId", [], KInt);
      ("StackLevel", [("gte", "0")], KInt);
      ("ChargingProfilePurpose", [("required", ""); ("chargingProfilePurpose16", "")], KString);
      ("ChargingProfileKind", [("required", ""); ("chargingProfileKind16", "")], KString);
      ("RecurrencyKind", [("omitempty", ""); ("recurrencyKind16", "")], KString);
      ("ValidFrom", [], (KPtr KTime));
      ("ValidTo", [], (KPtr KTime));
      ("ChargingSchedule", [("required", "")], (KPtr (KStruct "types.ChargingSchedule" [("Duration", [("omitempty", ""); ("gte", "0")], (KPtr KInt));
      ("StartSchedule", [], (KPtr KTime));
      ("ChargingRateUnit", [("required", ""); ("chargingRateUnit16", "")], KString);
      ("ChargingSchedulePeriod", [("required", ""); ("min", "1"); ("dive", "")], (KSlice (KStruct "types.ChargingSchedulePeriod" [("StartPeriod", [("gte", "0")], KInt);
      ("Limit", [("gte", "0")], KFloat);
      ("NumberPhases", [("omitempty", ""); ("gte", "0")], (KPtr KInt))])));
      ("MinChargingRate", [("omitempty", ""); ("gte", "0")], (KPtr KFloat))])))])))]).
Definition sschema_55 : kind := (KStruct "smartcharging.SetChargingProfileConfirmation" [("Status", [("required", ""); ("chargingProfileStatus16", "")], KString)]).
Definition sschema_56 : kind := (KStruct "logging.GetLogRequest" [("LogType", [("required", ""); ("logType16", "")], KString);
      ("RequestID", [("gte", "0")], KInt);
      ("Retries", [("omitempty", ""); ("gte", "0")], (KPtr KInt));
      ("RetryInterval", [("omitempty", ""); ("gte", "0")], (KPtr KInt));
      ("Log", [("required", "")], (KStruct "logging.LogParameters" [("RemoteLocation", [("required", ""); ("max", "512"); ("url", "")], KString);
      ("OldestTimestamp", [("omitempty", "")], (KPtr KTime));
      ("LatestTimestamp", [("omitempty", "")], (KPtr KTime))]))]).
Definition sschema_57 : kind := (KStruct "logging.GetLogResponse" [("Status", [("required", ""); ("logStatus16", "")], KString);
      ("Filename", [("omitempty", ""); ("max", "256")], KString)]).
Definition sschema_58 : kind := (KStruct "logging.LogStatusNotificationRequest" [("Status", [("required", ""); ("uploadLogStatus16", "")], KString);
      ("RequestID", [("gte", "0")], KInt)]).
Definition sschema_59 : kind := (KStruct "logging.LogStatusNotificationResponse" []).
Definition sschema_60 : kind := (KStruct "security.CertificateSignedRequest" [("CertificateChain", [("required", ""); ("max", "10000")], KString)]).
Definition sschema_61 : kind := (KStruct "security.CertificateSignedResponse" [("Status", [("required", ""); ("certificateSignedStatus16", "")], KString)]).
Definition sschema_62 : kind := (KStruct "security.SecurityEventNotificationRequest" [("Type", [("required", ""); ("max", "50")], KString);
      ("Timestamp", [("required", "")], (KPtr KTime));
      ("TechInfo", [("omitempty", ""); ("max", "255")], KString)]).
Definition sschema_63 : kind := (KStruct "security.SecurityEventNotificationResponse" []).
Definition sschema_64 : kind := (KStruct "security.SignCertificateRequest" [("CSR", [("required", ""); ("max", "5500")], KString);
      ("CertificateType", [("omitempty", ""); ("certificateSigningUse16", "")], KString)]).
Definition sschema_65 : kind := (KStruct "security.SignCertificateResponse" [("Status", [("required", ""); ("genericStatus16", "")], KString)]).
Definition sschema_66 : kind := (KStruct "extendedtriggermessage.ExtendedTriggerMessageRequest" [("RequestedMessage", [("required", ""); ("extendedTriggerMessageType", "")], KString);
      ("ConnectorId", [("omitempty", ""); ("gte", "0")], (KPtr KInt))]).
Definition sschema_67 : kind := (KStruct "extendedtriggermessage.ExtendedTriggerMessageResponse" [("Status", [("required", ""); ("extendedTriggerMessageStatus", "")], KString)]).
Definition sschema_68 : kind := (KStruct "certificates.DeleteCertificateRequest" [("CertificateHashData", [("required", "")], (KStruct "types.CertificateHashData" [("HashAlgorithm", [("required", ""); ("hashAlgorithm", "")], KString);
      ("IssuerNameHash", [("required", ""); ("max", "128")], KString);
      ("IssuerKeyHash", [("required", ""); ("max", "128")], KString);
      ("SerialNumber", [("required", ""); ("max", "40")], KString)]))]).
Definition sschema_69 : kind := (KStruct "certificates.DeleteCertificateResponse" [("Status", [("required", ""); ("deleteCertificateStatus16", "")], KString)]).
Definition sschema_70 : kind := (KStruct "certificates.GetInstalledCertificateIdsRequest" [("CertificateType", [("required", ""); ("certificateUse16", "")], KString)]).
Definition sschema_71 : kind := (KStruct "certificates.GetInstalledCertificateIdsResponse" [("Status", [("required", ""); ("getInstalledCertificateStatus16", "")], KString);
      ("CertificateHashData", [("omitempty", ""); ("dive", "")], (KSlice (KStruct "types.CertificateHashData" [("HashAlgorithm", [("required", ""); ("hashAlgorithm", "")], KString);
      ("IssuerNameHash", [("required", ""); ("max", "128")], KString);
      ("IssuerKeyHash", [("required", ""); ("max", "128")], KString);
      ("SerialNumber", [("required", ""); ("max", "40")], KString)])))]).
Definition sschema_72 : kind := (KStruct "certificates.InstallCertificateRequest" [("CertificateType", [("required", ""); ("certificateUse16", "")], KString);
      ("Certificate", [("required", ""); ("max", "5500")], KString)]).
Definition sschema_73 : kind := (KStruct "certificates.InstallCertificateResponse" [("Status", [("required", ""); ("installCertificateStatus16", "")], KString)]).
Definition sschema_74 : kind := (KStruct "securefirmware.SignedFirmwareStatusNotificationRequest" [("Status", [("required", ""); ("signedFirmwareStatus", "")], KString);
      ("RequestID", [("omitempty", ""); ("gte", "0")], (KPtr KInt))]).
Definition sschema_75 : kind := (KStruct "securefirmware.SignedFirmwareStatusNotificationResponse" []).
Definition sschema_76 : kind := (KStruct "securefirmware.SignedUpdateFirmwareRequest" [("Retries", [("omitempty", ""); ("gte", "0")], (KPtr KInt));
      ("RetryInterval", [("omitempty", ""); ("gte", "0")], (KPtr KInt));
      ("RequestID", [("gte", "0")], KInt);
      ("Firmware", [("required", "")], (KStruct "securefirmware.Firmware" [("Location", [("required", ""); ("max", "512"); ("uri", "")], KString);
      ("RetrieveDateTime", [("required", "")], (KPtr KTime));
      ("InstallDateTime", [("omitempty", "")], (KPtr KTime));
      ("SigningCertificate", [("max", "5500")], KString);
      ("Signature", [("max", "800")], KString)]))]).
Definition sschema_77 : kind := (KStruct "securefirmware.SignedUpdateFirmwareResponse" [("Status", [("required", ""); ("signedUpdateFirmwareStatus", "")], KString)]).
Definition sschema_78 : kind := (KStruct "authorization.AuthorizeRequest" [("Certificate", [("max", "5500")], KString);
      ("IdToken", [("required", "")], (KStruct "types.IdToken" [("IdToken", [("max", "36")], KString);
      ("Type", [("required", ""); ("idTokenType", "")], KString);
      ("AdditionalInfo", [("omitempty", ""); ("dive", "")], (KSlice (KStruct "types.AdditionalInfo" [("AdditionalIdToken", [("required", ""); ("max", "36")], KString);
      ("Type", [("required", ""); ("max", "50")], KString)])))]));
      ("CertificateHashData", [("max", "4"); ("dive", "")], (KSlice (KStruct "types.OCSPRequestDataType" [("HashAlgorithm", [("required", ""); ("hashAlgorithm", "")], KString);
      ("IssuerNameHash", [("required", ""); ("max", "128")], KString);
      ("IssuerKeyHash", [("required", ""); ("max", "128")], KString);
      ("SerialNumber", [("required", ""); ("max", "40")], KString);
      ("ResponderURL", [("max", "512")], KString)])))]).
Definition sschema_79 : kind := (KStruct "authorization.AuthorizeResponse" [("CertificateStatus", [("omitempty", ""); ("authorizeCertificateStatus", "")], KString);
      ("IdTokenInfo", [("required", "")], (KStruct "types.IdTokenInfo" [("Status", [("required", ""); ("authorizationStatus201", "")], KString);
      ("CacheExpiryDateTime", [("omitempty", "")], (KPtr KTime));
      ("ChargingPriority", [("min", "-9"); ("max", "9")], KInt);
      ("Language1", [("max", "8")], KString);
      ("Language2", [("max", "8")], KString);
      ("GroupIdToken", [], (KPtr (KStruct "types.GroupIdToken" [("IdToken", [("max", "36")], KString);
      ("Type", [("required", ""); ("idTokenType", "")], KString)])));
      ("PersonalMessage", [], (KPtr (KStruct "types.MessageContent" [("Format", [("required", ""); ("messageFormat", "")], KString);
      ("Language", [("max", "8")], KString);
      ("Content", [("required", ""); ("max", "512")], KString)])))]))]).
Definition sschema_80 : kind := (KStruct "authorization.ClearCacheRequest" []).
Definition sschema_81 : kind := (KStruct "authorization.ClearCacheResponse" [("Status", [("required", ""); ("cacheStatus201", "")], KString);
      ("StatusInfo", [("omitempty", "")], (KPtr (KStruct "types.StatusInfo" [("ReasonCode", [("required", ""); ("max", "20")], KString);
      ("AdditionalInfo", [("omitempty", ""); ("max", "512")], KString)])))]).
Definition sschema_82 : kind := (KStruct "availability.ChangeAvailabilityRequest" [("OperationalStatus", [("required", ""); ("operationalStatus", "")], KString);
      ("Evse", [("omitempty", "")], (KPtr (KStruct "types.EVSE" [("ID", [("gte", "0")], KInt);
      ("ConnectorID", [("omitempty", ""); ("gte", "0")], (KPtr KInt))])))]).
Definition sschema_83 : kind := (KStruct "availability.ChangeAvailabilityResponse" [("Status", [("required", ""); ("changeAvailabilityStatus", "")], KString);
      ("StatusInfo", [("omitempty", "")], (KPtr (KStruct "types.StatusInfo" [("ReasonCode", [("required", ""); ("max", "20")], KString);
      ("AdditionalInfo", [("omitempty", ""); ("max", "512")], KString)])))]).
Definition sschema_84 : kind := (KStruct "availability.HeartbeatRequest" []).
Definition sschema_85 : kind := (KStruct "availability.HeartbeatResponse" [("CurrentTime", [("required", "")], KTime)]).
Definition sschema_86 : kind := (KStruct "availability.StatusNotificationRequest" [("Timestamp", [("required", "")], (KPtr KTime));
      ("ConnectorStatus", [("required", ""); ("connectorStatus", "")], KString);
      ("EvseID", [("gte", "0")], KInt);
      ("ConnectorID", [("gte", "0")], KInt)]).
Definition sschema_87 : kind := (KStruct "availability.StatusNotificationResponse" []).
Definition sschema_88 : kind := (KStruct "data.DataTransferRequest" [("MessageID", [("max", "50")], KString);
      ("Data", [], KAny);
      ("VendorID", [("required", ""); ("max", "255")], KString)]).
Definition sschema_89 : kind := (KStruct "data.DataTransferResponse" [("Status", [("required", ""); ("dataTransferStatus201", "")], KString);
      ("Data", [], KAny);
      ("StatusInfo", [("omitempty", "")], (KPtr (KStruct "types.StatusInfo" [("ReasonCode", [("required", ""); ("max", "20")], KString);
      ("AdditionalInfo", [("omitempty", ""); ("max", "512")], KString)])))]).
Definition sschema_90 : kind := (KStruct "diagnostics.ClearVariableMonitoringRequest" [("ID", [("required", ""); ("min", "1"); ("dive", ""); ("gte", "0")], (KSlice KInt))]).
Definition sschema_91 : kind := (KStruct "diagnostics.ClearVariableMonitoringResponse" [("ClearMonitoringResult", [("required", ""); ("min", "1"); ("dive", "")], (KSlice (KStruct "diagnostics.ClearMonitoringResult" [("ID", [("required", ""); ("gte", "0")], KInt);
      ("Status", [("required", ""); ("clearMonitoringStatus", "")], KString)])))]).
Definition sschema_92 : kind := (KStruct "diagnostics.CustomerInformationRequest" [("RequestID", [("gte", "0")], KInt);
      ("Report", [], KBool);
      ("Clear", [], KBool);
      ("CustomerIdentifier", [("max", "64")], KString);
      ("IdToken", [("omitempty", ""); ("dive", "")], (KPtr (KStruct "types.IdToken" [("IdToken", [("max", "36")], KString);
      ("Type", [("required", ""); ("idTokenType", "")], KString);
      ("AdditionalInfo", [("omitempty", ""); ("dive", "")], (KSlice (KStruct "types.AdditionalInfo" [("AdditionalIdToken", [("required", ""); ("max", "36")], KString);
      ("Type", [("required", ""); ("max", "50")], KString)])))])));
      ("CustomerCertificate", [("omitempty", ""); ("dive", "")], (KPtr (KStruct "types.CertificateHashData" [("HashAlgorithm", [("required", ""); ("hashAlgorithm", "")], KString);
      ("IssuerNameHash", [("required", ""); ("max", "128")], KString);
      ("IssuerKeyHash", [("required", ""); ("max", "128")], KString);
      ("SerialNumber", [("required", ""); ("max", "40")], KString)])))]).
Definition sschema_93 : kind := (KStruct "diagnostics.CustomerInformationResponse" [("Status", [("required", ""); ("customerInformationStatus", "")], KString);
      ("StatusInfo", [("omitempty", "")], (KPtr (KStruct "types.StatusInfo" [("ReasonCode", [("required", ""); ("max", "20")], KString);
      ("AdditionalInfo", [("omitempty", ""); ("max", "512")], KString)])))]).
Definition sschema_94 : kind := (KStruct "diagnostics.GetLogRequest" [("LogType", [("required", ""); ("logType", "")], KString);
      ("RequestID", [("gte", "0")], KInt);
      ("Retries", [("omitempty", ""); ("gte", "0")], (KPtr KInt));
      ("RetryInterval", [("omitempty", ""); ("gte", "0")], (KPtr KInt));
      ("Log", [("required", "")], (KStruct "diagnostics.LogParameters" [("RemoteLocation", [("required", ""); ("max", "512"); ("url", "")], KString);
      ("OldestTimestamp", [("omitempty", "")], (KPtr KTime));
      ("LatestTimestamp", [("omitempty", "")], (KPtr KTime))]))]).
Definition sschema_95 : kind := (KStruct "diagnostics.GetLogResponse" [("Status", [("required", ""); ("logStatus", "")], KString);
      ("Filename", [("omitempty", ""); ("max", "256")], KString)]).
Definition sschema_96 : kind := (KStruct "diagnostics.GetMonitoringReportRequest" [("RequestID", [("omitempty", ""); ("gte", "0")], (KPtr KInt));
      ("MonitoringCriteria", [("omitempty", ""); ("max", "3"); ("dive", ""); ("monitoringCriteria", "")], (KSlice KString));
      ("ComponentVariable", [("omitempty", ""); ("dive", "")], (KSlice (KStruct "types.ComponentVariable" [("Component", [("required", "")], (KStruct "types.Component" [("Name", [("required", ""); ("max", "50")], KString);
      ("Instance", [("omitempty", ""); ("max", "50")], KString);
      ("EVSE", [("omitempty", "")], (KPtr (KStruct "types.EVSE" [("ID", [("gte", "0")], KInt);
      ("ConnectorID", [("omitempty", ""); ("gte", "0")], (KPtr KInt))])))]));
      ("Variable", [("required", "")], (KStruct "types.Variable" [("Name", [("required", ""); ("max", "50")], KString);
      ("Instance", [("omitempty", ""); ("max", "50")], KString)]))])))]).
Definition sschema_97 : kind := (KStruct "diagnostics.GetMonitoringReportResponse" [("Status", [("required", ""); ("genericDeviceModelStatus", "")], KString)]).
Definition sschema_98 : kind := (KStruct "diagnostics.LogStatusNotificationRequest" [("Status", [("required", ""); ("uploadLogStatus", "")], KString);
      ("RequestID", [("gte", "0")], KInt)]).
Definition sschema_99 : kind := (KStruct "diagnostics.LogStatusNotificationResponse" []).
Definition sschema_100 : kind := (KStruct "diagnostics.NotifyCustomerInformationRequest" [("Data", [("required", ""); ("max", "512")], KString);
      ("Tbc", [("omitempty", "")], KBool);
      ("SeqNo", [("gte", "0")], KInt);
      ("GeneratedAt", [("required", "")], KTime);
      ("RequestID", [("gte", "0")], KInt)]).
Definition sschema_101 : kind := (KStruct "diagnostics.NotifyCustomerInformationResponse" []).
Definition sschema_102 : kind := (KStruct "diagnostics.NotifyEventRequest" [("GeneratedAt", [("required", "")], (KPtr KTime));
      ("SeqNo", [("gte", "0")], KInt);
      ("Tbc", [("omitempty", "")], KBool);
      ("EventData", [("required", ""); ("min", "1"); ("dive", "")], (KSlice (KStruct "diagnostics.EventData" [("EventID", [("gte", "0")], KInt);
      ("Timestamp", [("required", "")], (KPtr KTime));
      ("Trigger", [("required", ""); ("eventTrigger", "")], KString);
      ("Cause", [("omitempty", "")], (KPtr KInt));
      ("ActualValue", [("required", ""); ("max", "2500")], KString);
      ("TechCode", [("omitempty", ""); ("max", "50")], KString);
      ("TechInfo", [("omitempty", ""); ("max", "500")], KString);
      ("Cleared", [], KBool);
      ("TransactionID", [("omitempty", ""); ("max", "36")], KString);
      ("VariableMonitoringID", [("omitempty", "")], (KPtr KInt));
      ("EventNotificationType", [("required", ""); ("eventNotification", "")], KString);
      ("Component", [("required", "")], (KStruct "types.Component" [("Name", [("required", ""); ("max", "50")], KString);
      ("Instance", [("omitempty", ""); ("max", "50")], KString);
      ("EVSE", [("omitempty", "")], (KPtr (KStruct "types.EVSE" [("ID", [("gte", "0")], KInt);
      ("ConnectorID", [("omitempty", ""); ("gte", "0")], (KPtr KInt))])))]));
      ("Variable", [("required", "")], (KStruct "types.Variable" [("Name", [("required", ""); ("max", "50")], KString);
      ("Instance", [("omitempty", ""); ("max", "50")], KString)]))])))]).
Definition sschema_103 : kind := (KStruct "diagnostics.NotifyEventResponse" []).
Definition sschema_104 : kind := (KStruct "diagnostics.NotifyMonitoringReportRequest" [("RequestID", [("gte", "0")], KInt);
      ("Tbc", [("omitempty", "")], KBool);
      ("SeqNo", [("gte", "0")], KInt);
      ("GeneratedAt", [("required", "")], (KPtr KTime));
      ("Monitor", [("omitempty", ""); ("dive", "")], (KSlice (KStruct "diagnostics.MonitoringData" [("Component", [("required", "")], (KStruct "types.Component" [("Name", [("required", ""); ("max", "50")], KString);
      ("Instance", [("omitempty", ""); ("max", "50")], KString);
      ("EVSE", [("omitempty", "")], (KPtr (KStruct "types.EVSE" [("ID", [("gte", "0")], KInt);
      ("ConnectorID", [("omitempty", ""); ("gte", "0")], (KPtr KInt))])))]));
      ("Variable", [("required", "")], (KStruct "types.Variable" [("Name", [("required", ""); ("max", "50")], KString);
      ("Instance", [("omitempty", ""); ("max", "50")], KString)]));
      ("VariableMonitoring", [("required", ""); ("min", "1"); ("dive", "")], (KSlice (KStruct "diagnostics.VariableMonitoring" [("ID", [("gte", "0")], KInt);
      ("Transaction", [], KBool);
      ("Value", [], KFloat);
      ("Type", [("required", ""); ("monitorType", "")], KString);
      ("Severity", [("min", "0"); ("max", "9")], KInt)])))])))]).
Definition sschema_105 : kind := (KStruct "diagnostics.NotifyMonitoringReportResponse" []).
Definition sschema_106 : kind := (KStruct "diagnostics.SetMonitoringBaseRequest" [("MonitoringBase", [("required", ""); ("monitoringBase", "")], KString)]).
Definition sschema_107 : kind := (KStruct "diagnostics.SetMonitoringBaseResponse" [("Status", [("required", ""); ("genericDeviceModelStatus", "")], KString);
      ("StatusInfo", [("omitempty", "")], (KPtr (KStruct "types.StatusInfo" [("ReasonCode", [("required", ""); ("max", "20")], KString);
      ("AdditionalInfo", [("omitempty", ""); ("max", "512")], KString)])))]).
Definition sschema_108 : kind := (KStruct "diagnostics.SetMonitoringLevelRequest" [("Severity", [("min", "0"); ("max", "9")], KInt)]).
Definition sschema_109 : kind := (KStruct "diagnostics.SetMonitoringLevelResponse" [("Status", [("required", ""); ("genericDeviceModelStatus", "")], KString);
      ("StatusInfo", [("omitempty", "")], (KPtr (KStruct "types.StatusInfo" [("ReasonCode", [("required", ""); ("max", "20")], KString);
      ("AdditionalInfo", [("omitempty", ""); ("max", "512")], KString)])))]).
Definition sschema_110 : kind := (KStruct "diagnostics.SetVariableMonitoringRequest" [("MonitoringData", [("required", ""); ("min", "1"); ("dive", "")], (KSlice (KStruct "diagnostics.SetMonitoringData" [("ID", [("omitempty", "")], (KPtr KInt));
      ("Transaction", [], KBool);
      ("Value", [], KFloat);
      ("Type", [("required", ""); ("monitorType", "")], KString);
      ("Severity", [("min", "0"); ("max", "9")], KInt);
      ("Component", [("required", "")], (KStruct "types.Component" [("Name", [("required", ""); ("max", "50")], KString);
      ("Instance", [("omitempty", ""); ("max", "50")], KString);
      ("EVSE", [("omitempty", "")], (KPtr (KStruct "types.EVSE" [("ID", [("gte", "0")], KInt);
      ("ConnectorID", [("omitempty", ""); ("gte", "0")], (KPtr KInt))])))]));
      ("Variable", [("required", "")], (KStruct "types.Variable" [("Name", [("required", ""); ("max", "50")], KString);
      ("Instance", [("omitempty", ""); ("max", "50")], KString)]))])))]).
Definition sschema_111 : kind := (KStruct "diagnostics.SetVariableMonitoringResponse" [("MonitoringResult", [("required", ""); ("min", "1"); ("dive", "")], (KSlice (KStruct "diagnostics.SetMonitoringResult" [("ID", [("omitempty", "")], (KPtr KInt));
      ("Status", [("required", ""); ("setMonitoringStatus", "")], KString);
      ("Type", [("required", ""); ("monitorType", "")], KString);
      ("Severity", [("min", "0"); ("max", "9")], KInt);
      ("Component", [("required", "")], (KStruct "types.Component" [("Name", [("required", ""); ("max", "50")], KString);
      ("Instance", [("omitempty", ""); ("max", "50")], KString);
      ("EVSE", [("omitempty", "")], (KPtr (KStruct "types.EVSE" [("ID", [("gte", "0")], KInt);
      ("ConnectorID", [("omitempty", ""); ("gte", "0")], (KPtr KInt))])))]));
      ("Variable", [("required", "")], (KStruct "types.Variable" [("Name", [("required", ""); ("max", "50")], KString);
      ("Instance", [("omitempty", ""); ("max", "50")], KString)]));
      ("StatusInfo", [("omitempty", "")], (KPtr (KStruct "types.StatusInfo" [("ReasonCode", [("required", ""); ("max", "20")], KString);
      ("AdditionalInfo", [("omitempty", ""); ("max", "512")], KString)])))])))]).
Definition sschema_112 : kind := (KStruct "display.ClearDisplayRequest" [("ID", [], KInt)]).
Definition sschema_113 : kind := (KStruct "display.ClearDisplayResponse" [("Status", [("required", ""); ("clearMessageStatus", "")], KString);
      ("StatusInfo", [("omitempty", "")], (KPtr (KStruct "types.StatusInfo" [("ReasonCode", [("required", ""); ("max", "20")], KString);
      ("AdditionalInfo", [("omitempty", ""); ("max", "512")], KString)])))]).
Definition sschema_114 : kind := (KStruct "display.GetDisplayMessagesRequest" [("RequestID", [("gte", "0")], KInt);
      ("Priority", [("omitempty", ""); ("messagePriority", "")], KString);
      ("State", [("omitempty", ""); ("messageState", "")], KString);
      ("ID", [("omitempty", ""); ("dive", ""); ("gte", "0")], (KSlice KInt))]).
Definition sschema_115 : kind := (KStruct "display.GetDisplayMessagesResponse" [("Status", [("required", ""); ("messageStatus", "")], KString)]).
Definition sschema_116 : kind := (KStruct "display.NotifyDisplayMessagesRequest" [("RequestID", [("gte", "0")], KInt);
      ("Tbc", [("omitempty", "")], KBool);
      ("MessageInfo", [("omitempty", ""); ("dive", "")], (KSlice (KStruct "display.MessageInfo" [("ID", [("gte", "0")], KInt);
      ("Priority", [("required", ""); ("messagePriority", "")], KString);
      ("State", [("omitempty", ""); ("messageState", "")], KString);
      ("StartDateTime", [("omitempty", "")], (KPtr KTime));
      ("EndDateTime", [("omitempty", "")], (KPtr KTime));
      ("TransactionID", [("omitempty", ""); ("max", "36")], KString);
      ("Message", [("required", "")], (KStruct "types.MessageContent" [("Format", [("required", ""); ("messageFormat", "")], KString);
      ("Language", [("max", "8")], KString);
      ("Content", [("required", ""); ("max", "512")], KString)]));
      ("Display", [("omitempty", "")], (KPtr (KStruct "types.Component" [("Name", [("required", ""); ("max", "50")], KString);
      ("Instance", [("omitempty", ""); ("max", "50")], KString);
      ("EVSE", [("omitempty", "")], (KPtr (KStruct "types.EVSE" [("ID", [("gte", "0")], KInt);
      ("ConnectorID", [("omitempty", ""); ("gte", "0")], (KPtr KInt))])))])))])))]).
Definition sschema_117 : kind := (KStruct "display.NotifyDisplayMessagesResponse" []).
Definition sschema_118 : kind := (KStruct "display.SetDisplayMessageRequest" [("Message", [("required", "")], (KStruct "display.MessageInfo" [("ID", [("gte", "0")], KInt);
      ("Priority", [("required", ""); ("messagePriority", "")], KString);
      ("State", [("omitempty", ""); ("messageState", "")], KString);
      ("StartDateTime", [("omitempty", "")], (KPtr KTime));
      ("EndDateTime", [("omitempty", "")], (KPtr KTime));
      ("TransactionID", [("omitempty", ""); ("max", "36")], KString);
      ("Message", [("required", "")], (KStruct "types.MessageContent" [("Format", [("required", ""); ("messageFormat", "")], KString);
      ("Language", [("max", "8")], KString);
      ("Content", [("required", ""); ("max", "512")], KString)]));
      ("Display", [("omitempty", "")], (KPtr (KStruct "types.Component" [("Name", [("required", ""); ("max", "50")], KString);
      ("Instance", [("omitempty", ""); ("max", "50")], KString);
      ("EVSE", [("omitempty", "")], (KPtr (KStruct "types.EVSE" [("ID", [("gte", "0")], KInt);
      ("ConnectorID", [("omitempty", ""); ("gte", "0")], (KPtr KInt))])))])))]))]).
Definition sschema_119 : kind := (KStruct "display.SetDisplayMessageResponse" [("Status", [("required", ""); ("displayMessageStatus", "")], KString);
      ("StatusInfo", [("omitempty", "")], (KPtr (KStruct "types.StatusInfo" [("ReasonCode", [("required", ""); ("max", "20")], KString);
      ("AdditionalInfo", [("omitempty", ""); ("max", "512")], KString)])))]).
Definition sschema_120 : kind := (KStruct "firmware.FirmwareStatusNotificationRequest" [("Status", [("required", ""); ("firmwareStatus201", "")], KString);
      ("RequestID", [("omitempty", ""); ("gte", "0")], (KPtr KInt))]).
Definition sschema_121 : kind := (KStruct "firmware.FirmwareStatusNotificationResponse" []).
Definition sschema_122 : kind := (KStruct "firmware.PublishFirmwareRequest" [("Location", [("required", ""); ("max", "512")], KString);
      ("Retries", [("omitempty", ""); ("gte", "0")], (KPtr KInt));
      ("Checksum", [("required", ""); ("max", "32")], KString);
      ("RequestID", [("gte", "0")], KInt);
      ("RetryInterval", [("omitempty", ""); ("gte", "0")], (KPtr KInt))]).
Definition sschema_123 : kind := (KStruct "firmware.PublishFirmwareResponse" [("Status", [("required", ""); ("genericStatus", "")], KString);
      ("StatusInfo", [("omitempty", "")], (KPtr (KStruct "types.StatusInfo" [("ReasonCode", [("required", ""); ("max", "20")], KString);
      ("AdditionalInfo", [("omitempty", ""); ("max", "512")], KString)])))]).
Definition sschema_124 : kind := (KStruct "firmware.PublishFirmwareStatusNotificationRequest" [("Status", [("required", ""); ("publishFirmwareStatus", "")], KString);
      ("Location", [("omitempty", ""); ("dive", ""); ("max", "512")], (KSlice KString));
      ("RequestID", [("omitempty", ""); ("gte", "0")], (KPtr KInt))]).
Definition sschema_125 : kind := (KStruct "firmware.PublishFirmwareStatusNotificationResponse" []).
Definition sschema_126 : kind := (KStruct "firmware.UnpublishFirmwareRequest" [("Checksum", [("required", ""); ("max", "32")], KString)]).
Definition sschema_127 : kind := (KStruct "firmware.UnpublishFirmwareResponse" [("Status", [("required", ""); ("unpublishFirmwareStatus", "")], KString)]).
Definition sschema_128 : kind := (KStruct "firmware.UpdateFirmwareRequest" [("Retries", [("omitempty", ""); ("gte", "0")], (KPtr KInt));
      ("RetryInterval", [("omitempty", ""); ("gte", "0")], (KPtr KInt));
      ("RequestID", [("gte", "0")], KInt);
      ("Firmware", [("required", "")], (KStruct "firmware.Firmware" [("Location", [("required", ""); ("max", "512"); ("uri", "")], KString);
      ("RetrieveDateTime", [("required", "")], (KPtr KTime));
      ("InstallDateTime", [("omitempty", "")], (KPtr KTime));
      ("SigningCertificate", [("max", "5500")], KString);
      ("Signature", [("max", "800")], KString)]))]).
Definition sschema_129 : kind := (KStruct "firmware.UpdateFirmwareResponse" [("Status", [("required", ""); ("updateFirmwareStatus", "")], KString);
      ("StatusInfo", [("omitempty", "")], (KPtr (KStruct "types.StatusInfo" [("ReasonCode", [("required", ""); ("max", "20")], KString);
      ("AdditionalInfo", [("omitempty", ""); ("max", "512")], KString)])))]).
Definition sschema_130 : kind := (KStruct "iso15118.DeleteCertificateRequest" [("CertificateHashData", [("required", "")], (KStruct "types.CertificateHashData" [("HashAlgorithm", [("required", ""); ("hashAlgorithm", "")], KString);
      ("IssuerNameHash", [("required", ""); ("max", "128")], KString);
      ("IssuerKeyHash", [("required", ""); ("max", "128")], KString);
      ("SerialNumber", [("required", ""); ("max", "40")], KString)]))]).
Definition sschema_131 : kind := (KStruct "iso15118.DeleteCertificateResponse" [("Status", [("required", ""); ("deleteCertificateStatus", "")], KString);
      ("StatusInfo", [("omitempty", "")], (KPtr (KStruct "types.StatusInfo" [("ReasonCode", [("required", ""); ("max", "20")], KString);
      ("AdditionalInfo", [("omitempty", ""); ("max", "512")], KString)])))]).
Definition sschema_132 : kind := (KStruct "iso15118.Get15118EVCertificateRequest" [("SchemaVersion", [("required", ""); ("max", "50")], KString);
      ("Action", [("required", ""); ("certificateAction", "")], KString);
      ("ExiRequest", [("required", ""); ("max", "5600")], KString)]).
Definition sschema_133 : kind := (KStruct "iso15118.Get15118EVCertificateResponse" [("Status", [("required", ""); ("15118EVCertificate", "")], KString);
      ("ExiResponse", [("required", ""); ("max", "5600")], KString);
      ("StatusInfo", [("omitempty", "")], (KPtr (KStruct "types.StatusInfo" [("ReasonCode", [("required", ""); ("max", "20")], KString);
      ("AdditionalInfo", [("omitempty", ""); ("max", "512")], KString)])))]).
Definition sschema_134 : kind := (KStruct "iso15118.GetCertificateStatusRequest" [("OcspRequestData", [("required", "")], (KStruct "types.OCSPRequestDataType" [("HashAlgorithm", [("required", ""); ("hashAlgorithm", "")], KString);
      ("IssuerNameHash", [("required", ""); ("max", "128")], KString);
      ("IssuerKeyHash", [("required", ""); ("max", "128")], KString);
      ("SerialNumber", [("required", ""); ("max", "40")], KString);
      ("ResponderURL", [("max", "512")], KString)]))]).
Definition sschema_135 : kind := (KStruct "iso15118.GetCertificateStatusResponse" [("Status", [("required", ""); ("genericStatus", "")], KString);
      ("OcspResult", [("omitempty", ""); ("max", "5500")], KString);
      ("StatusInfo", [("omitempty", "")], (KPtr (KStruct "types.StatusInfo" [("ReasonCode", [("required", ""); ("max", "20")], KString);
      ("AdditionalInfo", [("omitempty", ""); ("max", "512")], KString)])))]).
Definition sschema_136 : kind := (KStruct "iso15118.GetInstalledCertificateIdsRequest" [("CertificateTypes", [("omitempty", ""); ("dive", ""); ("certificateUse", "")], (KSlice KString))]).
Definition sschema_137 : kind := (KStruct "iso15118.GetInstalledCertificateIdsResponse" [("Status", [("required", ""); ("getInstalledCertificateStatus", "")], KString);
      ("StatusInfo", [("omitempty", "")], (KPtr (KStruct "types.StatusInfo" [("ReasonCode", [("required", ""); ("max", "20")], KString);
      ("AdditionalInfo", [("omitempty", ""); ("max", "512")], KString)])));
      ("CertificateHashDataChain", [("omitempty", ""); ("dive", "")], (KSlice (KStruct "types.CertificateHashDataChain" [("CertificateType", [("required", ""); ("certificateUse", "")], KString);
      ("CertificateHashData", [("required", "")], (KStruct "types.CertificateHashData" [("HashAlgorithm", [("required", ""); ("hashAlgorithm", "")], KString);
      ("IssuerNameHash", [("required", ""); ("max", "128")], KString);
      ("IssuerKeyHash", [("required", ""); ("max", "128")], KString);
      ("SerialNumber", [("required", ""); ("max", "40")], KString)]));
      ("ChildCertificateHashData", [("omitempty", ""); ("dive", "")], (KSlice (KStruct "types.CertificateHashData" [("HashAlgorithm", [("required", ""); ("hashAlgorithm", "")], KString);
      ("IssuerNameHash", [("required", ""); ("max", "128")], KString);
      ("IssuerKeyHash", [("required", ""); ("max", "128")], KString);
      ("SerialNumber", [("required", ""); ("max", "40")], KString)])))])))]).
Definition sschema_138 : kind := (KStruct "iso15118.InstallCertificateRequest" [("CertificateType", [("required", ""); ("certificateUse", "")], KString);
      ("Certificate", [("required", ""); ("max", "5500")], KString)]).
Definition sschema_139 : kind := (KStruct "iso15118.InstallCertificateResponse" [("Status", [("required", ""); ("installCertificateStatus", "")], KString);
      ("StatusInfo", [("omitempty", "")], (KPtr (KStruct "types.StatusInfo" [("ReasonCode", [("required", ""); ("max", "20")], KString);
      ("AdditionalInfo", [("omitempty", ""); ("max", "512")], KString)])))]).
Definition sschema_140 : kind := (KStruct "localauth.GetLocalListVersionRequest" []).
Definition sschema_141 : kind := (KStruct "localauth.GetLocalListVersionResponse" [("VersionNumber", [("gte", "0")], KInt)]).
Definition sschema_142 : kind := (KStruct "localauth.SendLocalListRequest" [("VersionNumber", [("gte", "0")], KInt);
      ("UpdateType", [("required", ""); ("updateType201", "")], KString);
      ("LocalAuthorizationList", [("omitempty", ""); ("dive", "")], (KSlice (KStruct "localauth.AuthorizationData" [("IdTokenInfo", [("omitempty", "")], (KPtr (KStruct "types.IdTokenInfo" [("Status", [("required", ""); ("authorizationStatus201", "")], KString);
      ("CacheExpiryDateTime", [("omitempty", "")], (KPtr KTime));
      ("ChargingPriority", [("min", "-9"); ("max", "9")], KInt);
      ("Language1", [("max", "8")], KString);
      ("Language2", [("max", "8")], KString);
      ("GroupIdToken", [], (KPtr (KStruct "types.GroupIdToken" [("IdToken", [("max", "36")], KString);
      ("Type", [("required", ""); ("idTokenType", "")], KString)])));
      ("PersonalMessage", [], (KPtr (KStruct "types.MessageContent" [("Format", [("required", ""); ("messageFormat", "")], KString);
      ("Language", [("max", "8")], KString);
      ("Content", [("required", ""); ("max", "512")], KString)])))])));
      ("IdToken", [], (KStruct "types.IdToken" [("IdToken", [("max", "36")], KString);
      ("Type", [("required", ""); ("idTokenType", "")], KString);
      ("AdditionalInfo", [("omitempty", ""); ("dive", "")], (KSlice (KStruct "types.AdditionalInfo" [("AdditionalIdToken", [("required", ""); ("max", "36")], KString);
      ("Type", [("required", ""); ("max", "50")], KString)])))]))])))]).
Definition sschema_143 : kind := (KStruct "localauth.SendLocalListResponse" [("Status", [("required", ""); ("sendLocalListStatus", "")], KString);
      ("StatusInfo", [("omitempty", "")], (KPtr (KStruct "types.StatusInfo" [("ReasonCode", [("required", ""); ("max", "20")], KString);
      ("AdditionalInfo", [("omitempty", ""); ("max", "512")], KString)])))]).
Definition sschema_144 : kind := (KStruct "meter.MeterValuesRequest" [("EvseID", [("gte", "0")], KInt);
      ("MeterValue", [("required", ""); ("min", "1"); ("dive", "")], (KSlice (KStruct "types.MeterValue" [("Timestamp", [("required", "")], KTime);
      ("SampledValue", [("required", ""); ("min", "1"); ("dive", "")], (KSlice (KStruct "types.SampledValue" [("Value", [], KFloat);
      ("Context", [("omitempty", ""); ("readingContext201", "")], KString);
      ("Measurand", [("omitempty", ""); ("measurand201", "")], KString);
      ("Phase", [("omitempty", ""); ("phase201", "")], KString);
      ("Location", [("omitempty", ""); ("location201", "")], KString);
      ("SignedMeterValue", [("omitempty", "")], (KPtr (KStruct "types.SignedMeterValue" [("SignedMeterData", [("required", ""); ("max", "2500")], KString);
      ("SigningMethod", [("required", ""); ("max", "50")], KString);
      ("EncodingMethod", [("required", ""); ("max", "50")], KString);
      ("PublicKey", [("required", ""); ("max", "2500")], KString)])));
      ("UnitOfMeasure", [("omitempty", "")], (KPtr (KStruct "types.UnitOfMeasure" [("Unit", [("omitempty", ""); ("max", "20")], KString);
      ("Multiplier", [("omitempty", ""); ("gte", "0")], (KPtr KInt))])))])))])))]).
Definition sschema_145 : kind := (KStruct "meter.MeterValuesResponse" []).
Definition sschema_146 : kind := (KStruct "provisioning.BootNotificationRequest" [("Reason", [("required", ""); ("bootReason", "")], KString);
      ("ChargingStation", [("required", ""); ("dive", "")], (KStruct "provisioning.ChargingStationType" [("SerialNumber", [("max", "25")], KString);
      ("Model", [("required", ""); ("max", "20")], KString);
      ("VendorName", [("required", ""); ("max", "50")], KString);
      ("FirmwareVersion", [("max", "50")], KString);
      ("Modem", [], (KPtr (KStruct "provisioning.ModemType" [("Iccid", [("max", "20")], KString);
      ("Imsi", [("max", "20")], KString)])))]))]).
Definition sschema_147 : kind := (KStruct "provisioning.BootNotificationResponse" [("CurrentTime", [("required", "")], (KPtr KTime));
      ("Interval", [("gte", "0")], KInt);
      ("Status", [("required", ""); ("registrationStatus201", "")], KString);
      ("StatusInfo", [("omitempty", "")], (KPtr (KStruct "types.StatusInfo" [("ReasonCode", [("required", ""); ("max", "20")], KString);
      ("AdditionalInfo", [("omitempty", ""); ("max", "512")], KString)])))]).
Definition sschema_148 : kind := (KStruct "provisioning.GetBaseReportRequest" [("RequestID", [], KInt);
      ("ReportBase", [("required", ""); ("reportBaseType", "")], KString)]).
Definition sschema_149 : kind := (KStruct "provisioning.GetBaseReportResponse" [("Status", [("required", ""); ("genericDeviceModelStatus", "")], KString);
      ("StatusInfo", [("omitempty", "")], (KPtr (KStruct "types.StatusInfo" [("ReasonCode", [("required", ""); ("max", "20")], KString);
      ("AdditionalInfo", [("omitempty", ""); ("max", "512")], KString)])))]).
Definition sschema_150 : kind := (KStruct "provisioning.GetReportRequest" [("RequestID", [("omitempty", ""); ("gte", "0")], (KPtr KInt));
      ("ComponentCriteria", [("omitempty", ""); ("max", "4"); ("dive", ""); ("componentCriterion", "")], (KSlice KString));
      ("ComponentVariable", [("omitempty", ""); ("dive", "")], (KSlice (KStruct "types.ComponentVariable" [("Component", [("required", "")], (KStruct "types.Component" [("Name", [("required", ""); ("max", "50")], KString);
      ("Instance", [("omitempty", ""); ("max", "50")], KString);
      ("EVSE", [("omitempty", "")], (KPtr (KStruct "types.EVSE" [("ID", [("gte", "0")], KInt);
      ("ConnectorID", [("omitempty", ""); ("gte", "0")], (KPtr KInt))])))]));
      ("Variable", [("required", "")], (KStruct "types.Variable" [("Name", [("required", ""); ("max", "50")], KString);
      ("Instance", [("omitempty", ""); ("max", "50")], KString)]))])))]).
Definition sschema_151 : kind := (KStruct "provisioning.GetReportResponse" [("Status", [("required", ""); ("genericDeviceModelStatus", "")], KString)]).
Definition sschema_152 : kind := (KStruct "provisioning.GetVariablesRequest" [("GetVariableData", [("required", ""); ("min", "1"); ("dive", "")], (KSlice (KStruct "provisioning.GetVariableData" [("AttributeType", [("omitempty", ""); ("attribute", "")], KString);
      ("Component", [("required", "")], (KStruct "types.Component" [("Name", [("required", ""); ("max", "50")], KString);
      ("Instance", [("omitempty", ""); ("max", "50")], KString);
      ("EVSE", [("omitempty", "")], (KPtr (KStruct "types.EVSE" [("ID", [("gte", "0")], KInt);
      ("ConnectorID", [("omitempty", ""); ("gte", "0")], (KPtr KInt))])))]));
      ("Variable", [("required", "")], (KStruct "types.Variable" [("Name", [("required", ""); ("max", "50")], KString);
      ("Instance", [("omitempty", ""); ("max", "50")], KString)]))])))]).
Definition sschema_153 : kind := (KStruct "provisioning.GetVariablesResponse" [("GetVariableResult", [("required", ""); ("min", "1"); ("dive", "")], (KSlice (KStruct "provisioning.GetVariableResult" [("AttributeStatus", [("required", ""); ("getVariableStatus", "")], KString);
      ("AttributeType", [("omitempty", ""); ("attribute", "")], KString);
      ("AttributeValue", [("omitempty", ""); ("max", "1000")], KString);
      ("Component", [("required", "")], (KStruct "types.Component" [("Name", [("required", ""); ("max", "50")], KString);
      ("Instance", [("omitempty", ""); ("max", "50")], KString);
      ("EVSE", [("omitempty", "")], (KPtr (KStruct "types.EVSE" [("ID", [("gte", "0")], KInt);
      ("ConnectorID", [("omitempty", ""); ("gte", "0")], (KPtr KInt))])))]));
      ("Variable", [("required", "")], (KStruct "types.Variable" [("Name", [("required", ""); ("max", "50")], KString);
      ("Instance", [("omitempty", ""); ("max", "50")], KString)]))])))]).
Definition sschema_154 : kind := (KStruct "provisioning.NotifyReportRequest" [("RequestID", [("gte", "0")], KInt);
      ("GeneratedAt", [("required", "")], (KPtr KTime));
      ("Tbc", [("omitempty", "")], KBool);
      ("SeqNo", [("gte", "0")], KInt);
      ("ReportData", [("omitempty", ""); ("dive", "")], (KSlice (KStruct "provisioning.ReportData" [("Component", [("required", "")], (KStruct "types.Component" [("Name", [("required", ""); ("max", "50")], KString);
      ("Instance", [("omitempty", ""); ("max", "50")], KString);
      ("EVSE", [("omitempty", "")], (KPtr (KStruct "types.EVSE" [("ID", [("gte", "0")], KInt);
      ("ConnectorID", [("omitempty", ""); ("gte", "0")], (KPtr KInt))])))]));
      ("Variable", [("required", "")], (KStruct "types.Variable" [("Name", [("required", ""); ("max", "50")], KString);
      ("Instance", [("omitempty", ""); ("max", "50")], KString)]));
      ("VariableAttribute", [("required", ""); ("min", "1"); ("max", "4"); ("dive", "")], (KSlice (KStruct "provisioning.VariableAttribute" [("Type", [("omitempty", ""); ("attribute", "")], KString);
      ("Value", [("max", "2500")], KString);
      ("Mutability", [("omitempty", ""); ("mutability", "")], KString);
      ("Persistent", [], KBool);
      ("Constant", [], KBool)])));
      ("VariableCharacteristics", [("omitempty", "")], (KPtr (KStruct "provisioning.VariableCharacteristics" [("Unit", [("max", "16")], KString);
      ("DataType", [("required", ""); ("dataTypeEnum", "")], KString);
      ("MinLimit", [], (KPtr KFloat));
      ("MaxLimit", [], (KPtr KFloat));
      ("ValuesList", [("max", "1000")], KString);
      ("SupportsMonitoring", [], KBool)])))])))]).
Definition sschema_155 : kind := (KStruct "provisioning.NotifyReportResponse" []).
Definition sschema_156 : kind := (KStruct "provisioning.ResetRequest" [("Type", [("resetType201", "")], KString);
      ("EvseID", [("omitempty", ""); ("gte", "0")], (KPtr KInt))]).
Definition sschema_157 : kind := (KStruct "provisioning.ResetResponse" [("Status", [("required", ""); ("resetStatus201", "")], KString);
      ("StatusInfo", [("omitempty", "")], (KPtr (KStruct "types.StatusInfo" [("ReasonCode", [("required", ""); ("max", "20")], KString);
      ("AdditionalInfo", [("omitempty", ""); ("max", "512")], KString)])))]).
Definition sschema_158 : kind := (KStruct "provisioning.SetNetworkProfileRequest" [("ConfigurationSlot", [("gte", "0")], KInt);
      ("ConnectionData", [("required", "")], (KStruct "provisioning.NetworkConnectionProfile" [("OCPPVersion", [("required", ""); ("ocppVersion", "")], KString);
      ("OCPPTransport", [("required", ""); ("ocppTransport", "")], KString);
      ("CSMSUrl", [("required", ""); ("max", "512")], KString);
      ("MessageTimeout", [("gte", "-1")], KInt);
      ("SecurityProfile", [], KInt);
      ("OCPPInterface", [("required", ""); ("ocppInterface", "")], KString);
      ("VPN", [("omitempty", "")], (KPtr (KStruct "provisioning.VPN" [("Server", [("required", ""); ("max", "512")], KString);
      ("User", [("required", ""); ("max", "20")], KString);
      ("Group", [("omitempty", ""); ("max", "20")], KString);
      ("Password", [("required", ""); ("max", "20")], KString);
      ("Key", [("required", ""); ("max", "255")], KString);
      ("Type", [("required", ""); ("vpnType", "")], KString)])));
      ("APN", [("omitempty", "")], (KPtr (KStruct "provisioning.APN" [("APN", [("required", ""); ("max", "512")], KString);
      ("APNUsername", [("omitempty", ""); ("max", "20")], KString);
      ("APNPassword", [("omitempty", ""); ("max", "20")], KString);
      ("SimPin", [("omitempty", ""); ("gte", "0")], (KPtr KInt));
      ("PreferredNetwork", [("omitempty", ""); ("max", "6")], KString);
      ("UseOnlyPreferredNetwork", [], KBool);
      ("APNAuthentication", [("required", ""); ("apnAuthentication", "")], KString)])))]))]).
Definition sschema_159 : kind := (KStruct "provisioning.SetNetworkProfileResponse" [("Status", [("required", ""); ("setNetworkProfileStatus", "")], KString);
      ("StatusInfo", [("omitempty", "")], (KPtr (KStruct "types.StatusInfo" [("ReasonCode", [("required", ""); ("max", "20")], KString);
      ("AdditionalInfo", [("omitempty", ""); ("max", "512")], KString)])))]).
Definition sschema_160 : kind := (KStruct "provisioning.SetVariablesRequest" [("SetVariableData", [("required", ""); ("min", "1"); ("dive", "")], (KSlice (KStruct "provisioning.SetVariableData" [("AttributeType", [("omitempty", ""); ("attribute", "")], KString);
      ("AttributeValue", [("required", ""); ("max", "1000")], KString);
      ("Component", [("required", "")], (KStruct "types.Component" [("Name", [("required", ""); ("max", "50")], KString);
      ("Instance", [("omitempty", ""); ("max", "50")], KString);
      ("EVSE", [("omitempty", "")], (KPtr (KStruct "types.EVSE" [("ID", [("gte", "0")], KInt);
      ("ConnectorID", [("omitempty", ""); ("gte", "0")], (KPtr KInt))])))]));
      ("Variable", [("required", "")], (KStruct "types.Variable" [("Name", [("required", ""); ("max", "50")], KString);
      ("Instance", [("omitempty", ""); ("max", "50")], KString)]))])))]).
Definition sschema_161 : kind := (KStruct "provisioning.SetVariablesResponse" [("SetVariableResult", [("required", ""); ("min", "1"); ("dive", "")], (KSlice (KStruct "provisioning.SetVariableResult" [("AttributeType", [("omitempty", ""); ("attribute", "")], KString);
      ("AttributeStatus", [("required", ""); ("setVariableStatus", "")], KString);
      ("Component", [("required", "")], (KStruct "types.Component" [("Name", [("required", ""); ("max", "50")], KString);
      ("Instance", [("omitempty", ""); ("max", "50")], KString);
      ("EVSE", [("omitempty", "")], (KPtr (KStruct "types.EVSE" [("ID", [("gte", "0")], KInt);
      ("ConnectorID", [("omitempty", ""); ("gte", "0")], (KPtr KInt))])))]));
      ("Variable", [("required", "")], (KStruct "types.Variable" [("Name", [("required", ""); ("max", "50")], KString);
      ("Instance", [("omitempty", ""); ("max", "50")], KString)]));
      ("StatusInfo", [("omitempty", "")], (KPtr (KStruct "types.StatusInfo" [("ReasonCode", [("required", ""); ("max", "20")], KString);
      ("AdditionalInfo", [("omitempty", ""); ("max", "512")], KString)])))])))]).
Definition sschema_162 : kind := (KStruct "remotecontrol.RequestStartTransactionRequest" [("EvseID", [("omitempty", ""); ("gt", "0")], (KPtr KInt));
      ("RemoteStartID", [("gte", "0")], KInt);
      ("IDToken", [], (KStruct "types.IdToken" [("IdToken", [("max", "36")], KString);
      ("Type", [("required", ""); ("idTokenType", "")], KString);
      ("AdditionalInfo", [("omitempty", ""); ("dive", "")], (KSlice (KStruct "types.AdditionalInfo" [("AdditionalIdToken", [("required", ""); ("max", "36")], KString);
      ("Type", [("required", ""); ("max", "50")], KString)])))]));
      ("ChargingProfile", [], (KPtr (KStruct "types.ChargingProfile" [("ID", [("gte", "0")], KInt);
      ("StackLevel", [("gte", "0")], KInt);
      ("ChargingProfilePurpose", [("required", ""); ("chargingProfilePurpose201", "")], KString);
      ("ChargingProfileKind", [("required", ""); ("chargingProfileKind201", "")], KString);
      ("RecurrencyKind", [("omitempty", ""); ("recurrencyKind201", "")], KString);
      ("ValidFrom", [], (KPtr KTime));
      ("ValidTo", [], (KPtr KTime));
      ("TransactionID", [("omitempty", ""); ("max", "36")], KString);
      ("ChargingSchedule", [("required", ""); ("min", "1"); ("max", "3"); ("dive", "")], (KSlice (KStruct "types.ChargingSchedule" [("ID", [("gte", "0")], KInt);
      ("StartSchedule", [("omitempty", "")], (KPtr KTime));
      ("Duration", [("omitempty", ""); ("gte", "0")], (KPtr KInt));
      ("ChargingRateUnit", [("required", ""); ("chargingRateUnit201", "")], KString);
      ("MinChargingRate", [("omitempty", ""); ("gte", "0")], (KPtr KFloat));
      ("ChargingSchedulePeriod", [("required", ""); ("min", "1"); ("max", "1024"); ("dive", "")], (KSlice (KStruct "types.ChargingSchedulePeriod" [("StartPeriod", [("gte", "0")], KInt);
      ("Limit", [("gte", "0")], KFloat);
      ("NumberPhases", [("omitempty", ""); ("gte", "0")], (KPtr KInt))])));
      ("SalesTariff", [("omitempty", "")], (KPtr (KStruct "types.SalesTariff" [("ID", [], KInt);
      ("SalesTariffDescription", [("omitempty", ""); ("max", "32")], KString);
      ("NumEPriceLevels", [("omitempty", "")], (KPtr KInt));
      ("SalesTariffEntry", [("required", ""); ("min", "1"); ("max", "1024"); ("dive", "")], (KSlice (KStruct "types.SalesTariffEntry" [("EPriceLevel", [("omitempty", ""); ("gte", "0")], (KPtr KInt));
      ("RelativeTimeInterval", [("required", "")], (KStruct "types.RelativeTimeInterval" [("Start", [], KInt);
      ("Duration", [("omitempty", ""); ("gte", "0")], (KPtr KInt))]));
      ("ConsumptionCost", [("omitempty", ""); ("max", "3"); ("dive", "")], (KSlice (KStruct "types.ConsumptionCost" [("StartValue", [], KFloat);
      ("Cost", [("required", ""); ("max", "3"); ("dive", "")], (KSlice (KStruct "types.CostType" [("CostKind", [("required", ""); ("costKind", "")], KString);
      ("Amount", [("gte", "0")], KInt);
      ("AmountMultiplier", [("omitempty", ""); ("min", "-3"); ("max", "3")], (KPtr KInt))])))])))])))])))])))])));
      ("GroupIdToken", [("omitempty", ""); ("dive", "")], (KPtr (KStruct "types.IdToken" [("IdToken", [("max", "36")], KString);
      ("Type", [("required", ""); ("idTokenType", "")], KString);
      ("AdditionalInfo", [("omitempty", ""); ("dive", "")], (KSlice (KStruct "types.AdditionalInfo" [("AdditionalIdToken", [("required", ""); ("max", "36")], KString);
      ("Type", [("required", ""); ("max", "50")], KString)])))])))]).
Definition sschema_163 : kind := (KStruct "remotecontrol.RequestStartTransactionResponse" [("Status", [("required", ""); ("requestStartStopStatus", "")], KString);
      ("TransactionID", [("max", "36")], KString);
      ("StatusInfo", [], (KPtr (KStruct "types.StatusInfo" [("ReasonCode", [("required", ""); ("max", "20")], KString);
      ("AdditionalInfo", [("omitempty", ""); ("max", "512")], KString)])))]).
Definition sschema_164 : kind := (KStruct "remotecontrol.RequestStopTransactionRequest" [("TransactionID", [("required", ""); ("max", "36")], KString)]).
Definition sschema_165 : kind := (KStruct "remotecontrol.RequestStopTransactionResponse" [("Status", [("required", ""); ("requestStartStopStatus", "")], KString);
      ("StatusInfo", [], (KPtr (KStruct "types.StatusInfo" [("ReasonCode", [("required", ""); ("max", "20")], KString);
      ("AdditionalInfo", [("omitempty", ""); ("max", "512")], KString)])))]).
Definition sschema_166 : kind := (KStruct "remotecontrol.TriggerMessageRequest" [("RequestedMessage", [("required", ""); ("messageTrigger201", "")], KString);
      ("Evse", [("omitempty", "")], (KPtr (KStruct "types.EVSE" [("ID", [("gte", "0")], KInt);
      ("ConnectorID", [("omitempty", ""); ("gte", "0")], (KPtr KInt))])))]).
Definition sschema_167 : kind := (KStruct "remotecontrol.TriggerMessageResponse" [("Status", [("required", ""); ("triggerMessageStatus201", "")], KString);
      ("StatusInfo", [], (KPtr (KStruct "types.StatusInfo" [("ReasonCode", [("required", ""); ("max", "20")], KString);
      ("AdditionalInfo", [("omitempty", ""); ("max", "512")], KString)])))]).
Definition sschema_168 : kind := (KStruct "remotecontrol.UnlockConnectorRequest" [("EvseID", [("gte", "0")], KInt);
      ("ConnectorID", [("gte", "0")], KInt)]).
Definition sschema_169 : kind := (KStruct "remotecontrol.UnlockConnectorResponse" [("Status", [("required", ""); ("unlockStatus201", "")], KString);
      ("StatusInfo", [], (KPtr (KStruct "types.StatusInfo" [("ReasonCode", [("required", ""); ("max", "20")], KString);
      ("AdditionalInfo", [("omitempty", ""); ("max", "512")], KString)])))]).
Definition sschema_170 : kind := (KStruct "reservation.CancelReservationRequest" [("ReservationID", [("gte", "0")], KInt)]).
Definition sschema_171 : kind := (KStruct "reservation.CancelReservationResponse" [("Status", [("required", ""); ("cancelReservationStatus201", "")], KString);
      ("StatusInfo", [("omitempty", "")], (KPtr (KStruct "types.StatusInfo" [("ReasonCode", [("required", ""); ("max", "20")], KString);
      ("AdditionalInfo", [("omitempty", ""); ("max", "512")], KString)])))]).
Definition sschema_172 : kind := (KStruct "reservation.ReservationStatusUpdateRequest" [("ReservationID", [("gte", "0")], KInt);
      ("Status", [("required", ""); ("reservationUpdateStatus", "")], KString)]).
Definition sschema_173 : kind := (KStruct "reservation.ReservationStatusUpdateResponse" []).
Definition sschema_174 : kind := (KStruct "reservation.ReserveNowRequest" [("ID", [("gte", "0")], KInt);
      ("ExpiryDateTime", [("required", "")], (KPtr KTime));
      ("ConnectorType", [("omitempty", ""); ("connectorType", "")], KString);
      ("EvseID", [("omitempty", ""); ("gte", "0")], (KPtr KInt));
      ("IdToken", [("required", ""); ("dive", "")], (KStruct "types.IdToken" [("IdToken", [("max", "36")], KString);
      ("Type", [("required", ""); ("idTokenType", "")], KString);
      ("AdditionalInfo", [("omitempty", ""); ("dive", "")], (KSlice (KStruct "types.AdditionalInfo" [("AdditionalIdToken", [("required", ""); ("max", "36")], KString);
      ("Type", [("required", ""); ("max", "50")], KString)])))]));
      ("GroupIdToken", [("omitempty", ""); ("dive", "")], (KPtr (KStruct "types.IdToken" [("IdToken", [("max", "36")], KString);
      ("Type", [("required", ""); ("idTokenType", "")], KString);
      ("AdditionalInfo", [("omitempty", ""); ("dive", "")], (KSlice (KStruct "types.AdditionalInfo" [("AdditionalIdToken", [("required", ""); ("max", "36")], KString);
      ("Type", [("required", ""); ("max", "50")], KString)])))])))]).
Definition sschema_175 : kind := (KStruct "reservation.ReserveNowResponse" [("Status", [("required", ""); ("reserveNowStatus", "")], KString);
      ("StatusInfo", [("omitempty", "")], (KPtr (KStruct "types.StatusInfo" [("ReasonCode", [("required", ""); ("max", "20")], KString);
      ("AdditionalInfo", [("omitempty", ""); ("max", "512")], KString)])))]).
Definition sschema_176 : kind := (KStruct "security.CertificateSignedRequest" [("CertificateChain", [("required", ""); ("max", "10000")], KString);
      ("TypeOfCertificate", [("omitempty", ""); ("certificateSigningUse", "")], KString)]).
Definition sschema_177 : kind := (KStruct "security.CertificateSignedResponse" [("Status", [("required", ""); ("certificateSignedStatus", "")], KString);
      ("StatusInfo", [("omitempty", "")], (KPtr (KStruct "types.StatusInfo" [("ReasonCode", [("required", ""); ("max", "20")], KString);
      ("AdditionalInfo", [("omitempty", ""); ("max", "512")], KString)])))]).
Definition sschema_178 : kind := (KStruct "security.SecurityEventNotificationRequest" [("Type", [("required", ""); ("max", "50")], KString);
      ("Timestamp", [("required", "")], (KPtr KTime));
      ("TechInfo", [("omitempty", ""); ("max", "255")], KString)]).
Definition sschema_179 : kind := (KStruct "security.SecurityEventNotificationResponse" []).
Definition sschema_180 : kind := (KStruct "security.SignCertificateRequest" [("CSR", [("required", ""); ("max", "5500")], KString);
      ("CertificateType", [("omitempty", ""); ("certificateSigningUse", "")], KString)]).
Definition sschema_181 : kind := (KStruct "security.SignCertificateResponse" [("Status", [("required", ""); ("genericStatus", "")], KString);
      ("StatusInfo", [("omitempty", "")], (KPtr (KStruct "types.StatusInfo" [("ReasonCode", [("required", ""); ("max", "20")], KString);
      ("AdditionalInfo", [("omitempty", ""); ("max", "512")], KString)])))]).
Definition sschema_182 : kind := (KStruct "smartcharging.ClearChargingProfileRequest" [("ChargingProfileID", [("omitempty", "")], (KPtr KInt));
      ("ChargingProfileCriteria", [("omitempty", "")], (KPtr (KStruct "smartcharging.ClearChargingProfileType" [("EvseID", [("omitempty", ""); ("gte", "0")], (KPtr KInt));
      ("ChargingProfilePurpose", [("omitempty", ""); ("chargingProfilePurpose201", "")], KString);
      ("StackLevel", [("omitempty", ""); ("gt", "0")], (KPtr KInt))])))]).
Definition sschema_183 : kind := (KStruct "smartcharging.ClearChargingProfileResponse" [("Status", [("required", ""); ("clearChargingProfileStatus201", "")], KString);
      ("StatusInfo", [("omitempty", "")], (KPtr (KStruct "types.StatusInfo" [("ReasonCode", [("required", ""); ("max", "20")], KString);
      ("AdditionalInfo", [("omitempty", ""); ("max", "512")], KString)])))]).
Definition sschema_184 : kind := (KStruct "smartcharging.ClearedChargingLimitRequest" [("ChargingLimitSource", [("required", ""); ("chargingLimitSource", "")], KString);
      ("EvseID", [("omitempty", ""); ("gte", "0")], (KPtr KInt))]).
Definition sschema_185 : kind := (KStruct "smartcharging.ClearedChargingLimitResponse" []).
Definition sschema_186 : kind := (KStruct "smartcharging.GetChargingProfilesRequest" [("RequestID", [], KInt);
      ("EvseID", [("omitempty", ""); ("gte", "0")], (KPtr KInt));
      ("ChargingProfile", [("required", "")], (KStruct "smartcharging.ChargingProfileCriterion" [("ChargingProfilePurpose", [("omitempty", ""); ("chargingProfilePurpose201", "")], KString);
      ("StackLevel", [("omitempty", ""); ("gte", "0")], (KPtr KInt));
      ("ChargingProfileID", [("omitempty", "")], (KSlice KInt));
      ("ChargingLimitSource", [("omitempty", ""); ("max", "4"); ("dive", ""); ("chargingLimitSource", "")], (KSlice KString))]))]).
Definition sschema_187 : kind := (KStruct "smartcharging.GetChargingProfilesResponse" [("Status", [("required", ""); ("getChargingProfileStatus", "")], KString);
      ("StatusInfo", [("omitempty", "")], (KPtr (KStruct "types.StatusInfo" [("ReasonCode", [("required", ""); ("max", "20")], KString);
      ("AdditionalInfo", [("omitempty", ""); ("max", "512")], KString)])))]).
Definition sschema_188 : kind := (KStruct "smartcharging.GetCompositeScheduleRequest" [("Duration", [("gte", "0")], KInt);
      ("ChargingRateUnit", [("omitempty", ""); ("chargingRateUnit201", "")], KString);
      ("EvseID", [("gte", "0")], KInt)]).
Definition sschema_189 : kind := (KStruct "smartcharging.GetCompositeScheduleResponse" [("Status", [("required", ""); ("getCompositeScheduleStatus", "")], KString);
      ("StatusInfo", [("omitempty", "")], (KPtr (KStruct "types.StatusInfo" [("ReasonCode", [("required", ""); ("max", "20")], KString);
      ("AdditionalInfo", [("omitempty", ""); ("max", "512")], KString)])));
      ("Schedule", [("omitempty", "")], (KPtr (KStruct "smartcharging.CompositeSchedule" [("StartDateTime", [("omitempty", "")], (KPtr KTime));
      ("ChargingSchedule", [("omitempty", "")], (KPtr (KStruct "types.ChargingSchedule" [("ID", [("gte", "0")], KInt);
      ("StartSchedule", [("omitempty", "")], (KPtr KTime));
      ("Duration", [("omitempty", ""); ("gte", "0")], (KPtr KInt));
      ("ChargingRateUnit", [("required", ""); ("chargingRateUnit201", "")], KString);
      ("MinChargingRate", [("omitempty", ""); ("gte", "0")], (KPtr KFloat));
      ("ChargingSchedulePeriod", [("required", ""); ("min", "1"); ("max", "1024"); ("dive", "")], (KSlice (KStruct "types.ChargingSchedulePeriod" [("StartPeriod", [("gte", "0")], KInt);
      ("Limit", [("gte", "0")], KFloat);
      ("NumberPhases", [("omitempty", ""); ("gte", "0")], (KPtr KInt))])));
      ("SalesTariff", [("omitempty", "")], (KPtr (KStruct "types.SalesTariff" [("ID", [], KInt);
      ("SalesTariffDescription", [("omitempty", ""); ("max", "32")], KString);
      ("NumEPriceLevels", [("omitempty", "")], (KPtr KInt));
      ("SalesTariffEntry", [("required", ""); ("min", "1"); ("max", "1024"); ("dive", "")], (KSlice (KStruct "types.SalesTariffEntry" [("EPriceLevel", [("omitempty", ""); ("gte", "0")], (KPtr KInt));
      ("RelativeTimeInterval", [("required", "")], (KStruct "types.RelativeTimeInterval" [("Start", [], KInt);
      ("Duration", [("omitempty", ""); ("gte", "0")], (KPtr KInt))]));
      ("ConsumptionCost", [("omitempty", ""); ("max", "3"); ("dive", "")], (KSlice (KStruct "types.ConsumptionCost" [("StartValue", [], KFloat);
      ("Cost", [("required", ""); ("max", "3"); ("dive", "")], (KSlice (KStruct "types.CostType" [("CostKind", [("required", ""); ("costKind", "")], KString);
      ("Amount", [("gte", "0")], KInt);
      ("AmountMultiplier", [("omitempty", ""); ("min", "-3"); ("max", "3")], (KPtr KInt))])))])))])))])))])))])))]).
Definition sschema_190 : kind := (KStruct "smartcharging.NotifyChargingLimitRequest" [("EvseID", [("omitempty", ""); ("gte", "0")], (KPtr KInt));
      ("ChargingLimit", [("required", "")], (KStruct "smartcharging.ChargingLimit" [("ChargingLimitSource", [("required", ""); ("chargingLimitSource", "")], KString);
      ("IsGridCritical", [("omitempty", "")], (KPtr KBool))]));
      ("ChargingSchedule", [("omitempty", ""); ("dive", "")], (KSlice (KStruct "types.ChargingSchedule" [("ID", [("gte", "0")], KInt);
      ("StartSchedule", [("omitempty", "")], (KPtr KTime));
      ("Duration", [("omitempty", ""); ("gte", "0")], (KPtr KInt));
      ("ChargingRateUnit", [("required", ""); ("chargingRateUnit201", "")], KString);
      ("MinChargingRate", [("omitempty", ""); ("gte", "0")], (KPtr KFloat));
      ("ChargingSchedulePeriod", [("required", ""); ("min", "1"); ("max", "1024"); ("dive", "")], (KSlice (KStruct "types.ChargingSchedulePeriod" [("StartPeriod", [("gte", "0")], KInt);
      ("Limit", [("gte", "0")], KFloat);
      ("NumberPhases", [("omitempty", ""); ("gte", "0")], (KPtr KInt))])));
      ("SalesTariff", [("omitempty", "")], (KPtr (KStruct "types.SalesTariff" [("ID", [], KInt);
      ("SalesTariffDescription", [("omitempty", ""); ("max", "32")], KString);
      ("NumEPriceLevels", [("omitempty", "")], (KPtr KInt));
      ("SalesTariffEntry", [("required", ""); ("min", "1"); ("max", "1024"); ("dive", "")], (KSlice (KStruct "types.SalesTariffEntry" [("EPriceLevel", [("omitempty", ""); ("gte", "0")], (KPtr KInt));
      ("RelativeTimeInterval", [("required", "")], (KStruct "types.RelativeTimeInterval" [("Start", [], KInt);
      ("Duration", [("omitempty", ""); ("gte", "0")], (KPtr KInt))]));
      ("ConsumptionCost", [("omitempty", ""); ("max", "3"); ("dive", "")], (KSlice (KStruct "types.ConsumptionCost" [("StartValue", [], KFloat);
      ("Cost", [("required", ""); ("max", "3"); ("dive", "")], (KSlice (KStruct "types.CostType" [("CostKind", [("required", ""); ("costKind", "")], KString);
      ("Amount", [("gte", "0")], KInt);
      ("AmountMultiplier", [("omitempty", ""); ("min", "-3"); ("max", "3")], (KPtr KInt))])))])))])))])))])))]).
Definition sschema_191 : kind := (KStruct "smartcharging.NotifyChargingLimitResponse" []).
Definition sschema_192 : kind := (KStruct "smartcharging.NotifyEVChargingNeedsRequest" [("MaxScheduleTuples", [("omitempty", ""); ("gte", "0")], (KPtr KInt));
      ("EvseID", [("gt", "0")], KInt);
      ("ChargingNeeds", [("required", "")], (KStruct "smartcharging.ChargingNeeds" [("RequestedEnergyTransfer", [("required", ""); ("energyTransferMode", "")], KString);
      ("DepartureTime", [("omitempty", "")], (KPtr KTime));
      ("ACChargingParameters", [("omitempty", ""); ("dive", "")], (KPtr (KStruct "smartcharging.ACChargingParameters" [("EnergyAmount", [("gte", "0")], KInt);
      ("EVMinCurrent", [("gte", "0")], KInt);
      ("EVMaxCurrent", [("gte", "0")], KInt);
      ("EVMaxVoltage", [("gte", "0")], KInt)])));
      ("DCChargingParameters", [("omitempty", ""); ("dive", "")], (KPtr (KStruct "smartcharging.DCChargingParameters" [("EVMaxCurrent", [("gte", "0")], KInt);
      ("EVMaxVoltage", [("gte", "0")], KInt);
      ("EnergyAmount", [("omitempty", ""); ("gte", "0")], (KPtr KInt));
      ("EVMaxPower", [("omitempty", ""); ("gte", "0")], (KPtr KInt));
      ("StateOfCharge", [("omitempty", ""); ("gte", "0"); ("lte", "100")], (KPtr KInt));
      ("EVEnergyCapacity", [("omitempty", ""); ("gte", "0")], (KPtr KInt));
      ("FullSoC", [("omitempty", ""); ("gte", "0"); ("lte", "100")], (KPtr KInt));
      ("BulkSoC", [("omitempty", ""); ("gte", "0"); ("lte", "100")], (KPtr KInt))])))]))]).
Definition sschema_193 : kind := (KStruct "smartcharging.NotifyEVChargingNeedsResponse" [("Status", [("required", ""); ("evChargingNeedsStatus", "")], KString);
      ("StatusInfo", [("omitempty", ""); ("dive", "")], (KPtr (KStruct "types.StatusInfo" [("ReasonCode", [("required", ""); ("max", "20")], KString);
      ("AdditionalInfo", [("omitempty", ""); ("max", "512")], KString)])))]).
Definition sschema_194 : kind := (KStruct "smartcharging.NotifyEVChargingScheduleRequest" [("TimeBase", [("required", "")], (KPtr KTime));
      ("EvseID", [("gt", "0")], KInt);
      ("ChargingSchedule", [("required", ""); ("dive", "")], (KStruct "types.ChargingSchedule" [("ID", [("gte", "0")], KInt);
      ("StartSchedule", [("omitempty", "")], (KPtr KTime));
      ("Duration", [("omitempty", ""); ("gte", "0")], (KPtr KInt));
      ("ChargingRateUnit", [("required", ""); ("chargingRateUnit201", "")], KString);
      ("MinChargingRate", [("omitempty", ""); ("gte", "0")], (KPtr KFloat));
      ("ChargingSchedulePeriod", [("required", ""); ("min", "1"); ("max", "1024"); ("dive", "")], (KSlice (KStruct "types.ChargingSchedulePeriod" [("StartPeriod", [("gte", "0")], KInt);
      ("Limit", [("gte", "0")], KFloat);
      ("NumberPhases", [("omitempty", ""); ("gte", "0")], (KPtr KInt))])));
      ("SalesTariff", [("omitempty", "")], (KPtr (KStruct "types.SalesTariff" [("ID", [], KInt);
      ("SalesTariffDescription", [("omitempty", ""); ("max", "32")], KString);
      ("NumEPriceLevels", [("omitempty", "")], (KPtr KInt));
      ("SalesTariffEntry", [("required", ""); ("min", "1"); ("max", "1024"); ("dive", "")], (KSlice (KStruct "types.SalesTariffEntry" [("EPriceLevel", [("omitempty", ""); ("gte", "0")], (KPtr KInt));
      ("RelativeTimeInterval", [("required", "")], (KStruct "types.RelativeTimeInterval" [("Start", [], KInt);
      ("Duration", [("omitempty", ""); ("gte", "0")], (KPtr KInt))]));
      ("ConsumptionCost", [("omitempty", ""); ("max", "3"); ("dive", "")], (KSlice (KStruct "types.ConsumptionCost" [("StartValue", [], KFloat);
      ("Cost", [("required", ""); ("max", "3"); ("dive", "")], (KSlice (KStruct "types.CostType" [("CostKind", [("required", ""); ("costKind", "")], KString);
      ("Amount", [("gte", "0")], KInt);
      ("AmountMultiplier", [("omitempty", ""); ("min", "-3"); ("max", "3")], (KPtr KInt))])))])))])))])))]))]).
Definition sschema_195 : kind := (KStruct "smartcharging.NotifyEVChargingScheduleResponse" [("Status", [("required", ""); ("genericStatus", "")], KString);
      ("StatusInfo", [("omitempty", ""); ("dive", "")], (KPtr (KStruct "types.StatusInfo" [("ReasonCode", [("required", ""); ("max", "20")], KString);
      ("AdditionalInfo", [("omitempty", ""); ("max", "512")], KString)])))]).
Definition sschema_196 : kind := (KStruct "smartcharging.ReportChargingProfilesRequest" [("RequestID", [("gte", "0")], KInt);
      ("ChargingLimitSource", [("required", ""); ("chargingLimitSource", "")], KString);
      ("Tbc", [("omitempty", "")], KBool);
      ("EvseID", [("gte", "0")], KInt);
      ("ChargingProfile", [("required", ""); ("min", "1"); ("dive", "")], (KSlice (KStruct "types.ChargingProfile" [("ID", [("gte", "0")], KInt);
      ("StackLevel", [("gte", "0")], KInt);
      ("ChargingProfilePurpose", [("required", ""); ("chargingProfilePurpose201", "")], KString);
      ("ChargingProfileKind", [("required", ""); ("chargingProfileKind201", "")], KString);
      ("RecurrencyKind", [("omitempty", ""); ("recurrencyKind201", "")], KString);
      ("ValidFrom", [], (KPtr KTime));
      ("ValidTo", [], (KPtr KTime));
      ("TransactionID", [("omitempty", ""); ("max", "36")], KString);
      ("ChargingSchedule", [("required", ""); ("min", "1"); ("max", "3"); ("dive", "")], (KSlice (KStruct "types.ChargingSchedule" [("ID", [("gte", "0")], KInt);
      ("StartSchedule", [("omitempty", "")], (KPtr KTime));
      ("Duration", [("omitempty", ""); ("gte", "0")], (KPtr KInt));
      ("ChargingRateUnit", [("required", ""); ("chargingRateUnit201", "")], KString);
      ("MinChargingRate", [("omitempty", ""); ("gte", "0")], (KPtr KFloat));
      ("ChargingSchedulePeriod", [("required", ""); ("min", "1"); ("max", "1024"); ("dive", "")], (KSlice (KStruct "types.ChargingSchedulePeriod" [("StartPeriod", [("gte", "0")], KInt);
      ("Limit", [("gte", "0")], KFloat);
      ("NumberPhases", [("omitempty", ""); ("gte", "0")], (KPtr KInt))])));
      ("SalesTariff", [("omitempty", "")], (KPtr (KStruct "types.SalesTariff" [("ID", [], KInt);
      ("SalesTariffDescription", [("omitempty", ""); ("max", "32")], KString);
      ("NumEPriceLevels", [("omitempty", "")], (KPtr KInt));
      ("SalesTariffEntry", [("required", ""); ("min", "1"); ("max", "1024"); ("dive", "")], (KSlice (KStruct "types.SalesTariffEntry" [("EPriceLevel", [("omitempty", ""); ("gte", "0")], (KPtr KInt));
      ("RelativeTimeInterval", [("required", "")], (KStruct "types.RelativeTimeInterval" [("Start", [], KInt);
      ("Duration", [("omitempty", ""); ("gte", "0")], (KPtr KInt))]));
      ("ConsumptionCost", [("omitempty", ""); ("max", "3"); ("dive", "")], (KSlice (KStruct "types.ConsumptionCost" [("StartValue", [], KFloat);
      ("Cost", [("required", ""); ("max", "3"); ("dive", "")], (KSlice (KStruct "types.CostType" [("CostKind", [("required", ""); ("costKind", "")], KString);
      ("Amount", [("gte", "0")], KInt);
      ("AmountMultiplier", [("omitempty", ""); ("min", "-3"); ("max", "3")], (KPtr KInt))])))])))])))])))])))])))]).
Definition sschema_197 : kind := (KStruct "smartcharging.ReportChargingProfilesResponse" []).
Definition sschema_198 : kind := (KStruct "smartcharging.SetChargingProfileRequest" [("EvseID", [("gte", "0")], KInt);
      ("ChargingProfile", [("required", "")], (KPtr (KStruct "types.ChargingProfile" [("ID", [("gte", "0")], KInt);
      ("StackLevel", [("gte", "0")], KInt);
      ("ChargingProfilePurpose", [("required", ""); ("chargingProfilePurpose201", "")], KString);
      ("ChargingProfileKind", [("required", ""); ("chargingProfileKind201", "")], KString);
      ("RecurrencyKind", [("omitempty", ""); ("recurrencyKind201", "")], KString);
      ("ValidFrom", [], (KPtr KTime));
      ("ValidTo", [], (KPtr KTime));
      ("TransactionID", [("omitempty", ""); ("max", "36")], KString);
      ("ChargingSchedule", [("required", ""); ("min", "1"); ("max", "3"); ("dive", "")], (KSlice (KStruct "types.ChargingSchedule" [("ID", [("gte", "0")], KInt);
      ("StartSchedule", [("omitempty", "")], (KPtr KTime));
      ("Duration", [("omitempty", ""); ("gte", "0")], (KPtr KInt));
      ("ChargingRateUnit", [("required", ""); ("chargingRateUnit201", "")], KString);
      ("MinChargingRate", [("omitempty", ""); ("gte", "0")], (KPtr KFloat));
      ("ChargingSchedulePeriod", [("required", ""); ("min", "1"); ("max", "1024"); ("dive", "")], (KSlice (KStruct "types.ChargingSchedulePeriod" [("StartPeriod", [("gte", "0")], KInt);
      ("Limit", [("gte", "0")], KFloat);
      ("NumberPhases", [("omitempty", ""); ("gte", "0")], (KPtr KInt))])));
      ("SalesTariff", [("omitempty", "")], (KPtr (KStruct "types.SalesTariff" [("ID", [], KInt);
      ("SalesTariffDescription", [("omitempty", ""); ("max", "32")], KString);
      ("NumEPriceLevels", [("omitempty", "")], (KPtr KInt));
      ("SalesTariffEntry", [("required", ""); ("min", "1"); ("max", "1024"); ("dive", "")], (KSlice (KStruct "types.SalesTariffEntry" [("EPriceLevel", [("omitempty", ""); ("gte", "0")], (KPtr KInt));
      ("RelativeTimeInterval", [("required", "")], (KStruct "types.RelativeTimeInterval" [("Start", [], KInt);
      ("Duration", [("omitempty", ""); ("gte", "0")], (KPtr KInt))]));
      ("ConsumptionCost", [("omitempty", ""); ("max", "3"); ("dive", "")], (KSlice (KStruct "types.ConsumptionCost" [("StartValue", [], KFloat);
      ("Cost", [("required", ""); ("max", "3"); ("dive", "")], (KSlice (KStruct "types.CostType" [("CostKind", [("required", ""); ("costKind", "")], KString);
      ("Amount", [("gte", "0")], KInt);
      ("AmountMultiplier", [("omitempty", ""); ("min", "-3"); ("max", "3")], (KPtr KInt))])))])))])))])))])))])))]).
Definition sschema_199 : kind := (KStruct "smartcharging.SetChargingProfileResponse" [("Status", [("required", ""); ("chargingProfileStatus201", "")], KString);
      ("StatusInfo", [("omitempty", "")], (KPtr (KStruct "types.StatusInfo" [("ReasonCode", [("required", ""); ("max", "20")], KString);
      ("AdditionalInfo", [("omitempty", ""); ("max", "512")], KString)])))]).
Definition sschema_200 : kind := (KStruct "tariffcost.CostUpdatedRequest" [("TotalCost", [("required", "")], KFloat);
      ("TransactionID", [("required", ""); ("max", "36")], KString)]).
Definition sschema_201 : kind := (KStruct "tariffcost.CostUpdatedResponse" []).
Definition sschema_202 : kind := (KStruct "transactions.GetTransactionStatusRequest" [("TransactionID", [("omitempty", ""); ("max", "36")], KString)]).
Definition sschema_203 : kind := (KStruct "transactions.GetTransactionStatusResponse" [("OngoingIndicator", [("omitempty", "")], (KPtr KBool));
      ("MessagesInQueue", [], KBool)]).
Definition sschema_204 : kind := (KStruct "transactions.TransactionEventRequest" [("EventType", [("required", ""); ("transactionEvent", "")], KString);
      ("Timestamp", [("required", "")], (KPtr KTime));
      ("TriggerReason", [("required", ""); ("triggerReason", "")], KString);
      ("SequenceNo", [("gte", "0")], KInt);
      ("Offline", [], KBool);
      ("NumberOfPhasesUsed", [("omitempty", ""); ("gte", "0")], (KPtr KInt));
      ("CableMaxCurrent", [], (KPtr KInt));
      ("ReservationID", [], (KPtr KInt));
      ("TransactionInfo", [("required", "")], (KStruct "transactions.Transaction" [("TransactionID", [("required", ""); ("max", "36")], KString);
      ("ChargingState", [("omitempty", ""); ("chargingState", "")], KString);
      ("TimeSpentCharging", [("omitempty", "")], (KPtr KInt));
      ("StoppedReason", [("omitempty", ""); ("stoppedReason", "")], KString);
      ("RemoteStartID", [("omitempty", "")], (KPtr KInt))]));
      ("IDToken", [("omitempty", ""); ("dive", "")], (KPtr (KStruct "types.IdToken" [("IdToken", [("max", "36")], KString);
      ("Type", [("required", ""); ("idTokenType", "")], KString);
      ("AdditionalInfo", [("omitempty", ""); ("dive", "")], (KSlice (KStruct "types.AdditionalInfo" [("AdditionalIdToken", [("required", ""); ("max", "36")], KString);
      ("Type", [("required", ""); ("max", "50")], KString)])))])));
      ("Evse", [("omitempty", "")], (KPtr (KStruct "types.EVSE" [("ID", [("gte", "0")], KInt);
      ("ConnectorID", [("omitempty", ""); ("gte", "0")], (KPtr KInt))])));
      ("MeterValue", [("omitempty", ""); ("dive", "")], (KSlice (KStruct "types.MeterValue" [("Timestamp", [("required", "")], KTime);
      ("SampledValue", [("required", ""); ("min", "1"); ("dive", "")], (KSlice (KStruct "types.SampledValue" [("Value", [], KFloat);
      ("Context", [("omitempty", ""); ("readingContext201", "")], KString);
      ("Measurand", [("omitempty", ""); ("measurand201", "")], KString);
      ("Phase", [("omitempty", ""); ("phase201", "")], KString);
      ("Location", [("omitempty", ""); ("location201", "")], KString);
      ("SignedMeterValue", [("omitempty", "")], (KPtr (KStruct "types.SignedMeterValue" [("SignedMeterData", [("required", ""); ("max", "2500")], KString);
      ("SigningMethod", [("required", ""); ("max", "50")], KString);
      ("EncodingMethod", [("required", ""); ("max", "50")], KString);
      ("PublicKey", [("required", ""); ("max", "2500")], KString)])));
      ("UnitOfMeasure", [("omitempty", "")], (KPtr (KStruct "types.UnitOfMeasure" [("Unit", [("omitempty", ""); ("max", "20")], KString);
      ("Multiplier", [("omitempty", ""); ("gte", "0")], (KPtr KInt))])))])))])))]).
Definition sschema_205 : kind := (KStruct "transactions.TransactionEventResponse" [("TotalCost", [("omitempty", ""); ("gte", "0")], (KPtr KFloat));
      ("ChargingPriority", [("omitempty", ""); ("min", "-9"); ("max", "9")], (KPtr KInt));
      ("IDTokenInfo", [("omitempty", "")], (KPtr (KStruct "types.IdTokenInfo" [("Status", [("required", ""); ("authorizationStatus201", "")], KString);
      ("CacheExpiryDateTime", [("omitempty", "")], (KPtr KTime));
      ("ChargingPriority", [("min", "-9"); ("max", "9")], KInt);
      ("Language1", [("max", "8")], KString);
      ("Language2", [("max", "8")], KString);
      ("GroupIdToken", [], (KPtr (KStruct "types.GroupIdToken" [("IdToken", [("max", "36")], KString);
      ("Type", [("required", ""); ("idTokenType", "")], KString)])));
      ("PersonalMessage", [], (KPtr (KStruct "types.MessageContent" [("Format", [("required", ""); ("messageFormat", "")], KString);
      ("Language", [("max", "8")], KString);
      ("Content", [("required", ""); ("max", "512")], KString)])))])));
      ("UpdatedPersonalMessage", [("omitempty", "")], (KPtr (KStruct "types.MessageContent" [("Format", [("required", ""); ("messageFormat", "")], KString);
      ("Language", [("max", "8")], KString);
      ("Content", [("required", ""); ("max", "512")], KString)])))]).

Definition spec_schemas : list (string * kind) := [
  ("16/Authorize/req", sschema_0);
  ("16/Authorize/resp", sschema_1);
  ("16/BootNotification/req", sschema_2);
  ("16/BootNotification/resp", sschema_3);
  ("16/ChangeAvailability/req", sschema_4);
  ("16/ChangeAvailability/resp", sschema_5);
  ("16/ChangeConfiguration/req", sschema_6);
  ("16/ChangeConfiguration/resp", sschema_7);
  ("16/ClearCache/req", sschema_8);
  ("16/ClearCache/resp", sschema_9);
  ("16/DataTransfer/req", sschema_10);
  ("16/DataTransfer/resp", sschema_11);
  ("16/GetConfiguration/req", sschema_12);
  ("16/GetConfiguration/resp", sschema_13);
  ("16/Heartbeat/req", sschema_14);
  ("16/Heartbeat/resp", sschema_15);
  ("16/MeterValues/req", sschema_16);
  ("16/MeterValues/resp", sschema_17);
  ("16/RemoteStartTransaction/req", sschema_18);
  ("16/RemoteStartTransaction/resp", sschema_19);
  ("16/RemoteStopTransaction/req", sschema_20);
  ("16/RemoteStopTransaction/resp", sschema_21);
  ("16/Reset/req", sschema_22);
  ("16/Reset/resp", sschema_23);
  ("16/StartTransaction/req", sschema_24);
  ("16/StartTransaction/resp", sschema_25);
  ("16/StatusNotification/req", sschema_26);
  ("16/StatusNotification/resp", sschema_27);
  ("16/StopTransaction/req", sschema_28);
  ("16/StopTransaction/resp", sschema_29);
  ("16/UnlockConnector/req", sschema_30);
  ("16/UnlockConnector/resp", sschema_31);
  ("16/GetLocalListVersion/req", sschema_32);
  ("16/GetLocalListVersion/resp", sschema_33);
  ("16/SendLocalList/req", sschema_34);
  ("16/SendLocalList/resp", sschema_35);
  ("16/DiagnosticsStatusNotification/req", sschema_36);
  ("16/DiagnosticsStatusNotification/resp", sschema_37);
  ("16/FirmwareStatusNotification/req", sschema_38);
  ("16/FirmwareStatusNotification/resp", sschema_39);
  ("16/GetDiagnostics/req", sschema_40);
  ("16/GetDiagnostics/resp", sschema_41);
  ("16/UpdateFirmware/req", sschema_42);
  ("16/UpdateFirmware/resp", sschema_43);
  ("16/CancelReservation/req", sschema_44);
  ("16/CancelReservation/resp", sschema_45);
  ("16/ReserveNow/req", sschema_46);
  ("16/ReserveNow/resp", sschema_47);
  ("16/TriggerMessage/req", sschema_48);
  ("16/TriggerMessage/resp", sschema_49);
  ("16/ClearChargingProfile/req", sschema_50);
  ("16/ClearChargingProfile/resp", sschema_51);
  ("16/GetCompositeSchedule/req", sschema_52);
  ("16/GetCompositeSchedule/resp", sschema_53);
  ("16/SetChargingProfile/req", sschema_54);
  ("16/SetChargingProfile/resp", sschema_55);
  ("16/GetLog/req", sschema_56);
  ("16/GetLog/resp", sschema_57);
  ("16/LogStatusNotification/req", sschema_58);
  ("16/LogStatusNotification/resp", sschema_59);
  ("16/CertificateSigned/req", sschema_60);
  ("16/CertificateSigned/resp", sschema_61);
  ("16/SecurityEventNotification/req", sschema_62);
  ("16/SecurityEventNotification/resp", sschema_63);
  ("16/SignCertificate/req", sschema_64);
  ("16/SignCertificate/resp", sschema_65);
  ("16/ExtendedTriggerMessage/req", sschema_66);
  ("16/ExtendedTriggerMessage/resp", sschema_67);
  ("16/DeleteCertificate/req", sschema_68);
  ("16/DeleteCertificate/resp", sschema_69);
  ("16/GetInstalledCertificateIds/req", sschema_70);
  ("16/GetInstalledCertificateIds/resp", sschema_71);
  ("16/InstallCertificate/req", sschema_72);
  ("16/InstallCertificate/resp", sschema_73);
  ("16/SignedFirmwareStatusNotification/req", sschema_74);
  ("16/SignedFirmwareStatusNotification/resp", sschema_75);
  ("16/SignedUpdateFirmware/req", sschema_76);
  ("16/SignedUpdateFirmware/resp", sschema_77);
  ("201/Authorize/req", sschema_78);
  ("201/Authorize/resp", sschema_79);
  ("201/ClearCache/req", sschema_80);
  ("201/ClearCache/resp", sschema_81);
  ("201/ChangeAvailability/req", sschema_82);
  ("201/ChangeAvailability/resp", sschema_83);
  ("201/Heartbeat/req", sschema_84);
  ("201/Heartbeat/resp", sschema_85);
  ("201/StatusNotification/req", sschema_86);
  ("201/StatusNotification/resp", sschema_87);
  ("201/DataTransfer/req", sschema_88);
  ("201/DataTransfer/resp", sschema_89);
  ("201/ClearVariableMonitoring/req", sschema_90);
  ("201/ClearVariableMonitoring/resp", sschema_91);
  ("201/CustomerInformation/req", sschema_92);
  ("201/CustomerInformation/resp", sschema_93);
  ("201/GetLog/req", sschema_94);
  ("201/GetLog/resp", sschema_95);
  ("201/GetMonitoringReport/req", sschema_96);
  ("201/GetMonitoringReport/resp", sschema_97);
  ("201/LogStatusNotification/req", sschema_98);
  ("201/LogStatusNotification/resp", sschema_99);
  ("201/NotifyCustomerInformation/req", sschema_100);
  ("201/NotifyCustomerInformation/resp", sschema_101);
  ("201/NotifyEvent/req", sschema_102);
  ("201/NotifyEvent/resp", sschema_103);
  ("201/NotifyMonitoringReport/req", sschema_104);
  ("201/NotifyMonitoringReport/resp", sschema_105);
  ("201/SetMonitoringBase/req", sschema_106);
  ("201/SetMonitoringBase/resp", sschema_107);
  ("201/SetMonitoringLevel/req", sschema_108);
  ("201/SetMonitoringLevel/resp", sschema_109);
  ("201/SetVariableMonitoring/req", sschema_110);
  ("201/SetVariableMonitoring/resp", sschema_111);
  ("201/ClearDisplayMessage/req", sschema_112);
  ("201/ClearDisplayMessage/resp", sschema_113);
  ("201/GetDisplayMessages/req", sschema_114);
  ("201/GetDisplayMessages/resp", sschema_115);
  ("201/NotifyDisplayMessages/req", sschema_116);
  ("201/NotifyDisplayMessages/resp", sschema_117);
  ("201/SetDisplayMessage/req", sschema_118);
  ("201/SetDisplayMessage/resp", sschema_119);
  ("201/FirmwareStatusNotification/req", sschema_120);
  ("201/FirmwareStatusNotification/resp", sschema_121);
  ("201/PublishFirmware/req", sschema_122);
  ("201/PublishFirmware/resp", sschema_123);
  ("201/PublishFirmwareStatusNotification/req", sschema_124);
  ("201/PublishFirmwareStatusNotification/resp", sschema_125);
  ("201/UnpublishFirmware/req", sschema_126);
  ("201/UnpublishFirmware/resp", sschema_127);
  ("201/UpdateFirmware/req", sschema_128);
  ("201/UpdateFirmware/resp", sschema_129);
  ("201/DeleteCertificate/req", sschema_130);
  ("201/DeleteCertificate/resp", sschema_131);
  ("201/Get15118EVCertificate/req", sschema_132);
  ("201/Get15118EVCertificate/resp", sschema_133);
  ("201/GetCertificateStatus/req", sschema_134);
  ("201/GetCertificateStatus/resp", sschema_135);
  ("201/GetInstalledCertificateIds/req", sschema_136);
  ("201/GetInstalledCertificateIds/resp", sschema_137);
  ("201/InstallCertificate/req", sschema_138);
  ("201/InstallCertificate/resp", sschema_139);
  ("201/GetLocalListVersion/req", sschema_140);
  ("201/GetLocalListVersion/resp", sschema_141);
  ("201/SendLocalList/req", sschema_142);
  ("201/SendLocalList/resp", sschema_143);
  ("201/MeterValues/req", sschema_144);
  ("201/MeterValues/resp", sschema_145);
  ("201/BootNotification/req", sschema_146);
  ("201/BootNotification/resp", sschema_147);
  ("201/GetBaseReport/req", sschema_148);
  ("201/GetBaseReport/resp", sschema_149);
  ("201/GetReport/req", sschema_150);
  ("201/GetReport/resp", sschema_151);
  ("201/GetVariables/req", sschema_152);
  ("201/GetVariables/resp", sschema_153);
  ("201/NotifyReport/req", sschema_154);
  ("201/NotifyReport/resp", sschema_155);
  ("201/Reset/req", sschema_156);
  ("201/Reset/resp", sschema_157);
  ("201/SetNetworkProfile/req", sschema_158);
  ("201/SetNetworkProfile/resp", sschema_159);
  ("201/SetVariables/req", sschema_160);
  ("201/SetVariables/resp", sschema_161);
  ("201/RequestStartTransaction/req", sschema_162);
  ("201/RequestStartTransaction/resp", sschema_163);
  ("201/RequestStopTransaction/req", sschema_164);
  ("201/RequestStopTransaction/resp", sschema_165);
  ("201/TriggerMessage/req", sschema_166);
  ("201/TriggerMessage/resp", sschema_167);
  ("201/UnlockConnector/req", sschema_168);
  ("201/UnlockConnector/resp", sschema_169);
  ("201/CancelReservation/req", sschema_170);
  ("201/CancelReservation/resp", sschema_171);
  ("201/ReservationStatusUpdate/req", sschema_172);
  ("201/ReservationStatusUpdate/resp", sschema_173);
  ("201/ReserveNow/req", sschema_174);
  ("201/ReserveNow/resp", sschema_175);
  ("201/CertificateSigned/req", sschema_176);
  ("201/CertificateSigned/resp", sschema_177);
  ("201/SecurityEventNotification/req", sschema_178);
  ("201/SecurityEventNotification/resp", sschema_179);
  ("201/SignCertificate/req", sschema_180);
  ("201/SignCertificate/resp", sschema_181);
  ("201/ClearChargingProfile/req", sschema_182);
  ("201/ClearChargingProfile/resp", sschema_183);
  ("201/ClearedChargingLimit/req", sschema_184);
  ("201/ClearedChargingLimit/resp", sschema_185);
  ("201/GetChargingProfiles/req", sschema_186);
  ("201/GetChargingProfiles/resp", sschema_187);
  ("201/GetCompositeSchedule/req", sschema_188);
  ("201/GetCompositeSchedule/resp", sschema_189);
  ("201/NotifyChargingLimit/req", sschema_190);
  ("201/NotifyChargingLimit/resp", sschema_191);
  ("201/NotifyEVChargingNeeds/req", sschema_192);
  ("201/NotifyEVChargingNeeds/resp", sschema_193);
  ("201/NotifyEVChargingSchedule/req", sschema_194);
  ("201/NotifyEVChargingSchedule/resp", sschema_195);
  ("201/ReportChargingProfiles/req", sschema_196);
  ("201/ReportChargingProfiles/resp", sschema_197);
  ("201/SetChargingProfile/req", sschema_198);
  ("201/SetChargingProfile/resp", sschema_199);
  ("201/CostUpdated/req", sschema_200);
  ("201/CostUpdated/resp", sschema_201);
  ("201/GetTransactionStatus/req", sschema_202);
  ("201/GetTransactionStatus/resp", sschema_203);
  ("201/TransactionEvent/req", sschema_204);
  ("201/TransactionEvent/resp", sschema_205)].
