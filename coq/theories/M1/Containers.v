(** Sequential models of the five containers of the OCPP-J layer:
    FIFOClientQueue, FIFOQueueMap (ocppj/queue.go), clientState, serverState
    (ocppj/state.go) and internal/callbackqueue.CallbackQueue.
    Elements, request ids, client ids and callbacks are integers; the request
    id 0 stands for the empty string.  No proofs in this file. *)
From Verif Require Import Base.Prelude.

(* ------------------------------------------------------------------ *)
(** * FIFOClientQueue *)

Record queue := mkq { qcap : Z; qels : list Z }.

Definition q_new (cap : Z) : queue := mkq cap [].
(** [len(q.elements) >= q.capacity && q.capacity > 0] *)
Definition q_full (q : queue) : bool := (qcap q <=? zlen (qels q)) && (0 <? qcap q).
Definition q_push (q : queue) (x : Z) : queue * bool :=
  if q_full q then (q, false) else (mkq (qcap q) (qels q ++ [x]), true).
Definition q_peek (q : queue) : option Z := hd_error (qels q).
Definition q_pop (q : queue) : queue * option Z :=
  match qels q with
  | [] => (q, None)
  | x :: r => (mkq (qcap q) r, Some x)
  end.
Definition q_size (q : queue) : Z := zlen (qels q).
Definition q_empty (q : queue) : bool := match qels q with [] => true | _ => false end.
Definition q_init (q : queue) : queue := mkq (qcap q) [].

Inductive qop := QInit | QPush (x : Z) | QPeek | QPop | QSize | QIsFull | QIsEmpty.

Definition optz (o : option Z) : Z := match o with Some x => x | None => -1 end.

(** one operation: new state and what the Go method returns (encoded) *)
Definition q_step (q : queue) (o : qop) : queue * list Z :=
  match o with
  | QInit => (q_init q, [])
  | QPush x => let '(q', ok) := q_push q x in (q', [bool_z ok])
  | QPeek => (q, [optz (q_peek q)])
  | QPop => let '(q', r) := q_pop q in (q', [optz r])
  | QSize => (q, [q_size q])
  | QIsFull => (q, [bool_z (q_full q)])
  | QIsEmpty => (q, [bool_z (q_empty q)])
  end.

(* ------------------------------------------------------------------ *)
(** * association lists (Go maps; iteration order is never observed) *)

Section Assoc.
  Context {V : Type}.
  Fixpoint a_get (m : list (Z * V)) (k : Z) : option V :=
    match m with
    | [] => None
    | (k', v) :: r => if k' =? k then Some v else a_get r k
    end.
  Fixpoint a_set (m : list (Z * V)) (k : Z) (v : V) : list (Z * V) :=
    match m with
    | [] => [(k, v)]
    | (k', v') :: r => if k' =? k then (k, v) :: r else (k', v') :: a_set r k v
    end.
  Fixpoint a_del (m : list (Z * V)) (k : Z) : list (Z * V) :=
    match m with
    | [] => []
    | (k', v') :: r => if k' =? k then a_del r k else (k', v') :: a_del r k
    end.
End Assoc.

(* ------------------------------------------------------------------ *)
(** * FIFOQueueMap *)

Record qmap := mkqm { qm_cap : Z; qm_data : list (Z * queue) }.

Inductive qmop :=
| MInit | MGet (c : Z) | MGetOrCreate (c : Z) | MRemove (c : Z) | MAdd (c cap : Z)
| MPushTo (c x : Z) | MPopFrom (c : Z).

Definition qm_step (m : qmap) (o : qmop) : qmap * list Z :=
  match o with
  | MInit => (mkqm (qm_cap m) [], [])
  | MGet c => match a_get (qm_data m) c with
              | Some q => (m, [1; q_size q])
              | None => (m, [0; 0])
              end
  | MGetOrCreate c => match a_get (qm_data m) c with
                      | Some q => (m, [q_size q])
                      | None => (mkqm (qm_cap m) (a_set (qm_data m) c (q_new (qm_cap m))), [0])
                      end
  | MRemove c => (mkqm (qm_cap m) (a_del (qm_data m) c), [])
  | MAdd c cap => (mkqm (qm_cap m) (a_set (qm_data m) c (q_new cap)), [])
  | MPushTo c x => match a_get (qm_data m) c with
                   | Some q => let '(q', ok) := q_push q x in
                               (mkqm (qm_cap m) (a_set (qm_data m) c q'), [1; bool_z ok])
                   | None => (m, [0; 0])
                   end
  | MPopFrom c => match a_get (qm_data m) c with
                  | Some q => let '(q', r) := q_pop q in
                              (mkqm (qm_cap m) (a_set (qm_data m) c q'), [1; optz r])
                  | None => (m, [0; -1])
                  end
  end.

(* ------------------------------------------------------------------ *)
(** * clientState: the pending request id; 0 = none (the empty string) *)

Definition cstate := Z.

Definition cs_add (s : cstate) (id : Z) : cstate :=
  if negb (id =? 0) && (s =? 0) then id else s.       (* ignored when empty or one is set *)
Definition cs_get (s : cstate) (id : Z) : bool := s =? id.
Definition cs_delete (s : cstate) (id : Z) : cstate := if s =? id then 0 else s.
Definition cs_clear (s : cstate) : cstate := 0.
Definition cs_has (s : cstate) : bool := negb (s =? 0).

Inductive csop := CAdd (id : Z) | CGet (id : Z) | CDelete (id : Z) | CClear | CHas.

Definition cs_step (s : cstate) (o : csop) : cstate * list Z :=
  match o with
  | CAdd id => (cs_add s id, [])
  | CGet id => (s, [bool_z (cs_get s id)])
  | CDelete id => (cs_delete s id, [])
  | CClear => (cs_clear s, [])
  | CHas => (s, [bool_z (cs_has s)])
  end.

(* ------------------------------------------------------------------ *)
(** * serverState: client id -> clientState object; objects live in a heap
      because GetClientState hands out a reference that can outlive the entry *)

Record sstate := mkss { ss_map : list (Z * Z);        (* client -> object id *)
                        ss_heap : list (Z * cstate);  (* object id -> state *)
                        ss_next : Z;
                        ss_handles : list Z }.        (* references handed out, oldest first *)

Definition ss0 : sstate := mkss [] [] 1 [].

Definition ss_obj (s : sstate) (o : Z) : cstate := match a_get (ss_heap s) o with Some c => c | None => 0 end.

(** getOrCreateState *)
Definition ss_get_or_create (s : sstate) (c : Z) : sstate * Z :=
  match a_get (ss_map s) c with
  | Some o => (s, o)
  | None => let o := ss_next s in
            (mkss (a_set (ss_map s) c o) (a_set (ss_heap s) o 0) (o + 1) (ss_handles s), o)
  end.

Definition ss_upd (s : sstate) (o : Z) (v : cstate) : sstate :=
  mkss (ss_map s) (a_set (ss_heap s) o v) (ss_next s) (ss_handles s).

Inductive ssop :=
| SAdd (c id : Z) | SDelete (c id : Z) | SGetClientState (c : Z) | SHas (c : Z) | SHasAny
| SClearClient (c : Z) | SClearAll
| HGet (k id : Z) | HAdd (k id : Z) | HHas (k : Z) | HDelete (k id : Z).

Definition handle (s : sstate) (k : Z) : option Z := nth_error (ss_handles s) (Z.to_nat k).

Definition ss_step (s : sstate) (o : ssop) : sstate * list Z :=
  match o with
  | SAdd c id => let '(s', ob) := ss_get_or_create s c in (ss_upd s' ob (cs_add (ss_obj s' ob) id), [])
  | SDelete c id => match a_get (ss_map s) c with
                    | Some ob => (ss_upd s ob (cs_delete (ss_obj s ob) id), [])
                    | None => (s, [])
                    end
  | SGetClientState c => let '(s', ob) := ss_get_or_create s c in
                         (mkss (ss_map s') (ss_heap s') (ss_next s') (ss_handles s' ++ [ob]), [])
  | SHas c => match a_get (ss_map s) c with
              | Some ob => (s, [bool_z (cs_has (ss_obj s ob))])
              | None => (s, [0])
              end
  | SHasAny => (s, [bool_z (existsb (fun '(_, ob) => cs_has (ss_obj s ob)) (ss_map s))])
  | SClearClient c => (mkss (a_del (ss_map s) c) (ss_heap s) (ss_next s) (ss_handles s), [])
  | SClearAll => (mkss [] (ss_heap s) (ss_next s) (ss_handles s), [])
  | HGet k id => match handle s k with Some ob => (s, [bool_z (cs_get (ss_obj s ob) id)]) | None => (s, [-2]) end
  | HAdd k id => match handle s k with Some ob => (ss_upd s ob (cs_add (ss_obj s ob) id), []) | None => (s, [-2]) end
  | HHas k => match handle s k with Some ob => (s, [bool_z (cs_has (ss_obj s ob))]) | None => (s, [-2]) end
  | HDelete k id => match handle s k with Some ob => (ss_upd s ob (cs_delete (ss_obj s ob) id), []) | None => (s, [-2]) end
  end.

(* ------------------------------------------------------------------ *)
(** * CallbackQueue *)

Definition cbq := list (Z * list Z).

Definition cb_list (m : cbq) (id : Z) : list Z := match a_get m id with Some l => l | None => [] end.

(** TryQueue(id, try, cb) where [ok] says whether [try()] returns nil.
    Returns the new map and whether TryQueue returned nil. *)
Definition cb_try (m : cbq) (id cb : Z) (ok : bool) : cbq * bool :=
  let m1 := a_set m id (cb_list m id ++ [cb]) in
  if ok then (m1, true)
  else
    let l := remove_last (cb_list m1 id) in
    let m2 := a_set m1 id l in
    ((match l with [] => a_del m2 id | _ => m2 end), false).

Inductive deq := DNone | DSome (cb : Z) | DPanic.

Definition cb_dequeue (m : cbq) (id : Z) : cbq * deq :=
  match a_get m id with
  | None => (m, DNone)
  | Some [] => (m, DPanic)
  | Some [cb] => (a_del m id, DSome cb)
  | Some (cb :: r) => (a_set m id r, DSome cb)
  end.

Inductive cbop := BTry (id cb : Z) (ok : bool) | BDequeue (id : Z).

Definition cb_step (m : cbq) (o : cbop) : cbq * list Z :=
  match o with
  | BTry id cb ok => let '(m', r) := cb_try m id cb ok in (m', [bool_z r])
  | BDequeue id => let '(m', r) := cb_dequeue m id in
                   (m', match r with DNone => [0; 0] | DSome cb => [1; cb] | DPanic => [-7] end)
  end.

(* ------------------------------------------------------------------ *)
(** * running operation sequences *)

Fixpoint run_ops {S O} (step : S -> O -> S * list Z) (s : S) (ops : list O) : S * list Z :=
  match ops with
  | [] => (s, [])
  | o :: r => let '(s', out) := step s o in
              let '(s'', outs) := run_ops step s' r in (s'', out ++ outs)
  end.

(* ------------------------------------------------------------------ *)
(** * decoding of encoded operation lists (correspondence entry) *)

Fixpoint dec_qops (fuel : nat) (l : list Z) : list qop :=
  match fuel with O => [] | S f =>
    match l with
    | 0 :: r => QInit :: dec_qops f r
    | 1 :: x :: r => QPush x :: dec_qops f r
    | 2 :: r => QPeek :: dec_qops f r
    | 3 :: r => QPop :: dec_qops f r
    | 4 :: r => QSize :: dec_qops f r
    | 5 :: r => QIsFull :: dec_qops f r
    | 6 :: r => QIsEmpty :: dec_qops f r
    | _ => []
    end
  end.

Fixpoint dec_qmops (fuel : nat) (l : list Z) : list qmop :=
  match fuel with O => [] | S f =>
    match l with
    | 0 :: r => MInit :: dec_qmops f r
    | 1 :: c :: r => MGet c :: dec_qmops f r
    | 2 :: c :: r => MGetOrCreate c :: dec_qmops f r
    | 3 :: c :: r => MRemove c :: dec_qmops f r
    | 4 :: c :: cap :: r => MAdd c cap :: dec_qmops f r
    | 5 :: c :: x :: r => MPushTo c x :: dec_qmops f r
    | 6 :: c :: r => MPopFrom c :: dec_qmops f r
    | _ => []
    end
  end.

Fixpoint dec_csops (fuel : nat) (l : list Z) : list csop :=
  match fuel with O => [] | S f =>
    match l with
    | 0 :: id :: r => CAdd id :: dec_csops f r
    | 1 :: id :: r => CGet id :: dec_csops f r
    | 2 :: id :: r => CDelete id :: dec_csops f r
    | 3 :: r => CClear :: dec_csops f r
    | 4 :: r => CHas :: dec_csops f r
    | _ => []
    end
  end.

Fixpoint dec_ssops (fuel : nat) (l : list Z) : list ssop :=
  match fuel with O => [] | S f =>
    match l with
    | 0 :: c :: id :: r => SAdd c id :: dec_ssops f r
    | 1 :: c :: id :: r => SDelete c id :: dec_ssops f r
    | 2 :: c :: r => SGetClientState c :: dec_ssops f r
    | 3 :: c :: r => SHas c :: dec_ssops f r
    | 4 :: r => SHasAny :: dec_ssops f r
    | 5 :: c :: r => SClearClient c :: dec_ssops f r
    | 6 :: r => SClearAll :: dec_ssops f r
    | 7 :: k :: id :: r => HGet k id :: dec_ssops f r
    | 8 :: k :: id :: r => HAdd k id :: dec_ssops f r
    | 9 :: k :: r => HHas k :: dec_ssops f r
    | 10 :: k :: id :: r => HDelete k id :: dec_ssops f r
    | _ => []
    end
  end.

Fixpoint dec_cbops (fuel : nat) (l : list Z) : list cbop :=
  match fuel with O => [] | S f =>
    match l with
    | 0 :: id :: cb :: ok :: r => BTry id cb (z_bool ok) :: dec_cbops f r
    | 1 :: id :: r => BDequeue id :: dec_cbops f r
    | _ => []
    end
  end.

(** [kind; param; ops...]: kind 1 queue (param = capacity), 2 queue map (param =
    per-client capacity), 3 clientState, 4 serverState, 5 callback queue. *)
Definition c12_entry : entry := fun inp =>
  match inp with
  | 1 :: cap :: ops => snd (run_ops q_step (q_new cap) (dec_qops (length ops) ops))
  | 2 :: cap :: ops => snd (run_ops qm_step (mkqm cap []) (dec_qmops (length ops) ops))
  | 3 :: _ :: ops => snd (run_ops cs_step 0 (dec_csops (length ops) ops))
  | 4 :: _ :: ops => snd (run_ops ss_step ss0 (dec_ssops (length ops) ops))
  | 5 :: _ :: ops => snd (run_ops cb_step [] (dec_cbops (length ops) ops))
  | _ => [-1]
  end.

(* ------------------------------------------------------------------ *)
(** * linearizability check of a recorded concurrent queue history

    Each operation of the history: (index, op, observed output, invocation
    time, response time), times from one global atomic counter.  The history is
    linearizable when the operations can be ordered so that (a) an operation
    that responded before another was invoked comes first and (b) replaying
    them in that order on the sequential model gives every observed output. *)

Record hop := mkhop { h_ix : Z; h_op : qop; h_out : list Z; h_inv : Z; h_res : Z }.

Definition minimal (o : hop) (ops : list hop) : bool :=
  forallb (fun o' => (h_ix o' =? h_ix o) || negb (h_res o' <? h_inv o)) ops.

Definition remove_ix (i : Z) (ops : list hop) : list hop :=
  filter (fun o => negb (h_ix o =? i)) ops.

Fixpoint linearizable (fuel : nat) (q : queue) (ops : list hop) : bool :=
  match fuel with
  | O => match ops with [] => true | _ => false end
  | S f =>
      match ops with
      | [] => true
      | _ => existsb (fun o =>
                        minimal o ops &&
                        (let '(q', out) := q_step q (h_op o) in
                         Zeqb_list out (h_out o) && linearizable f q' (remove_ix (h_ix o) ops)))
                     ops
      end
  end.

(** encoded: [cap; then per op: code; arg; nout; out...; inv; res] (arg present for every op) *)
Fixpoint dec_hops (fuel : nat) (ix : Z) (l : list Z) : list hop :=
  match fuel with O => [] | S f =>
    match l with
    | code :: arg :: r =>
        let '(out, r1) := get_lp r in
        match r1 with
        | inv :: res :: r2 =>
            let op := if code =? 0 then QInit else if code =? 1 then QPush arg else if code =? 2 then QPeek
                      else if code =? 3 then QPop else if code =? 4 then QSize else if code =? 5 then QIsFull else QIsEmpty in
            mkhop ix op out inv res :: dec_hops f (ix + 1) r2
        | _ => []
        end
    | _ => []
    end
  end.

Definition c12_lin_entry : entry := fun inp =>
  match inp with
  | cap :: r => let ops := dec_hops (length r) 0 r in
                [bool_z (linearizable (length ops) (q_new cap) ops)]
  | _ => [-1]
  end.
