(** M1, server: no lost wake-up, per client, in EVERY schedule (the safety half of C07 for the central system / CSMS):
    a client with a queued request and nothing outstanding has a request or ready token pending at the message pump, and
    a client with nothing outstanding is either not held back by a timeout context, or a ready token of it is pending,
    or its ended session is marked and a request token of it is pending (the pump then drops the context: repair F13).
    The defects F13, F18, F19 and the seeded change C01-m5 (lost ready token) were violations of exactly this. *)
From Verif Require Import Base.Prelude M1.Containers M1.ContainersProofs M1.Server M1.ServerProofs M1.ServerInv.

Record SW (s : sv) : Prop := {
  sw_tok : forall c h t, qof s c = Some (h :: t) -> pendof s c = 0 -> In c (reqC s) \/ In c (readyC s);
  sw_ctx : forall c, running s = true -> pendof s c = 0 ->
           ctx_active s c = false \/ In c (readyC s) \/ (mem c (removed s) = true /\ In c (reqC s)) }.

Lemma SW_init cap d : SW (sinit cap d).
Proof. constructor; cbn; intros; discriminate. Qed.

Lemma ctx_active_set s c v d : ctx_active (upd_ctxm s (a_set (ctxm s) c v)) d = if c =? d then (match v with CActive => true | CInactive => false end) else ctx_active s d.
Proof. unfold ctx_active. cbn. rewrite aget_set. destruct (c =? d); [destruct v|]; reflexivity. Qed.

Lemma ctx_active_del s c d : ctx_active (upd_ctxm s (a_del (ctxm s) c)) d = if c =? d then false else ctx_active s d.
Proof. unfold ctx_active. cbn. rewrite aget_del. destruct (c =? d); reflexivity. Qed.

Lemma mem_true_iff c l : mem c l = true <-> In c l.
Proof.
  unfold mem. rewrite existsb_exists. split.
  - intros (x & Hx & E). apply Z.eqb_eq in E. subst. exact Hx.
  - intros H. exists c. split; [exact H|apply Z.eqb_refl].
Qed.

(** fields of the wake-up bookkeeping *)
Record wsame (s s' : sv) : Prop := {
  ws_qm : qm s' = qm s; ws_pendm : pendm s' = pendm s; ws_ctxm : ctxm s' = ctxm s; ws_reqC : reqC s' = reqC s;
  ws_readyC : readyC s' = readyC s; ws_removed : removed s' = removed s; ws_running : running s' = running s }.

Lemma SW_same s s' : wsame s s' -> SW s -> SW s'.
Proof.
  intros [A1 A2 A3 A4 A5 A6 A7] [W1 W2]. constructor; unfold qof, pendof, ctx_active in *; rewrite ?A1, ?A2, ?A3, ?A4, ?A5, ?A6, ?A7; assumption.
Qed.

Lemma set_cbs_wsame s c l : wsame s (set_cbs s c l).
Proof. unfold set_cbs. destruct l; constructor; reflexivity. Qed.

Lemma deliver_wsame s c r k : wsame s (deliver s c r k).
Proof.
  unfold deliver. destruct (cbs_of s c) as [|cb rest]; [constructor; reflexivity|].
  destruct (set_cbs_wsame s c rest) as [A1 A2 A3 A4 A5 A6 A7]. constructor; cbn; assumption.
Qed.

(** CompleteRequest for the outstanding head + conclusion: nothing outstanding for [c], a ready token of [c] posted *)
Lemma cc_wake b s c h t k : qof s c = Some (h :: t) -> pendof s c = h -> let s' := sconclude (scomplete b s c h) c h k in
  qm s' = a_set (qm s) c t /\ pendm s' = a_set (pendm s) c 0 /\ ctxm s' = ctxm s /\ reqC s' = reqC s /\
  readyC s' = readyC s ++ [c] /\ removed s' = removed s /\ running s' = running s.
Proof.
  intros Hq Hp. cbv zeta. unfold sconclude, scomplete. rewrite Hq, Z.eqb_refl.
  set (s1 := upd_qm s (a_set (qm s) c t)).
  change (pendof s1 c) with (pendof s c). rewrite Hp, Z.eqb_refl.
  set (s3 := upd_readyC _ _). set (s4 := semit s3 (SConc c h k)).
  destruct (deliver_wsame s4 c h k) as [A1 A2 A3 A4 A5 A6 A7].
  rewrite A1, A2, A3, A4, A5, A6, A7. subst s4 s3 s1; cbn. repeat split; reflexivity.
Qed.

Lemma in_snoc {A} (x y : A) l : In x (l ++ [y]) <-> In x l \/ x = y.
Proof. rewrite in_app_iff. cbn. intuition. Qed.

(** the pending id and the queue head after the maps were updated for client [c] *)
Lemma SW_cc b s c h t k : SW s -> qof s c = Some (h :: t) -> pendof s c = h -> SW (sconclude (scomplete b s c h) c h k).
Proof.
  intros [W1 W2] Hq Hp.
  destruct (cc_wake b s c h t k Hq Hp) as (A1 & A2 & A3 & A4 & A5 & A6 & A7).
  set (s' := sconclude (scomplete b s c h) c h k) in *.
  assert (Q : forall d, qof s' d = if c =? d then Some t else qof s d) by (intros d; unfold qof; rewrite A1, aget_set; reflexivity).
  assert (P : forall d, pendof s' d = if c =? d then 0 else pendof s d) by (intros d; unfold pendof; rewrite A2, aget_set; destruct (c =? d); reflexivity).
  constructor.
  - intros d h' t'. rewrite Q, P, A4, A5. destruct (c =? d) eqn:E.
    + apply Z.eqb_eq in E. subst d. intros _ _. right. apply in_snoc. right. reflexivity.
    + intros X Y. destruct (W1 d h' t' X Y) as [Z|Z]; [left; exact Z|right; apply in_snoc; left; exact Z].
  - intros d. rewrite P, A4, A5, A6, A7. unfold ctx_active. rewrite A3. fold (ctx_active s d). destruct (c =? d) eqn:E.
    + apply Z.eqb_eq in E. subst d. intros _ _. right. left. apply in_snoc. right. reflexivity.
    + intros R Y. destruct (W2 d R Y) as [Z|[Z|Z]]; [left; exact Z|right; left; apply in_snoc; left; exact Z|right; right; exact Z].
Qed.

(** everything [SW] says except the token of client [c] itself (the pump has just consumed one) *)
Record SWx (c : Z) (s : sv) : Prop := {
  swx_tok : forall d h t, d <> c -> qof s d = Some (h :: t) -> pendof s d = 0 -> In d (reqC s) \/ In d (readyC s);
  swx_ctx : forall d, running s = true -> pendof s d = 0 ->
            ctx_active s d = false \/ In d (readyC s) \/ (mem d (removed s) = true /\ In d (reqC s)) }.

Lemma SW_SWx c s : SW s -> SWx c s.
Proof. intros [W1 W2]. constructor; [intros d h t _; apply W1|exact W2]. Qed.

Lemma SWx_same c s s' : wsame s s' -> SWx c s -> SWx c s'.
Proof.
  intros [A1 A2 A3 A4 A5 A6 A7] [W1 W2]. constructor; unfold qof, pendof, ctx_active in *; rewrite ?A1, ?A2, ?A3, ?A4, ?A5, ?A6, ?A7; assumption.
Qed.

Lemma SW_dispatch s c h t : SWx c s -> cur s = c -> qof s c = Some (h :: t) -> pendof s c = 0 -> h <> 0 -> SW (sdispatch s).
Proof.
  intros W Hc Hq Hp Hh. pose proof W as [W1 W2].
  unfold sdispatch. rewrite Hc, Hq, Hp. cbn [Z.eqb andb]. apply Z.eqb_neq in Hh. rewrite Hh. cbn [negb andb]. apply Z.eqb_neq in Hh.
  set (s1 := upd_pendm s (a_set (pendm s) c h)). set (s2 := semit s1 (SWr c h)).
  assert (P2 : forall d, pendof s2 d = if c =? d then h else pendof s d).
  { intros d. unfold pendof. subst s2 s1. cbn. rewrite aget_set. destruct (c =? d); reflexivity. }
  assert (W2' : SW s2).
  { constructor.
    - intros d h' t'. change (qof s2 d) with (qof s d). change (reqC s2) with (reqC s). change (readyC s2) with (readyC s). rewrite P2.
      destruct (c =? d) eqn:E; [intros _ X; congruence|apply W1]. apply Z.eqb_neq in E. congruence.
    - intros d. change (running s2) with (running s). change (ctx_active s2 d) with (ctx_active s d).
      change (reqC s2) with (reqC s). change (readyC s2) with (readyC s). change (removed s2) with (removed s). rewrite P2.
      destruct (c =? d); [intros _ X; congruence|apply W2]. }
  destruct (mem c (conns s2) && negb (mem c (failw s2))).
  - (* written: the request is outstanding, its timeout context is active *)
    constructor.
    + intros d h' t'. change (qof (upd_ctxm s2 (a_set (ctxm s2) c CActive)) d) with (qof s2 d).
      change (pendof (upd_ctxm s2 (a_set (ctxm s2) c CActive)) d) with (pendof s2 d). apply (sw_tok s2 W2').
    + intros d. rewrite ctx_active_set.
      change (pendof (upd_ctxm s2 (a_set (ctxm s2) c CActive)) d) with (pendof s2 d).
      destruct (c =? d) eqn:E.
      * intros _ X. rewrite P2, E in X. congruence.
      * intros R X. apply (sw_ctx s2 W2' d R). exact X.
  - (* the write failed: concluded at once, a ready token is posted *)
    assert (W3 : SW (sconclude (scomplete true s2 c h) c h 3)).
    { apply SW_cc with (t := t); [exact W2'|exact Hq|rewrite P2, Z.eqb_refl; reflexivity]. }
    set (s3 := sconclude (scomplete true s2 c h) c h 3) in *.
    constructor.
    + intros d h' t'. change (qof (upd_ctxm s3 (a_set (ctxm s3) c CInactive)) d) with (qof s3 d).
      change (pendof (upd_ctxm s3 (a_set (ctxm s3) c CInactive)) d) with (pendof s3 d). apply (sw_tok s3 W3).
    + intros d. rewrite ctx_active_set.
      change (pendof (upd_ctxm s3 (a_set (ctxm s3) c CInactive)) d) with (pendof s3 d).
      destruct (c =? d); [intros; left; reflexivity|apply (sw_ctx s3 W3)].
Qed.

(** the end of a pump iteration that looked at client [c]: if it does not dispatch although something is queued and
    nothing is outstanding, the pump was not ready for [c], and then a token of [c] must still be around *)
Lemma SW_stail s c : SInv s -> cur s = c -> curQ s = Some c -> SWx c s ->
  (rdy s = false -> forall h t, qof s c = Some (h :: t) -> pendof s c = 0 -> In c (reqC s) \/ In c (readyC s)) ->
  SW (stail s).
Proof.
  intros Si Hc Hcq W H3. pose proof W as [W1 W2].
  unfold stail. rewrite (i_ns s Si), Hcq.
  assert (Keep : (rdy s = false \/ (forall h t, qof s c <> Some (h :: t)) \/ pendof s c <> 0) -> SW s).
  { intros R. constructor; [|exact W2]. intros d h t Hq Hp. destruct (Z.eq_dec d c) as [->|Hne]; [|apply (W1 d h t Hne Hq Hp)].
    destruct R as [R|[R|R]]; [apply (H3 R h t Hq Hp)|exfalso; exact (R h t Hq)|congruence]. }
  destruct (rdy s) eqn:Er; cbn [andb]; [|apply Keep; left; reflexivity].
  rewrite <- Hc in *. 
  destruct (qof s (cur s)) as [[|h t]|] eqn:Eq; cbn [negb andb]; try (apply Keep; right; left; intros h' t' X; discriminate).
  destruct (pendof s (cur s) =? 0) eqn:Ep; [apply Z.eqb_eq in Ep|apply Z.eqb_neq in Ep; apply Keep; right; right; exact Ep].
  assert (D : SW (sdispatch s)).
  { apply SW_dispatch with (c := cur s) (h := h) (t := t); auto. pose proof (i_pos s Si (cur s) _ Eq) as P. inversion P; assumption. }
  apply (SW_same (sdispatch s)); [constructor; reflexivity|exact D].
Qed.

Lemma in_tail_other {A} (x y : A) l : In x (y :: l) -> x <> y -> In x l.
Proof. intros [H|H] N; [congruence|exact H]. Qed.

Lemma mem_del_other d c l : d <> c -> mem d (del c l) = mem d l.
Proof. apply mem_del. Qed.

Lemma mem_cons_del c l d : mem d (c :: del c l) = (d =? c) || mem d l.
Proof.
  unfold mem at 1. cbn [existsb]. fold (mem d (del c l)). destruct (d =? c) eqn:E; [reflexivity|].
  apply Z.eqb_neq in E. cbn. apply mem_del. exact E.
Qed.

(** the end of the session of client [c] (running or not): queue and pending id go, the mark is set, and while the
    dispatcher runs a request token is posted *)
Notation dsc st c := (on_disconnected (semit st (SDrop c)) c).

Lemma disc_wake st c : let s' := dsc st c in
  qm s' = a_del (qm st) c /\ pendm s' = a_del (pendm st) c /\ ctxm s' = ctxm st /\
  reqC s' = (if running st then reqC st ++ [c] else reqC st) /\ readyC s' = readyC st /\
  removed s' = c :: del c (removed st) /\ running s' = running st.
Proof.
  cbv zeta. unfold on_disconnected. cbv zeta.
  set (s0 := semit st (SDrop c)).
  set (sq := upd_qm s0 (a_del (qm s0) c)).
  set (s1 := upd_removed sq (c :: del c (removed sq))).
  set (s2 := if running s1 then upd_reqC s1 (reqC s1 ++ [c]) else s1).
  set (s3 := upd_pendm s2 (a_del (pendm s2) c)).
  set (s4 := fold_left _ (cbs_of s3 c) s3).
  set (s5 := set_cbs s4 c []).
  assert (F : forall l x, wsame x (fold_left (fun st0 cb => semit st0 (SCb c cb 0 K_DISC)) l x)).
  { induction l as [|y l IH]; intros x; [constructor; reflexivity|]. cbn [fold_left].
    destruct (IH (semit x (SCb c y 0 K_DISC))) as [B1 B2 B3 B4 B5 B6 B7]. constructor; assumption. }
  destruct (F (cbs_of s3 c) s3) as [B1 B2 B3 B4 B5 B6 B7]. fold s4 in B1, B2, B3, B4, B5, B6, B7.
  destruct (set_cbs_wsame s4 c []) as [C1 C2 C3 C4 C5 C6 C7]. fold s5 in C1, C2, C3, C4, C5, C6, C7.
  assert (E : qm s3 = a_del (qm st) c /\ pendm s3 = a_del (pendm st) c /\ ctxm s3 = ctxm st /\
              reqC s3 = (if running st then reqC st ++ [c] else reqC st) /\ readyC s3 = readyC st /\
              removed s3 = c :: del c (removed st) /\ running s3 = running st).
  { unfold s3, s2. destruct (running s1) eqn:Er; change (running s1) with (running st) in Er; rewrite Er; unfold s1, sq, s0; cbn; rewrite ?Er; repeat split; reflexivity. }
  destruct E as (E1 & E2 & E3 & E4 & E5 & E6 & E7).
  destruct (drain s5); cbn; rewrite ?C1, ?C2, ?C3, ?C4, ?C5, ?C6, ?C7, ?B1, ?B2, ?B3, ?B4, ?B5, ?B6, ?B7; repeat split; assumption.
Qed.

Lemma SW_disc st c : SW st -> SW (dsc st c).
Proof.
  intros [W1 W2]. destruct (disc_wake st c) as (A1 & A2 & A3 & A4 & A5 & A6 & A7).
  set (s' := dsc st c) in *.
  assert (Q : forall d, qof s' d = if c =? d then None else qof st d) by (intros d; unfold qof; rewrite A1, aget_del; reflexivity).
  assert (P : forall d, pendof s' d = if c =? d then 0 else pendof st d) by (intros d; unfold pendof; rewrite A2, aget_del; destruct (c =? d); reflexivity).
  assert (Rq : forall d, In d (reqC st) -> In d (reqC s')) by (intros d X; rewrite A4; destruct (running st); [apply in_snoc; left; exact X|exact X]).
  constructor.
  - intros d h t. rewrite Q, P, A5. destruct (c =? d); [discriminate|].
    intros X Y. destruct (W1 d h t X Y) as [Z|Z]; [left; apply Rq, Z|right; exact Z].
  - intros d. rewrite P, A5, A6, A7. unfold ctx_active. rewrite A3. fold (ctx_active st d). rewrite mem_cons_del.
    destruct (c =? d) eqn:E.
    + apply Z.eqb_eq in E. subst d. intros R _. right. right. rewrite Z.eqb_refl. split; [reflexivity|].
      rewrite A4, R. apply in_snoc. right. reflexivity.
    + intros R Y. destruct (W2 d R Y) as [Z|[Z|[Z1 Z2]]]; [left; exact Z|right; left; exact Z|].
      right. right. split; [rewrite Z1; apply orb_true_r|apply Rq, Z2].
Qed.

Lemma fold_disc_SW cs : forall st, SW st -> SW (fold_left (fun st c => on_disconnected (semit st (SDrop c)) c) cs st).
Proof. induction cs as [|c cs IH]; intros st H; [exact H|]. cbn [fold_left]. apply IH. apply (SW_disc st c H). Qed.


Lemma ctx_deact_active s c d : ctx_active (ctx_deactivate s c) d = if c =? d then false else ctx_active s d.
Proof.
  unfold ctx_deactivate. destruct (ctx_active s c) eqn:E.
  - rewrite ctx_active_set. reflexivity.
  - destruct (c =? d) eqn:E2; [apply Z.eqb_eq in E2; subst; exact E|reflexivity].
Qed.

Lemma ctx_deact_fields s c : qm (ctx_deactivate s c) = qm s /\ pendm (ctx_deactivate s c) = pendm s /\ reqC (ctx_deactivate s c) = reqC s /\
  readyC (ctx_deactivate s c) = readyC s /\ removed (ctx_deactivate s c) = removed s /\ running (ctx_deactivate s c) = running s /\
  curQ (ctx_deactivate s c) = curQ s /\ cur (ctx_deactivate s c) = cur s /\ rdy (ctx_deactivate s c) = rdy s.
Proof. unfold ctx_deactivate. destruct (ctx_active s c); repeat split; reflexivity. Qed.

Lemma SW_deact s c : SW s -> SW (ctx_deactivate s c).
Proof.
  intros [W1 W2]. destruct (ctx_deact_fields s c) as (A1 & A2 & A3 & A4 & A5 & A6 & _).
  constructor.
  - intros d h t. unfold qof, pendof. rewrite A1, A2, A3, A4. apply W1.
  - intros d. rewrite ctx_deact_active. unfold pendof. rewrite A2, A3, A4, A5, A6. destruct (c =? d); [intros; left; reflexivity|apply W2].
Qed.

Lemma stail_none s : curQ s = None -> stail s = s.
Proof. intros H. unfold stail. rewrite H. destruct (pumpStuck s); reflexivity. Qed.

Lemma SWx_noqueue c s : SWx c s -> qof s c = None -> SW s.
Proof.
  intros [W1 W2] Hq. constructor; [|exact W2]. intros d h t X Y.
  destruct (Z.eq_dec d c) as [->|Hne]; [congruence|apply (W1 d h t Hne X Y)].
Qed.

Lemma sstep_SW l s : wf_slab l -> SInv s -> SW s -> SW (sstep l s).
Proof.
  intros Hw Si W. pose proof W as [W1 W2].
  destruct l as [| |c|c|c r valid|c r k|c|c b| | | |]; cbn [sstep wf_slab] in *.
  - (* SStart: the pump starts with an empty context map; there is no queue yet *)
    destruct (negb (running s) && negb (pumpAlive s)) eqn:E; [|exact W].
    apply andb_true_iff in E as [E _]. apply negb_true_iff in E.
    constructor.
    + intros d h t X. change (qof _ d) with (qof s d) in X. rewrite (i_run s Si E d) in X. discriminate.
    + intros d _ _. left. reflexivity.
  - (* SStop *)
    destruct (running s) eqn:Er; [|exact W]. cbv zeta.
    apply fold_disc_SW. constructor; [exact W1|]. intros d R. discriminate.
  - (* Connect *)
    destruct (mem c (conns s)); [exact W|]. cbv zeta.
    set (s1 := upd_conns s (conns s ++ [c])).
    match goal with |- SW (semit ?x _) => apply (SW_same x); [constructor; reflexivity|] end.
    assert (W1' : SW s1) by (apply (SW_same s); [constructor; reflexivity|exact W]).
    destruct (running s1); [|exact W1'].
    destruct (qof s1 c) eqn:Eq; [exact W1'|].
    constructor.
    + intros d h t. unfold qof. cbn. rewrite aget_set. destruct (c =? d); [discriminate|]. apply W1.
    + exact W2.
  - (* Disconnect *)
    destruct (mem c (conns s)); [|exact W].
    apply (SW_disc (upd_conns s (del c (conns s))) c). apply (SW_same s); [constructor; reflexivity|exact W].
  - (* SSend *)
    cbv zeta. set (s1 := set_cbs s c (cbs_of s c ++ [r])).
    assert (W1' : SW s1) by (apply (SW_same s); [apply set_cbs_wsame|exact W]).
    match goal with |- SW (if ?b then _ else _) => destruct b end.
    + match goal with |- SW (semit ?x _) => apply (SW_same x); [constructor; reflexivity|] end.
      destruct W1' as [V1 V2]. constructor.
      * intros d h t. unfold qof, pendof. cbn. fold (pendof s1 d). rewrite aget_set. destruct (c =? d) eqn:E.
        -- apply Z.eqb_eq in E. subst d. intros _ _. left. apply in_snoc. right. reflexivity.
        -- intros X Y. destruct (V1 d h t X Y) as [Z|Z]; [left; apply in_snoc; left; exact Z|right; exact Z].
      * intros d R Y. destruct (V2 d R Y) as [Z|[Z|[Z1 Z2]]]; [left; exact Z|right; left; exact Z|right; right; split; [exact Z1|apply in_snoc; left; exact Z2]].
    + match goal with |- SW (semit ?x _) => apply (SW_same x); [constructor; reflexivity|] end.
      apply (SW_same s1); [apply set_cbs_wsame|exact W1'].
  - (* SReply *)
    destruct (mem c (conns s) && negb (r =? 0) && (pendof s c =? r)) eqn:E; [|exact W].
    apply andb_true_iff in E as [E E3]. apply andb_true_iff in E as [_ E2].
    apply Z.eqb_eq in E3. apply negb_true_iff, Z.eqb_neq in E2.
    assert (X : pendof s c <> 0) by congruence. destruct (i_head s Si c X) as [t Ht]. rewrite E3 in Ht.
    apply SW_cc with (t := t); assumption.
  - (* TimerTok *)
    destruct (running s); [|exact W]. apply (SW_same s); [constructor; reflexivity|exact W].
  - (* SNetFail *)
    apply (SW_same s); [constructor; reflexivity|exact W].
  - (* SPumpStop *)
    destruct (pumpAlive s && stopping s && negb (pumpStuck s)) eqn:E; [|exact W].
    apply andb_true_iff in E as [E _]. apply andb_true_iff in E as [_ E].
    constructor.
    + intros d h t X. unfold qof in X. cbn in X. discriminate.
    + intros d R. cbn in R. rewrite (i_stop s Si E) in R. discriminate.
  - (* SPumpReq *)
    destruct (pumpAlive s && negb (pumpStuck s)); [|exact W].
    destruct (reqC s) as [|c rest] eqn:Er; [exact W|]. cbv zeta.
    set (s0 := upd_reqC s rest).
    set (s1 := if mem c (removed s0) then upd_ctxm (upd_removed s0 (del c (removed s0))) (a_del (ctxm s0) c) else s0).
    (* what is left for the other clients, and the context bookkeeping, after the token of [c] has been taken *)
    assert (X1 : SWx c s1 /\ (mem c (removed s) = true -> ctx_active s1 c = false) /\
                 (mem c (removed s) = false -> ctx_active s1 c = ctx_active s c) /\ reqC s1 = rest /\ readyC s1 = readyC s /\
                 (forall d, qof s1 d = qof s d) /\ (forall d, pendof s1 d = pendof s d) /\ running s1 = running s /\ pumpStuck s1 = pumpStuck s).
    { unfold s1. change (removed s0) with (removed s). destruct (mem c (removed s)) eqn:Em.
      - split; [|repeat split; try reflexivity; try discriminate; intros _; unfold ctx_active; cbn; rewrite aget_del, Z.eqb_refl; reflexivity].
        constructor.
        + intros d h t Hne X Y. change (qof _ d) with (qof s d) in X. change (pendof _ d) with (pendof s d) in Y.
          destruct (W1 d h t X Y) as [Z|Z]; [left; apply (in_tail_other d c rest Z Hne)|right; exact Z].
        + intros d R Y. change (pendof _ d) with (pendof s d) in Y. change (running _) with (running s) in R.
          assert (Hca : ctx_active (upd_ctxm (upd_removed s0 (del c (removed s))) (a_del (ctxm s0) c)) d = if c =? d then false else ctx_active s d).
          { unfold ctx_active. cbn. rewrite aget_del. destruct (c =? d); reflexivity. }
          rewrite Hca. destruct (c =? d) eqn:E; [left; reflexivity|].
          apply Z.eqb_neq in E. destruct (W2 d R Y) as [Z|[Z|[Z1 Z2]]]; [left; exact Z|right; left; exact Z|].
          right. right. split; [change (mem d (del c (removed s)) = true); rewrite mem_del by congruence; exact Z1|apply (in_tail_other d c rest Z2); congruence].
      - split; [|repeat split; try reflexivity; try discriminate].
        constructor.
        + intros d h t Hne X Y. change (qof _ d) with (qof s d) in X. change (pendof _ d) with (pendof s d) in Y.
          destruct (W1 d h t X Y) as [Z|Z]; [left; apply (in_tail_other d c rest Z Hne)|right; exact Z].
        + intros d R Y. change (pendof _ d) with (pendof s d) in Y. change (running _) with (running s) in R.
          change (ctx_active s0 d) with (ctx_active s d).
          destruct (W2 d R Y) as [Z|[Z|[Z1 Z2]]]; [left; exact Z|right; left; exact Z|].
          destruct (Z.eq_dec d c) as [->|Hne]; [change (removed s0) with (removed s); congruence|].
          right. right. split; [exact Z1|apply (in_tail_other d c rest Z2 Hne)]. }
    destruct X1 as (X1 & Xm & Xn & Xr & Xy & Xq & Xp & Xrun & Xst).
    assert (S1 : SInv s1) by (apply (SInv_core s); [unfold s1; destruct (mem c (removed s0)); constructor; reflexivity|exact Si]).
    destruct (qof s1 c) as [l|] eqn:Eq.
    + set (r0 := match a_get (ctxm s1) c with None => true | Some CActive => false | Some CInactive => true end).
      assert (Hr0 : r0 = negb (ctx_active s1 c)).
      { unfold r0, ctx_active. destruct (a_get (ctxm s1) c) as [[|]|]; reflexivity. }
      apply (SW_stail _ c); [apply (SInv_core s1); [constructor; reflexivity|exact S1]|reflexivity|reflexivity| |].
      * apply (SWx_same c s1); [constructor; reflexivity|exact X1].
      * (* not ready for c: its context is active, so no mark was seen, and the old invariant yields a ready token *)
        cbn. intros R h t Hq Hp. rewrite Hr0 in R. apply negb_false_iff in R.
        change (qof _ c) with (qof s1 c) in Hq. change (pendof _ c) with (pendof s1 c) in Hp.
        change (reqC (upd_loc s1 r0 c (Some c))) with (reqC s1). change (readyC (upd_loc s1 r0 c (Some c))) with (readyC s1).
        rewrite Xy. rewrite Xp in Hp. pose proof Eq as Eq'. rewrite Xq in Eq'.
        destruct (mem c (removed s)) eqn:Em; [rewrite (Xm eq_refl) in R; discriminate|].
        rewrite (Xn eq_refl) in R.
        assert (Run : running s = true). { destruct (running s) eqn:X; [reflexivity|]. rewrite (i_run s Si X c) in Eq'. discriminate. }
        destruct (W2 c Run Hp) as [Z|[Z|[Z1 _]]]; [congruence|right; exact Z|congruence].
    + (* no queue: the client is gone, its context goes *)
      match goal with |- SW (upd_loc ?x _ _ _) => apply (SW_same x); [constructor; reflexivity|] end.
      constructor.
      * intros d h t X Y. change (qof _ d) with (qof s1 d) in X. change (pendof _ d) with (pendof s1 d) in Y.
        change (reqC _) with (reqC s1). change (readyC _) with (readyC s1).
        destruct (Z.eq_dec d c) as [->|Hne]; [congruence|]. apply (swx_tok c s1 X1 d h t Hne X Y).
      * intros d R Y. change (pendof _ d) with (pendof s1 d) in Y. change (running _) with (running s1) in R.
        rewrite ctx_active_del. destruct (c =? d); [left; reflexivity|]. apply (swx_ctx c s1 X1 d R Y).
  - (* SPumpReady *)
    destruct (pumpAlive s && negb (pumpStuck s)); [|exact W].
    destruct (readyC s) as [|c rest] eqn:Er; [exact W|]. cbv zeta.
    set (s1 := upd_readyC s rest).
    assert (S1 : SInv s1) by (apply (SInv_core s); [constructor; reflexivity|exact Si]).
    destruct (negb (pendof s1 c =? 0)) eqn:Ep.
    + (* stale token: a request of c is outstanding; nothing to do for c, the others keep their tokens *)
      apply negb_true_iff, Z.eqb_neq in Ep. change (pendof s1 c) with (pendof s c) in Ep.
      match goal with |- SW (upd_loc ?x _ _ _) => apply (SW_same x); [constructor; reflexivity|] end.
      constructor.
      * intros d h t X Y. change (qof s1 d) with (qof s d) in X. change (pendof s1 d) with (pendof s d) in Y.
        change (reqC s1) with (reqC s). change (readyC s1) with rest.
        destruct (Z.eq_dec d c) as [->|Hne]; [congruence|].
        destruct (W1 d h t X Y) as [Z|Z]; [left; exact Z|right; apply (in_tail_other d c rest Z Hne)].
      * intros d R Y. change (pendof s1 d) with (pendof s d) in Y. change (running s1) with (running s) in R.
        change (ctx_active s1 d) with (ctx_active s d). change (reqC s1) with (reqC s). change (readyC s1) with rest. change (removed s1) with (removed s).
        destruct (Z.eq_dec d c) as [->|Hne]; [congruence|].
        destruct (W2 d R Y) as [Z|[Z|Z]]; [left; exact Z|right; left; apply (in_tail_other d c rest Z Hne)|right; right; exact Z].
    + apply negb_false_iff, Z.eqb_eq in Ep. change (pendof s1 c) with (pendof s c) in Ep.
      set (s2 := ctx_deactivate s1 c).
      destruct (ctx_deact_fields s1 c) as (A1 & A2 & A3 & A4 & A5 & A6 & A7 & A8 & A9). fold s2 in A1, A2, A3, A4, A5, A6, A7, A8, A9.
      assert (S2 : SInv s2) by (apply (SInv_core s1); [apply ctx_deactivate_core|exact S1]).
      assert (X2 : SWx c s2).
      { constructor.
        - intros d h t Hne X Y. unfold qof in X. unfold pendof in Y. rewrite A1 in X. rewrite A2 in Y. rewrite A3, A4.
          change (reqC s1) with (reqC s). change (readyC s1) with rest.
          destruct (W1 d h t X Y) as [Z|Z]; [left; exact Z|right; apply (in_tail_other d c rest Z Hne)].
        - intros d R Y. unfold s2 at 1. rewrite ctx_deact_active. unfold pendof in Y. rewrite A2 in Y. rewrite A6 in R. rewrite A3, A4, A5.
          change (reqC s1) with (reqC s). change (readyC s1) with rest. change (removed s1) with (removed s). change (ctx_active s1 d) with (ctx_active s d).
          destruct (c =? d) eqn:E; [left; reflexivity|]. apply Z.eqb_neq in E.
          destruct (W2 d R Y) as [Z|[Z|Z]]; [left; exact Z|right; left; apply (in_tail_other d c rest Z); congruence|right; right; exact Z]. }
      destruct (qof s2 c) eqn:Eq.
      * apply (SW_stail _ c); [apply (SInv_core s2); [constructor; reflexivity|exact S2]|reflexivity|reflexivity| |].
        -- apply (SWx_same c s2); [constructor; reflexivity|exact X2].
        -- cbn. intros R. discriminate.
      * rewrite stail_none by reflexivity.
        apply (SW_same s2); [constructor; reflexivity|]. apply (SWx_noqueue c s2 X2 Eq).
  - (* SPumpTimer *)
    destruct (pumpAlive s && negb (pumpStuck s)); [|exact W].
    destruct (timerC s) as [|c rest] eqn:Er; [exact W|]. cbv zeta.
    set (s1 := upd_loc (upd_timerC s rest) false c None).
    assert (S1 : SInv s1) by (apply (SInv_core s); [constructor; reflexivity|exact Si]).
    assert (W1' : SW s1) by (apply (SW_same s); [constructor; reflexivity|exact W]).
    set (s2 := ctx_deactivate s1 c).
    assert (S2 : SInv s2) by (apply (SInv_core s1); [apply ctx_deactivate_core|exact S1]).
    assert (W2' : SW s2) by (apply SW_deact; exact W1').
    assert (L2 : curQ s2 = None). { unfold s2, ctx_deactivate. destruct (ctx_active s1 c); reflexivity. }
    destruct (negb (pendof s2 c =? 0)) eqn:Ep.
    + apply negb_true_iff, Z.eqb_neq in Ep. destruct (i_head s2 S2 c Ep) as [t Ht]. rewrite Ht.
      rewrite stail_none; [apply SW_cc with (t := t); [exact W2'|exact Ht|reflexivity]|].
      destruct (cc_loc true s2 c (pendof s2 c) 2) as [X _]. rewrite X. exact L2.
    + rewrite stail_none by exact L2. exact W2'.
Qed.


Lemma srun_SW ls : forall s, Forall wf_slab ls -> SInv s -> SW s -> SW (srun ls s).
Proof.
  induction ls as [|l ls IH]; intros s Hw Si W; [exact W|].
  inversion Hw; subst. cbn. apply IH; [assumption|apply sstep_SInv; assumption|apply sstep_SW; assumption].
Qed.

(** C07, server, every schedule, any number of clients: no lost wake-up *)
Theorem s_no_lost_wakeup_S1 : forall cap d ls c h t, Forall wf_slab ls ->
  let s := srun ls (sinit cap d) in
  qof s c = Some (h :: t) -> pendof s c = 0 -> In c (reqC s) \/ In c (readyC s).
Proof. intros cap d ls c h t Hw s. apply sw_tok. apply srun_SW; [exact Hw|apply SInv_init|apply SW_init]. Qed.

(** ... and the wake-up is not held back by a stale timeout context: with nothing outstanding for [c], its context is not
    active, or a ready token of [c] is pending (the pump deactivates the context when it takes it), or the end of [c]'s
    previous session is marked and a request token of [c] is pending (the pump drops the context when it takes it) *)
Theorem s_context_does_not_hold_back_S1 : forall cap d ls c, Forall wf_slab ls ->
  let s := srun ls (sinit cap d) in
  running s = true -> pendof s c = 0 ->
  ctx_active s c = false \/ In c (readyC s) \/ (mem c (removed s) = true /\ In c (reqC s)).
Proof. intros cap d ls c Hw s. apply sw_ctx. apply srun_SW; [exact Hw|apply SInv_init|apply SW_init]. Qed.

(** so when no token is left for the pump, every client has an empty queue or a request outstanding *)
Theorem s_quiescent_means_served_S1 : forall cap d ls c, Forall wf_slab ls ->
  let s := srun ls (sinit cap d) in
  reqC s = [] -> readyC s = [] -> qof s c = None \/ qof s c = Some [] \/ pendof s c <> 0.
Proof.
  intros cap d ls c Hw s R1 R2. destruct (qof s c) as [[|h t]|] eqn:Eq; [right; left; reflexivity| |left; reflexivity].
  right. right. intros Z. destruct (s_no_lost_wakeup_S1 cap d ls c h t Hw Eq Z) as [X|X]; fold s in X; [rewrite R1 in X|rewrite R2 in X]; exact X.
Qed.

(** the premises are met by reachable states: after the schedule of F13 up to the reconnection, and after a reply *)
Example s_wake_premises_met :
  let s1 := srun [SStart; Connect 1; SSend 1 11 true; SPumpReq; Disconnect 1; Connect 1; SSend 1 12 true] (sinit 0 true) in
  let s2 := srun [SStart; Connect 1; SSend 1 11 true; SSend 1 12 true; SPumpReq; SPumpReq; SReply 1 11 0] (sinit 0 true) in
  (qof s1 1 = Some [12] /\ pendof s1 1 = 0 /\ ctx_active s1 1 = true /\ mem 1 (removed s1) = true /\ reqC s1 = [1; 1]) /\
  (qof s2 1 = Some [12] /\ pendof s2 1 = 0 /\ ctx_active s2 1 = true /\ readyC s2 = [1] /\ reqC s2 = []).
Proof. vm_compute. repeat split; reflexivity. Qed.
