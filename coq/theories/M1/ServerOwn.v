(** M1, server: C01's "own caller" for the central system / CSMS in EVERY schedule: the callbacks registered for a client
    are, in order, the requests in that client's queue; so every conclusion reaches the callback of the very request it
    concludes, no conclusion finds the callback queue empty, and the end of a session hands each remaining callback a
    "disconnected" conclusion exactly once. *)
From Verif Require Import Base.Prelude M1.Containers M1.ContainersProofs M1.Server M1.ServerProofs M1.ServerInv.

Definition qlist (s : sv) (c : Z) : list Z := match qof s c with Some l => l | None => [] end.

Definition sown (e : sev) : Prop :=
  match e with
  | SCb _ cb r k => cb = r \/ (r = 0 /\ k = K_DISC)
  | SNoCb _ _ _ => False
  | SPanic => False
  | _ => True
  end.

Record CInv (s : sv) : Prop := {
  c_cb : forall c, cbs_of s c = qlist s c;
  c_own : Forall sown (str s) }.

Lemma CInv_init cap d : CInv (sinit cap d).
Proof. constructor; [intros c; reflexivity|constructor]. Qed.

(** steps that touch neither queues nor callbacks and emit only harmless events *)
Lemma CInv_same s s' : qm s' = qm s -> cbq s' = cbq s -> (exists evs, str s' = evs ++ str s /\ Forall sown evs) -> CInv s -> CInv s'.
Proof.
  intros Hq Hc (evs & He & Hf) [A B]. constructor.
  - intros c. unfold cbs_of, qlist, qof. rewrite Hq, Hc. apply A.
  - rewrite He. apply Forall_app. split; assumption.
Qed.

Lemma no_ev (s s' : sv) : str s' = str s -> exists evs, str s' = evs ++ str s /\ Forall sown evs.
Proof. intros H. exists []. split; [exact H|constructor]. Qed.

Lemma one_ev (s : sv) e : sown e -> exists evs, str (semit s e) = evs ++ str s /\ Forall sown evs.
Proof. intros H. exists [e]. split; [reflexivity|constructor; [exact H|constructor]]. Qed.

Lemma cbs_of_set s c l d : cbs_of (set_cbs s c l) d = if c =? d then l else cbs_of s d.
Proof.
  destruct (c =? d) eqn:E; [apply Z.eqb_eq in E; subst; apply cbs_of_set_same|apply Z.eqb_neq in E; apply cbs_of_set_other; exact E].
Qed.

Lemma set_cbs_fields s c l : qm (set_cbs s c l) = qm s /\ str (set_cbs s c l) = str s /\ pendm (set_cbs s c l) = pendm s.
Proof. unfold set_cbs. destruct l; repeat split; reflexivity. Qed.

(** concluding the head request of client [c], whose callback is the head of [c]'s callbacks *)
Lemma CInv_cc b s c h t k : CInv s -> qof s c = Some (h :: t) -> CInv (sconclude (scomplete b s c h) c h k).
Proof.
  intros [A B] Hq.
  assert (Hcb : cbs_of s c = h :: t) by (rewrite A; unfold qlist; rewrite Hq; reflexivity).
  unfold sconclude, scomplete. rewrite Hq, Z.eqb_refl.
  set (s1 := upd_qm s (a_set (qm s) c t)).
  set (s2 := if pendof s1 c =? h then upd_pendm s1 (a_set (pendm s1) c 0) else s1).
  set (s3 := upd_readyC s2 (readyC s2 ++ [c])).
  set (s4 := semit s3 (SConc c h k)).
  assert (F : qm s4 = a_set (qm s) c t /\ cbq s4 = cbq s /\ str s4 = SConc c h k :: str s).
  { subst s4 s3 s2 s1. destruct (pendof (upd_qm s (a_set (qm s) c t)) c =? h); cbn; repeat split; reflexivity. }
  destruct F as (F1 & F2 & F3).
  unfold deliver. assert (Hcb4 : cbs_of s4 c = h :: t) by (unfold cbs_of; rewrite F2; exact Hcb). rewrite Hcb4.
  destruct (set_cbs_fields s4 c t) as (G1 & G2 & G3).
  constructor.
  - intros d. change (cbs_of (semit (set_cbs s4 c t) (SCb c h h k)) d) with (cbs_of (set_cbs s4 c t) d).
    rewrite cbs_of_set. unfold qlist, qof. change (qm (semit (set_cbs s4 c t) (SCb c h h k))) with (qm (set_cbs s4 c t)).
    rewrite G1, F1, aget_set. destruct (c =? d); [reflexivity|].
    unfold cbs_of. rewrite F2. apply A.
  - change (str (semit (set_cbs s4 c t) (SCb c h h k))) with (SCb c h h k :: str (set_cbs s4 c t)). rewrite G2, F3.
    constructor; [left; reflexivity|]. constructor; [exact I|exact B].
Qed.

Lemma CInv_dispatch s c h t : CInv s -> cur s = c -> qof s c = Some (h :: t) -> pendof s c = 0 -> h <> 0 -> CInv (sdispatch s).
Proof.
  intros Ci Hc Hq Hp Hh. unfold sdispatch. rewrite Hc, Hq, Hp. cbn [Z.eqb andb]. apply Z.eqb_neq in Hh. rewrite Hh. cbn [negb andb].
  set (s1 := upd_pendm s (a_set (pendm s) c h)). set (s2 := semit s1 (SWr c h)).
  assert (C2 : CInv s2) by (apply (CInv_same s); [reflexivity|reflexivity|apply (one_ev s1); exact I|exact Ci]).
  destruct (mem c (conns s2) && negb (mem c (failw s2))).
  - apply (CInv_same s2); [reflexivity|reflexivity|apply no_ev; reflexivity|exact C2].
  - match goal with |- CInv (upd_ctxm ?x _) => apply (CInv_same x); [reflexivity|reflexivity|apply no_ev; reflexivity|] end.
    apply CInv_cc with (t := t); [exact C2|exact Hq].
Qed.

Lemma CInv_stail s : SInv s -> CInv s -> (curQ s = None \/ curQ s = Some (cur s)) -> CInv (stail s).
Proof.
  intros Si Ci Hc. unfold stail. destruct (pumpStuck s); [exact Ci|].
  destruct (curQ s) as [qc|] eqn:Eq; [|exact Ci].
  destruct Hc as [Hc|Hc]; [discriminate|]. inversion Hc; subst qc.
  destruct (rdy s); cbn [andb]; [|exact Ci].
  destruct (qof s (cur s)) as [[|h t]|] eqn:Eqq; cbn [negb andb]; try exact Ci.
  destruct (pendof s (cur s) =? 0) eqn:Ep; [|exact Ci]. apply Z.eqb_eq in Ep.
  match goal with |- CInv (upd_loc ?x _ _ _) => apply (CInv_same x); [reflexivity|reflexivity|apply no_ev; reflexivity|] end.
  apply CInv_dispatch with (c := cur s) (h := h) (t := t); auto.
  pose proof (i_pos s Si (cur s) _ Eqq) as P. inversion P; assumption.
Qed.

(** the end of a session: every remaining callback of [c] gets a "disconnected" conclusion, queue and callbacks go *)
Lemma fold_disc_own c l : forall s, Forall sown (str s) ->
  let s' := fold_left (fun st cb => semit st (SCb c cb 0 K_DISC)) l s in
  Forall sown (str s') /\ qm s' = qm s /\ cbq s' = cbq s.
Proof.
  induction l as [|x l IH]; intros s H; cbv zeta; [repeat split; auto|]. cbn [fold_left].
  destruct (IH (semit s (SCb c x 0 K_DISC))) as (A1 & A2 & A3).
  { cbn. constructor; [right; split; reflexivity|exact H]. }
  repeat split; assumption.
Qed.

Lemma CInv_on_disconnected s c : CInv s -> CInv (on_disconnected s c).
Proof.
  intros [A B]. unfold on_disconnected. cbv zeta.
  set (sq := upd_qm s (a_del (qm s) c)).
  set (s1 := upd_removed sq (c :: del c (removed sq))).
  set (s2 := if running s1 then upd_reqC s1 (reqC s1 ++ [c]) else s1).
  set (s3 := upd_pendm s2 (a_del (pendm s2) c)).
  assert (F3 : qm s3 = a_del (qm s) c /\ cbq s3 = cbq s /\ str s3 = str s).
  { unfold s3, s2. destruct (running s1); unfold s1, sq; cbn; repeat split; reflexivity. }
  destruct F3 as (F1 & F2 & F3).
  destruct (fold_disc_own c (cbs_of s3 c) s3) as (G1 & G2 & G3); [rewrite F3; exact B|].
  set (s4 := fold_left _ (cbs_of s3 c) s3) in *.
  set (s5 := set_cbs s4 c []).
  destruct (set_cbs_fields s4 c []) as (K1 & K2 & _). fold s5 in K1, K2.
  assert (C5 : CInv s5).
  { constructor.
    - intros d. unfold s5. rewrite cbs_of_set. unfold qlist, qof. fold s5. rewrite K1, G2, F1, aget_del.
      destruct (c =? d); [reflexivity|]. unfold cbs_of. rewrite G3, F2. apply A.
    - rewrite K2. exact G1. }
  destruct (drain s5); [|exact C5].
  apply (CInv_same s5); [reflexivity|reflexivity|apply (one_ev s5); exact I|exact C5].
Qed.

Lemma fold_disc_CInv cs : forall st, CInv st -> CInv (fold_left disc cs st).
Proof.
  induction cs as [|c cs IH]; intros st H; [exact H|]. cbn [fold_left]. apply IH. unfold disc.
  apply CInv_on_disconnected. apply (CInv_same st); [reflexivity|reflexivity|apply (one_ev st); exact I|exact H].
Qed.

Lemma sstep_CInv l s : wf_slab l -> SInv s -> CInv s -> CInv (sstep l s).
Proof.
  intros Hw Si Ci. pose proof Ci as [A B].
  destruct l as [| |c|c|c r valid|c r k|c|c b| | | |]; cbn [sstep wf_slab] in *.
  - (* SStart *)
    destruct (negb (running s) && negb (pumpAlive s)); [|exact Ci].
    apply (CInv_same s); [reflexivity|reflexivity|apply no_ev; reflexivity|exact Ci].
  - (* SStop *)
    destruct (running s); [|exact Ci]. cbv zeta.
    change (fun st c => on_disconnected (semit st (SDrop c)) c) with disc.
    apply fold_disc_CInv. apply (CInv_same s); [reflexivity|reflexivity|apply no_ev; reflexivity|exact Ci].
  - (* Connect *)
    destruct (mem c (conns s)); [exact Ci|]. cbv zeta.
    set (s1 := upd_conns s (conns s ++ [c])).
    assert (C1 : CInv s1) by (apply (CInv_same s); [reflexivity|reflexivity|apply no_ev; reflexivity|exact Ci]).
    match goal with |- CInv (semit ?x _) => apply (CInv_same x); [reflexivity|reflexivity|apply (one_ev x); exact I|] end.
    destruct (running s1); [|exact C1].
    destruct (qof s1 c) eqn:Eq; [exact C1|].
    constructor; [|exact B].
    intros d. change (cbs_of (upd_qm s1 (a_set (qm s1) c [])) d) with (cbs_of s d). unfold qlist, qof. cbn. rewrite aget_set.
    destruct (c =? d) eqn:E; [|apply A]. apply Z.eqb_eq in E. subst d. rewrite A. unfold qlist. change (qof s c) with (qof s1 c). rewrite Eq. reflexivity.
  - (* Disconnect *)
    destruct (mem c (conns s)); [|exact Ci].
    apply CInv_on_disconnected.
    match goal with |- CInv (semit ?x _) => apply (CInv_same s); [reflexivity|reflexivity|apply (one_ev x); exact I|exact Ci] end.
  - (* SSend *)
    cbv zeta. set (s1 := set_cbs s c (cbs_of s c ++ [r])).
    destruct (set_cbs_fields s c (cbs_of s c ++ [r])) as (K1 & K2 & _). fold s1 in K1, K2.
    assert (Q1 : forall d, qof s1 d = qof s d) by (intros d; unfold qof; rewrite K1; reflexivity).
    match goal with |- CInv (if ?b then _ else _) => destruct b eqn:E end.
    + apply andb_true_iff in E as [E _]. apply andb_true_iff in E as [E E3]. 
      destruct (qof s1 c) as [l|] eqn:Eq; [|discriminate].
      set (s' := semit (upd_reqC (upd_qm s1 (a_set (qm s1) c (l ++ [r]))) (reqC s1 ++ [c])) (SRet c r 0)).
      assert (F : qm s' = a_set (qm s1) c (l ++ [r]) /\ cbq s' = cbq s1 /\ str s' = SRet c r 0 :: str s1) by (repeat split; reflexivity).
      destruct F as (F1 & F2 & F3).
      constructor.
      * intros d. unfold qlist, qof. rewrite F1, aget_set. unfold cbs_of. rewrite F2. fold (cbs_of s1 d).
        unfold s1 at 1. rewrite cbs_of_set.
        destruct (c =? d); [|rewrite K1; apply A]. rewrite A. unfold qlist. rewrite <- Q1, Eq. reflexivity.
      * rewrite F3, K2. constructor; [exact I|exact B].
    + constructor.
      * intros d. change (cbs_of (semit (set_cbs s1 c (remove_last (cbs_of s1 c))) (SRet c r 1)) d) with (cbs_of (set_cbs s1 c (remove_last (cbs_of s1 c))) d).
        rewrite cbs_of_set. unfold qlist, qof.
        destruct (set_cbs_fields s1 c (remove_last (cbs_of s1 c))) as (M1 & _ & _).
        change (qm (semit (set_cbs s1 c (remove_last (cbs_of s1 c))) (SRet c r 1))) with (qm (set_cbs s1 c (remove_last (cbs_of s1 c)))). rewrite M1, K1.
        destruct (c =? d) eqn:Ed.
        -- apply Z.eqb_eq in Ed. subst d. unfold s1 at 1. rewrite cbs_of_set_same, remove_last_app. apply A.
        -- unfold s1. rewrite cbs_of_set, Ed. apply A.
      * destruct (set_cbs_fields s1 c (remove_last (cbs_of s1 c))) as (_ & M2 & _).
        change (str (semit (set_cbs s1 c (remove_last (cbs_of s1 c))) (SRet c r 1))) with (SRet c r 1 :: str (set_cbs s1 c (remove_last (cbs_of s1 c)))).
        rewrite M2, K2. constructor; [exact I|exact B].
  - (* SReply *)
    destruct (mem c (conns s) && negb (r =? 0) && (pendof s c =? r)) eqn:E; [|exact Ci].
    apply andb_true_iff in E as [E E3]. apply andb_true_iff in E as [_ E2].
    apply Z.eqb_eq in E3. apply negb_true_iff, Z.eqb_neq in E2.
    assert (X : pendof s c <> 0) by congruence. destruct (i_head s Si c X) as [t Ht]. rewrite E3 in Ht.
    apply CInv_cc with (t := t); assumption.
  - (* TimerTok *)
    destruct (running s); [|exact Ci]. apply (CInv_same s); [reflexivity|reflexivity|apply no_ev; reflexivity|exact Ci].
  - (* SNetFail *)
    apply (CInv_same s); [reflexivity|reflexivity|apply no_ev; reflexivity|exact Ci].
  - (* SPumpStop *)
    destruct (pumpAlive s && stopping s && negb (pumpStuck s)) eqn:E; [|exact Ci].
    apply andb_true_iff in E as [E _]. apply andb_true_iff in E as [_ E].
    pose proof (i_run s Si (i_stop s Si E)) as N.
    constructor; [|exact B]. intros d. change (cbs_of (upd_run (upd_qm s []) (running s) false false false) d) with (cbs_of s d).
    rewrite A. unfold qlist. rewrite N. reflexivity.
  - (* SPumpReq *)
    destruct (pumpAlive s && negb (pumpStuck s)); [|exact Ci].
    destruct (reqC s) as [|c rest] eqn:Er; [exact Ci|]. cbv zeta.
    set (s0 := upd_reqC s rest).
    set (s1 := if mem c (removed s0) then upd_ctxm (upd_removed s0 (del c (removed s0))) (a_del (ctxm s0) c) else s0).
    assert (S1 : SInv s1) by (apply (SInv_core s); [unfold s1; destruct (mem c (removed s0)); constructor; reflexivity|exact Si]).
    assert (C1 : CInv s1) by (apply (CInv_same s); [unfold s1; destruct (mem c (removed s0)); reflexivity|unfold s1; destruct (mem c (removed s0)); reflexivity|apply no_ev; unfold s1; destruct (mem c (removed s0)); reflexivity|exact Ci]).
    destruct (qof s1 c) eqn:Eq.
    + apply CInv_stail; [| |right; reflexivity].
      * match goal with |- SInv (upd_loc ?x _ _ _) => apply (SInv_core x); [constructor; reflexivity|exact S1] end.
      * match goal with |- CInv (upd_loc ?x _ _ _) => apply (CInv_same x); [reflexivity|reflexivity|apply no_ev; reflexivity|exact C1] end.
    + match goal with |- CInv (upd_loc ?x _ _ _) => apply (CInv_same s1); [reflexivity|reflexivity|apply no_ev; reflexivity|exact C1] end.
  - (* SPumpReady *)
    destruct (pumpAlive s && negb (pumpStuck s)); [|exact Ci].
    destruct (readyC s) as [|c rest] eqn:Er; [exact Ci|]. cbv zeta.
    set (s1 := upd_readyC s rest).
    assert (S1 : SInv s1) by (apply (SInv_core s); [constructor; reflexivity|exact Si]).
    assert (C1 : CInv s1) by (apply (CInv_same s); [reflexivity|reflexivity|apply no_ev; reflexivity|exact Ci]).
    destruct (negb (pendof s1 c =? 0)).
    + apply (CInv_same s1); [reflexivity|reflexivity|apply no_ev; reflexivity|exact C1].
    + assert (S2 : SInv (ctx_deactivate s1 c)) by (apply (SInv_core s1); [apply ctx_deactivate_core|exact S1]).
      assert (C2 : CInv (ctx_deactivate s1 c)).
      { unfold ctx_deactivate. destruct (ctx_active s1 c); [|exact C1]. apply (CInv_same s1); [reflexivity|reflexivity|apply no_ev; reflexivity|exact C1]. }
      destruct (qof (ctx_deactivate s1 c) c).
      * apply CInv_stail; [| |right; reflexivity].
        -- match goal with |- SInv (upd_loc ?x _ _ _) => apply (SInv_core x); [constructor; reflexivity|exact S2] end.
        -- match goal with |- CInv (upd_loc ?x _ _ _) => apply (CInv_same x); [reflexivity|reflexivity|apply no_ev; reflexivity|exact C2] end.
      * apply CInv_stail; [| |left; reflexivity].
        -- match goal with |- SInv (upd_loc ?x _ _ _) => apply (SInv_core x); [constructor; reflexivity|exact S2] end.
        -- match goal with |- CInv (upd_loc ?x _ _ _) => apply (CInv_same x); [reflexivity|reflexivity|apply no_ev; reflexivity|exact C2] end.
  - (* SPumpTimer *)
    destruct (pumpAlive s && negb (pumpStuck s)); [|exact Ci].
    destruct (timerC s) as [|c rest] eqn:Er; [exact Ci|]. cbv zeta.
    set (s1 := upd_loc (upd_timerC s rest) false c None).
    assert (S1 : SInv s1) by (apply (SInv_core s); [constructor; reflexivity|exact Si]).
    assert (C1 : CInv s1) by (apply (CInv_same s); [reflexivity|reflexivity|apply no_ev; reflexivity|exact Ci]).
    set (s2 := ctx_deactivate s1 c).
    assert (S2 : SInv s2) by (apply (SInv_core s1); [apply ctx_deactivate_core|exact S1]).
    assert (C2 : CInv s2).
    { unfold s2, ctx_deactivate. destruct (ctx_active s1 c); [|exact C1]. apply (CInv_same s1); [reflexivity|reflexivity|apply no_ev; reflexivity|exact C1]. }
    assert (L2 : curQ s2 = None). { unfold s2, ctx_deactivate. destruct (ctx_active s1 c); reflexivity. }
    destruct (negb (pendof s2 c =? 0)) eqn:Ep.
    + apply negb_true_iff, Z.eqb_neq in Ep. destruct (i_head s2 S2 c Ep) as [t Ht]. rewrite Ht.
      apply CInv_stail.
      * apply SInv_cc with (t := t); [exact S2|exact Ht|reflexivity].
      * apply CInv_cc with (t := t); [exact C2|exact Ht].
      * left. destruct (cc_loc true s2 c (pendof s2 c) 2) as [X _]. rewrite X. exact L2.
    + apply CInv_stail; [exact S2|exact C2|left; exact L2].
Qed.

Lemma srun_CInv ls : forall s, Forall wf_slab ls -> SInv s -> CInv s -> CInv (srun ls s).
Proof.
  induction ls as [|l ls IH]; intros s Hw Si Ci; [exact Ci|].
  inversion Hw; subst. cbn. apply IH; [assumption|apply sstep_SInv; assumption|apply sstep_CInv; assumption].
Qed.

(** C01, server, every schedule *)
Theorem s_own_caller_S1 : forall cap d ls, Forall wf_slab ls -> Forall sown (str (srun ls (sinit cap d))).
Proof. intros cap d ls Hw. apply c_own. apply srun_CInv; [exact Hw|apply SInv_init|apply CInv_init]. Qed.

Theorem s_callbacks_are_the_queue_S1 : forall cap d ls c, Forall wf_slab ls ->
  let s := srun ls (sinit cap d) in cbs_of s c = qlist s c.
Proof. intros cap d ls c Hw s. apply c_cb. apply srun_CInv; [exact Hw|apply SInv_init|apply CInv_init]. Qed.
