(** M1, client: C01's "own caller" for EVERY schedule (class S1), possible since the repairs F31/F32/F35/F36: callbacks and
    conclusions are paired by order, and neither survives the session it belongs to. *)
From Coq Require Import List ZArith Bool Lia.
Import ListNotations.
From Verif Require Import M1.Client M1.ClientProofs M1.ContainersProofs.
Open Scope Z_scope.

Lemma complete_cb b s r : cbq (complete b s r) = cbq s /\ stopSig (complete b s r) = stopSig s /\ handlerOn (complete b s r) = handlerOn s /\ concC (complete b s r) = concC s /\ pumpStuck (complete b s r) = pumpStuck s.
Proof. unfold complete. destruct (q s) as [|h t]; [repeat split; reflexivity|]. destruct (h =? r); cbn; repeat split; reflexivity. Qed.

Lemma stop_drain_cb s : cbq (stop_drain s) = cbq s /\ stopSig (stop_drain s) = stopSig s /\ handlerOn (stop_drain s) = handlerOn s /\ concC (stop_drain s) = concC s /\ pumpStuck (stop_drain s) = pumpStuck s.
Proof. unfold stop_drain. destruct (tmo s); cbn; repeat split; reflexivity. Qed.

Definition cbsum (s : cl) : list Z := map fst (concC s) ++ q s.

(** what a step of the pump may do to the pairing of callbacks and conclusions: nothing *)
Definition PumpOk (s s' : cl) : Prop :=
  cbq s' = cbq s /\ started s' = started s /\ closing s' = closing s /\ handlerOn s' = handlerOn s /\ stopSig s' = stopSig s /\
  cbsum s' = cbsum s /\ pumpStuck s' = pumpStuck s /\ exists evs, tr s' = evs ++ tr s /\ Forall own evs.

Lemma PumpOk_refl s : PumpOk s s.
Proof. repeat split. exists []. split; [reflexivity|constructor]. Qed.

Lemma PumpOk_trans s1 s2 s3 : PumpOk s1 s2 -> PumpOk s2 s3 -> PumpOk s1 s3.
Proof.
  intros (A1 & A2 & A3 & A4 & A5 & A6 & A9 & e1 & A7 & A8) (B1 & B2 & B3 & B4 & B5 & B6 & B9 & e2 & B7 & B8).
  repeat split; try congruence. exists (e2 ++ e1). split; [rewrite B7, A7, app_assoc; reflexivity|apply Forall_app; split; assumption].
Qed.

(** a state that differs only in fields the pairing does not read *)
Lemma PumpOk_same s s' : cbq s' = cbq s -> started s' = started s -> closing s' = closing s -> handlerOn s' = handlerOn s ->
  stopSig s' = stopSig s -> concC s' = concC s -> q s' = q s -> tr s' = tr s -> pumpStuck s' = pumpStuck s -> PumpOk s s'.
Proof. intros. unfold PumpOk, cbsum. repeat split; try congruence. exists []. split; [cbn; congruence|constructor]. Qed.

Lemma cc_head b s h t k : q s = h :: t -> PumpOk s (conclude (complete b s h) h k).
Proof.
  intros Hq. unfold conclude, complete. rewrite Hq, Z.eqb_refl. unfold PumpOk, cbsum. cbn.
  repeat split. 
  - rewrite Hq, map_app. cbn. rewrite <- app_assoc. reflexivity.
  - eexists [_]. split; [reflexivity|]. constructor; [exact I|constructor].
Qed.

Lemma dispatch_ok s h t : q s = h :: t -> PumpOk s (dispatch s).
Proof.
  intros Hq. unfold dispatch. rewrite Hq. cbn [head].
  set (s1 := set_pend s _). set (s2 := emit s1 _).
  assert (P2 : PumpOk s s2).
  { unfold PumpOk, cbsum; subst s2 s1; cbn. repeat split. eexists [_]. split; [reflexivity|]. constructor; [exact I|constructor]. }
  destruct (conn s2 && negb (failw s2)); [exact P2|].
  eapply PumpOk_trans; [exact P2|]. apply cc_head with (t := t). subst s2 s1; cbn. exact Hq.
Qed.

Lemma pump_tail_ok s : PumpOk s (pump_tail s).
Proof.
  unfold pump_tail. destruct (pumpStuck s); [apply PumpOk_refl|]. destruct (paused s); [apply PumpOk_refl|].
  destruct (rdy s); cbn [andb]; [|apply PumpOk_refl].
  destruct (q s) as [|h t] eqn:Hq; cbn [negb andb]; [apply PumpOk_refl|].
  destruct (pend s =? 0); [|apply PumpOk_refl].
  pose proof (dispatch_ok s h t Hq) as D.
  destruct (pumpStuck (dispatch s)); [exact D|].
  eapply PumpOk_trans; [exact D|].
  set (s2 := set_rdy (dispatch s) false).
  destruct (stop_drain_cb s2) as (A1 & A2 & A3 & A4 & A5). destruct (stop_drain_core s2) as (B1 & _ & B3 & B4 & _).
  pose proof (stop_drain_closing s2) as B5.
  destruct (pumpStuck (stop_drain s2)) eqn:Eps; apply PumpOk_same; cbn; rewrite ?A1, ?A2, ?A3, ?A4, ?B1, ?B3, ?B4, ?B5; try reflexivity;
    cbn; rewrite ?Eps; exact A5.
Qed.

(** the invariant, for every schedule *)
Record CB (s : cl) : Prop := {
  cb_h : handlerOn s = true -> stopSig s = false -> started s = true /\ closing s = false;
  cb_q0 : started s = false -> q s = [];
  cb_clean : started s = false \/ closing s = true -> cbq s = [];
  cb_cb : started s = true -> closing s = false -> cbq s = cbsum s;
  cb_own : Forall own (tr s);
  cb_ns : pumpStuck s = false }.

Lemma CB_init c t : CB (init c t).
Proof. constructor; cbn; intros; try discriminate; auto. Qed.

Lemma CB_pump s s' : PumpOk s s' -> (started s = false -> q s' = []) -> CB s -> CB s'.
Proof.
  intros (A1 & A2 & A3 & A4 & A5 & A6 & A9 & evs & A7 & A8) Hq0 [H1 H2 H3 H4 H5 H6].
  constructor; rewrite ?A1, ?A2, ?A3, ?A4, ?A5, ?A6, ?A9; try assumption.
  rewrite A7. apply Forall_app. split; assumption.
Qed.

Lemma own_cons e l : own e -> Forall own l -> Forall own (e :: l).
Proof. intros; constructor; assumption. Qed.

Lemma step_CB l s : wf_lab l -> G1 s -> CB s -> CB (step l s).
Proof.
  intros Hw G C. pose proof G as [J1' _ _]. pose proof C as [H1 H2 H3 H4 H5 H6].
  destruct l as [r valid|r k| |dt| | |b| | |r| | | | | |]; cbn [step wf_lab] in *; try contradiction.
  - (* Send *)
    set (s1 := set_cbq s _).
    destruct (started s1 && negb (closing s1) && valid && negb (q_is_full s1)) eqn:E.
    + subst s1; cbn in E. apply andb_true_iff in E as [E _]. apply andb_true_iff in E as [E _]. apply andb_true_iff in E as [E1 E2].
      apply negb_true_iff in E2.
      constructor; cbn; try assumption.
      * intros X; congruence.
      * intros [X|X]; congruence.
      * intros _ _. unfold cbsum; cbn. rewrite (H4 E1 E2). unfold cbsum. rewrite app_assoc. reflexivity.
      * apply own_cons; [exact I|exact H5].
    + subst s1. constructor; cbn; rewrite ?remove_last_app; try assumption. apply own_cons; [exact I|exact H5].
  - (* Reply *)
    destruct (negb (r =? 0) && (pend s =? r)) eqn:E; [|exact C].
    apply andb_true_iff in E as [E1 E2]. apply Z.eqb_eq in E2. apply negb_true_iff, Z.eqb_neq in E1.
    assert (Hne : pend s <> 0) by congruence. destruct (J1' Hne) as [t Ht]. rewrite E2 in Ht.
    apply (CB_pump s); [apply cc_head with (t := t); exact Ht| |exact C].
    intros X. rewrite (H2 X) in Ht. discriminate.
  - (* Expire *)
    destruct (tmo s); [exact C|..]; (apply (CB_pump s); [apply PumpOk_same; reflexivity|exact H2|exact C]).
  - (* Tick *)
    set (s1 := set_now s _).
    assert (C1 : CB s1) by (apply (CB_pump s); [apply PumpOk_same; reflexivity|exact H2|exact C]).
    destruct (tmo s1); try exact C1. destruct (deadline <=? now s1); [|exact C1].
    apply (CB_pump s1); [apply PumpOk_same; reflexivity| |exact C1]. exact H2.
  - (* Drop *)
    destruct (conn s); [|exact C]. cbv zeta. set (s1 := emit (set_conn s false) EDrop).
    assert (C1 : CB s1). { constructor; subst s1; cbn; try assumption. apply own_cons; [exact I|exact H5]. }
    destruct (started s1) eqn:Est; [|exact C1].
    destruct (stop_drain_cb s1) as (A1 & A2 & A3 & A4 & A5). destruct (stop_drain_core s1) as (B1 & _ & B3 & B4 & _).
    pose proof (stop_drain_closing s1) as B5.
    apply (CB_pump s1); [apply PumpOk_same; cbn; rewrite ?A1, ?A2, ?A3, ?A4, ?A5, ?B1, ?B3, ?B4, ?B5; reflexivity| |exact C1].
    intros X. congruence.
  - (* Reconn *)
    destruct (negb (conn s) && started s && negb (closing s)); [|exact C]. cbv zeta.
    set (s1 := emit (set_conn s true) (EReconn (now s))).
    assert (C1 : CB s1). { constructor; subst s1; cbn; try assumption. apply own_cons; [exact I|exact H5]. }
    match goal with |- context [if ?c then _ else _] => destruct c end;
      (apply (CB_pump s1); [apply PumpOk_same; reflexivity| |exact C1]; exact H2).
  - (* NetFail *)
    apply (CB_pump s); [apply PumpOk_same; reflexivity|exact H2|exact C].
  - (* Stop *)
    destruct (started s && negb (closing s)) eqn:E; [|exact C].
    constructor; cbn; try discriminate; auto.
  - (* Start *)
    destruct (negb (started s)) eqn:E; [|exact C]. apply negb_true_iff in E.
    constructor; cbn; try discriminate; auto.
    all: try (intros [X|X]; discriminate).
    intros _ _. unfold cbsum; cbn. rewrite (H2 E), (H3 (or_introl E)). reflexivity.
  - (* PumpStop *)
    destruct (started s && closing s && negb (pumpStuck s)) eqn:E; [|exact C].
    apply andb_true_iff in E as [E _]. apply andb_true_iff in E as [E1 E2].
    constructor; cbn; try discriminate; auto.
    intros X Y. destruct (H1 X Y). congruence.
  - (* PumpReq *)
    match goal with |- context [if ?c then _ else _] => destruct c eqn:E end; [|exact C].
    apply andb_true_iff in E as [E _]. apply andb_true_iff in E as [E _]. unfold pump_can_run in E. apply andb_true_iff in E as [Est _].
    set (s1 := set_reqC s _).
    assert (C1 : CB s1) by (apply (CB_pump s); [apply PumpOk_same; reflexivity|exact H2|exact C]).
    apply (CB_pump s1); [apply pump_tail_ok| |exact C1]. subst s1; cbn. intros X; congruence.
  - (* PumpReady *)
    match goal with |- context [if ?c then _ else _] => destruct c eqn:E end; [|exact C].
    apply andb_true_iff in E as [E _]. unfold pump_can_run in E. apply andb_true_iff in E as [Est _].
    set (s1 := set_rdy _ _).
    assert (C1 : CB s1) by (apply (CB_pump s); [apply PumpOk_same; reflexivity|exact H2|exact C]).
    apply (CB_pump s1); [apply pump_tail_ok| |exact C1]. subst s1; cbn. intros X; congruence.
  - (* PumpTimer *)
    destruct (pump_can_run s && tok s) eqn:E; [|exact C]. cbv zeta.
    apply andb_true_iff in E as [E _]. unfold pump_can_run in E. apply andb_true_iff in E as [Est _].
    set (s1 := set_timer s (tmo s) false).
    assert (C1 : CB s1) by (apply (CB_pump s); [apply PumpOk_same; reflexivity|exact H2|exact C]).
    match goal with |- context [pumpStuck ?x] => set (s2 := x) end.
    assert (P2 : PumpOk s1 s2).
    { subst s2. destruct (negb (pend s1 =? 0)) eqn:Ep; [|apply PumpOk_refl].
      apply negb_true_iff, Z.eqb_neq in Ep. change (pend s1) with (pend s) in Ep. destruct (J1' Ep) as [t Ht].
      change (q s1) with (q s). rewrite Ht. apply cc_head with (t := t). exact Ht. }
    assert (C2 : CB s2). { apply (CB_pump s1); [exact P2| |exact C1]. subst s1; cbn. intros X; congruence. }
    destruct (pumpStuck s2); [exact C2|].
    destruct P2 as (_ & P2s & _).
    apply (CB_pump s2); [eapply PumpOk_trans; [|apply pump_tail_ok]; apply PumpOk_same; reflexivity| |exact C2].
    intros X. rewrite P2s in X. subst s1; cbn in X. congruence.
  - (* Deliver *)
    destruct (handlerOn s && negb (stopSig s)) eqn:E; [|exact C].
    apply andb_true_iff in E as [E1 E2]. apply negb_true_iff in E2.
    destruct (H1 E1 E2) as [Est Ecl].
    destruct (concC s) as [|[r k] rest] eqn:Ecc; [exact C|].
    pose proof (H4 Est Ecl) as Hcb. unfold cbsum in Hcb. rewrite Ecc in Hcb. cbn in Hcb. cbn. rewrite Hcb.
    constructor; cbn; try assumption.
    + intros [X|X]; congruence.
    + intros _ _. reflexivity.
    + apply own_cons; [reflexivity|exact H5].
  - (* DeliverStop *)
    destruct (handlerOn s && stopSig s) eqn:E; [|exact C].
    constructor; cbn; try assumption. intros X; discriminate.
Qed.

Lemma run_CB ls : forall s, Forall wf_lab ls -> G1 s -> CB s -> CB (run ls s).
Proof.
  induction ls as [|l ls IH]; intros s Hw G C; [exact C|].
  inversion Hw; subst. cbn. apply IH; [assumption|apply step_G1; assumption|apply step_CB; assumption].
Qed.

Theorem S1_invariant : forall c t ls, Forall wf_lab ls -> CB (run ls (init c t)).
Proof. intros c t ls Hw. exact (run_CB ls _ Hw (G1_init c t) (CB_init c t)). Qed.

(** C01, every schedule: every callback ever invoked received the conclusion of the very request it was registered for,
    no conclusion found the callback queue empty, and no goroutine of the library panicked *)
Theorem own_caller_S1 : forall c t ls, Forall wf_lab ls -> Forall own (tr (run ls (init c t))).
Proof. intros. apply cb_own. apply S1_invariant; assumption. Qed.

(** C07 / C16, every schedule: the pump is never left blocked *)
Theorem pump_never_stuck_S1 : forall c t ls, Forall wf_lab ls -> pumpStuck (run ls (init c t)) = false.
Proof. intros. apply cb_ns. apply S1_invariant; assumption. Qed.

(** C16, every schedule: callbacks do not outlive their session (while the endpoint is stopped or stopping none is
    registered), and a stopped endpoint holds no queued request *)
Theorem callbacks_die_with_their_session_S1 : forall c t ls, Forall wf_lab ls ->
  let s := run ls (init c t) in (started s = false \/ closing s = true -> cbq s = []) /\ (started s = false -> q s = []).
Proof. intros c t ls Hw s. split; [apply cb_clean|apply cb_q0]; apply S1_invariant; assumption. Qed.

(** ... so a restart, at whatever moment after Stop it comes (the callback routine of the previous session may not even
    have noticed its stop signal), begins with no callback, no travelling conclusion, no wake-up token and an empty queue *)
Theorem restart_begins_empty_S1 : forall c t ls, Forall wf_lab ls ->
  let s := run ls (init c t) in started s = false ->
  let s' := step Start s in
  cbq s' = [] /\ concC s' = [] /\ q s' = [] /\ readyC s' = 0 /\ reqC s' = 0 /\ stopSig s' = false /\ handlerOn s' = true.
Proof.
  intros c t ls Hw s Hs s'. destruct (callbacks_die_with_their_session_S1 c t ls Hw) as [A B]. fold s in A, B.
  subst s'. cbn [step]. rewrite Hs. cbn. rewrite (A (or_introl Hs)), (B Hs). repeat split; reflexivity.
Qed.

(** the callback routine of a stopped session leaves without touching anything the next session uses (repair F35) *)
Theorem handler_exit_touches_nothing : forall s,
  let s' := step DeliverStop s in
  cbq s' = cbq s /\ concC s' = concC s /\ q s' = q s /\ pend s' = pend s /\ tr s' = tr s /\ started s' = started s.
Proof. intros s. cbn [step]. destruct (handlerOn s && stopSig s); cbn; repeat split; reflexivity. Qed.

(** once Stop has been called nothing is delivered until the next Start (repair F36: the stop signal has priority) *)
Theorem nothing_delivered_while_stopped : forall s, stopSig s = true -> step Deliver s = s.
Proof. intros s H. cbn [step]. rewrite H, andb_false_r. reflexivity. Qed.

(** non-vacuity: a schedule outside S0 -- Stop with a conclusion travelling and the old routine leaving only after the
    restart -- on which the new session's request is concluded at its own callback *)
Example S1_restart_demo :
  let ls := [Start; Send 1 true; PumpReq; Reply 1 0; Stop; PumpStop; Start; Send 2 true; DeliverStop; PumpReq; Reply 2 0; Deliver] in
  Forall wf_lab ls /\ run_ok ls (init 2 0) = false /\
  filter (fun e => match e with ECb _ _ _ => true | _ => false end) (tr (run ls (init 2 0))) = [ECb 2 2 0].
Proof. split; [repeat constructor; discriminate|]. vm_compute. split; reflexivity. Qed.
