(** M1, client: C01's "at most once" over the WHOLE history and for EVERY schedule: if the ids handed to the send API are
    pairwise distinct, no request is concluded twice by the OCPP-J layer -- not within a session, not across Stop / Start,
    not across disconnections.  (The per-session statement accepted = concluded ++ queued is [nothing_lost_S1].) *)
From Coq Require Import List ZArith Bool Lia Permutation.
Import ListNotations.
From Verif Require Import M1.Client M1.ClientProofs M1.ContainersProofs M1.ClientOwn.
Open Scope Z_scope.

Lemma nodup_app_l {A} (l l' : list A) : NoDup (l ++ l') -> NoDup l.
Proof.
  induction l as [|x l IH]; intros H; [constructor|]. cbn in H. inversion H; subst. constructor.
  - intros X. match goal with H0 : ~ In x (l ++ l') |- _ => apply H0 end. apply in_or_app. left. exact X.
  - apply IH. assumption.
Qed.

(** every conclusion of the whole trace (newest first) *)
Fixpoint conc_all (t : list ev) : list Z :=
  match t with
  | [] => []
  | EConc r _ _ :: t' => r :: conc_all t'
  | _ :: t' => conc_all t'
  end.

Definition send_ids (ls : list lab) : list Z :=
  flat_map (fun l => match l with Send r _ => [r] | _ => [] end) ls.

(** concluded so far, followed by what is queued *)
Definition M (s : cl) : list Z := conc_all (tr s) ++ q s.

Definition Mv (s s' : cl) : Prop := Permutation (M s') (M s).

Lemma Mv_refl s : Mv s s. Proof. apply Permutation_refl. Qed.
Lemma Mv_trans s1 s2 s3 : Mv s1 s2 -> Mv s2 s3 -> Mv s1 s3.
Proof. unfold Mv. intros A B. eapply Permutation_trans; eassumption. Qed.

Lemma Mv_same s s' : conc_all (tr s') = conc_all (tr s) -> q s' = q s -> Mv s s'.
Proof. intros A B. unfold Mv, M. rewrite A, B. apply Permutation_refl. Qed.

Lemma cc_head_Mv b s h t k : q s = h :: t -> Mv s (conclude (complete b s h) h k).
Proof.
  intros Hq. unfold conclude, complete. rewrite Hq, Z.eqb_refl. unfold Mv, M. cbn. rewrite Hq.
  apply Permutation_middle.
Qed.

Lemma dispatch_Mv s h t : q s = h :: t -> Mv s (dispatch s).
Proof.
  intros Hq. unfold dispatch. rewrite Hq. cbn [head].
  set (s1 := set_pend s _). set (s2 := emit s1 _).
  assert (P2 : Mv s s2) by (apply Mv_same; reflexivity).
  destruct (conn s2 && negb (failw s2)); [exact P2|].
  eapply Mv_trans; [exact P2|]. apply cc_head_Mv with (t := t). subst s2 s1; cbn. exact Hq.
Qed.

Lemma stop_drain_Mv s : Mv s (stop_drain s).
Proof. unfold stop_drain. destruct (tmo s); apply Mv_same; reflexivity. Qed.

Lemma pump_tail_Mv s : Mv s (pump_tail s).
Proof.
  unfold pump_tail. destruct (pumpStuck s); [apply Mv_refl|]. destruct (paused s); [apply Mv_refl|].
  destruct (rdy s); cbn [andb]; [|apply Mv_refl].
  destruct (q s) as [|h t] eqn:Hq; cbn [negb andb]; [apply Mv_refl|].
  destruct (pend s =? 0); [|apply Mv_refl].
  pose proof (dispatch_Mv s h t Hq) as D.
  destruct (pumpStuck (dispatch s)); [exact D|].
  eapply Mv_trans; [exact D|].
  set (s2 := set_rdy (dispatch s) false).
  assert (D2 : Mv (dispatch s) s2) by (apply Mv_same; reflexivity).
  eapply Mv_trans; [exact D2|].
  pose proof (stop_drain_Mv s2) as D3.
  destruct (pumpStuck (stop_drain s2)); [exact D3|].
  eapply Mv_trans; [exact D3|]. apply Mv_same; reflexivity.
Qed.

(** one step: the multiset "concluded or queued" is unchanged, loses queued requests (the pump leaves), or gains the id
    of an accepted Send *)
Lemma step_M l s : wf_lab l -> G1 s ->
  (exists drop, Permutation (M s) (M (step l s) ++ drop)) \/
  (exists r v, l = Send r v /\ M (step l s) = M s ++ [r]).
Proof.
  intros Hw G. pose proof G as [J1' _ _].
  assert (K : forall s', Mv s s' -> (exists drop, Permutation (M s) (M s' ++ drop)) \/ (exists r v, l = Send r v /\ M s' = M s ++ [r])).
  { intros s' H. left. exists []. rewrite app_nil_r. apply Permutation_sym. exact H. }
  destruct l as [r valid|r k| |dt| | |b| | |r| | | | | |]; cbn [step wf_lab] in *; try contradiction.
  - (* Send *)
    set (s1 := set_cbq s _).
    destruct (started s1 && negb (closing s1) && valid && negb (q_is_full s1)).
    + right. exists r, valid. split; [reflexivity|]. unfold M. subst s1; cbn. rewrite app_assoc. reflexivity.
    + apply K. apply Mv_same; reflexivity.
  - (* Reply *)
    destruct (negb (r =? 0) && (pend s =? r)) eqn:E; [|apply K, Mv_refl].
    apply andb_true_iff in E as [E1 E2]. apply Z.eqb_eq in E2. apply negb_true_iff, Z.eqb_neq in E1.
    assert (Hne : pend s <> 0) by congruence. destruct (J1' Hne) as [t Ht]. rewrite E2 in Ht.
    apply K. apply cc_head_Mv with (t := t). exact Ht.
  - (* Expire *) destruct (tmo s); apply K; [apply Mv_refl|apply Mv_same; reflexivity|apply Mv_same; reflexivity].
  - (* Tick *)
    set (s1 := set_now s _). apply K.
    assert (M1 : Mv s s1) by (apply Mv_same; reflexivity).
    destruct (tmo s1); try exact M1. destruct (deadline <=? now s1); [|exact M1].
    eapply Mv_trans; [exact M1|apply Mv_same; reflexivity].
  - (* Drop *)
    apply K. destruct (conn s); [|apply Mv_refl]. cbv zeta. set (s1 := emit (set_conn s false) EDrop).
    assert (M1 : Mv s s1) by (apply Mv_same; reflexivity).
    destruct (started s1); [|exact M1].
    eapply Mv_trans; [exact M1|]. eapply Mv_trans; [apply stop_drain_Mv|]. apply Mv_same; reflexivity.
  - (* Reconn *)
    apply K. destruct (negb (conn s) && started s && negb (closing s)); [|apply Mv_refl]. cbv zeta.
    match goal with |- context [if ?c then _ else _] => destruct c end; apply Mv_same; reflexivity.
  - (* NetFail *) apply K. apply Mv_same; reflexivity.
  - (* Stop *) apply K. destruct (started s && negb (closing s)); [apply Mv_same; reflexivity|apply Mv_refl].
  - (* Start *) apply K. destruct (negb (started s)); [apply Mv_same; reflexivity|apply Mv_refl].
  - (* PumpStop *)
    destruct (started s && closing s && negb (pumpStuck s)); [|apply K, Mv_refl].
    left. exists (q s). unfold M. cbn. rewrite app_nil_r. apply Permutation_refl.
  - (* PumpReq *)
    apply K. match goal with |- context [if ?c then _ else _] => destruct c end; [|apply Mv_refl].
    eapply Mv_trans; [|apply pump_tail_Mv]. apply Mv_same; reflexivity.
  - (* PumpReady *)
    apply K. match goal with |- context [if ?c then _ else _] => destruct c end; [|apply Mv_refl].
    eapply Mv_trans; [|apply pump_tail_Mv]. apply Mv_same; reflexivity.
  - (* PumpTimer *)
    apply K. destruct (pump_can_run s && tok s); [|apply Mv_refl]. cbv zeta.
    set (s1 := set_timer s (tmo s) false).
    assert (M1 : Mv s s1) by (apply Mv_same; reflexivity).
    match goal with |- context [pumpStuck ?x] => set (s2 := x) end.
    assert (M2 : Mv s1 s2).
    { subst s2. destruct (negb (pend s1 =? 0)) eqn:Ep; [|apply Mv_refl].
      apply negb_true_iff, Z.eqb_neq in Ep. change (pend s1) with (pend s) in Ep. destruct (J1' Ep) as [t Ht].
      change (q s1) with (q s). rewrite Ht. apply cc_head_Mv with (t := t). exact Ht. }
    destruct (pumpStuck s2); [exact (Mv_trans _ _ _ M1 M2)|].
    eapply Mv_trans; [exact M1|]. eapply Mv_trans; [exact M2|].
    eapply Mv_trans; [|apply pump_tail_Mv]. apply Mv_same; reflexivity.
  - (* Deliver *)
    apply K. destruct (handlerOn s && negb (stopSig s)); [|apply Mv_refl].
    destruct (concC s) as [|[r k] rest]; [apply Mv_refl|].
    destruct (cbq (set_concC s rest)); apply Mv_same; reflexivity.
  - (* DeliverStop *)
    apply K. destruct (handlerOn s && stopSig s); [apply Mv_same; reflexivity|apply Mv_refl].
Qed.

(** the invariant over a run: concluded-or-queued ids are distinct and are ids that were handed to the send API *)
Lemma run_once ls : forall s used, Forall wf_lab ls -> G1 s ->
  NoDup (M s) -> incl (M s) used -> NoDup (used ++ send_ids ls) ->
  NoDup (M (run ls s)).
Proof.
  induction ls as [|l ls IH]; intros s used Hw G Hn Hi Hu; [exact Hn|].
  inversion Hw as [|? ? Hl Hls]; subst. cbn [run fold_left].
  change (fold_left (fun s0 l0 => step l0 s0) ls (step l s)) with (run ls (step l s)).
  pose proof (step_G1 l s Hl G) as G'.
  destruct (step_M l s Hl G) as [[drop Hp]|(r & v & El & Em)].
  - (* no new id *)
    assert (Hn' : NoDup (M (step l s))).
    { apply (Permutation_NoDup Hp) in Hn. apply nodup_app_l in Hn. exact Hn. }
    assert (Hi' : incl (M (step l s)) used).
    { intros x Hx. apply Hi. apply (Permutation_in x (Permutation_sym Hp)). apply in_or_app. left. exact Hx. }
    apply (IH (step l s) used Hls G' Hn' Hi').
    destruct l; cbn [send_ids flat_map] in Hu; try exact Hu.
    (* a refused Send: its id is simply never used *)
    cbn in Hu. apply NoDup_remove_1 in Hu. exact Hu.
  - subst l. cbn [send_ids flat_map] in Hu. cbn in Hu.
    assert (Hr : ~ In r used).
    { apply NoDup_remove_2 in Hu. intros X. apply Hu. apply in_or_app. left. exact X. }
    assert (Hn' : NoDup (M (step (Send r v) s))).
    { rewrite Em. apply (Permutation_NoDup (Permutation_cons_append (M s) r)). constructor; [intros X; apply Hr, Hi, X|exact Hn]. }
    assert (Hi' : incl (M (step (Send r v) s)) (r :: used)).
    { rewrite Em. intros x Hx. apply in_app_or in Hx. destruct Hx as [Hx|[Hx|[]]]; [right; apply Hi, Hx|left; exact Hx]. }
    apply (IH (step (Send r v) s) (r :: used) Hls G' Hn' Hi').
    apply (Permutation_NoDup (l := used ++ r :: send_ids ls)); [|exact Hu].
    apply Permutation_sym. apply (Permutation_middle used (send_ids ls) r).
Qed.

Theorem concluded_at_most_once_S1 : forall c t ls, Forall wf_lab ls -> NoDup (send_ids ls) ->
  NoDup (conc_all (tr (run ls (init c t)))).
Proof.
  intros c t ls Hw Hd.
  assert (H : NoDup (M (run ls (init c t)))).
  { apply (run_once ls (init c t) []); [exact Hw|apply G1_init|constructor|intros x []|exact Hd]. }
  unfold M in H. apply nodup_app_l in H. exact H.
Qed.

(** non-vacuity: a history with a timeout, a reply, a restart and a failed write -- four conclusions, all different *)
Example once_demo :
  let ls := [Start; Send 1 true; Send 2 true; PumpReq; PumpReq; Expire; PumpTimer; PumpReady; Reply 2 0; Stop; PumpStop; Start;
             Send 3 true; PumpReq; NetFail true; Send 4 true; Reply 3 0; PumpReq; PumpReady] in
  Forall wf_lab ls /\ NoDup (send_ids ls) /\ conc_all (tr (run ls (init 0 0))) = [4; 3; 2; 1].
Proof.
  cbv zeta. split; [repeat constructor; discriminate|]. split.
  - cbn. repeat constructor; cbn; intuition discriminate.
  - vm_compute. reflexivity.
Qed.
