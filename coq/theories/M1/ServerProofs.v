(** Proofs about the server endpoint model (M1/Server.v). *)
From Verif Require Import Base.Prelude M1.Containers M1.Server.

(* ---- association lists ---- *)
Lemma a_get_set_same {V} (m : list (Z * V)) k v : a_get (a_set m k v) k = Some v.
Proof. induction m as [|[k' v'] m IH]; cbn; [rewrite Z.eqb_refl; reflexivity|]. destruct (k' =? k) eqn:E; cbn; [rewrite Z.eqb_refl; reflexivity|rewrite E; exact IH]. Qed.

Lemma a_get_set_other {V} (m : list (Z * V)) k k' v : k <> k' -> a_get (a_set m k v) k' = a_get m k'.
Proof.
  intros H. induction m as [|[k0 v0] m IH]; cbn.
  - destruct (k =? k') eqn:E; [apply Z.eqb_eq in E; congruence|reflexivity].
  - destruct (k0 =? k) eqn:E; cbn.
    + apply Z.eqb_eq in E. subst k0. destruct (k =? k') eqn:E2; [apply Z.eqb_eq in E2; congruence|reflexivity].
    + destruct (k0 =? k'); [reflexivity|exact IH].
Qed.

Lemma a_get_del_same {V} (m : list (Z * V)) k : a_get (a_del m k) k = None.
Proof. induction m as [|[k' v'] m IH]; cbn; [reflexivity|]. destruct (k' =? k) eqn:E; cbn; [exact IH|rewrite E; exact IH]. Qed.

Lemma a_get_del_other {V} (m : list (Z * V)) k k' : k <> k' -> a_get (a_del m k) k' = a_get m k'.
Proof.
  intros H. induction m as [|[k0 v0] m IH]; cbn; [reflexivity|].
  destruct (k0 =? k) eqn:E; cbn.
  - apply Z.eqb_eq in E. subst k0. destruct (k =? k') eqn:E2; [apply Z.eqb_eq in E2; congruence|exact IH].
  - destruct (k0 =? k'); [reflexivity|exact IH].
Qed.

(** what a client "owns" in the server state *)
Definition view (s : sv) (c : Z) : option (list Z) * Z * list Z := (qof s c, pendof s c, cbs_of s c).

Lemma cbs_of_set_other s c c' l : c <> c' -> cbs_of (set_cbs s c l) c' = cbs_of s c'.
Proof.
  intros H. unfold cbs_of, set_cbs. destruct l; cbn; [rewrite a_get_del_other by exact H|rewrite a_get_set_other by exact H]; reflexivity.
Qed.

Lemma cbs_of_set_same s c l : cbs_of (set_cbs s c l) c = l.
Proof.
  unfold cbs_of, set_cbs. destruct l; cbn; [rewrite a_get_del_same|rewrite a_get_set_same]; reflexivity.
Qed.

(** C09, server: a reply whose id is not the id pending on that same connection changes nothing *)
Theorem s_foreign_reply_noop : forall s c r k,
  (pendof s c <> r \/ r = 0 \/ mem c (conns s) = false) -> sstep (SReply c r k) s = s.
Proof.
  intros s c r k H. cbn [sstep].
  destruct (mem c (conns s)) eqn:E1; [|reflexivity]. destruct (r =? 0) eqn:E2; [reflexivity|].
  destruct (pendof s c =? r) eqn:E3; [|reflexivity].
  apply Z.eqb_eq in E3. apply Z.eqb_neq in E2. destruct H as [H|[H|H]]; congruence.
Qed.

Theorem s_foreign_reply_erasable : forall l1 l2 s c r k,
  (pendof (srun l1 s) c <> r \/ r = 0 \/ mem c (conns (srun l1 s)) = false) ->
  srun (l1 ++ SReply c r k :: l2) s = srun (l1 ++ l2) s.
Proof.
  intros l1 l2 s c r k H. unfold srun. rewrite !fold_left_app. cbn [fold_left].
  fold (srun l1 s). rewrite s_foreign_reply_noop by exact H. reflexivity.
Qed.

(** C11: a request addressed to a client that has no queue (not connected) is rejected at once:
    nothing queued, no token for the pump, no callback retained, nothing written *)
Theorem s_unknown_client_rejected : forall s c r v, qof s c = None ->
  let s' := sstep (SSend c r v) s in
  qm s' = qm s /\ pendm s' = pendm s /\ reqC s' = reqC s /\ readyC s' = readyC s /\ timerC s' = timerC s /\
  cbs_of s' c = cbs_of s c /\ (forall c', c' <> c -> cbs_of s' c' = cbs_of s c') /\
  str s' = SRet c r 1 :: str s.
Proof.
  intros s c r v Hq. cbn [sstep]. cbv zeta.
  set (s1 := set_cbs s c (cbs_of s c ++ [r])).
  assert (Hq1 : qof s1 c = None) by (subst s1; unfold qof, set_cbs; destruct (cbs_of s c ++ [r]); cbn; exact Hq).
  rewrite Hq1. rewrite !andb_false_r. cbn [andb].
  set (s2 := set_cbs s1 c (remove_last (cbs_of s1 c))).
  assert (F : forall st cc l, qm (set_cbs st cc l) = qm st /\ pendm (set_cbs st cc l) = pendm st /\
              reqC (set_cbs st cc l) = reqC st /\ readyC (set_cbs st cc l) = readyC st /\
              timerC (set_cbs st cc l) = timerC st /\ str (set_cbs st cc l) = str st).
  { intros st cc l. unfold set_cbs. destruct l; cbn; repeat split; reflexivity. }
  destruct (F s1 c (remove_last (cbs_of s1 c))) as (A1 & A2 & A3 & A4 & A5 & A6). fold s2 in A1, A2, A3, A4, A5, A6.
  destruct (F s c (cbs_of s c ++ [r])) as (B1 & B2 & B3 & B4 & B5 & B6). fold s1 in B1, B2, B3, B4, B5, B6.
  change (qm (semit s2 (SRet c r 1))) with (qm s2). change (pendm (semit s2 (SRet c r 1))) with (pendm s2).
  change (reqC (semit s2 (SRet c r 1))) with (reqC s2). change (readyC (semit s2 (SRet c r 1))) with (readyC s2).
  change (timerC (semit s2 (SRet c r 1))) with (timerC s2).
  change (str (semit s2 (SRet c r 1))) with (SRet c r 1 :: str s2).
  split; [congruence|]. split; [congruence|]. split; [congruence|]. split; [congruence|]. split; [congruence|].
  split; [|split; [|congruence]].
  - change (cbs_of (semit s2 (SRet c r 1)) c) with (cbs_of s2 c). subst s2.
    rewrite cbs_of_set_same. subst s1. rewrite cbs_of_set_same. apply remove_last_app.
  - intros c' Hc'. change (cbs_of (semit s2 (SRet c r 1)) c') with (cbs_of s2 c'). subst s2.
    rewrite cbs_of_set_other by congruence. subst s1. rewrite cbs_of_set_other by congruence. reflexivity.
Qed.

(** C11: when a client's session ends nothing of it stays behind in the endpoint's containers:
    no queue (so no queued call), no pending id, no callback -- whatever the state was *)
Theorem s_disconnect_leaves_nothing : forall s c, mem c (conns s) = true ->
  let s' := sstep (Disconnect c) s in
  qof s' c = None /\ pendof s' c = 0 /\ cbs_of s' c = [].
Proof.
  intros s c Hm. cbn [sstep]. rewrite Hm. unfold on_disconnected. cbv zeta.
  set (s0 := semit (upd_conns s (del c (conns s))) (SDrop c)).
  set (sq := upd_qm s0 (a_del (qm s0) c)).
  set (s1 := upd_removed sq (c :: del c (removed sq))).
  set (s2 := if running s1 then upd_reqC s1 (reqC s1 ++ [c]) else s1).
  set (s3 := upd_pendm s2 (a_del (pendm s2) c)).
  set (s4 := fold_left (fun st cb => semit st (SCb c cb 0 K_DISC)) (cbs_of s3 c) s3).
  assert (F : forall l st, qm (fold_left (fun st cb => semit st (SCb c cb 0 K_DISC)) l st) = qm st /\
                           pendm (fold_left (fun st cb => semit st (SCb c cb 0 K_DISC)) l st) = pendm st /\
                           drain (fold_left (fun st cb => semit st (SCb c cb 0 K_DISC)) l st) = drain st).
  { induction l as [|x l IH]; intros st; [auto|]. cbn [fold_left]. destruct (IH (semit st (SCb c x 0 K_DISC))) as (A & B & C). auto. }
  destruct (F (cbs_of s3 c) s3) as (Fq & Fp & Fd). fold s4 in Fq, Fp, Fd.
  assert (Q : qof (set_cbs s4 c []) c = None).
  { unfold qof. change (qm (set_cbs s4 c [])) with (qm s4). rewrite Fq. subst s3 s2 s1 sq. destruct (running _); cbn; apply a_get_del_same. }
  assert (P : pendof (set_cbs s4 c []) c = 0).
  { unfold pendof. change (pendm (set_cbs s4 c [])) with (pendm s4). rewrite Fp. subst s3. cbn. rewrite a_get_del_same. reflexivity. }
  destruct (drain (set_cbs s4 c [])); repeat split; try exact Q; try exact P;
    try (change (cbs_of (semit (set_cbs s4 c []) (SGone c)) c) with (cbs_of (set_cbs s4 c []) c)); apply cbs_of_set_same.
Qed.

(* ------------------------------------------------------------------ *)
(** * C11, isolation: what a handler does for client [c] leaves every other client's queue, pending id and callbacks
    untouched, in every state (hence in every schedule).  The pump labels are not covered: the pump serves all
    clients, and its stale loop variables (finding F1) are exactly a violation of this at pump level. *)

Definition concerns (l : slab) (c : Z) : Prop :=
  match l with
  | Connect x | Disconnect x | SSend x _ _ | SReply x _ _ | SNetFail x _ | TimerTok x => x = c
  | _ => False
  end.

Lemma view_semit s e d : view (semit s e) d = view s d.
Proof. reflexivity. Qed.

Lemma view_fold_semit (f : Z -> sev) l s d : view (fold_left (fun st cb => semit st (f cb)) l s) d = view s d.
Proof. revert s. induction l as [|x l IH]; intros s; cbn [fold_left]; [reflexivity|]. rewrite IH. reflexivity. Qed.

Lemma view_set_cbs_other s c l d : c <> d -> view (set_cbs s c l) d = view s d.
Proof.
  intros H. unfold view. rewrite cbs_of_set_other by exact H.
  unfold qof, pendof, set_cbs. reflexivity.
Qed.

Lemma view_upd_qm_set_other s c l d : c <> d -> view (upd_qm s (a_set (qm s) c l)) d = view s d.
Proof. intros H. unfold view, qof, pendof, cbs_of. cbn. rewrite a_get_set_other by exact H. reflexivity. Qed.

Lemma view_upd_qm_del_other s c d : c <> d -> view (upd_qm s (a_del (qm s) c)) d = view s d.
Proof. intros H. unfold view, qof, pendof, cbs_of. cbn. rewrite a_get_del_other by exact H. reflexivity. Qed.

Lemma view_upd_pendm_set_other s c v d : c <> d -> view (upd_pendm s (a_set (pendm s) c v)) d = view s d.
Proof. intros H. unfold view, qof, pendof, cbs_of. cbn. rewrite a_get_set_other by exact H. reflexivity. Qed.

Lemma view_upd_pendm_del_other s c d : c <> d -> view (upd_pendm s (a_del (pendm s) c)) d = view s d.
Proof. intros H. unfold view, qof, pendof, cbs_of. cbn. rewrite a_get_del_other by exact H. reflexivity. Qed.

Lemma view_on_disconnected s c d : c <> d -> view (on_disconnected s c) d = view s d.
Proof.
  intros H. unfold on_disconnected. cbv zeta.
  set (sq := upd_qm s (a_del (qm s) c)).
  set (s1 := upd_removed sq (c :: del c (removed sq))).
  set (s2 := if running s1 then upd_reqC s1 (reqC s1 ++ [c]) else s1).
  set (s3 := upd_pendm s2 (a_del (pendm s2) c)).
  set (s4 := fold_left (fun st cb => semit st (SCb c cb 0 K_DISC)) (cbs_of s3 c) s3).
  assert (V1 : view s1 d = view s d) by (change (view s1 d) with (view sq d); apply view_upd_qm_del_other; exact H).
  assert (V2 : view s2 d = view s d) by (subst s2; destruct (running s1); [exact V1|exact V1]).
  assert (V3 : view s3 d = view s d) by (subst s3; rewrite view_upd_pendm_del_other by exact H; exact V2).
  assert (V4 : view s4 d = view s d) by (subst s4; rewrite (view_fold_semit (fun cb => SCb c cb 0 K_DISC)); exact V3).
  assert (V5 : view (set_cbs s4 c []) d = view s d) by (rewrite view_set_cbs_other by exact H; exact V4).
  destruct (drain (set_cbs s4 c [])); [rewrite view_semit|]; exact V5.
Qed.

Lemma view_scomplete b s c r d : c <> d -> view (scomplete b s c r) d = view s d.
Proof.
  intros H. unfold scomplete. destruct (qof s c) as [[|h t]|]; try reflexivity.
  destruct (h =? r); [|reflexivity]. cbv zeta.
  set (s1 := upd_qm s (a_set (qm s) c t)).
  assert (V1 : view s1 d = view s d) by (apply view_upd_qm_set_other; exact H).
  set (s2 := if pendof s1 c =? r then upd_pendm s1 (a_set (pendm s1) c 0) else s1).
  assert (V2 : view s2 d = view s d).
  { subst s2. destruct (pendof s1 c =? r); [rewrite view_upd_pendm_set_other by exact H|]; exact V1. }
  exact V2.
Qed.

Lemma view_deliver s c r k d : c <> d -> view (deliver s c r k) d = view s d.
Proof.
  intros H. unfold deliver. destruct (cbs_of s c) as [|cb rest]; [reflexivity|].
  rewrite view_semit. apply view_set_cbs_other. exact H.
Qed.

Theorem s_handler_isolation : forall l s c d, concerns l c -> c <> d -> view (sstep l s) d = view s d.
Proof.
  intros l s c d Hc Hne. destruct l; cbn [concerns] in Hc; try contradiction; subst.
  - (* Connect *)
    cbn [sstep]. destruct (mem c (conns s)); [reflexivity|]. cbv zeta. rewrite view_semit.
    set (s1 := upd_conns s (conns s ++ [c])).
    destruct (running s1); [|reflexivity].
    destruct (qof s1 c); [reflexivity|]. rewrite view_upd_qm_set_other by exact Hne. reflexivity.
  - (* Disconnect *)
    cbn [sstep]. destruct (mem c (conns s)); [|reflexivity]. rewrite view_on_disconnected by exact Hne. reflexivity.
  - (* SSend *)
    cbn [sstep]. cbv zeta. set (s1 := set_cbs s c (cbs_of s c ++ [r])).
    assert (V1 : view s1 d = view s d) by (apply view_set_cbs_other; exact Hne).
    destruct (running s1 && valid && match qof s1 c with Some _ => true | None => false end &&
              negb match qof s1 c with Some l => (qcap s1 <=? zlen l) && (0 <? qcap s1) | None => false end).
    + rewrite view_semit.
      change (view (upd_reqC (upd_qm s1 (a_set (qm s1) c (match qof s1 c with Some l => l | None => [] end ++ [r]))) (reqC s1 ++ [c])) d)
        with (view (upd_qm s1 (a_set (qm s1) c (match qof s1 c with Some l => l | None => [] end ++ [r]))) d).
      rewrite view_upd_qm_set_other by exact Hne. exact V1.
    + rewrite view_semit, view_set_cbs_other by exact Hne. exact V1.
  - (* SReply *)
    cbn [sstep]. destruct (mem c (conns s) && negb (r =? 0) && (pendof s c =? r)); [|reflexivity].
    unfold sconclude. rewrite view_deliver by exact Hne. rewrite view_semit. apply view_scomplete. exact Hne.
  - (* TimerTok *) cbn [sstep]. destruct (running s); reflexivity.
  - (* SNetFail *) reflexivity.
Qed.

(** ... and over any number of such handler steps *)
Theorem s_handlers_isolation : forall ls s d,
  Forall (fun l => exists c, concerns l c /\ c <> d) ls -> view (srun ls s) d = view s d.
Proof.
  induction ls as [|l ls IH]; intros s d H; [reflexivity|].
  inversion H as [|? ? [c [Hc Hne]] Hr]; subst. unfold srun. cbn [fold_left]. fold (srun ls (sstep l s)).
  rewrite IH by exact Hr. apply (s_handler_isolation l s c d Hc Hne).
Qed.

(** ... and what such a handler makes observable (replies to the application, writes, conclusions, callbacks, connect /
    disconnect notifications) concerns that client only. *)
Definition ev_client (e : sev) : option Z :=
  match e with
  | SRet c _ _ | SWr c _ | SConc c _ _ | SCb c _ _ _ | SNoCb c _ _ | SNew c | SGone c | SDrop c => Some c
  | SPanic => None
  end.

Definition only_about (c : Z) (s s' : sv) : Prop :=
  exists new, str s' = new ++ str s /\ Forall (fun e => ev_client e = Some c) new.

Lemma only_about_refl c s : only_about c s s.
Proof. exists []. split; [reflexivity|constructor]. Qed.

Lemma only_about_trans c s1 s2 s3 : only_about c s1 s2 -> only_about c s2 s3 -> only_about c s1 s3.
Proof.
  intros [n1 [E1 F1]] [n2 [E2 F2]]. exists (n2 ++ n1). split.
  - rewrite E2, E1, app_assoc. reflexivity.
  - apply Forall_app. split; assumption.
Qed.

Lemma only_about_semit c s e : ev_client e = Some c -> only_about c s (semit s e).
Proof. intros H. exists [e]. split; [reflexivity|constructor; [exact H|constructor]]. Qed.

Lemma only_about_same_str c s s' : str s' = str s -> only_about c s s'.
Proof. intros H. exists []. split; [exact H|constructor]. Qed.

Lemma only_about_fold c l s : only_about c s (fold_left (fun st cb => semit st (SCb c cb 0 K_DISC)) l s).
Proof.
  revert s. induction l as [|x l IH]; intros s; cbn [fold_left]; [apply only_about_refl|].
  eapply only_about_trans; [apply (only_about_semit c s (SCb c x 0 K_DISC)); reflexivity|apply IH].
Qed.

Lemma only_about_on_disconnected c s : only_about c s (on_disconnected s c).
Proof.
  unfold on_disconnected. cbv zeta.
  set (sq := upd_qm s (a_del (qm s) c)).
  set (s1 := upd_removed sq (c :: del c (removed sq))).
  set (s2 := if running s1 then upd_reqC s1 (reqC s1 ++ [c]) else s1).
  set (s3 := upd_pendm s2 (a_del (pendm s2) c)).
  set (s4 := fold_left (fun st cb => semit st (SCb c cb 0 K_DISC)) (cbs_of s3 c) s3).
  assert (A3 : only_about c s s3).
  { apply only_about_same_str. subst s3 s2 s1 sq. destruct (running _); reflexivity. }
  assert (A4 : only_about c s s4) by (eapply only_about_trans; [exact A3|apply only_about_fold]).
  assert (A5 : only_about c s (set_cbs s4 c [])).
  { eapply only_about_trans; [exact A4|]. apply only_about_same_str. reflexivity. }
  destruct (drain (set_cbs s4 c [])); [|exact A5].
  eapply only_about_trans; [exact A5|apply only_about_semit; reflexivity].
Qed.

Lemma str_scomplete b s c r : str (scomplete b s c r) = str s.
Proof.
  unfold scomplete. destruct (qof s c) as [[|h t]|]; try reflexivity.
  destruct (h =? r); [|reflexivity]. cbv zeta.
  destruct (pendof (upd_qm s (a_set (qm s) c t)) c =? r); reflexivity.
Qed.

Lemma only_about_deliver c s r k : only_about c s (deliver s c r k).
Proof.
  unfold deliver. destruct (cbs_of s c) as [|cb rest].
  - apply only_about_semit. reflexivity.
  - eapply only_about_trans; [apply (only_about_same_str c s (set_cbs s c rest)); reflexivity|apply only_about_semit; reflexivity].
Qed.

Theorem s_handler_speaks_of_its_client : forall l s c, concerns l c -> only_about c s (sstep l s).
Proof.
  intros l s c Hc. destruct l; cbn [concerns] in Hc; try contradiction; subst.
  - (* Connect *)
    cbn [sstep]. destruct (mem c (conns s)); [apply only_about_refl|]. cbv zeta.
    set (s1 := upd_conns s (conns s ++ [c])).
    eapply only_about_trans; [|apply only_about_semit; reflexivity].
    apply only_about_same_str. destruct (running s1); [destruct (qof s1 c)|]; reflexivity.
  - (* Disconnect *)
    cbn [sstep]. destruct (mem c (conns s)); [|apply only_about_refl].
    eapply only_about_trans; [apply (only_about_same_str c s (upd_conns s (del c (conns s)))); reflexivity|].
    apply (only_about_trans c _ (semit (upd_conns s (del c (conns s))) (SDrop c))); [apply only_about_semit; reflexivity|apply only_about_on_disconnected].
  - (* SSend *)
    cbn [sstep]. cbv zeta. set (s1 := set_cbs s c (cbs_of s c ++ [r])).
    match goal with |- context [if ?b then _ else _] => destruct b end.
    + eapply only_about_trans; [|apply only_about_semit; reflexivity]. apply only_about_same_str. reflexivity.
    + eapply only_about_trans; [|apply only_about_semit; reflexivity]. apply only_about_same_str. reflexivity.
  - (* SReply *)
    cbn [sstep]. match goal with |- context [if ?b then _ else _] => destruct b end; [|apply only_about_refl].
    unfold sconclude.
    eapply only_about_trans; [|apply only_about_deliver].
    eapply only_about_trans; [apply (only_about_same_str c s (scomplete false s c r)); apply str_scomplete|].
    apply only_about_semit. reflexivity.
  - (* TimerTok *) cbn [sstep]. destruct (running s); apply only_about_same_str; reflexivity.
  - (* SNetFail *) apply only_about_same_str. reflexivity.
Qed.
