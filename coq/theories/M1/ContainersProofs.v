(** Proofs about the container models (C12). *)
From Verif Require Import Base.Prelude M1.Containers.
From Coq Require Import ZifyBool.

(* ------------------------------------------------------------------ *)
(** * Queue: bound, back-pressure, FIFO refinement *)

Definition q_inv (q : queue) : Prop := 0 < qcap q -> zlen (qels q) <= qcap q.

Lemma zlen_app {A} (a b : list A) : zlen (a ++ b) = zlen a + zlen b.
Proof. unfold zlen. rewrite app_length. lia. Qed.

Lemma zlen_cons {A} (x : A) l : zlen (x :: l) = 1 + zlen l.
Proof. unfold zlen. cbn [length]. lia. Qed.

Lemma zlen_nonneg {A} (l : list A) : 0 <= zlen l.
Proof. unfold zlen. lia. Qed.

Lemma q_step_cap q o : qcap (fst (q_step q o)) = qcap q.
Proof.
  destruct o; cbn; try reflexivity.
  - unfold q_push. destruct (q_full q); reflexivity.
  - unfold q_pop. destruct (qels q); reflexivity.
Qed.

Lemma q_step_inv q o : q_inv q -> q_inv (fst (q_step q o)).
Proof.
  unfold q_inv. intros H. destruct o; cbn; try exact H.
  - intros Hc. unfold zlen. cbn in *. lia.
  - unfold q_push, q_full. destruct ((qcap q <=? zlen (qels q)) && (0 <? qcap q)) eqn:E; cbn; [exact H|].
    intros Hc. rewrite zlen_app. unfold zlen at 2. cbn [length]. specialize (H Hc). lia.
  - unfold q_pop. destruct (qels q) as [|x r] eqn:E; cbn; [rewrite E; exact H|].
    intros Hc. specialize (H Hc). rewrite zlen_cons in H. lia.
Qed.

Lemma run_ops_inv {S O} (step : S -> O -> S * list Z) (P : S -> Prop) :
  (forall s o, P s -> P (fst (step s o))) ->
  forall ops s, P s -> P (fst (run_ops step s ops)).
Proof.
  intros Hstep ops; induction ops as [|o r IH]; intros s Hs; [exact Hs|].
  cbn [run_ops]. pose proof (Hstep s o Hs) as H1. destruct (step s o) as [s' out].
  specialize (IH s' H1). destruct (run_ops step s' r) as [s'' outs]. exact IH.
Qed.

(** every reachable state of a bounded queue holds at most [cap] elements *)
Theorem q_bound cap ops :
  0 < cap -> zlen (qels (fst (run_ops q_step (q_new cap) ops))) <= cap.
Proof.
  intros Hc.
  assert (Hinv : q_inv (fst (run_ops q_step (q_new cap) ops))).
  { apply run_ops_inv; [apply q_step_inv | unfold q_inv, q_new, zlen; cbn; lia]. }
  assert (Hcap : qcap (fst (run_ops q_step (q_new cap) ops)) = cap).
  { apply (run_ops_inv q_step (fun q => qcap q = cap)); [|reflexivity].
    intros s o Hs. rewrite q_step_cap. exact Hs. }
  unfold q_inv in Hinv. rewrite Hcap in Hinv. auto.
Qed.

(** a push on a full queue fails and changes nothing *)
Theorem push_full_noop q x : q_full q = true -> q_push q x = (q, false).
Proof. unfold q_push. intros ->. reflexivity. Qed.

(** a push on a queue that is not full succeeds and appends *)
Theorem push_not_full q x : q_full q = false -> q_push q x = (mkq (qcap q) (qels q ++ [x]), true).
Proof. unfold q_push. intros ->. reflexivity. Qed.

(** as soon as a slot frees up (a pop on a non-empty queue within its bound) a push succeeds again *)
Theorem push_after_pop q x :
  q_inv q -> qels q <> [] -> snd (q_push (fst (q_pop q)) x) = true.
Proof.
  unfold q_inv, q_pop, q_push, q_full. intros Hinv Hne.
  destruct (qels q) as [|y r] eqn:E; [contradiction|]. cbn.
  destruct ((qcap q <=? zlen r) && (0 <? qcap q)) eqn:F; [|reflexivity].
  exfalso. rewrite zlen_cons in Hinv. lia.
Qed.

(** capacity 0 means unbounded: a push never fails *)
Theorem push_unbounded q x : qcap q = 0 -> snd (q_push q x) = true.
Proof. unfold q_push, q_full. intros ->. rewrite andb_false_r. reflexivity. Qed.

(** FIFO refinement with ghost histories: [acc] = elements accepted since the
    last Init, [pop] = elements popped since then. *)
Definition hstate := (queue * list Z * list Z)%type.

Definition h_step (h : hstate) (o : qop) : hstate :=
  let '(q, acc, pop) := h in
  match o with
  | QInit => (q_init q, [], [])
  | QPush x => let '(q', ok) := q_push q x in (q', (if ok then acc ++ [x] else acc), pop)
  | QPop => let '(q', r) := q_pop q in (q', acc, match r with Some y => pop ++ [y] | None => pop end)
  | _ => (fst (q_step q o), acc, pop)
  end.

Lemma h_step_queue h o : fst (fst (h_step h o)) = fst (q_step (fst (fst h)) o).
Proof.
  destruct h as [[q acc] pop]. destruct o; cbn; try reflexivity.
  - destruct (q_push q x); reflexivity.
  - destruct (q_pop q); reflexivity.
Qed.

Definition h_inv (h : hstate) : Prop := let '(q, acc, pop) := h in acc = pop ++ qels q.

Lemma h_step_inv h o : h_inv h -> h_inv (h_step h o).
Proof.
  destruct h as [[q acc] pop]. unfold h_inv. intros H. destruct o; cbn; try exact H.
  - reflexivity.
  - unfold q_push. destruct (q_full q); cbn; [exact H|]. rewrite H, app_assoc. reflexivity.
  - unfold q_pop. destruct (qels q) as [|y r] eqn:E; cbn; [rewrite E; exact H|].
    rewrite H, <- app_assoc. reflexivity.
Qed.

(** the elements popped so far followed by the queue content are exactly the
    accepted pushes, in order: pops return the pushed elements first-in first-out,
    nothing is lost, duplicated or invented *)
Theorem q_fifo cap ops :
  let '(q, acc, pop) := fold_left h_step ops (q_new cap, [], []) in acc = pop ++ qels q.
Proof.
  assert (H : forall ops h, h_inv h -> h_inv (fold_left h_step ops h)).
  { intro l; induction l as [|o r IH]; intros h Hh; [exact Hh|]. cbn. apply IH, h_step_inv, Hh. }
  specialize (H ops (q_new cap, [], []) eq_refl).
  destruct (fold_left h_step ops (q_new cap, [], [])) as [[q acc] pop]. exact H.
Qed.

(** Peek / Size / IsFull / IsEmpty are pure observers *)
Theorem q_observers_pure q o :
  match o with QPeek | QSize | QIsFull | QIsEmpty => fst (q_step q o) = q | _ => True end.
Proof. destruct o; cbn; auto. Qed.

(* ------------------------------------------------------------------ *)
(** * association lists *)

Lemma a_get_set_same {V} (m : list (Z * V)) k v : a_get (a_set m k v) k = Some v.
Proof.
  induction m as [|[k' v'] r IH]; cbn; [rewrite Z.eqb_refl; reflexivity|].
  destruct (k' =? k) eqn:E; cbn; [rewrite Z.eqb_refl; reflexivity | rewrite E; exact IH].
Qed.

Lemma a_get_set_other {V} (m : list (Z * V)) k k' v : k' <> k -> a_get (a_set m k v) k' = a_get m k'.
Proof.
  intros Hne. induction m as [|[k0 v0] r IH]; cbn.
  - destruct (k =? k') eqn:E; [lia|reflexivity].
  - destruct (k0 =? k) eqn:E; cbn.
    + destruct (k =? k') eqn:E2; [lia|]. destruct (k0 =? k') eqn:E3; [lia|]. reflexivity.
    + destruct (k0 =? k'); [reflexivity|exact IH].
Qed.

Lemma a_get_del_other {V} (m : list (Z * V)) k k' : k' <> k -> a_get (a_del m k) k' = a_get m k'.
Proof.
  intros Hne. induction m as [|[k0 v0] r IH]; cbn; [reflexivity|].
  destruct (k0 =? k) eqn:E; cbn.
  - destruct (k0 =? k') eqn:E2; [lia|exact IH].
  - destruct (k0 =? k'); [reflexivity|exact IH].
Qed.

Lemma a_get_del_same {V} (m : list (Z * V)) k : a_get (a_del m k) k = None.
Proof.
  induction m as [|[k0 v0] r IH]; cbn; [reflexivity|].
  destruct (k0 =? k) eqn:E; cbn; [exact IH | rewrite E; exact IH].
Qed.

Lemma a_del_absent {V} (m : list (Z * V)) k : a_get m k = None -> a_del m k = m.
Proof.
  induction m as [|[k0 v0] r IH]; cbn; [reflexivity|].
  destruct (k0 =? k) eqn:E; [discriminate|]. intros H. rewrite (IH H). reflexivity.
Qed.

Lemma a_set_get_id {V} (m : list (Z * V)) k v : a_get m k = Some v -> a_set m k v = m.
Proof.
  induction m as [|[k' v'] r IH]; cbn; [discriminate|].
  destruct (k' =? k) eqn:E.
  - intros H; inversion H; subst. apply Z.eqb_eq in E. subst. reflexivity.
  - intros H. rewrite (IH H). reflexivity.
Qed.

Lemma a_set_set {V} (m : list (Z * V)) k v w : a_set (a_set m k v) k w = a_set m k w.
Proof.
  induction m as [|[k' v'] r IH]; cbn; [rewrite Z.eqb_refl; reflexivity|].
  destruct (k' =? k) eqn:E; cbn; [rewrite Z.eqb_refl; reflexivity | rewrite E, IH; reflexivity].
Qed.

Lemma a_del_set_absent {V} (m : list (Z * V)) k v : a_get m k = None -> a_del (a_set m k v) k = m.
Proof.
  induction m as [|[k' v'] r IH]; cbn; [rewrite Z.eqb_refl; reflexivity|].
  destruct (k' =? k) eqn:E; [discriminate|]. intros H. cbn. rewrite E, (IH H). reflexivity.
Qed.

(* ------------------------------------------------------------------ *)
(** * CallbackQueue: roll-back exactness, no empty key, FIFO per id *)

Lemma remove_last_app {A} (l : list A) x : remove_last (l ++ [x]) = l.
Proof.
  induction l as [|y l IH]; [reflexivity|]. cbn [app remove_last].
  destruct (l ++ [x]) eqn:E; [destruct l; discriminate|]. rewrite IH. reflexivity.
Qed.

Definition cb_wf (m : cbq) : Prop := Forall (fun e => snd e <> []) m.

Lemma a_get_forall {V} (P : V -> Prop) (m : list (Z * V)) k v :
  Forall (fun e => P (snd e)) m -> a_get m k = Some v -> P v.
Proof.
  induction m as [|[k' v'] r IH]; cbn; [discriminate|]. intros HF. inversion HF; subst.
  destruct (k' =? k); [intros H; inversion H; subst; assumption | apply IH; assumption].
Qed.

Lemma a_set_forall {V} (P : V -> Prop) (m : list (Z * V)) k v :
  Forall (fun e => P (snd e)) m -> P v -> Forall (fun e => P (snd e)) (a_set m k v).
Proof.
  induction m as [|[k' v'] r IH]; cbn; intros HF Hv; [constructor; [exact Hv|constructor]|].
  inversion HF; subst. destruct (k' =? k); constructor; auto.
Qed.

Lemma a_del_forall {V} (P : V -> Prop) (m : list (Z * V)) k :
  Forall (fun e => P (snd e)) m -> Forall (fun e => P (snd e)) (a_del m k).
Proof.
  induction m as [|[k' v'] r IH]; cbn; intros HF; [constructor|].
  inversion HF; subst. destruct (k' =? k); [auto|constructor; auto].
Qed.

(** a failed TryQueue leaves the callback queue exactly as it was *)
Theorem cb_try_fail_noop m id cb : cb_wf m -> cb_try m id cb false = (m, false).
Proof.
  intros Hwf. unfold cb_try, cb_list. rewrite a_get_set_same, remove_last_app, a_set_set.
  destruct (a_get m id) as [l|] eqn:E.
  - destruct l as [|x l]; [exfalso; exact (a_get_forall (fun l => l <> []) _ _ _ Hwf E eq_refl)|].
    rewrite (a_set_get_id _ _ _ E). reflexivity.
  - rewrite (a_del_set_absent _ _ _ E). reflexivity.
Qed.

Theorem cb_try_ok m id cb : cb_try m id cb true = (a_set m id (cb_list m id ++ [cb]), true).
Proof. reflexivity. Qed.

Lemma cb_step_wf m o : cb_wf m -> cb_wf (fst (cb_step m o)).
Proof.
  intros Hwf. destruct o as [id cb ok|id]; cbn.
  - destruct ok.
    + cbn. apply (a_set_forall (fun l => l <> [])); [exact Hwf|]. destruct (cb_list m id); discriminate.
    + rewrite cb_try_fail_noop by exact Hwf. exact Hwf.
  - unfold cb_dequeue. destruct (a_get m id) as [l|] eqn:E; [|exact Hwf].
    destruct l as [|x [|y r]]; cbn; [exact Hwf| |].
    + apply (a_del_forall (fun l => l <> [])). exact Hwf.
    + apply (a_set_forall (fun l => l <> [])); [exact Hwf|discriminate].
Qed.

(** Dequeue never hits its "inconsistency" panic in any reachable state *)
Theorem cb_no_panic ops id :
  snd (cb_dequeue (fst (run_ops cb_step [] ops)) id) <> DPanic.
Proof.
  assert (Hwf : cb_wf (fst (run_ops cb_step [] ops))).
  { apply run_ops_inv; [apply cb_step_wf | constructor]. }
  unfold cb_dequeue. destruct (a_get _ id) as [l|] eqn:E; [|discriminate].
  destruct l as [|x [|y r]]; cbn; try discriminate.
  exfalso. exact (a_get_forall (fun l => l <> []) _ _ _ Hwf E eq_refl).
Qed.

(** callbacks of one id come out in the order they were successfully queued, and
    operations on one id never touch another id's list *)
Theorem cb_try_appends m id cb : cb_list (fst (cb_try m id cb true)) id = cb_list m id ++ [cb].
Proof. cbn. unfold cb_list at 1. rewrite a_get_set_same. reflexivity. Qed.

Theorem cb_try_other m id cb ok id' : cb_wf m -> id' <> id -> cb_list (fst (cb_try m id cb ok)) id' = cb_list m id'.
Proof.
  intros Hwf Hne. destruct ok.
  - cbn. unfold cb_list. rewrite a_get_set_other by exact Hne. reflexivity.
  - rewrite cb_try_fail_noop by exact Hwf. reflexivity.
Qed.

Theorem cb_dequeue_other m id id' : id' <> id -> cb_list (fst (cb_dequeue m id)) id' = cb_list m id'.
Proof.
  intros Hne. unfold cb_dequeue, cb_list. destruct (a_get m id) as [l|] eqn:E; [|reflexivity].
  destruct l as [|x [|y r]]; cbn; [reflexivity| |].
  - rewrite a_get_del_other by exact Hne. reflexivity.
  - rewrite a_get_set_other by exact Hne. reflexivity.
Qed.

Lemma cb_dequeue_same m id cb r :
  cb_list m id = cb :: r ->
  snd (cb_dequeue m id) = DSome cb /\ cb_list (fst (cb_dequeue m id)) id = r.
Proof.
  unfold cb_list, cb_dequeue. destruct (a_get m id) as [l|] eqn:E; [|discriminate].
  intros ->. destruct r as [|y r]; cbn.
  - split; [reflexivity|]. rewrite a_get_del_same. reflexivity.
  - split; [reflexivity|]. rewrite a_get_set_same. reflexivity.
Qed.

Lemma cb_dequeue_empty m id :
  cb_wf m -> cb_list m id = [] -> cb_dequeue m id = (m, DNone).
Proof.
  intros Hwf. unfold cb_list, cb_dequeue. destruct (a_get m id) as [l|] eqn:E; [|reflexivity].
  intros ->. exfalso. exact (a_get_forall (fun l => l <> []) _ _ _ Hwf E eq_refl).
Qed.

(** FIFO per id, with ghost histories for a fixed id: [acc] the callbacks whose
    TryQueue succeeded, [pop] those handed out by Dequeue. *)
Definition cbh := (cbq * list Z * list Z)%type.

Definition cbh_step (id : Z) (h : cbh) (o : cbop) : cbh :=
  let '(m, acc, pop) := h in
  match o with
  | BTry i cb ok => let '(m', r) := cb_try m i cb ok in
                    (m', (if r && (i =? id) then acc ++ [cb] else acc), pop)
  | BDequeue i => let '(m', r) := cb_dequeue m i in
                  (m', acc, match r with DSome cb => if i =? id then pop ++ [cb] else pop | _ => pop end)
  end.

Definition cbh_inv (id : Z) (h : cbh) : Prop :=
  let '(m, acc, pop) := h in cb_wf m /\ acc = pop ++ cb_list m id.

Lemma cbh_step_inv id h o : cbh_inv id h -> cbh_inv id (cbh_step id h o).
Proof.
  destruct h as [[m acc] pop]. unfold cbh_inv. intros [Hwf H].
  destruct o as [i cb ok|i]; cbn [cbh_step].
  - pose proof (cb_step_wf m (BTry i cb ok) Hwf) as Hwf'. cbn in Hwf'.
    destruct ok.
    + cbn. split; [exact Hwf'|]. destruct (i =? id) eqn:E.
      * apply Z.eqb_eq in E. subst i. unfold cb_list at 1. rewrite a_get_set_same.
        fold (cb_list m id). rewrite H, app_assoc. reflexivity.
      * unfold cb_list at 1. rewrite a_get_set_other by lia. exact H.
    + rewrite cb_try_fail_noop by exact Hwf. cbn. split; [exact Hwf|exact H].
  - pose proof (cb_step_wf m (BDequeue i) Hwf) as Hwf'. cbn in Hwf'.
    destruct (Z.eq_dec i id) as [->|Hne].
    + destruct (cb_list m id) as [|cb r] eqn:E.
      * rewrite (cb_dequeue_empty _ _ Hwf E). split; [exact Hwf|]. rewrite E. exact H.
      * destruct (cb_dequeue_same _ _ _ _ E) as [H1 H2].
        destruct (cb_dequeue m id) as [m' r']. cbn in *. subst r'. rewrite Z.eqb_refl.
        split; [exact Hwf'|]. rewrite H2, H, <- app_assoc. reflexivity.
    + pose proof (cb_dequeue_other m i id ltac:(lia)) as Ho.
      destruct (cb_dequeue m i) as [m' r']. cbn in *. split; [exact Hwf'|].
      rewrite Ho. destruct r'; try exact H. destruct (i =? id) eqn:E; [lia|exact H].
Qed.

Theorem cb_fifo id ops :
  let '(m, acc, pop) := fold_left (cbh_step id) ops ([], [], []) in acc = pop ++ cb_list m id.
Proof.
  assert (H : forall ops h, cbh_inv id h -> cbh_inv id (fold_left (cbh_step id) ops h)).
  { intro l; induction l as [|o r IH]; intros h Hh; [exact Hh|]. cbn. apply IH, cbh_step_inv, Hh. }
  specialize (H ops ([], [], [])). cbn in H.
  destruct (fold_left (cbh_step id) ops ([], [], [])) as [[m acc] pop].
  apply H. split; [constructor|reflexivity].
Qed.

(* ------------------------------------------------------------------ *)
(** * clientState *)

Theorem cs_add_ignored_when_set s id : s <> 0 -> cs_add s id = s.
Proof. unfold cs_add. intros H. destruct (s =? 0) eqn:E; [lia|]. rewrite andb_false_r. reflexivity. Qed.

Theorem cs_add_empty_ignored s : cs_add s 0 = s.
Proof. unfold cs_add. cbn. reflexivity. Qed.

Theorem cs_add_get id : id <> 0 -> cs_get (cs_add 0 id) id = true.
Proof. unfold cs_add, cs_get. intros H. destruct (id =? 0) eqn:E; [lia|]. cbn. apply Z.eqb_refl. Qed.

Theorem cs_delete_other s id : s <> id -> cs_delete s id = s.
Proof. unfold cs_delete. intros H. destruct (s =? id) eqn:E; [lia|reflexivity]. Qed.

Theorem cs_delete_same s : cs_has (cs_delete s s) = false.
Proof. unfold cs_delete, cs_has. rewrite Z.eqb_refl. reflexivity. Qed.

Theorem cs_get_iff s id : cs_get s id = true <-> s = id.
Proof. unfold cs_get. apply Z.eqb_eq. Qed.
