(** M1, server side: an executable model of a central system / CSMS endpoint:
    ocpp1.6.centralSystem (or ocpp2.0.1.csms) on ocppj.Server,
    DefaultServerDispatcher, FIFOQueueMap, serverState and the per-client
    callback queue, talking to an in-process ws.Server.

    Same granularity as M1/Client.v: one label = one handler or one pump
    iteration; [qrun] runs the pump to quiescence after every external label.
    The pump's loop variables rdy and clientQueue are reset at the top of every
    iteration (since the repair of F1; before, they persisted across iterations).  No proofs in this file. *)
From Verif Require Import Base.Prelude M1.Containers.

Inductive sev :=
| SRet (c r code : Z)
| SWr (c r : Z)
| SConc (c r k : Z)          (* OCPP-J layer concluded request r of client c with kind k *)
| SCb (c cb r k : Z)         (* callback registered for request cb of client c received conclusion (r, k) *)
| SNoCb (c r k : Z)
| SNew (c : Z) | SGone (c : Z)   (* application connect / disconnect handlers *)
| SDrop (c : Z)                  (* ghost (not observable): the session of client c ends, whatever it had outstanding is forgotten *)
| SPanic.

Inductive ctxst := CActive | CInactive.

Record sv := mksv {
  running : bool;
  stopping : bool;               (* stoppedC closed, the pump has not noticed yet *)
  pumpAlive : bool; pumpStuck : bool;
  qcap : Z;
  qm : list (Z * list Z);        (* FIFOQueueMap *)
  pendm : list (Z * Z);          (* serverState: client -> pending id *)
  ctxm : list (Z * ctxst);       (* pump local clientContextMap *)
  rdy : bool; cur : Z; curQ : option Z;   (* pump locals rdy, clientID, clientQueue *)
  reqC : list Z; readyC : list Z; timerC : list Z;
  conns : list Z; failw : list Z;
  cbq : list (Z * list Z);
  drain : bool;                  (* an application disconnect handler is registered *)
  removed : list Z;              (* removedClients: sessions that ended and whose timeout context the pump has not dropped yet *)
  str : list sev
}.

Definition sinit (capacity : Z) (drain_ : bool) : sv :=
  mksv false false false false capacity [] [] [] false 0 None [] [] [] [] [] [] drain_ [] [].

Definition K_DISC := 5.
Definition mem (c : Z) (l : list Z) : bool := existsb (Z.eqb c) l.
Definition del (c : Z) (l : list Z) : list Z := filter (fun x => negb (x =? c)) l.

Definition upd_str s x := mksv (running s) (stopping s) (pumpAlive s) (pumpStuck s) (qcap s) (qm s) (pendm s) (ctxm s) (rdy s) (cur s) (curQ s) (reqC s) (readyC s) (timerC s) (conns s) (failw s) (cbq s) (drain s) (removed s) x.
Definition semit s e := upd_str s (e :: str s).
Definition upd_qm s x := mksv (running s) (stopping s) (pumpAlive s) (pumpStuck s) (qcap s) x (pendm s) (ctxm s) (rdy s) (cur s) (curQ s) (reqC s) (readyC s) (timerC s) (conns s) (failw s) (cbq s) (drain s) (removed s) (str s).
Definition upd_pendm s x := mksv (running s) (stopping s) (pumpAlive s) (pumpStuck s) (qcap s) (qm s) x (ctxm s) (rdy s) (cur s) (curQ s) (reqC s) (readyC s) (timerC s) (conns s) (failw s) (cbq s) (drain s) (removed s) (str s).
Definition upd_ctxm s x := mksv (running s) (stopping s) (pumpAlive s) (pumpStuck s) (qcap s) (qm s) (pendm s) x (rdy s) (cur s) (curQ s) (reqC s) (readyC s) (timerC s) (conns s) (failw s) (cbq s) (drain s) (removed s) (str s).
Definition upd_loc s r c cq := mksv (running s) (stopping s) (pumpAlive s) (pumpStuck s) (qcap s) (qm s) (pendm s) (ctxm s) r c cq (reqC s) (readyC s) (timerC s) (conns s) (failw s) (cbq s) (drain s) (removed s) (str s).
Definition upd_reqC s x := mksv (running s) (stopping s) (pumpAlive s) (pumpStuck s) (qcap s) (qm s) (pendm s) (ctxm s) (rdy s) (cur s) (curQ s) x (readyC s) (timerC s) (conns s) (failw s) (cbq s) (drain s) (removed s) (str s).
Definition upd_readyC s x := mksv (running s) (stopping s) (pumpAlive s) (pumpStuck s) (qcap s) (qm s) (pendm s) (ctxm s) (rdy s) (cur s) (curQ s) (reqC s) x (timerC s) (conns s) (failw s) (cbq s) (drain s) (removed s) (str s).
Definition upd_timerC s x := mksv (running s) (stopping s) (pumpAlive s) (pumpStuck s) (qcap s) (qm s) (pendm s) (ctxm s) (rdy s) (cur s) (curQ s) (reqC s) (readyC s) x (conns s) (failw s) (cbq s) (drain s) (removed s) (str s).
Definition upd_conns s x := mksv (running s) (stopping s) (pumpAlive s) (pumpStuck s) (qcap s) (qm s) (pendm s) (ctxm s) (rdy s) (cur s) (curQ s) (reqC s) (readyC s) (timerC s) x (failw s) (cbq s) (drain s) (removed s) (str s).
Definition upd_failw s x := mksv (running s) (stopping s) (pumpAlive s) (pumpStuck s) (qcap s) (qm s) (pendm s) (ctxm s) (rdy s) (cur s) (curQ s) (reqC s) (readyC s) (timerC s) (conns s) x (cbq s) (drain s) (removed s) (str s).
Definition upd_cbq s x := mksv (running s) (stopping s) (pumpAlive s) (pumpStuck s) (qcap s) (qm s) (pendm s) (ctxm s) (rdy s) (cur s) (curQ s) (reqC s) (readyC s) (timerC s) (conns s) (failw s) x (drain s) (removed s) (str s).
Definition upd_run s r st pa ps := mksv r st pa ps (qcap s) (qm s) (pendm s) (ctxm s) (rdy s) (cur s) (curQ s) (reqC s) (readyC s) (timerC s) (conns s) (failw s) (cbq s) (drain s) (removed s) (str s).

Definition upd_removed s x := mksv (running s) (stopping s) (pumpAlive s) (pumpStuck s) (qcap s) (qm s) (pendm s) (ctxm s) (rdy s) (cur s) (curQ s) (reqC s) (readyC s) (timerC s) (conns s) (failw s) (cbq s) (drain s) x (str s).

Definition qof (s : sv) (c : Z) : option (list Z) := a_get (qm s) c.
Definition pendof (s : sv) (c : Z) : Z := match a_get (pendm s) c with Some p => p | None => 0 end.
Definition cbs_of (s : sv) (c : Z) : list Z := match a_get (cbq s) c with Some l => l | None => [] end.
Definition set_cbs (s : sv) (c : Z) (l : list Z) : sv :=
  upd_cbq s (match l with [] => a_del (cbq s) c | _ => a_set (cbq s) c l end).

(** the protocol layer delivers a conclusion: Dequeue(c), go callback(...) *)
Definition deliver (s : sv) (c r k : Z) : sv :=
  match cbs_of s c with
  | [] => semit s (SNoCb c r k)
  | cb :: rest => semit (set_cbs s c rest) (SCb c cb r k)
  end.

Definition sconclude (s : sv) (c r k : Z) : sv := deliver (semit s (SConc c r k)) c r k.

(** DefaultServerDispatcher.CompleteRequest *)
Definition scomplete (by_pump : bool) (s : sv) (c r : Z) : sv :=
  match qof s c with
  | None => s
  | Some [] => s
  | Some (h :: t) =>
      if h =? r then
        let s1 := upd_qm s (a_set (qm s) c t) in
        let s2 := if pendof s1 c =? r then upd_pendm s1 (a_set (pendm s1) c 0) else s1 in
        (* the ready token is posted without waiting for room (repair of F18: before it, the pump blocked itself here
           for good when it completed a request while a token was already pending) *)
        upd_readyC s2 (readyC s2 ++ [c])
      else s
  end.

Definition ctx_active (s : sv) (c : Z) : bool := match a_get (ctxm s) c with Some CActive => true | _ => false end.
Definition ctx_deactivate (s : sv) (c : Z) : sv := if ctx_active s c then upd_ctxm s (a_set (ctxm s) c CInactive) else s.

(** dispatchNextRequest(clientID); result context stored in the map by the caller *)
Definition sdispatch (s : sv) : sv :=
  let c := cur s in
  match qof s c with
  | None => upd_ctxm s (a_set (ctxm s) c CInactive)
  | Some [] => upd_run (semit s SPanic) (running s) (stopping s) false true     (* el == nil: bundle.Call nil dereference *)
  | Some (h :: _) =>
      let s1 := if (pendof s c =? 0) && negb (h =? 0) then upd_pendm s (a_set (pendm s) c h) else s in
      let s2 := semit s1 (SWr c h) in
      if mem c (conns s2) && negb (mem c (failw s2))
      then upd_ctxm s2 (a_set (ctxm s2) c CActive)
      else let s3 := sconclude (scomplete true s2 c h) c h 3 in upd_ctxm s3 (a_set (ctxm s3) c CInactive)
  end.

Definition stail (s : sv) : sv :=
  if pumpStuck s then s else
  match curQ s with
  | None => s
  | Some qc =>
      (* never for a client that has a request outstanding (repair of F19) *)
      if rdy s && negb (match qof s qc with Some (_ :: _) => false | _ => true end) && (pendof s (cur s) =? 0)
      then let s1 := sdispatch s in upd_loc s1 false (cur s1) (curQ s1)
      else s
  end.

Inductive slab :=
| SStart | SStop
| Connect (c : Z) | Disconnect (c : Z)
| SSend (c r : Z) (valid : bool)
| SReply (c r k : Z)
| TimerTok (c : Z)
| SNetFail (c : Z) (b : bool)
| SPumpStop | SPumpReq | SPumpReady | SPumpTimer.

Definition on_disconnected (s : sv) (c : Z) : sv :=
  (* DeleteClient: Remove queue, token if running; ClearClientPendingRequest; drain callbacks (if installed); app handler *)
  let s0 := upd_qm s (a_del (qm s) c) in
  (* the session is marked as ended for the pump, which may see the token only after the same id has connected again (repair F13) *)
  let s1 := upd_removed s0 (c :: del c (removed s0)) in
  let s2 := if running s1 then upd_reqC s1 (reqC s1 ++ [c]) else s1 in
  let s3 := upd_pendm s2 (a_del (pendm s2) c) in
  let s4 := fold_left (fun st cb => semit st (SCb c cb 0 K_DISC)) (cbs_of s3 c) s3 in
  let s5 := set_cbs s4 c [] in
  if drain s5 then semit s5 (SGone c) else s5.

Definition sstep (l : slab) (s : sv) : sv :=
  match l with
  | SStart =>
      if negb (running s) && negb (pumpAlive s) then
        let s1 := upd_run s true false true false in
        let s2 := upd_timerC (upd_reqC s1 []) [] in
        upd_ctxm (upd_loc s2 false 0 None) []
      else s
  | SStop =>
      if running s then
        let s1 := upd_run s false true (pumpAlive s) (pumpStuck s) in
        (* ws server Stop: every connection is closed and reported *)
        let cs := conns s1 in
        fold_left (fun st c => on_disconnected (semit st (SDrop c)) c) cs (upd_conns s1 [])
      else s
  | Connect c =>
      if mem c (conns s) then s else
      let s1 := upd_conns s (conns s ++ [c]) in
      let s2 := if running s1 then (match qof s1 c with Some _ => s1 | None => upd_qm s1 (a_set (qm s1) c []) end) else s1 in
      semit s2 (SNew c)
  | Disconnect c =>
      if mem c (conns s) then on_disconnected (semit (upd_conns s (del c (conns s))) (SDrop c)) c else s
  | SSend c r valid =>
      let s1 := set_cbs s c (cbs_of s c ++ [r]) in
      let full := match qof s1 c with Some l => (qcap s1 <=? zlen l) && (0 <? qcap s1) | None => false end in
      let ok := running s1 && valid && (match qof s1 c with Some _ => true | None => false end) && negb full in
      if ok then
        let l := match qof s1 c with Some l => l | None => [] end in
        semit (upd_reqC (upd_qm s1 (a_set (qm s1) c (l ++ [r]))) (reqC s1 ++ [c])) (SRet c r 0)
      else semit (set_cbs s1 c (remove_last (cbs_of s1 c))) (SRet c r 1)
  | SReply c r k =>
      if mem c (conns s) && negb (r =? 0) && (pendof s c =? r) then sconclude (scomplete false s c r) c r k else s
  | TimerTok c => if running s then upd_timerC s (timerC s ++ [c]) else s
  | SNetFail c b => upd_failw s (if b then c :: del c (failw s) else del c (failw s))
  | SPumpStop =>
      if pumpAlive s && stopping s && negb (pumpStuck s) then
        upd_run (upd_qm s []) (running s) false false false
      else s
  | SPumpReq =>
      if pumpAlive s && negb (pumpStuck s) then
        match reqC s with
        | [] => s
        | c :: rest =>
            let s0 := upd_reqC s rest in
            (* a session of this client ended since the last look: its timeout context goes, even if the client has
               reconnected already and owns a queue again (repair F13) *)
            let s1 := if mem c (removed s0) then upd_ctxm (upd_removed s0 (del c (removed s0))) (a_del (ctxm s0) c) else s0 in
            match qof s1 c with
            | None => upd_loc (upd_ctxm s1 (a_del (ctxm s1) c)) false c None
            | Some _ =>
                let r := match a_get (ctxm s1) c with None => true | Some CActive => false | Some CInactive => true end in
                stail (upd_loc s1 r c (Some c))
            end
        end
      else s
  | SPumpTimer =>
      if pumpAlive s && negb (pumpStuck s) then
        match timerC s with
        | [] => s
        | c :: rest =>
            (* the loop variables are reset at the top of every iteration (repair of F1): the timeout case dispatches nothing *)
            let s1 := upd_loc (upd_timerC s rest) false c None in
            let s2 := ctx_deactivate s1 c in
            if negb (pendof s2 c =? 0) then
              match qof s2 c with
              | None => s2
              | Some [] => s2
              | Some (h :: _) =>
                  let s3 := sconclude (scomplete true s2 c h) c h 2 in
                  stail s3
              end
            else stail s2
        end
      else s
  | SPumpReady =>
      if pumpAlive s && negb (pumpStuck s) then
        match readyC s with
        | [] => s
        | c :: rest =>
            let s1 := upd_readyC s rest in
            (* a ready token that finds a request outstanding for its client is stale and ignored (repair of F19) *)
            if negb (pendof s1 c =? 0) then upd_loc s1 false c None else
            let s2 := ctx_deactivate s1 c in
            match qof s2 c with
            | Some _ => stail (upd_loc s2 true c (Some c))
            | None => stail (upd_loc s2 false c None)
            end
        end
      else s
  end.

Definition srun (ls : list slab) (s : sv) : sv := fold_left (fun s l => sstep l s) ls s.

Definition s_internal : list slab := [SPumpStop; SPumpReq; SPumpTimer; SPumpReady].

Definition s_enabled (l : slab) (s : sv) : bool :=
  match l with
  | SPumpStop => pumpAlive s && stopping s && negb (pumpStuck s)
  | SPumpReq => pumpAlive s && negb (pumpStuck s) && negb (match reqC s with [] => true | _ => false end)
  | SPumpTimer => pumpAlive s && negb (pumpStuck s) && negb (match timerC s with [] => true | _ => false end)
  | SPumpReady => pumpAlive s && negb (pumpStuck s) && negb (match readyC s with [] => true | _ => false end)
  | _ => false
  end.

Definition s_first_enabled (s : sv) : option slab := find (fun l => s_enabled l s) s_internal.

Fixpoint s_quiesce (fuel : nat) (s : sv) : sv :=
  match fuel with
  | O => s
  | S f => match s_first_enabled s with Some l => s_quiesce f (sstep l s) | None => s end
  end.

Definition s_fuel (s : sv) : nat :=
  (8 + 3 * fold_right (fun e n => length (snd e) + n) 0 (qm s) + length (reqC s) + length (readyC s) + length (timerC s))%nat.

Definition sqstep (l : slab) (s : sv) : sv := let s1 := sstep l s in s_quiesce (s_fuel s1) s1.
Definition sqrun (ls : list slab) (s : sv) : sv := fold_left (fun s l => sqstep l s) ls s.

(* ---- observables ---- *)
Definition senc (e : sev) : list Z :=
  match e with
  | SRet c r code => [1; c; r; code]
  | SWr c r => [2; c; r]
  | SCb c cb r k => [3; c; cb; r; k]
  | SNoCb c r k => [4; c; r; k]
  | SNew c => [5; c]
  | SGone c => [6; c]
  | SConc _ _ _ => []
  | SDrop _ => []
  | SPanic => [-7]
  end.

Definition scls (e : sev) : Z :=
  match e with SRet _ _ _ => 1 | SWr _ _ => 2 | SCb _ _ _ _ | SNoCb _ _ _ | SPanic => 3 | SNew _ | SGone _ => 4 | SConc _ _ _ | SDrop _ => 0 end.

(** insertion sort of encoded callbacks (their goroutines are unordered) *)
Fixpoint lexle (a b : list Z) : bool :=
  match a, b with
  | [], _ => true
  | _, [] => false
  | x :: a', y :: b' => if x <? y then true else if y <? x then false else lexle a' b'
  end.
Fixpoint ins (x : list Z) (l : list (list Z)) : list (list Z) :=
  match l with [] => [x] | y :: r => if lexle x y then x :: l else y :: ins x r end.
Definition sortl (l : list (list Z)) : list (list Z) := fold_right ins [] l.

Definition sobs_of (evs : list sev) : list Z :=
  concat (map senc (filter (fun e => scls e =? 1) evs)) ++
  concat (map senc (filter (fun e => scls e =? 2) evs)) ++
  concat (sortl (map senc (filter (fun e => scls e =? 3) evs))) ++
  concat (sortl (map senc (filter (fun e => scls e =? 4) evs))).

Definition snew_events (before after : sv) : list sev :=
  rev (firstn (length (str after) - length (str before)) (str after)).

Fixpoint sqrun_obs (ls : list slab) (s : sv) : list Z :=
  match ls with
  | [] => [-2]
  | l :: r => let s' := sqstep l s in (-1 :: sobs_of (snew_events s s')) ++ sqrun_obs r s'
  end.

Fixpoint dec_slabs (fuel : nat) (l : list Z) : list slab :=
  match fuel with O => [] | S f =>
    match l with
    | 1 :: c :: r :: v :: rest => SSend c r (z_bool v) :: dec_slabs f rest
    | 2 :: c :: r :: k :: rest => SReply c r k :: dec_slabs f rest
    | 3 :: c :: rest => TimerTok c :: dec_slabs f rest
    | 5 :: c :: rest => Disconnect c :: dec_slabs f rest
    | 6 :: c :: rest => Connect c :: dec_slabs f rest
    | 7 :: c :: b :: rest => SNetFail c (z_bool b) :: dec_slabs f rest
    | 8 :: rest => SStop :: dec_slabs f rest
    | 9 :: rest => SStart :: dec_slabs f rest
    | _ => []
    end
  end.

(** entry: [variant; cap; drain; labels...] *)
Definition m1s_entry : entry := fun inp =>
  match inp with
  | v :: capacity :: dr :: ls =>
      let out := sqrun_obs (dec_slabs (length ls) ls) (sinit capacity (z_bool dr)) in
      if existsb (Z.eqb (-7)) out then [-7] else out
  | _ => [-1]
  end.
