(** M1, client side: an executable model of a charge point / charging station
    endpoint: ocpp1.6.chargePoint (or ocpp2.0.1.chargingStation) on top of
    ocppj.Client, DefaultClientDispatcher, FIFOClientQueue and clientState,
    talking to an in-process ws.Client.

    Granularity (DESIGN.md section 2, class S1): one label = one handler run to
    its end (an API call, one delivery to the ws message handler, one
    connection callback) or one iteration of the dispatcher's message pump /
    of the protocol layer's callback goroutine.  Channel buffers are explicit.
    The quiescent semantics [qrun] (class S0) runs the internal labels to
    quiescence after every external label; it is what the Go harness
    reproduces.  No proofs in this file. *)
From Verif Require Import Base.Prelude.

(** request ids are positive integers; 0 is "none" (the empty string) *)

Inductive tmode := TOff | TLong | TShort (deadline : Z).

(** conclusion kinds *)
Definition K_CONF := 0.      (* CALL_RESULT of the peer *)
Definition K_ERR := 1.       (* CALL_ERROR of the peer *)
Definition K_TIMEOUT := 2.   (* GenericError "Request timed out" *)
Definition K_WRITE := 3.     (* InternalError: could not be written *)

Inductive ev :=
| ERet (r code : Z)          (* the send API returned for request r: 0 = accepted, 1 = error *)
| EWr (r : Z) (t : Z)        (* CALL r handed to ws.Client.Write at time t *)
| EConc (r k : Z) (t : Z)    (* ocppj layer concluded r with kind k (response / error / cancel handler invoked) *)
| ECb (c r k : Z)            (* protocol layer: the callback registered for request c received the conclusion (r, k) *)
| ENoCb (r k : Z)            (* a conclusion found no callback *)
| EDrop | EReconn (t : Z) | EStop | EStart
| EPumpStop                  (* internal marker: the pump noticed Stop and re-initialised the queue *)
| EPanic.                    (* a goroutine of the library panicked (the process would crash) *)

Record cl := mkcl {
  started : bool;     (* dispatcher running: requestChannel != nil *)
  closing : bool;     (* requestChannel closed, pump has not noticed yet *)
  pumpStuck : bool;   (* the pump blocked for good (on readyForDispatch it alone consumes, or on a timer drain) *)
  paused : bool;
  rdy : bool;         (* pump local *)
  q : list Z; cap : Z;
  pend : Z;
  reqC : Z;           (* tokens in requestChannel, including senders blocked on it *)
  readyC : Z;         (* tokens in readyForDispatch, including producers blocked on it *)
  tmo : tmode; tok : bool;      (* timer: runtime timer state, value waiting in timer.C *)
  now : Z; timeout : Z;
  conn : bool;        (* ws.Client.IsConnected *)
  failw : bool;       (* the network refuses writes *)
  cbq : list Z;       (* callback queue "main": the request each callback was registered for *)
  concC : list (Z * Z);   (* conclusions travelling to the callback goroutine (confirmationHandler / errorHandler) *)
  handlerOn : bool;   (* asyncCallbackHandler goroutine alive *)
  stopSig : bool;     (* stopC closed, the callback goroutine has not noticed yet *)
  tr : list ev        (* newest first *)
}.

Definition init (capacity tmout : Z) : cl :=
  mkcl false false false false true [] capacity 0 0 0 TOff false 0 tmout false false [] [] false false [].

(* ---- record update helpers (explicit, so that extraction and proofs stay simple) ---- *)
Definition set_tr s x := mkcl (started s) (closing s) (pumpStuck s) (paused s) (rdy s) (q s) (cap s) (pend s) (reqC s) (readyC s) (tmo s) (tok s) (now s) (timeout s) (conn s) (failw s) (cbq s) (concC s) (handlerOn s) (stopSig s) x.
Definition emit s e := set_tr s (e :: tr s).
Definition set_q s x := mkcl (started s) (closing s) (pumpStuck s) (paused s) (rdy s) x (cap s) (pend s) (reqC s) (readyC s) (tmo s) (tok s) (now s) (timeout s) (conn s) (failw s) (cbq s) (concC s) (handlerOn s) (stopSig s) (tr s).
Definition set_pend s x := mkcl (started s) (closing s) (pumpStuck s) (paused s) (rdy s) (q s) (cap s) x (reqC s) (readyC s) (tmo s) (tok s) (now s) (timeout s) (conn s) (failw s) (cbq s) (concC s) (handlerOn s) (stopSig s) (tr s).
Definition set_reqC s x := mkcl (started s) (closing s) (pumpStuck s) (paused s) (rdy s) (q s) (cap s) (pend s) x (readyC s) (tmo s) (tok s) (now s) (timeout s) (conn s) (failw s) (cbq s) (concC s) (handlerOn s) (stopSig s) (tr s).
Definition set_readyC s x := mkcl (started s) (closing s) (pumpStuck s) (paused s) (rdy s) (q s) (cap s) (pend s) (reqC s) x (tmo s) (tok s) (now s) (timeout s) (conn s) (failw s) (cbq s) (concC s) (handlerOn s) (stopSig s) (tr s).
Definition set_rdy s x := mkcl (started s) (closing s) (pumpStuck s) (paused s) x (q s) (cap s) (pend s) (reqC s) (readyC s) (tmo s) (tok s) (now s) (timeout s) (conn s) (failw s) (cbq s) (concC s) (handlerOn s) (stopSig s) (tr s).
Definition set_paused s x := mkcl (started s) (closing s) (pumpStuck s) x (rdy s) (q s) (cap s) (pend s) (reqC s) (readyC s) (tmo s) (tok s) (now s) (timeout s) (conn s) (failw s) (cbq s) (concC s) (handlerOn s) (stopSig s) (tr s).
Definition set_stuck s x := mkcl (started s) (closing s) x (paused s) (rdy s) (q s) (cap s) (pend s) (reqC s) (readyC s) (tmo s) (tok s) (now s) (timeout s) (conn s) (failw s) (cbq s) (concC s) (handlerOn s) (stopSig s) (tr s).
Definition set_timer s m t := mkcl (started s) (closing s) (pumpStuck s) (paused s) (rdy s) (q s) (cap s) (pend s) (reqC s) (readyC s) m t (now s) (timeout s) (conn s) (failw s) (cbq s) (concC s) (handlerOn s) (stopSig s) (tr s).
Definition set_now s x := mkcl (started s) (closing s) (pumpStuck s) (paused s) (rdy s) (q s) (cap s) (pend s) (reqC s) (readyC s) (tmo s) (tok s) x (timeout s) (conn s) (failw s) (cbq s) (concC s) (handlerOn s) (stopSig s) (tr s).
Definition set_conn s x := mkcl (started s) (closing s) (pumpStuck s) (paused s) (rdy s) (q s) (cap s) (pend s) (reqC s) (readyC s) (tmo s) (tok s) (now s) (timeout s) x (failw s) (cbq s) (concC s) (handlerOn s) (stopSig s) (tr s).
Definition set_failw s x := mkcl (started s) (closing s) (pumpStuck s) (paused s) (rdy s) (q s) (cap s) (pend s) (reqC s) (readyC s) (tmo s) (tok s) (now s) (timeout s) (conn s) x (cbq s) (concC s) (handlerOn s) (stopSig s) (tr s).
Definition set_cbq s x := mkcl (started s) (closing s) (pumpStuck s) (paused s) (rdy s) (q s) (cap s) (pend s) (reqC s) (readyC s) (tmo s) (tok s) (now s) (timeout s) (conn s) (failw s) x (concC s) (handlerOn s) (stopSig s) (tr s).
Definition set_concC s x := mkcl (started s) (closing s) (pumpStuck s) (paused s) (rdy s) (q s) (cap s) (pend s) (reqC s) (readyC s) (tmo s) (tok s) (now s) (timeout s) (conn s) (failw s) (cbq s) x (handlerOn s) (stopSig s) (tr s).
Definition set_run s st cl_ := mkcl st cl_ (pumpStuck s) (paused s) (rdy s) (q s) (cap s) (pend s) (reqC s) (readyC s) (tmo s) (tok s) (now s) (timeout s) (conn s) (failw s) (cbq s) (concC s) (handlerOn s) (stopSig s) (tr s).
Definition set_handler s h sg := mkcl (started s) (closing s) (pumpStuck s) (paused s) (rdy s) (q s) (cap s) (pend s) (reqC s) (readyC s) (tmo s) (tok s) (now s) (timeout s) (conn s) (failw s) (cbq s) (concC s) h sg (tr s).

(* ---- queue / state primitives (as in Containers.v) ---- *)
Definition q_is_full (s : cl) : bool := (cap s <=? zlen (q s)) && (0 <? cap s).
Definition head (l : list Z) : Z := match l with [] => 0 | h :: _ => h end.

(** DefaultClientDispatcher.CompleteRequest.  [by_pump]: the caller is the pump
    goroutine itself, which is the only consumer of readyForDispatch (capacity 1):
    if a token is already there the pump blocks for good. *)
Definition complete (by_pump : bool) (s : cl) (r : Z) : cl :=
  match q s with
  | [] => s
  | h :: t =>
      if h =? r then
        let s1 := set_q s t in
        let s2 := set_pend s1 (if pend s1 =? r then 0 else pend s1) in
        (* the ready token only wakes the pump up: with one pending already nothing is added, and nobody waits for room
           (before the repair of F18 / F9 the pump blocked itself here for good) *)
        set_readyC s2 (if 1 <=? readyC s2 then readyC s2 else readyC s2 + 1)
      else s
  end.

(** the ocppj layer hands a conclusion to the protocol layer (response / error /
    canceled-request handler): it travels through a channel to the callback goroutine *)
Definition conclude (s : cl) (r k : Z) : cl :=
  set_concC (emit s (EConc r k (now s))) (concC s ++ [(r, k)]).

(** stopTimer: [if !d.timer.Stop() { select { case <-d.timer.C: default: } }] *)
Definition stop_drain (s : cl) : cl :=
  match tmo s with
  | TOff => set_timer s TOff false   (* an expiry nobody took is discarded; never waits for one (repair F34) *)
  | _ => set_timer s TOff (tok s)
  end.

(** dispatchNextRequest *)
Definition dispatch (s : cl) : cl :=
  let h := head (q s) in
  let s1 := set_pend s (if (pend s =? 0) && negb (h =? 0) then h else pend s) in
  let s2 := emit s1 (EWr h (now s1)) in
  if conn s2 && negb (failw s2) then s2
  else conclude (complete true s2 h) h K_WRITE.

(** the part of a pump iteration after the select *)
Definition pump_tail (s : cl) : cl :=
  if pumpStuck s then s else
  if paused s then s else
  (* never while a request is outstanding, whatever the ready flag says (repair of F16) *)
  if rdy s && negb (match q s with [] => true | _ => false end) && (pend s =? 0) then
    let s1 := dispatch s in
    if pumpStuck s1 then s1 else
    let s2 := set_rdy s1 false in
    let s3 := stop_drain s2 in
    if pumpStuck s3 then s3 else set_timer s3 (TShort (now s3 + timeout s3)) (tok s3)
  else s.

Inductive lab :=
(* external *)
| Send (r : Z) (valid : bool)
| Reply (r k : Z)
| Expire                (* the timer's deadline passes (virtual lane: forced) *)
| Tick (dt : Z)
| Drop | Reconn
| NetFail (b : bool)
| Stop | Start
| DirectComplete (r : Z)  (* ClientDispatcher.CompleteRequest called with an arbitrary id *)
(* internal *)
| PumpStop | PumpReq | PumpReady | PumpTimer | Deliver | DeliverStop.

Definition pump_can_run (s : cl) : bool := started s && negb (pumpStuck s).

Definition step (l : lab) (s : cl) : cl :=
  match l with
  | Send r valid =>
      (* SendRequestAsync: TryQueue("main", send, cb) *)
      let s1 := set_cbq s (cbq s ++ [r]) in
      let ok := started s1 && negb (closing s1) && valid && negb (q_is_full s1) in
      if ok then emit (set_reqC (set_q s1 (q s1 ++ [r])) (reqC s1 + 1)) (ERet r 0)
      (* while the dispatcher is closing the request is refused like on a stopped one (repair of F10; before, the
         wake-up token was sent on the closed requestChannel: a panic) *)
      else emit (set_cbq s1 (remove_last (cbq s1))) (ERet r 1)
  | Reply r k =>
      (* ocppMessageHandler / ParseMessage: accepted only for the pending id *)
      if negb (r =? 0) && (pend s =? r) then conclude (complete false s r) r k else s
  | Expire =>
      match tmo s with TOff => s | _ => set_timer s TOff true end
  | Tick dt =>
      let s1 := set_now s (now s + Z.max 0 dt) in
      match tmo s1 with
      | TShort d => if d <=? now s1 then set_timer s1 TOff true else s1
      | _ => s1
      end
  | Drop =>
      if conn s then
        (* ws reports the loss; ocppj.Client.onDisconnected -> dispatcher.Pause (only while the dispatcher's handlers are installed) *)
        let s1 := emit (set_conn s false) EDrop in
        if started s1 then set_paused (let s2 := stop_drain s1 in set_timer s2 TLong (tok s2)) true else s1
      else s
  | Reconn =>
      if negb (conn s) && started s && negb (closing s) then
        let s1 := emit (set_conn s true) (EReconn (now s)) in
        let s2 := set_paused s1 false in
        if negb (pend s2 =? 0) then set_timer s2 (TShort (now s2 + timeout s2)) (tok s2)
        else set_readyC s2 (if 1 <=? readyC s2 then readyC s2 else readyC s2 + 1)
      else s
  | NetFail b => set_failw s b
  | DirectComplete r => complete false s r
  | Stop =>
      if started s && negb (closing s) then
        let s1 := emit (set_conn s false) EStop in
        (* Stop itself drops the registered callbacks (repair F35: the callback routine of the stopped session may
           get to its stop signal only after the next session has begun) *)
        set_cbq (set_handler (set_run s1 true true) (handlerOn s1) true) []
      else s
  | Start =>
      (* DefaultClientDispatcher.Start waits for the message pump of the stopped session to have left (repair F38):
         a Start issued while that pump is still around returns later, i.e. it is this label AFTER PumpStop; while
         [started] still holds the label is a second Start on a running endpoint and is not modelled (no-op) *)
      if negb (started s) then
        let s1 := emit (set_conn s true) EStart in
        let s2 := set_run s1 true false in
        (* Start discards a ready token and conclusions that the previous Stop overtook (repairs F31, F32) *)
        let s3 := set_timer (set_concC (set_readyC (set_reqC s2 0) 0) []) TLong false in
        set_paused (set_handler (set_stuck (set_rdy s3 true) false) true false) false
      else s
  | PumpStop =>
      if started s && closing s && negb (pumpStuck s) then
        (* requestQueue.Init(); pending state cleared; requestChannel = nil *)
        emit (set_run (set_pend (set_q s []) 0) false false) EPumpStop
      else s
  | PumpReq =>
      if pump_can_run s && negb (closing s) && (1 <=? reqC s) then pump_tail (set_reqC s (reqC s - 1)) else s
  | PumpReady =>
      if pump_can_run s && (1 <=? readyC s) then pump_tail (set_rdy (set_readyC s (readyC s - 1)) true) else s
  | PumpTimer =>
      if pump_can_run s && tok s then
        let s1 := set_timer s (tmo s) false in
        let s2 := if negb (pend s1 =? 0) then
                    match q s1 with
                    | [] => set_stuck (emit s1 EPanic) true     (* Peek() = nil, bundle.Call is a nil pointer *)
                    | h :: _ => conclude (complete true s1 h) h K_TIMEOUT
                    end
                  else s1 in
        if pumpStuck s2 then s2 else pump_tail (set_timer s2 TLong (tok s2))
      else s
  | Deliver =>
      if handlerOn s && negb (stopSig s) then
        match concC s with
        | [] => s
        | (r, k) :: rest =>
            let s1 := set_concC s rest in
            match cbq s1 with
            | [] => emit s1 (ENoCb r k)
            | c :: cs => emit (set_cbq s1 cs) (ECb c r k)
            end
        end
      else s
  | DeliverStop =>
      if handlerOn s && stopSig s then set_handler s false false else s
  end.

Definition run (ls : list lab) (s : cl) : cl := fold_left (fun s l => step l s) ls s.

(* ---- quiescent semantics ---- *)

Definition internal_labels : list lab := [PumpStop; PumpReq; PumpReady; PumpTimer; Deliver; DeliverStop].

Definition enabled (l : lab) (s : cl) : bool :=
  match l with
  | PumpStop => started s && closing s && negb (pumpStuck s)
  | PumpReq => pump_can_run s && negb (closing s) && (1 <=? reqC s)
  | PumpReady => pump_can_run s && (1 <=? readyC s)
  | PumpTimer => pump_can_run s && tok s
  | Deliver => handlerOn s && negb (stopSig s) && negb (match concC s with [] => true | _ => false end)
  | DeliverStop => handlerOn s && stopSig s
  | _ => false
  end.

Definition first_enabled (s : cl) : option lab := find (fun l => enabled l s) internal_labels.

Fixpoint quiesce (fuel : nat) (s : cl) : cl :=
  match fuel with
  | O => s
  | S f => match first_enabled s with
           | Some l => quiesce f (step l s)
           | None => s
           end
  end.

Definition quiescent (s : cl) : bool := match first_enabled s with None => true | Some _ => false end.

Definition fuel_for (s : cl) : nat := (8 + 3 * length (q s) + Z.to_nat (reqC s) + Z.to_nat (readyC s) + length (concC s))%nat.

Definition qstep (l : lab) (s : cl) : cl := let s1 := step l s in quiesce (fuel_for s1) s1.
Definition qrun (ls : list lab) (s : cl) : cl := fold_left (fun s l => qstep l s) ls s.

(* ---- the schedule class S0 (single token, handler atomic) ---- *)

Definition tokz (s : cl) : Z := if tok s then 1 else 0.
Definition T (s : cl) : Z := reqC s + readyC s + tokz s.

Definition is_ext (l : lab) : bool :=
  match l with PumpStop | PumpReq | PumpReady | PumpTimer | Deliver | DeliverStop => false | _ => true end.

(** [ok_at l s]: label [l] may be scheduled in state [s] in the class S0: at most one wake-up
    token is pending for the pump; an external event (API call, frame, connection callback,
    timer expiry) happens only when Stop has run to its end and the callback goroutine is idle;
    the callback goroutine notices stopC after the pump noticed the closed channel. *)
Definition ok_at (l : lab) (s : cl) : bool :=
  (T s <=? 1) &&
  (if is_ext l then negb (closing s) && negb (stopSig s) && (match concC s with [] => true | _ => false end)
   else match l with DeliverStop => negb (closing s) | _ => true end).

Fixpoint run_ok (ls : list lab) (s : cl) : bool :=
  match ls with
  | [] => T s <=? 1
  | l :: r => ok_at l s && run_ok r (step l s)
  end.


(** the labels (external and internal) that the quiescent semantics executes *)
Fixpoint quiesce_labs (fuel : nat) (s : cl) : list lab :=
  match fuel with
  | O => []
  | S f => match first_enabled s with
           | Some l => l :: quiesce_labs f (step l s)
           | None => []
           end
  end.

Fixpoint expand (ls : list lab) (s : cl) : list lab :=
  match ls with
  | [] => []
  | l :: r => let s1 := step l s in
              (l :: quiesce_labs (fuel_for s1) s1) ++ expand r (qstep l s)
  end.

(* ---- observables ---- *)
Definition enc_ev (e : ev) : list Z :=
  match e with
  | ERet r c => [1; r; c]
  | EWr r _ => [2; r]
  | EConc _ _ _ => []
  | ECb c r k => [3; c; r; k]
  | ENoCb r k => [4; r; k]
  | EDrop | EReconn _ | EStop | EStart | EPumpStop => []
  | EPanic => [-7]
  end.

Definition ev_class (e : ev) : Z := match e with ERet _ _ => 1 | EWr _ _ => 2 | ECb _ _ _ => 3 | ENoCb _ _ => 3 | EPanic => 3 | _ => 0 end.

(** what one event made observable, in the canonical order: API return, writes, callbacks *)
Definition obs_of (new_oldest_first : list ev) : list Z :=
  concat (map enc_ev (filter (fun e => ev_class e =? 1) new_oldest_first
                      ++ filter (fun e => ev_class e =? 2) new_oldest_first
                      ++ filter (fun e => ev_class e =? 3) new_oldest_first)).

Definition new_events (before after : cl) : list ev :=
  rev (firstn (length (tr after) - length (tr before)) (tr after)).

Fixpoint qrun_obs (ls : list lab) (s : cl) : list Z :=
  match ls with
  | [] => [-2]
  | l :: r => let s' := qstep l s in (-1 :: obs_of (new_events s s')) ++ qrun_obs r s'
  end.

(* ---- decoding ---- *)
Fixpoint dec_labs (fuel : nat) (l : list Z) : list lab :=
  match fuel with O => [] | S f =>
    match l with
    | 1 :: r :: v :: rest => Send r (z_bool v) :: dec_labs f rest
    | 2 :: r :: k :: rest => Reply r k :: dec_labs f rest
    | 3 :: rest => Expire :: dec_labs f rest
    | 4 :: dt :: rest => Tick dt :: dec_labs f rest
    | 5 :: rest => Drop :: dec_labs f rest
    | 6 :: rest => Reconn :: dec_labs f rest
    | 7 :: b :: rest => NetFail (z_bool b) :: dec_labs f rest
    | 8 :: rest => Stop :: dec_labs f rest
    | 9 :: rest => Start :: dec_labs f rest
    | 10 :: rest => PumpStop :: dec_labs f rest
    | 11 :: rest => PumpReq :: dec_labs f rest
    | 12 :: rest => PumpReady :: dec_labs f rest
    | 13 :: rest => PumpTimer :: dec_labs f rest
    | 14 :: rest => Deliver :: dec_labs f rest
    | 15 :: rest => DeliverStop :: dec_labs f rest
    | 16 :: r :: rest => DirectComplete r :: dec_labs f rest
    | _ => []
    end
  end.

(** entry: [variant; cap; timeout; labels...]  -- quiescent run from the stopped initial state *)
Definition m1c_entry : entry := fun inp =>
  match inp with
  | v :: capacity :: tmout :: ls =>
      let out := qrun_obs (dec_labs (length ls) ls) (init capacity tmout) in
      if existsb (Z.eqb (-7)) out then [-7] else out   (* a panic takes the process down: nothing else is compared *)
  | _ => [-1]
  end.

(** entry (C16, restart freshness): same input.  The history is cut after its last Stop-then-Start; what the endpoint shows
    for the rest must be what a fresh endpoint (same queue capacity and timeout, same network condition) shows for it.
    [2]: no restart in the history; [1]: same observations; [0]: they differ. *)
Definition is_stop (l : lab) : bool := match l with Stop => true | _ => false end.
Definition is_start (l : lab) : bool := match l with Start => true | _ => false end.
Fixpoint last_restart (pre : list lab) (ls : list lab) (best : option (list lab * list lab)) : option (list lab * list lab) :=
  match ls with
  | a :: ((b :: rest) as tl) =>
      if is_stop a && is_start b then last_restart (pre ++ [a; b]) rest (Some (pre ++ [a; b], rest))
      else last_restart (pre ++ [a]) tl best
  | _ => best
  end.
Fixpoint zlist_eqb (a b : list Z) : bool :=
  match a, b with
  | [], [] => true
  | x :: r, y :: t => (x =? y) && zlist_eqb r t
  | _, _ => false
  end.
Definition m1c_fresh_entry : entry := fun inp =>
  match inp with
  | v :: capacity :: tmout :: ls =>
      let labs := dec_labs (length ls) ls in
      let s0 := init capacity tmout in
      match last_restart [] labs None with
      | None => [2]
      | Some (pre, suf) =>
          let s1 := qrun pre s0 in
          let fresh := qrun [NetFail (failw s1); Start] s0 in
          let a := qrun_obs suf s1 in
          let b := qrun_obs suf fresh in
          if existsb (Z.eqb (-7)) a || existsb (Z.eqb (-7)) b then [-7] else [bool_z (zlist_eqb a b)]
      end
  | _ => [-1]
  end.

(** entry: same input; is the schedule that the quiescent semantics executes in the class S0
    (the hypothesis of the S0 theorems), and does it end in a quiescent state? *)
Definition m1c_h_entry : entry := fun inp =>
  match inp with
  | v :: capacity :: tmout :: ls =>
      let labs := dec_labs (length ls) ls in
      let s0 := init capacity tmout in
      [bool_z (run_ok (expand labs s0) s0); bool_z (quiescent (qrun labs s0))]
  | _ => [-1]
  end.
