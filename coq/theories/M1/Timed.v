(** C08: the timing clauses as an executable monitor over a timed trace of one
    connection, and what the monitor's verdict means.  Times are integers
    (milliseconds in the real-time lane of the harness). *)
From Verif Require Import Base.Prelude.

Inductive tev :=
| TWrite (r t : Z)        (* CALL r handed to the network at time t *)
| TTimeout (r t : Z)      (* r cancelled with "Request timed out" at time t *)
| TReply (r t : Z)        (* r concluded by the peer's reply at time t *)
| TOther (r t : Z)        (* r concluded otherwise (write failure, disconnect drain) *)
| TResume (t : Z).        (* client: connection re-established at time t *)

Definition ev_req (e : tev) : option Z :=
  match e with TWrite r _ | TTimeout r _ | TReply r _ | TOther r _ => Some r | TResume _ => None end.

(** time of the write of r, if any, scanning the events before the timeout (oldest first list) *)
Fixpoint write_time (r : Z) (pre : list tev) : option Z :=
  match pre with
  | [] => None
  | TWrite r' t :: rest => if r' =? r then Some t else write_time r rest
  | _ :: rest => write_time r rest
  end.

Fixpoint last_resume (pre : list tev) (acc : option Z) : option Z :=
  match pre with
  | [] => acc
  | TResume t :: rest => last_resume rest (Some t)
  | _ :: rest => last_resume rest acc
  end.

Definition concluded_in (r : Z) (l : list tev) : bool :=
  existsb (fun e => match e with TTimeout r' _ | TReply r' _ | TOther r' _ => r' =? r | _ => false end) l.

(** the timeout of r at time t, with [pre] the events before it: never early, never after a conclusion,
    only for a written request *)
Definition timeout_ok (timeout tol : Z) (pre : list tev) (r t : Z) : bool :=
  match write_time r pre with
  | None => false
  | Some tw =>
      let base := match last_resume pre None with Some tr => Z.max tw tr | None => tw end in
      (base + timeout - tol <=? t) && negb (concluded_in r pre)
  end.

Fixpoint scan (timeout tol : Z) (pre : list tev) (l : list tev) : bool :=
  match l with
  | [] => true
  | e :: rest =>
      (match e with
       | TTimeout r t => timeout_ok timeout tol pre r t
       | TReply r _ | TOther r _ => negb (concluded_in r pre)
       | _ => true
       end) && scan timeout tol (pre ++ [e]) rest
  end.

(** every written request is concluded within the observation (the scenarios wait long enough) *)
Definition all_concluded (l : list tev) : bool :=
  forallb (fun e => match e with TWrite r _ => concluded_in r l | _ => true end) l.

Definition timed_ok (timeout tol : Z) (l : list tev) : bool := scan timeout tol [] l && all_concluded l.

Fixpoint dec_tevs (fuel : nat) (l : list Z) : list tev :=
  match fuel with O => [] | S f =>
    match l with
    | 1 :: r :: t :: rest => TWrite r t :: dec_tevs f rest
    | 2 :: r :: t :: rest => TTimeout r t :: dec_tevs f rest
    | 3 :: r :: t :: rest => TReply r t :: dec_tevs f rest
    | 4 :: r :: t :: rest => TOther r t :: dec_tevs f rest
    | 5 :: t :: rest => TResume t :: dec_tevs f rest
    | _ => []
    end
  end.

(** entry: [timeout; tol; events...] -> [1] when every C08 clause holds on the trace *)
Definition c08rt_entry : entry := fun inp =>
  match inp with
  | timeout :: tol :: l => [bool_z (timed_ok timeout tol (dec_tevs (length l) l))]
  | _ => [-1]
  end.

(* ------------------------------------------------------------------ *)
(** what a positive verdict means *)

Lemma scan_split timeout tol : forall l pre a e b, l = a ++ e :: b -> scan timeout tol pre l = true ->
  scan timeout tol (pre ++ a) (e :: b) = true.
Proof.
  intros l pre a. revert l pre. induction a as [|x a IH]; intros l pre e b -> H.
  - rewrite app_nil_r. exact H.
  - cbn [app scan] in H. apply andb_true_iff in H as [_ H].
    specialize (IH _ (pre ++ [x]) e b eq_refl H). rewrite <- app_assoc in IH. exact IH.
Qed.

(** never early, own write, not after a conclusion: for every timeout event of an accepted trace *)
Theorem timed_ok_never_early : forall timeout tol l a r t b,
  timed_ok timeout tol l = true -> l = a ++ TTimeout r t :: b ->
  exists tw, write_time r a = Some tw /\
             (match last_resume a None with Some tr => Z.max tw tr | None => tw end) + timeout - tol <= t /\
             concluded_in r a = false.
Proof.
  intros timeout tol l a r t b H ->. unfold timed_ok in H. apply andb_true_iff in H as [H _].
  pose proof (scan_split timeout tol _ [] a (TTimeout r t) b eq_refl H) as S. cbn [app scan] in S.
  apply andb_true_iff in S as [S _]. unfold timeout_ok in S.
  destruct (write_time r a) as [tw|]; [|discriminate]. exists tw.
  apply andb_true_iff in S as [S1 S2]. apply Z.leb_le in S1. apply negb_true_iff in S2. auto.
Qed.

(** at most one conclusion per request *)
Theorem timed_ok_once : forall timeout tol l a e b r,
  timed_ok timeout tol l = true -> l = a ++ e :: b ->
  (match e with TTimeout r' _ | TReply r' _ | TOther r' _ => r' = r | _ => False end) ->
  concluded_in r a = false.
Proof.
  intros timeout tol l a e b r H -> He. unfold timed_ok in H. apply andb_true_iff in H as [H _].
  pose proof (scan_split timeout tol _ [] a e b eq_refl H) as S. cbn [app scan] in S.
  apply andb_true_iff in S as [S _].
  destruct e; try contradiction; subst.
  - unfold timeout_ok in S. destruct (write_time r a); [|discriminate]. apply andb_true_iff in S as [_ S]. apply negb_true_iff in S. exact S.
  - apply negb_true_iff in S. exact S.
  - apply negb_true_iff in S. exact S.
Qed.

Example timed_ok_nonvacuous :
  timed_ok 100 5 [TWrite 1 0; TReply 1 40; TWrite 2 41; TTimeout 2 143; TWrite 3 144; TResume 200; TTimeout 3 301] = true /\
  timed_ok 100 5 [TWrite 1 0; TReply 1 40; TWrite 2 41; TTimeout 2 100] = false.
Proof. split; vm_compute; reflexivity. Qed.
