(** M1, client: no lost wake-up, in EVERY schedule -- the safety half of C07's "never deadlock".  Whenever the endpoint
    is running, not paused, has queued requests and nothing outstanding, a wake-up token (request or ready) is pending for
    the message pump; and whenever nothing is outstanding, the pump is ready to dispatch or a ready token is pending.
    With [pump_never_stuck_S1] (the pump is never blocked inside an iteration) this means: a pump that keeps being
    scheduled writes the head of the queue.  The defects F9, F18 and F30 were violations of exactly this. *)
From Coq Require Import List ZArith Bool Lia.
Import ListNotations.
From Verif Require Import M1.Client M1.ClientProofs M1.ClientOwn.
Open Scope Z_scope.

Record WK (s : cl) : Prop := {
  wk_pos : 0 <= reqC s /\ 0 <= readyC s;
  wk_rdy : started s = true -> closing s = false -> pend s = 0 -> rdy s = true \/ 1 <= readyC s;
  wk_tok : started s = true -> closing s = false -> paused s = false -> q s <> [] -> pend s = 0 -> 1 <= reqC s \/ 1 <= readyC s }.

Lemma WK_init c t : WK (init c t).
Proof. constructor; cbn; intros; try discriminate; try lia; auto. Qed.

(** CompleteRequest for the head + the conclusion: nothing outstanding afterwards, and a ready token is there *)
Lemma cc_wk b s h t k : q s = h :: t -> pend s = h -> 0 <= reqC s /\ 0 <= readyC s ->
  let s' := conclude (complete b s h) h k in
  pend s' = 0 /\ 1 <= readyC s' /\ reqC s' = reqC s /\ q s' = t /\ rdy s' = rdy s /\ started s' = started s /\ closing s' = closing s /\
  paused s' = paused s /\ pumpStuck s' = pumpStuck s.
Proof.
  intros Hq Hp [P1 P2]. cbv zeta. unfold conclude, complete. rewrite Hq, Z.eqb_refl. cbn. rewrite Hp, Z.eqb_refl.
  destruct (1 <=? readyC s) eqn:E; [apply Z.leb_le in E|apply Z.leb_gt in E]; cbn; repeat split; try reflexivity; lia.
Qed.

Lemma stop_drain_fields s : pend (stop_drain s) = pend s /\ readyC (stop_drain s) = readyC s /\ reqC (stop_drain s) = reqC s /\
  q (stop_drain s) = q s /\ rdy (stop_drain s) = rdy s /\ started (stop_drain s) = started s /\ closing (stop_drain s) = closing s /\
  paused (stop_drain s) = paused s /\ pumpStuck (stop_drain s) = pumpStuck s.
Proof. unfold stop_drain. destruct (tmo s); cbn; repeat split; reflexivity. Qed.

(** one look of the pump at the queue: either it does nothing, and then says why, or it dispatches the head *)
Lemma pump_tail_cases s : Jpos s -> 0 <= reqC s /\ 0 <= readyC s ->
  let s' := pump_tail s in
  (s' = s /\ (pumpStuck s = true \/ paused s = true \/ rdy s = false \/ q s = [] \/ pend s <> 0)) \/
  (started s' = started s /\ closing s' = closing s /\ paused s' = paused s /\ reqC s' = reqC s /\ 0 <= readyC s' /\
   (pend s' <> 0 \/ (pend s' = 0 /\ 1 <= readyC s'))).
Proof.
  intros Hpos [P1 P2]. cbv zeta. unfold pump_tail.
  destruct (pumpStuck s) eqn:Es; [left; split; [reflexivity|left; reflexivity]|].
  destruct (paused s) eqn:Ep; [left; split; [reflexivity|right; left; reflexivity]|].
  destruct (rdy s) eqn:Er; cbn [andb]; [|left; split; [reflexivity|right; right; left; reflexivity]].
  destruct (q s) as [|h t] eqn:Hq; cbn [negb andb]; [left; split; [reflexivity|right; right; right; left; reflexivity]|].
  destruct (pend s =? 0) eqn:E0; [apply Z.eqb_eq in E0|apply Z.eqb_neq in E0; left; split; [reflexivity|right; right; right; right; exact E0]].
  right.
  assert (Hh : h <> 0). { unfold Jpos in Hpos. rewrite Hq in Hpos. inversion Hpos; assumption. }
  (* the state after dispatch *)
  assert (D : started (dispatch s) = started s /\ closing (dispatch s) = closing s /\ paused (dispatch s) = paused s /\
              reqC (dispatch s) = reqC s /\ 0 <= readyC (dispatch s) /\
              (pend (dispatch s) <> 0 \/ (pend (dispatch s) = 0 /\ 1 <= readyC (dispatch s)))).
  { unfold dispatch. rewrite Hq. cbn [head]. rewrite E0. cbn [Z.eqb andb]. apply Z.eqb_neq in Hh. rewrite Hh. cbn [negb andb]. apply Z.eqb_neq in Hh.
    set (s1 := set_pend s h). set (s2 := emit s1 _).
    destruct (conn s2 && negb (failw s2)).
    - subst s2 s1; cbn. repeat split; try reflexivity; try assumption. left. exact Hh.
    - destruct (cc_wk true s2 h t K_WRITE) as (A1 & A2 & A3 & A4 & A5 & A6 & A7 & A8 & A9);
        [subst s2 s1; cbn; exact Hq|subst s2 s1; cbn; reflexivity|subst s2 s1; cbn; split; assumption|].
      rewrite A6, A7, A8, A3. split; [reflexivity|]. split; [reflexivity|]. split; [reflexivity|]. split; [reflexivity|]. split; [lia|]. right. split; [exact A1|exact A2]. }
  destruct D as (D1 & D2 & D3 & D4 & D5 & D6).
  destruct (pumpStuck (dispatch s)); [repeat split; (assumption || congruence)|].
  set (s2 := set_rdy (dispatch s) false).
  destruct (stop_drain_fields s2) as (F1 & F2 & F3 & F4 & F5 & F6 & F7 & F8 & F9).
  destruct (pumpStuck (stop_drain s2)); cbn; rewrite ?F1, ?F2, ?F3, ?F6, ?F7, ?F8; subst s2; cbn; repeat split; (assumption || congruence).
Qed.

(** a state that agrees with [s] on everything [WK] reads *)
Lemma WK_same s s' : reqC s' = reqC s -> readyC s' = readyC s -> started s' = started s -> closing s' = closing s ->
  pend s' = pend s -> rdy s' = rdy s -> paused s' = paused s -> q s' = q s -> WK s -> WK s'.
Proof. intros A B C D E F G H [W1 W2 W3]. constructor; rewrite ?A, ?B, ?C, ?D, ?E, ?F, ?G, ?H; assumption. Qed.

(** after one look of the pump: if it did nothing although something is queued and nothing is outstanding, it was not
    ready, and then a ready token is pending *)
Lemma WK_pump_tail s : Jpos s -> pumpStuck s = false ->
  0 <= reqC s /\ 0 <= readyC s ->
  (started s = true -> closing s = false -> pend s = 0 -> rdy s = true \/ 1 <= readyC s) ->
  WK (pump_tail s).
Proof.
  intros Hj Hs Hp Hr. destruct (pump_tail_cases s Hj Hp) as [[E R]|(A1 & A2 & A3 & A4 & A5 & A6)].
  - rewrite E. constructor; [exact Hp|exact Hr|].
    intros S C P Q Z. destruct (Hr S C Z) as [X|X]; [|right; exact X].
    destruct R as [R|[R|[R|[R|R]]]]; congruence.
  - constructor.
    + rewrite A4. lia.
    + intros _ _ Z. destruct A6 as [X|[_ X]]; [congruence|right; exact X].
    + intros _ _ _ _ Z. destruct A6 as [X|[_ X]]; [congruence|right; exact X].
Qed.

Lemma step_WK l s : wf_lab l -> G1 s -> CB s -> WK s -> WK (step l s).
Proof.
  intros Hw G C W. pose proof G as [J1' Jp _]. pose proof W as [[P1 P2] W2 W3]. pose proof (cb_ns s C) as Hns.
  destruct l as [r valid|r k| |dt| | |b| | |r| | | | | |]; cbn [step wf_lab] in *; try contradiction.
  - (* Send *)
    set (s1 := set_cbq s _).
    destruct (started s1 && negb (closing s1) && valid && negb (q_is_full s1)).
    + constructor; subst s1; cbn; [lia|exact W2|]. intros; left; lia.
    + apply (WK_same s); try reflexivity. exact W.
  - (* Reply *)
    destruct (negb (r =? 0) && (pend s =? r)) eqn:E; [|exact W].
    apply andb_true_iff in E as [E1 E2]. apply Z.eqb_eq in E2. apply negb_true_iff, Z.eqb_neq in E1.
    assert (Hne : pend s <> 0) by congruence. destruct (J1' Hne) as [t Ht]. rewrite E2 in Ht.
    destruct (cc_wk false s r t k Ht E2 (conj P1 P2)) as (A1 & A2 & A3 & A4 & A5 & A6 & A7 & A8 & A9).
    constructor; [rewrite A3; lia| |]; intros; right; exact A2.
  - (* Expire *) destruct (tmo s); [exact W|..]; (apply (WK_same s); try reflexivity; exact W).
  - (* Tick *)
    set (s1 := set_now s _).
    assert (W1 : WK s1) by (apply (WK_same s); try reflexivity; exact W).
    destruct (tmo s1); try exact W1. destruct (deadline <=? now s1); [|exact W1].
    apply (WK_same s1); try reflexivity. exact W1.
  - (* Drop *)
    destruct (conn s); [|exact W]. cbv zeta. set (s1 := emit (set_conn s false) EDrop).
    destruct (started s1) eqn:Est; [|apply (WK_same s); try reflexivity; exact W].
    destruct (stop_drain_fields s1) as (F1 & F2 & F3 & F4 & F5 & F6 & F7 & F8 & F9).
    constructor; cbn; rewrite ?F1, ?F2, ?F3, ?F4, ?F5, ?F6, ?F7; subst s1; cbn.
    + split; assumption.
    + exact W2.
    + intros _ _ X. discriminate.
  - (* Reconn *)
    destruct (negb (conn s) && started s && negb (closing s)); [|exact W]. cbv zeta.
    set (s2 := set_paused (emit (set_conn s true) (EReconn (now s))) false).
    change (pend s2) with (pend s). change (readyC s2) with (readyC s).
    destruct (negb (pend s =? 0)) eqn:Ep.
    + apply negb_true_iff, Z.eqb_neq in Ep. constructor; cbn; [split; assumption|exact W2|]. intros; congruence.
    + constructor; cbn.
      * destruct (1 <=? readyC s) eqn:E; [apply Z.leb_le in E|apply Z.leb_gt in E]; lia.
      * intros. right. destruct (1 <=? readyC s) eqn:E; [apply Z.leb_le in E|apply Z.leb_gt in E]; lia.
      * intros. right. destruct (1 <=? readyC s) eqn:E; [apply Z.leb_le in E|apply Z.leb_gt in E]; lia.
  - (* NetFail *) apply (WK_same s); try reflexivity. exact W.
  - (* Stop *)
    destruct (started s && negb (closing s)); [|exact W].
    constructor; cbn; [split; assumption| |]; intros; discriminate.
  - (* Start *)
    destruct (negb (started s)) eqn:E; [|exact W]. apply negb_true_iff in E.
    constructor; cbn; [lia| |].
    + intros; left; reflexivity.
    + intros _ _ _ X. rewrite (cb_q0 s C E) in X. congruence.
  - (* PumpStop *)
    destruct (started s && closing s && negb (pumpStuck s)); [|exact W].
    constructor; cbn; [split; assumption| |]; intros; discriminate.
  - (* PumpReq *)
    match goal with |- context [if ?c then _ else _] => destruct c eqn:E end; [|exact W].
    apply andb_true_iff in E as [_ E]. apply Z.leb_le in E.
    apply WK_pump_tail; cbn; [exact Jp|exact Hns|lia|exact W2].
  - (* PumpReady *)
    match goal with |- context [if ?c then _ else _] => destruct c eqn:E end; [|exact W].
    apply andb_true_iff in E as [_ E]. apply Z.leb_le in E.
    apply WK_pump_tail; cbn; [exact Jp|exact Hns|lia|]. intros; left; reflexivity.
  - (* PumpTimer *)
    destruct (pump_can_run s && tok s); [|exact W]. cbv zeta.
    set (s1 := set_timer s (tmo s) false).
    change (pend s1) with (pend s). change (q s1) with (q s).
    destruct (negb (pend s =? 0)) eqn:Ep.
    + apply negb_true_iff, Z.eqb_neq in Ep. destruct (J1' Ep) as [t Ht]. rewrite Ht.
      destruct (cc_wk true s1 (pend s) t K_TIMEOUT) as (A1 & A2 & A3 & A4 & A5 & A6 & A7 & A8 & A9);
        [exact Ht|reflexivity|split; assumption|].
      set (s2 := conclude (complete true s1 (pend s)) (pend s) K_TIMEOUT) in *.
      rewrite A9. change (pumpStuck s1) with (pumpStuck s). rewrite Hns.
      apply WK_pump_tail; cbn [set_timer q pumpStuck reqC readyC started closing pend rdy].
      * unfold Jpos. cbn [set_timer q]. rewrite A4. unfold Jpos in Jp. rewrite Ht in Jp. inversion Jp; assumption.
      * rewrite A9. exact Hns.
      * rewrite A3. change (reqC s1) with (reqC s). split; [exact P1|]. apply Z.le_trans with (m := 1); [apply Z.leb_le; reflexivity|exact A2].
      * intros; right; exact A2.
    + cbn. rewrite Hns. apply WK_pump_tail; cbn; [exact Jp|exact Hns|split; assumption|exact W2].
  - (* Deliver *)
    destruct (handlerOn s && negb (stopSig s)); [|exact W].
    destruct (concC s) as [|[r k] rest]; [exact W|].
    destruct (cbq (set_concC s rest)); (apply (WK_same s); try reflexivity; exact W).
  - (* DeliverStop *)
    destruct (handlerOn s && stopSig s); [|exact W]. apply (WK_same s); try reflexivity; exact W.
Qed.

Lemma run_WK ls : forall s, Forall wf_lab ls -> G1 s -> CB s -> WK s -> WK (run ls s).
Proof.
  induction ls as [|l ls IH]; intros s Hw G C W; [exact W|].
  inversion Hw; subst. cbn. apply IH; [assumption|apply step_G1; assumption|apply step_CB; assumption|apply step_WK; assumption].
Qed.

(** C07, client, every schedule: no lost wake-up *)
Theorem no_lost_wakeup_S1 : forall c t ls, Forall wf_lab ls ->
  let s := run ls (init c t) in
  started s = true -> closing s = false -> paused s = false -> q s <> [] -> pend s = 0 ->
  1 <= reqC s \/ 1 <= readyC s.
Proof.
  intros c t ls Hw s. apply wk_tok. apply run_WK; [exact Hw|apply G1_init|apply CB_init|apply WK_init].
Qed.

(** ... and a wake-up finds the pump ready: with nothing outstanding, either the pump's ready flag is set or a ready
    token is on its way *)
Theorem ready_or_token_S1 : forall c t ls, Forall wf_lab ls ->
  let s := run ls (init c t) in
  started s = true -> closing s = false -> pend s = 0 -> rdy s = true \/ 1 <= readyC s.
Proof.
  intros c t ls Hw s. apply wk_rdy. apply run_WK; [exact Hw|apply G1_init|apply CB_init|apply WK_init].
Qed.

(** so a quiescent state (no wake-up token left, timer not fired) of a running, connected endpoint has either an empty
    queue or a request outstanding: nothing is accepted and then forgotten *)
Theorem quiescent_means_served_S1 : forall c t ls, Forall wf_lab ls ->
  let s := run ls (init c t) in
  started s = true -> closing s = false -> paused s = false -> reqC s = 0 -> readyC s = 0 ->
  q s = [] \/ pend s <> 0.
Proof.
  intros c t ls Hw s S C P R1 R2.
  destruct (q s) eqn:Eq; [left; reflexivity|right]. intros Z.
  destruct (no_lost_wakeup_S1 c t ls Hw S C P) as [X|X]; fold s; try congruence; fold s in X; lia.
Qed.

(** the premises are met by reachable states: a request accepted and not yet seen by the pump; a reply just handled *)
Example wake_premises_met :
  let s1 := run [Start; Send 1 true] (init 0 0) in
  let s2 := run [Start; Send 1 true; Send 2 true; PumpReq; Reply 1 0] (init 0 0) in
  (started s1 = true /\ closing s1 = false /\ paused s1 = false /\ q s1 = [1] /\ pend s1 = 0 /\ reqC s1 = 1) /\
  (q s2 = [2] /\ pend s2 = 0 /\ rdy s2 = false /\ readyC s2 = 1).
Proof. vm_compute. repeat split; reflexivity. Qed.
